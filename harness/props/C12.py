"""C12 — LSB0 mode is a pure index mirror of MSB0 mode.

Every line describes ONE operation carried out with options.lsb0 = True on an object of class <cls> holding <bits>:

  C12 <op> <cls> <bits> <args…>            -> ok <canonical result> | err

ops (positions are ints or None; bit operands are 0/1 strings, '-' = empty):
  getitem i | getslice a b c | setslice a b c v | setsliceint a b c n | delslice a b c | setitem i n | setitemb i v
  delitem i | invert P | set val P | allany val P                       (P: None | i<int> | l<i,j,…> | r<a>,<b>,<c>)
  find pat s e ba | rfind pat s e ba | findall pat s e count ba | startswith pat s e | endswith pat s e
  cut k s e count | replace old new s e count ba | insert v pos | overwrite v pos | append v | prepend v
  reverse s e | byteswap fmt s e repeat | rol n s e | ror n s e | shl n | shr n | ishl n | ishr n
  read pos tok | peek pos tok | unpack toks | readlist pos toks | value
  pack toks   (n/b/u positional bits/bin/uint, e uint:len=literal, v keyword value, l keyword length,
               k/s/y bare keyword token holding a Bits / str / bytes; + lsb0 unpack/readlist/read round trip)
  seq  <M|L>:<op>:<arg>:… ; …        (a history on ONE object, the option toggled between the calls)
  tables                              (the two method tables of Options.set_lsb0)

The exception class is not observed (the property names none): every exception is `err`.
`execute` additionally repeats the operation after switching the option off again (extra['msb0']) and reads the
stored bits in both modes; the oracle checks those against the plain msb0 reference ("switching the option off
restores msb0 behaviour exactly", "the stored bit order is identical in both modes").

The oracle is plain Python on str/list/int: reverse(op_msb0(reverse(operands))) with op_msb0 written from the
documented msb0 meaning of each method; it never calls bitstring.
"""
from harness.common import *
import itertools, struct, ast, inspect, textwrap, sys
import bitstring.bits, bitstring.bitarray_, bitstring.bitstore

FUNCTIONAL = True
NOT_YET_PROVED = []
LEVEL_TEXT = ("Lean theorems about a function-by-function transcription of the lsb0 code paths (offset_slice_indices_lsb0, the *_lsb0 BitStore methods, _find_lsb0/_rfind_lsb0, the reverse chunk scan of _findall_lsb0 with the chunk increment as a parameter >= 1, _append_lsb0, the swapped rol/ror entries, _replace's list reversal, pack's token reversal, the two method tables): for every content, every length and every position argument the lsb0 result equals reverse(msb0 operation on the reversed operands) - get/del/set slices for every start/stop/step (negative steps, empty and inverted ranges, step 0), index get/set/del, invert, set (incl. ranges), all/any, find/rfind/findall and replace for every window, count and alignment flag and every data length (findall_lsb0_chunks_eq holds for every chunk increment), startswith, endswith, cut, insert, overwrite, append, prepend, ranged reverse, byteswap, rol/ror (range mirrored, direction kept), reads/unpack/pack order; shifts and whole-value interpretations do not depend on the mode; set_lsb0(v) gives the same bindings after any toggle history. x[a:b:c] = <int> is reduced to the bitstring case by a mode-independent operand. No deviant region is left. Correspondence: every operation on lengths 0..12 exhaustive over index arguments, 8 000-40 000-bit data with patterns planted around multiples of 8192, toggle histories, msb0 behaviour re-checked after switching the option off on every case.")
LEVEL_NOTE = ("Trusted: Lean kernel (+propext, Classical.choice, Quot.sound); bitarray's slicing/search modelled as Python list operations (checked against str semantics on every case by the oracle); the hand transcription is tied to the code only by the correspondence run. The six defects found while building the check are repaired in /repo (known_findings.d/C12.json, status fixed; their witnesses run on every check).")
TECHNIQUE = "Lean 4 proof (index-mirror arithmetic, search mirror, chunked-scan loop invariant, method-table closure) + exhaustive small-domain and chunk-boundary correspondence"

R = lambda s: s[::-1]


class B(str):
    """A bit string in a reference result (reversed back by the mirror; other values are positions and kept)."""


class RefErr(Exception):
    pass


# ------------------------------------------------------------------------------------------------ wire helpers
def _opt(s):
    return None if s == "None" else int(s)


def sv(x):
    return "None" if x is None else str(x)


def _posspec(p):
    """None | ('i', int) | ('l', [ints]) | ('r', (a, b, c))"""
    if p == "None":
        return None
    if p[0] == "i":
        return ("i", int(p[1:]))
    if p[0] == "l":
        return ("l", [int(x) for x in p[1:].split(",") if x])
    if p[0] == "r":
        a, b, c = p[1:].split(",")
        return ("r", (int(a), int(b), int(c)))
    raise ValueError(p)


def _posarg(P):
    if P is None:
        return None
    k, v = P
    if k == "i":
        return v
    if k == "l":
        return list(v)
    return range(*v)


def _fmtspec(s):
    if s == "None":
        return None
    if "," in s or s.startswith("["):
        return [int(x) for x in s.strip("[]").split(",") if x]
    return int(s)


def _toks(s):
    """'u3,b4,n2' -> [('u',3),('b',4),('n',2)]"""
    return [(t[0], int(t[1:])) for t in s.split(",") if t] if s != "-" else []


def _ptoks(s):
    """pack tokens 'n101,b0011,u110' -> [('n','101'),…]; 'n' alone = empty bits token"""
    return [(t[0], t[1:]) for t in s.split(",") if t] if s != "-" else []


# ------------------------------------------------------------------------------------------------ msb0 reference on str
def _validate(n, start, end):
    start = 0 if start is None else (start + n if start < 0 else start)
    end = n if end is None else (end + n if end < 0 else end)
    if not 0 <= start <= end <= n:
        raise RefErr("slice")
    return start, end


def _matches(s, t, start, end, ba):
    m = len(t)
    return [p for p in range(start, end - m + 1) if s[p:p + m] == t and (not ba or p % 8 == 0)]


def _positions(n, P):
    """positions named by a posspec, normalised to 0..n-1 (RefErr when one is out of range)"""
    k, v = P
    if k == "r" and v[2] == 0:
        raise RefErr("range step")
    ps = [v] if k == "i" else (list(v) if k == "l" else list(range(*v)))
    out = []
    for p in ps:
        q = p + n if p < 0 else p
        if not 0 <= q < n:
            raise RefErr("index")
        out.append(q)
    return out


def _tokval(kind, bits):
    """canonical value of a read token"""
    if kind in ("n", "b"):
        return bits or "-"
    if kind == "u":
        return str(int(bits, 2))
    if kind == "i":
        v = int(bits, 2)
        return str(v - (1 << len(bits)) if bits[0] == "1" else v)
    raise ValueError(kind)


def ref_msb0(op, s, a):
    """The msb0 meaning of `op` on the str of bits `s`; bit-valued results are `B`, positions plain ints."""
    n = len(s)
    try:
        if op == "getitem":
            return B(s[int(a[0])])
        if op == "getslice":
            return B(s[slice(_opt(a[0]), _opt(a[1]), _opt(a[2]))])
        if op == "setslice":
            l = list(s)
            l[slice(_opt(a[0]), _opt(a[1]), _opt(a[2]))] = list(unwire(a[3]))
            return B("".join(l))
        if op == "setsliceint":
            # only the extended-step branch ends here (see `expected`): 0/1 is written to every visited position
            st, e, c, v = _opt(a[0]), _opt(a[1]), _opt(a[2]), int(a[3])
            if v not in (0, 1):
                raise RefErr("value")
            l = list(s)
            for i in range(*slice(st, e, c).indices(n)):
                l[i] = str(v)
            return B("".join(l))
        if op == "delslice":
            l = list(s)
            del l[slice(_opt(a[0]), _opt(a[1]), _opt(a[2]))]
            return B("".join(l))
        if op == "setitem":
            i, v = int(a[0]), int(a[1])
            if v not in (0, 1, -1):
                raise RefErr("value")
            l = list(s)
            l[i] = "1" if v else "0"
            return B("".join(l))
        if op == "setitemb":
            i, v = int(a[0]), unwire(a[1])
            k = i + n if i < 0 else i
            if not 0 <= k < n:
                raise RefErr("index")
            return B(s[:k] + v + s[k + 1:])
        if op == "delitem":
            l = list(s)
            del l[int(a[0])]
            return B("".join(l))
        if op == "invert":
            P = _posspec(a[0])
            if P is None:
                return B("".join("1" if c == "0" else "0" for c in s))
            l = list(s)
            for q in _positions(n, P):
                l[q] = "1" if l[q] == "0" else "0"
            return B("".join(l))
        if op == "set":
            v, P = ("1" if int(a[0]) else "0"), _posspec(a[1])
            if P is None:
                return B(v * n)
            l = list(s)
            for q in _positions(n, P):
                l[q] = v
            return B("".join(l))
        if op == "allany":
            v, P = ("1" if int(a[0]) else "0"), _posspec(a[1])
            if P is None:
                return (all(c == v for c in s), any(c == v for c in s))
            al, an = True, False
            # all() and any() stop at the first deciding position; positions are looked at one by one
            ps = [P[1]] if P[0] == "i" else (P[1] if P[0] == "l" else range(*P[1]))
            def at(p):
                q = p + n if p < 0 else p
                if not 0 <= q < n:
                    raise RefErr("index")
                return s[q]
            for p in ps:
                if at(p) != v:
                    al = False
                    break
            for p in ps:
                if at(p) == v:
                    an = True
                    break
            return (al, an)
        if op in ("find", "rfind"):
            t = unwire(a[0])
            if op == "find" and not t:
                raise RefErr("empty")
            st, e = _validate(n, _opt(a[1]), _opt(a[2]))
            if not t:
                raise RefErr("empty")
            ms = _matches(s, t, st, e, a[3] == "1")
            return (ms[0] if op == "find" else ms[-1]) if ms else None
        if op == "findall":
            t = unwire(a[0])
            cnt = _opt(a[3])
            if cnt is not None and cnt < 0:
                raise RefErr("count")
            if not t:
                raise RefErr("empty")
            st, e = _validate(n, _opt(a[1]), _opt(a[2]))
            ms = _matches(s, t, st, e, a[4] == "1")
            return ms if cnt is None else ms[:cnt]
        if op == "startswith":
            t = unwire(a[0])
            st, e = _validate(n, _opt(a[1]), _opt(a[2]))
            return e >= st + len(t) and s[st:st + len(t)] == t
        if op == "endswith":
            t = unwire(a[0])
            st, e = _validate(n, _opt(a[1]), _opt(a[2]))
            return st + len(t) <= e and s[e - len(t):e] == t
        if op == "cut":
            k, cnt = int(a[0]), _opt(a[3])
            st, e = _validate(n, _opt(a[1]), _opt(a[2]))
            if cnt is not None and cnt < 0:
                raise RefErr("count")
            if k <= 0:
                raise RefErr("bits")
            out = []
            while cnt is None or len(out) < cnt:
                ch = s[st:min(st + k, e)]
                if not ch:
                    break
                out.append(B(ch))
                if len(ch) != k:
                    break
                st += k
            return out
        if op == "replace":
            old, new, cnt = unwire(a[0]), unwire(a[1]), _opt(a[4])
            if not old:
                raise RefErr("empty")
            st, e = _validate(n, _opt(a[2]), _opt(a[3]))
            if cnt == 0:
                return (0, B(s))
            pts = []
            for x in _matches(s, old, st, e, a[5] == "1"):
                if not pts or x >= pts[-1] + len(old):
                    pts.append(x)
                if cnt is not None and len(pts) == cnt:
                    break
            out, last = "", 0
            for x in pts:
                out += s[last:x] + new
                last = x + len(old)
            return (len(pts), B(out + s[last:]))
        if op == "insert":
            v, pos = unwire(a[0]), int(a[1])
            if pos < 0:
                pos += n
            if not 0 <= pos <= n:
                raise RefErr("pos")
            return B(s[:pos] + v + s[pos:])
        if op == "overwrite":
            v, pos = unwire(a[0]), int(a[1])
            if pos < 0:
                pos += n
            if not 0 <= pos <= n:
                raise RefErr("pos")
            return B(s[:pos] + v + s[pos + len(v):])
        if op == "append":
            return B(s + unwire(a[0]))
        if op == "prepend":
            return B(unwire(a[0]) + s)
        if op == "reverse":
            st, e = _validate(n, _opt(a[0]), _opt(a[1]))
            return B(s[:st] + s[st:e][::-1] + s[e:])
        if op == "byteswap":
            fmt, rep = _fmtspec(a[0]), a[3] == "1"
            st, e = _validate(n, _opt(a[1]), _opt(a[2]))
            if fmt is None or fmt == 0:
                sizes = [(e - st) // 8]
            elif isinstance(fmt, int):
                if fmt < 0:
                    raise RefErr("fmt")
                sizes = [fmt]
            else:
                if any(x < 0 for x in fmt):
                    raise RefErr("fmt")
                sizes = fmt
            total = 8 * sum(sizes)
            if not total:
                return (0, B(s))
            final = e if rep else min(st + total, e)
            l, reps = s, 0
            for pe in range(st + total, final + 1, total):
                bs = pe - total
                for z in sizes:
                    be = bs + 8 * z
                    word = l[bs:be]
                    word = "".join(word[i:i + 8] for i in range(len(word) - 8, -1, -8))
                    l = l[:bs] + word + l[be:]
                    bs = be
                reps += 1
            return (reps, B(l))
        if op in ("rol", "ror"):
            k = int(a[0])
            if n == 0:
                raise RefErr("empty")
            if k < 0:
                raise RefErr("neg")
            st, e = _validate(n, _opt(a[1]), _opt(a[2]))
            if e == st:
                return B(s)
            k %= (e - st)
            w = s[st:e]
            w = (w[k:] + w[:k]) if op == "rol" else (w[len(w) - k:] + w[:len(w) - k])
            return B(s[:st] + w + s[e:])
        if op in ("read", "peek"):
            pos, (kind, k) = int(a[0]), _toks(a[1])[0]
            if k < 0 or k > n - pos or (k == 0 and kind in ("u", "i")):
                raise RefErr("read")
            return ("tok", kind, B(s[pos:pos + k]), pos + k if op == "read" else pos)
        if op in ("unpack", "readlist"):
            pos = 0 if op == "unpack" else int(a[0])
            vals = []
            for kind, k in _toks(a[-1]):
                if k > n - pos or (k == 0 and kind in ("u", "i")):
                    raise RefErr("read")
                vals.append((kind, B(s[pos:pos + k])))
                pos += k
            return ("toks", vals, pos if op == "readlist" else None)
    except (IndexError, ValueError):
        raise RefErr(op)
    raise KeyError(op)


MODE_FREE = ("shl", "shr", "ishl", "ishr")


def ref_modefree(op, s, a):
    n, k = len(s), int(a[0])
    if k < 0 or n == 0:
        raise RefErr("shift")
    k = min(k, n)
    return B(s[k:] + "0" * k) if op in ("shl", "ishl") else B("0" * k + s[:n - k])


BIT_ARGS = {"setslice": [3], "setitemb": [1], "find": [0], "rfind": [0], "findall": [0], "startswith": [0], "endswith": [0],
            "replace": [0, 1], "insert": [0], "overwrite": [0], "append": [0], "prepend": [0]}


def _unmirror(r):
    if isinstance(r, B):
        return B(R(r))
    if isinstance(r, list):
        return [_unmirror(x) for x in r]
    if isinstance(r, tuple):
        return tuple(_unmirror(x) for x in r)
    return r


def canon(r):
    """canonical text of a reference result (same format as `execute` / the model)"""
    if isinstance(r, B):
        return r or "-"
    if r is None:
        return "-"
    if isinstance(r, bool):
        return "True" if r else "False"
    if isinstance(r, int):
        return str(r)
    if isinstance(r, list):
        return ",".join(canon(x) for x in r) if r else "-"
    if isinstance(r, tuple) and r and r[0] == "tok":
        return f"{_tokval(r[1], r[2])} {r[3]}"
    if isinstance(r, tuple) and r and r[0] == "toks":
        body = ",".join(_tokval(k, b) for k, b in r[1]) if r[1] else "-"
        return body if r[2] is None else f"{body} {r[2]}"
    if isinstance(r, tuple):
        return " ".join(canon(x) for x in r)
    raise TypeError(r)


def expected(op, s, a, lsb0):
    """`ok …`/`err` the property demands: msb0 meaning, or its mirror under lsb0."""
    try:
        if op in MODE_FREE:
            return "ok " + canon(ref_modefree(op, s, a))
        if op == "pack":
            toks = [b for _k, b in _ptoks(a[0])]
            return "ok " + canon(B("".join(reversed(toks)) if lsb0 else "".join(toks)))
        if op == "setsliceint" and _opt(a[2]) in (None, 1, -1):
            # `x[a:b:±1] = n` writes n as a uint/int as wide as the slice; that bit string is the operand
            k, v = len(s[slice(_opt(a[0]), _opt(a[1]), _opt(a[2]))]), int(a[3])
            if k == 0 or (v >= 0 and v >= (1 << k)) or (v < 0 and v < -(1 << (k - 1))):
                raise RefErr("value does not fit")
            return expected("setslice", s, [a[0], a[1], a[2], format(v % (1 << k), "0%db" % k)], lsb0)
        if not lsb0:
            return "ok " + canon(ref_msb0(op, s, a))
        if op in ("rol", "ror"):
            # a rotation keeps its direction relative to the most significant end; only the range is mirrored:
            # rotating the stored bits to the left is rotating the reversed bits to the right
            op = "ror" if op == "rol" else "rol"
        a2 = list(a)
        for i in BIT_ARGS.get(op, []):
            a2[i] = wire(R(unwire(a[i])))
        return "ok " + canon(_unmirror(ref_msb0(op, R(s), a2)))
    except RefErr:
        return "err"


# ------------------------------------------------------------------------------------------------ the real library
def _g(thunk, fmt=lambda x: str(x)):
    o = guarded(thunk, fmt)
    return "err" if o.startswith("err") else o


def _bits_of(x):
    return wire(x)


def _tokfmt(kind, k):
    return {"n": f"bits:{k}", "b": f"bin:{k}", "u": f"uint:{k}", "i": f"int:{k}"}[kind]


def _tokcanon(kind, v):
    if kind == "n":
        return wire(v)
    if kind == "b":
        return v or "-"
    return str(v)


def _pack_call(toks):
    """format tokens, positional values and keyword arguments of a pack() call for the wire tokens.  kinds:
      n bits (positional)   b bin:len (positional)   u uint:len (positional)   e uint:len=<literal>
      v uint:len=<keyword value>   l uint:<keyword length> (positional value)
      k / s / y  a BARE keyword token whose keyword argument is a Bits / a '0b…' str / a bytes object"""
    fmt, vals, kw = [], [], {}
    for i, (kind, b) in enumerate(toks):
        if kind == "n":
            fmt.append(f"bits:{len(b)}" if len(b) % 2 else "bits"); vals.append(mk("Bits", b))
        elif kind == "b":
            fmt.append(f"bin:{len(b)}"); vals.append(b)
        elif kind == "u":
            fmt.append(f"uint:{len(b)}"); vals.append(int(b, 2))
        elif kind == "e":
            fmt.append(f"uint:{len(b)}={int(b, 2)}")
        elif kind == "v":
            fmt.append(f"uint:{len(b)}=kv{i}"); kw[f"kv{i}"] = int(b, 2)
        elif kind == "l":
            fmt.append(f"uint:kn{i}"); kw[f"kn{i}"] = len(b); vals.append(int(b, 2))
        elif kind == "k":
            fmt.append(f"kw{i}"); kw[f"kw{i}"] = mk("Bits", b)
        elif kind == "s":
            fmt.append(f"kw{i}"); kw[f"kw{i}"] = ("0b" + b) if b else ""
        elif kind == "y":
            assert len(b) % 8 == 0
            fmt.append(f"kw{i}"); kw[f"kw{i}"] = int(b, 2).to_bytes(len(b) // 8, "big") if b else b""
        else:
            raise ValueError(kind)
    return fmt, vals, kw


def _pack_roundtrip(toks):
    """pack under lsb0, then give the values back with unpack, readlist and single reads (all under lsb0)"""
    fmt, vals, kw = _pack_call(toks)
    s = bitstring.pack(", ".join(fmt), *vals, **kw)
    ufmt = [f"bits:{len(b)}" for _k, b in toks]
    un = [wire(x) for x in s.unpack(", ".join(ufmt))] if ufmt else []
    t = BitStream(s)
    rl = [wire(x) for x in t.readlist(ufmt)] if ufmt else []
    t2 = BitStream(s)
    rd = [wire(t2.read(len(b))) for _k, b in toks]
    return un, rl, rd


def run_op(op, cls, s, a):
    """Perform `op` with the real library under the CURRENT option setting; returns canonical text.
    Mutating operations report the object's bits afterwards."""
    x = mk(cls, s) if op not in ("read", "peek", "readlist") else None
    if op == "getitem":
        return _g(lambda: x[int(a[0])], lambda v: "1" if v is True else ("0" if v is False else repr(v)))
    if op == "getslice":
        return _g(lambda: x[_opt(a[0]):_opt(a[1]):_opt(a[2])], wire)
    if op == "setslice":
        def th():
            x[_opt(a[0]):_opt(a[1]):_opt(a[2])] = mk("Bits", unwire(a[3]))
            return x
        return _g(th, wire)
    if op == "setsliceint":
        def th():
            x[_opt(a[0]):_opt(a[1]):_opt(a[2])] = int(a[3])
            return x
        return _g(th, wire)
    if op == "delslice":
        def th():
            del x[_opt(a[0]):_opt(a[1]):_opt(a[2])]
            return x
        return _g(th, wire)
    if op == "setitem":
        def th():
            x[int(a[0])] = int(a[1])
            return x
        return _g(th, wire)
    if op == "setitemb":
        def th():
            x[int(a[0])] = mk("Bits", unwire(a[1]))
            return x
        return _g(th, wire)
    if op == "delitem":
        def th():
            del x[int(a[0])]
            return x
        return _g(th, wire)
    if op == "invert":
        def th():
            x.invert(_posarg(_posspec(a[0])))
            return x
        return _g(th, wire)
    if op == "set":
        def th():
            x.set(int(a[0]), _posarg(_posspec(a[1])))
            return x
        return _g(th, wire)
    if op == "allany":
        P = _posarg(_posspec(a[1]))
        if isinstance(P, int):
            P = (P,)
        return _g(lambda: (x.all(int(a[0]), P), x.any(int(a[0]), P)), lambda r: f"{r[0]} {r[1]}")
    if op in ("find", "rfind"):
        f = x.find if op == "find" else x.rfind
        return _g(lambda: f(mk("Bits", unwire(a[0])), _opt(a[1]), _opt(a[2]), bytealigned=(a[3] == "1")),
                  lambda r: str(r[0]) if r else "-")
    if op == "findall":
        return _g(lambda: list(x.findall(mk("Bits", unwire(a[0])), _opt(a[1]), _opt(a[2]), count=_opt(a[3]), bytealigned=(a[4] == "1"))),
                  lambda r: ",".join(map(str, r)) if r else "-")
    if op in ("startswith", "endswith"):
        f = x.startswith if op == "startswith" else x.endswith
        return _g(lambda: f(mk("Bits", unwire(a[0])), _opt(a[1]), _opt(a[2])), lambda r: "True" if r is True else ("False" if r is False else repr(r)))
    if op == "cut":
        return _g(lambda: list(x.cut(int(a[0]), _opt(a[1]), _opt(a[2]), _opt(a[3]))), lambda r: ",".join(wire(c) for c in r) if r else "-")
    if op == "replace":
        return _g(lambda: x.replace(mk("Bits", unwire(a[0])), mk("Bits", unwire(a[1])), _opt(a[2]), _opt(a[3]), _opt(a[4]), bytealigned=(a[5] == "1")),
                  lambda r: f"{r} {wire(x)}")
    if op in ("insert", "overwrite"):
        def th():
            getattr(x, op)(mk("Bits", unwire(a[0])), int(a[1]))
            return x
        return _g(th, wire)
    if op in ("append", "prepend"):
        def th():
            getattr(x, op)(mk("Bits", unwire(a[0])))
            return x
        return _g(th, wire)
    if op == "reverse":
        def th():
            x.reverse(_opt(a[0]), _opt(a[1]))
            return x
        return _g(th, wire)
    if op == "byteswap":
        return _g(lambda: x.byteswap(_fmtspec(a[0]), _opt(a[1]), _opt(a[2]), a[3] == "1"), lambda r: f"{r} {wire(x)}")
    if op in ("rol", "ror"):
        def th():
            getattr(x, op)(int(a[0]), _opt(a[1]), _opt(a[2]))
            return x
        return _g(th, wire)
    if op in ("shl", "shr"):
        return _g(lambda: (x << int(a[0])) if op == "shl" else (x >> int(a[0])), wire)
    if op in ("ishl", "ishr"):
        def th():
            nonlocal x
            if op == "ishl":
                x <<= int(a[0])
            else:
                x >>= int(a[0])
            return x
        return _g(th, wire)
    if op in ("read", "peek"):
        pos, (kind, k) = int(a[0]), _toks(a[1])[0]
        st = CLASSES[cls](bin=s, pos=pos) if s else CLASSES[cls]()
        f = st.read if op == "read" else st.peek
        return _g(lambda: f(k if kind == "n" else _tokfmt(kind, k)), lambda v: f"{_tokcanon(kind, v)} {st.pos}")
    if op == "unpack":
        toks = _toks(a[0])
        return _g(lambda: x.unpack(", ".join(_tokfmt(k, w) for k, w in toks)) if toks else [],
                  lambda r: ",".join(_tokcanon(t[0], v) for t, v in zip(toks, r)) if r else "-")
    if op == "readlist":
        pos, toks = int(a[0]), _toks(a[1])
        st = CLASSES[cls](bin=s, pos=pos) if s else CLASSES[cls]()
        return _g(lambda: st.readlist([_tokfmt(k, w) for k, w in toks]),
                  lambda r: (",".join(_tokcanon(t[0], v) for t, v in zip(toks, r)) if r else "-") + f" {st.pos}")
    if op == "pack":
        fmt, vals, kw = _pack_call(_ptoks(a[0]))
        return _g(lambda: bitstring.pack(", ".join(fmt), *vals, **kw), wire)
    raise ValueError(op)


def _value_obs(s, cls):
    """whole-value observations; an exception is an observation too (never a harness failure)"""
    x = mk(cls, s)
    n = len(s)

    def g(thunk):
        try:
            return thunk()
        except Exception as e:                                  # noqa: BLE001
            return "EXC:" + type(e).__name__
    o = {"len": g(lambda: len(x)), "bin": g(lambda: x.bin if n else ""), "bytes": g(lambda: x.tobytes().hex()),
         "eq": g(lambda: x == mk("Bits", s))}
    if n:
        o["uint"], o["int"] = g(lambda: x.uint), g(lambda: x.int)
        if n % 4 == 0:
            o["hex"] = g(lambda: x.hex)
        if n % 3 == 0:
            o["oct"] = g(lambda: x.oct)
        if n % 8 == 0:
            o["uintle"], o["intbe"] = g(lambda: x.uintle), g(lambda: x.intbe)
            # every byte-wise interpretation (round 9: a sign bit fetched through the mode-dependent index accessor)
            o["intle"], o["uintbe"] = g(lambda: x.intle), g(lambda: x.uintbe)
            o["intne"], o["uintne"] = g(lambda: x.intne), g(lambda: x.uintne)
            o["bytes_prop"] = g(lambda: x.bytes.hex())
        if n in (16, 32, 64):
            o["float"] = g(lambda: struct.pack(">d", x.float).hex())
            o["floatle"] = g(lambda: struct.pack(">d", x.floatle).hex())
            o["floatne"] = g(lambda: struct.pack(">d", x.floatne).hex())
        if n == 16:
            o["bfloat"] = g(lambda: struct.pack(">d", x.bfloat).hex())
            o["bfloatle"] = g(lambda: struct.pack(">d", x.bfloatle).hex())
        if n == 1:
            o["bool"] = g(lambda: x.bool)
    if cls in ("Bits", "ConstBitStream"):
        o["hash"] = g(lambda: hash(x))
    o["count"] = g(lambda: x.count(1))

    def tofile():
        # several chunks (hook BITSTRING_VERIF_TOFILE_CHUNK_BITS): the bytes written are a whole-value interpretation
        import io, os
        saved = os.environ.get("BITSTRING_VERIF_TOFILE_CHUNK_BITS")
        os.environ["BITSTRING_VERIF_TOFILE_CHUNK_BITS"] = "16"
        try:
            f = io.BytesIO()
            x.tofile(f)
            return f.getvalue().hex()
        finally:
            if saved is None:
                del os.environ["BITSTRING_VERIF_TOFILE_CHUNK_BITS"]
            else:
                os.environ["BITSTRING_VERIF_TOFILE_CHUNK_BITS"] = saved
    o["tofile"] = g(tofile)
    return o


def _run_seq(cls, s, steps):
    """history on one object; the option is set per step (M/L)"""
    x = mk(cls, s)
    obs = []
    for st in steps:
        f = st.split(":")
        bitstring.options.lsb0 = (f[0] == "L")
        op, a = f[1], f[2:]
        def th():
            if op == "ins": x.insert(mk("Bits", unwire(a[0])), int(a[1]))
            elif op == "ovw": x.overwrite(mk("Bits", unwire(a[0])), int(a[1]))
            elif op == "app": x.append(mk("Bits", unwire(a[0])))
            elif op == "pre": x.prepend(mk("Bits", unwire(a[0])))
            elif op == "del": del x[_opt(a[0]):_opt(a[1]):_opt(a[2])]
            elif op == "set": x[_opt(a[0]):_opt(a[1]):_opt(a[2])] = mk("Bits", unwire(a[3]))
            elif op == "inv": x.invert(int(a[0]))
            elif op == "rol": x.rol(int(a[0]), _opt(a[1]), _opt(a[2]))
            elif op == "ror": x.ror(int(a[0]), _opt(a[1]), _opt(a[2]))
            elif op == "rev": x.reverse(_opt(a[0]), _opt(a[1]))
            elif op == "get": return wire(x[_opt(a[0]):_opt(a[1]):_opt(a[2])])
            elif op == "idx": return "1" if x[int(a[0])] else "0"
            elif op == "find":
                r = x.find(mk("Bits", unwire(a[0])))
                return str(r[0]) if r else "-"
            else: raise KeyError(op)
            return wire(x)
        o = _g(th)
        obs.append(o[3:] if o.startswith("ok ") else "E")
    return "ok " + "|".join(obs) + "|" + wire(x)


SEQ_OPS = {"ins": "insert", "ovw": "overwrite", "app": "append", "pre": "prepend", "del": "delslice", "set": "setslice",
           "inv": "invert", "rol": "rol", "ror": "ror", "rev": "reverse", "get": "getslice", "idx": "getitem", "find": "find"}


def _ref_seq(s, steps):
    obs = []
    for st in steps:
        f = st.split(":")
        lsb0, op, a = f[0] == "L", f[1], f[2:]
        full = SEQ_OPS[op]
        if op == "inv":
            a = ["i" + a[0]]
        if op == "find":
            a = [a[0], "None", "None", "0"]
        e = expected(full, s, a, lsb0)
        if e == "err":
            obs.append("E")
            continue
        v = unwire(e[3:]) if op not in ("find",) else e[3:]
        if op in ("get", "idx", "find"):
            obs.append(e[3:])
        else:
            s = v
            obs.append(wire(s))
    return "ok " + "|".join(obs) + "|" + wire(s)


def _tables():
    """keys and targets of the two method tables in Options.set_lsb0, read from the source with ast"""
    from bitstring import bitstring_options
    mod = ast.parse(open(bitstring_options.__file__).read())
    fns = [n for n in ast.walk(mod) if isinstance(n, ast.FunctionDef) and n.name == "set_lsb0"]
    out = {}
    for node in (ast.walk(fns[0]) if fns else []):
        if isinstance(node, ast.Assign) and isinstance(node.targets[0], ast.Name) and node.targets[0].id in ("lsb0_methods", "msb0_methods"):
            ents = []
            for ck, cv in zip(node.value.keys, node.value.values):
                for ak, av in zip(cv.keys, cv.values):
                    ents.append(f"{ck.id}.{ak.value}={av.value.id}.{av.attr}")
            out[node.targets[0].id] = ents
    return out


def execute(line):
    f = line.split(SEP)
    op = f[1]
    extra = {}
    if op == "tables":
        t = _tables()
        out = "ok " + ",".join(t.get("lsb0_methods", [])) + " " + ",".join(t.get("msb0_methods", []))
        # behavioural check of the rebinding: after on/off every attribute is what it was at import (msb0) time
        objs = {"Bits": bitstring.bits.Bits, "BitArray": bitstring.bitarray_.BitArray, "BitStore": bitstring.bitstore.BitStore}
        keys = sorted({e.split("=")[0] for v in t.values() for e in v})
        snap = lambda: [getattr(objs[k.split(".")[0]], k.split(".")[1], None) for k in keys]
        with options(lsb0=False):
            before = snap()
            bitstring.options.lsb0 = True
            during = snap()
            bitstring.options.lsb0 = False
            after = snap()
            bitstring.options.lsb0 = True
            bitstring.options.lsb0 = True
            during2 = snap()
            bitstring.options.lsb0 = False
            bitstring.options.lsb0 = False
            after2 = snap()
        extra["restored"] = all(x is y for x, y in zip(before, after)) and all(x is y for x, y in zip(before, after2))
        extra["rebound"] = sum(1 for x, y in zip(before, during) if x is not y)
        extra["idempotent"] = all(x is y for x, y in zip(during, during2))
        return out, extra
    cls, s, a = f[2], unwire(f[3]), f[4:]
    if op == "seq":
        steps = [t.strip() for t in a[0].split(";") if t.strip()]
        with options(lsb0=False):
            out = _run_seq(cls, s, steps)
        return out, extra
    if op == "value":
        with options(lsb0=False):
            before = _value_obs(s, cls)
            bitstring.options.lsb0 = True
            during = _value_obs(s, cls)
            y = mk(cls, s)                       # made under lsb0, looked at under msb0
            bitstring.options.lsb0 = False
            after = _value_obs(s, cls)
            extra["made_lsb0_bin"] = y.bin if s else ""
        extra["before"], extra["during"], extra["after"] = before, during, after
        d = during
        out = f"ok {d['len']} {d.get('uint', '-')} {d.get('int', '-')} {d['bin'] or '-'}"
        # long hashes are sampled from both ends: they must not depend on the mode either (2000-bit threshold)
        return out, extra
    with options(lsb0=True):
        out = run_op(op, cls, s, a)
        if op == "pack" and out.startswith("ok"):
            extra["roundtrip"] = guarded(lambda: _pack_roundtrip(_ptoks(a[0])), lambda r: repr(r))
        bitstring.options.lsb0 = False
        extra["msb0"] = run_op(op, cls, s, a)         # on -> op -> off -> op : must be the msb0 operation
    return out, extra


def oracle(line, out, extra):
    f = line.split(SEP)
    op = f[1]
    if op == "tables":
        try:
            l, m = out[3:].split(" ")
        except ValueError:
            return "method tables not found in Options.set_lsb0"
        lk = {e.split("=")[0] for e in l.split(",")}
        mk_ = {e.split("=")[0] for e in m.split(",")}
        if not lk <= mk_:
            return f"attributes rebound by the lsb0 table but not restored by the msb0 table: {sorted(lk - mk_)}"
        if not mk_ <= lk:
            return f"attributes rebound by the msb0 table only: {sorted(mk_ - lk)}"
        if not extra.get("restored"):
            return "switching lsb0 on and off does not restore the original attributes"
        if not extra.get("idempotent"):
            return "setting lsb0 twice differs from setting it once"
        return None
    cls, s, a = f[2], unwire(f[3]), f[4:]
    if op == "seq":
        steps = [t.strip() for t in a[0].split(";") if t.strip()]
        exp = _ref_seq(s, steps)
        return None if out == exp else f"history: expected {exp}, got {out}"
    if op == "value":
        n = len(s)
        exp = {"len": n, "bin": s, "bytes": (int(s + "0" * (-n % 8), 2).to_bytes((n + 7) // 8, "big").hex() if n else ""), "eq": True,
               "count": s.count("1")}
        exp["tofile"] = exp["bytes"]
        if n:
            exp["uint"] = int(s, 2)
            exp["int"] = int(s, 2) - ((1 << n) if s[0] == "1" else 0)
            if n % 4 == 0:
                exp["hex"] = format(int(s, 2), "0%dx" % (n // 4))
            if n % 3 == 0:
                exp["oct"] = format(int(s, 2), "0%do" % (n // 3))
            if n % 8 == 0:
                by = int(s, 2).to_bytes(n // 8, "big")
                exp["uintle"] = int.from_bytes(by, "little")
                exp["intbe"] = int.from_bytes(by, "big", signed=True)
                exp["intle"] = int.from_bytes(by, "little", signed=True)
                exp["uintbe"] = int.from_bytes(by, "big")
                exp["intne"] = int.from_bytes(by, sys.byteorder, signed=True)
                exp["uintne"] = int.from_bytes(by, sys.byteorder)
                exp["bytes_prop"] = by.hex()
            if n in (16, 32, 64):
                by = int(s, 2).to_bytes(n // 8, "big")
                v = struct.unpack({16: ">e", 32: ">f", 64: ">d"}[n], by)[0]
                exp["float"] = struct.pack(">d", v).hex()
                vl = struct.unpack({16: "<e", 32: "<f", 64: "<d"}[n], by)[0]
                exp["floatle"] = struct.pack(">d", vl).hex()
                exp["floatne"] = exp["floatle"] if sys.byteorder == "little" else exp["float"]
            if n == 16:
                by = int(s, 2).to_bytes(2, "big")
                exp["bfloat"] = struct.pack(">d", struct.unpack(">f", by + b"\x00\x00")[0]).hex()
                exp["bfloatle"] = struct.pack(">d", struct.unpack(">f", by[::-1] + b"\x00\x00")[0]).hex()
            if n == 1:
                exp["bool"] = s == "1"
        for when in ("before", "during", "after"):
            got = dict(extra[when])
            h = got.pop("hash", None)
            if when == "before":
                h0 = h
            elif h != h0:
                return f"hash differs {when} the toggle"
            for k, v in exp.items():
                if k == "float":
                    # NaN payloads: compare as the library reports them in msb0 mode
                    if got.get(k) != extra["before"].get(k):
                        return f"float interpretation differs {when} the toggle"
                    continue
                if got.get(k) != v:
                    return f"{k} {when} the toggle (lsb0 {'on' if when == 'during' else 'off'}): expected {v!r}, got {got.get(k)!r}"
        if extra["made_lsb0_bin"] != s:
            return "object made under lsb0 stores different bits"
        return None
    exp = expected(op, s, a, True)
    if out != exp:
        return f"lsb0: expected {exp} = reverse(msb0 op on reversed operands), got {out}"
    expm = expected(op, s, a, False)
    if extra.get("msb0") != expm:
        return f"after switching lsb0 off again: expected the msb0 result {expm}, got {extra.get('msb0')}"
    if op == "pack" and "roundtrip" in extra:
        vals = [b or "-" for _k, b in _ptoks(a[0])]
        want = "ok " + repr((vals, vals, vals))
        if extra["roundtrip"] != want:
            return f"lsb0 unpack/readlist/read of the packed stream do not give the packed values back: {extra['roundtrip']} instead of {want}"
    return None


def nontrivial(line):
    f = line.split(SEP)
    return f[1] == "tables" or (len(f) > 3 and f[3] != "-")


# ------------------------------------------------------------------------------------------------ regions of the known findings
# none: every defect found while building this check has been repaired in /repo (known_findings.d/C12.json lists
# them with status "fixed"; their witnesses run on every check).  IMPL must equal MODEL character for character.
REGIONS = {}


# ------------------------------------------------------------------------------------------------ generators
def _pat(n, k=0):
    base = "1101000101100111010"[k:] + "1101000101100111010"[:k]
    return (base * (n // len(base) + 1))[:n]


def L(op, cls, bits, *args):
    return SEP.join(["C12", op, cls, wire(bits)] + [a if isinstance(a, str) else sv(a) for a in args])


def _mcls(rng):
    return rng.choice(MUTABLE)


def _acls(rng):
    return rng.choice(CLASS_NAMES)


def _vals(n, pad=2):
    return [None] + list(range(-(n + pad), n + pad + 1))


def _subpatterns(s, rng, maxlen=4):
    """patterns that occur in s, that do not, and boundary ones"""
    out = {"1", "0", "10", "01", "11"}
    n = len(s)
    for m in range(1, min(maxlen, n) + 1):
        out.add(s[:m]); out.add(s[n - m:])
        p = rng.randint(0, n - m)
        out.add(s[p:p + m])
    if n:
        out.add(s)
        out.add(s + "1")
    return sorted(out)


def gen_slices(rng, tier):
    big = tier != "quick"
    full = 8 if big else 4
    top = 12
    for n in range(0, top + 1):
        conts = [_pat(n)] if n else [""]
        if n and n <= full:
            conts.append(rand_bits(rng, n))
        vals = _vals(n)
        steps = [None] + [x for x in range(-(n + 2), n + 3) if x] + [0]
        triples = itertools.product(vals, vals, steps)
        keep = 1.0 if n <= full else ((0.12 if big else 0.035) * (8 / n) ** 2)
        for (a, b, c) in triples:
            if keep < 1.0 and rng.random() > keep:
                continue
            s = conts[0] if len(conts) == 1 or rng.random() < 0.6 else conts[1]
            yield L("getslice", _acls(rng), s, a, b, c)
            yield L("delslice", _mcls(rng), s, a, b, c)
            rl = len(range(*slice(a, b, c).indices(n))) if c != 0 else 0
            vl = ({0, 1, rl, rl + 1, 3} if big else {0, rl, rl + 1}) if c in (None, 1) else {rl, 0 if rl else 1}
            for k in sorted(vl):
                if keep < 1.0 and k not in (rl, 1) and rng.random() < 0.6:
                    continue
                yield L("setslice", _mcls(rng), s, a, b, c, wire(_pat(k, 3)))
            if rng.random() < (0.25 if n <= full else 0.5):
                yield L("setsliceint", _mcls(rng), s, a, b, c, rng.choice([0, 1, 1, -1, 2, 5, -3, (1 << max(rl, 1)) - 1]))
        for i in range(-(n + 3), n + 4):
            for s in conts:
                yield L("getitem", _acls(rng), s, i)
                yield L("delitem", _mcls(rng), s, i)
                for v in (0, 1, -1, 2):
                    yield L("setitem", _mcls(rng), s, i, v)
                for v in ("", "1", "01", "110"):
                    yield L("setitemb", _mcls(rng), s, i, wire(v))
                yield L("invert", _mcls(rng), s, f"i{i}")
                yield L("set", _mcls(rng), s, rng.choice([0, 1]), f"i{i}")
                yield L("allany", _acls(rng), s, rng.choice([0, 1]), f"i{i}")
        for s in conts:
            yield L("invert", _mcls(rng), s, "None")
            yield L("set", _mcls(rng), s, 0, "None")
            yield L("set", _mcls(rng), s, 1, "None")
            yield L("allany", _acls(rng), s, 1, "None")
            yield L("allany", _acls(rng), s, 0, "None")
            for _ in range(6 if big else 3):
                ps = [rng.randint(-(n + 1), n) for _ in range(rng.randint(0, 4))]
                if rng.random() < 0.7:
                    ps = [p for p in ps if -n <= p < n]
                P = "l" + ",".join(map(str, ps))
                yield L("invert", _mcls(rng), s, P)
                yield L("set", _mcls(rng), s, rng.choice([0, 1]), P)
                yield L("allany", _acls(rng), s, rng.choice([0, 1]), P)
            for a in range(-1, n + 2):
                for b in range(-2, n + 2):
                    for c in (1, 2, 3, -1, -2):
                        if rng.random() < (0.5 if n <= full else 0.12):
                            yield L("set", _mcls(rng), s, rng.choice([0, 1]), f"r{a},{b},{c}")
                        if rng.random() < (0.2 if n <= full else 0.05):
                            yield L("invert", _mcls(rng), s, f"r{a},{b},{c}")
                            yield L("allany", _acls(rng), s, rng.choice([0, 1]), f"r{a},{b},{c}")


def gen_search(rng, tier):
    big = tier != "quick"
    top = 12
    for n in range(0, top + 1):
        conts = ([_pat(n), rand_bits(rng, n)] if n else [""])
        if n >= 9:
            conts.append(("10110000" * 3)[:n])       # the same byte twice: aligned and unaligned matches
        vals = _vals(n, 1)
        for s in conts:
            pats = _subpatterns(s, rng) + ([s[:8], s[1:9]] if n >= 9 else [])
            pairs = list(itertools.product(vals, vals))
            for t in pats:
                keep = 1.0 if (n <= (8 if big else 5) and len(t) <= 2) else (0.55 if big else 0.06)
                for (a, b) in pairs:
                    if keep < 1.0 and rng.random() > keep:
                        continue
                    ba = 1 if rng.random() < 0.3 else 0
                    r = rng.random()
                    if r < 0.3:
                        yield L("find", _acls(rng), s, wire(t), a, b, ba)
                    elif r < 0.6:
                        yield L("rfind", _acls(rng), s, wire(t), a, b, ba)
                    else:
                        yield L("findall", _acls(rng), s, wire(t), a, b, rng.choice([None, None, None, 0, 1, 2, 3, -1]), ba)
                    if rng.random() < 0.25:
                        yield L("startswith", _acls(rng), s, wire(t), a, b)
                        yield L("endswith", _acls(rng), s, wire(t), a, b)
                    if rng.random() < 0.2:
                        new = rng.choice(["", "1", "00", t, t + "1", "0110"])
                        yield L("replace", _mcls(rng), s, wire(t), wire(new), a, b, rng.choice([None, None, 0, 1, 2]), ba)
            for (a, b) in itertools.product(vals, vals):
                if rng.random() < (0.5 if n <= 8 else 0.15) * (1 if big else 0.3):
                    yield L("startswith", _acls(rng), s, "-", a, b)
                    yield L("endswith", _acls(rng), s, "-", a, b)
                    yield L("find", _acls(rng), s, "-", a, b, 0)
                    yield L("rfind", _acls(rng), s, "-", a, b, 0)
                    yield L("findall", _acls(rng), s, "-", a, b, rng.choice([None, 1, -1]), 0)
                    yield L("replace", _mcls(rng), s, "-", "1", a, b, rng.choice([None, 0, 1]), 0)
                for k in ([1, 2, 3, n, n + 1, 0, -1] if n <= 8 else [1, 3, 5, 8]):
                    if rng.random() < (0.5 if n <= 8 else 0.2) * (1 if big else 0.2):
                        yield L("cut", _acls(rng), s, k, a, b, rng.choice([None, None, 0, 1, 2, -1]))
                if rng.random() < (0.6 if n <= 8 else 0.2) * (1 if big else 0.5):
                    yield L("reverse", _mcls(rng), s, a, b)
                if rng.random() < (0.3 if big else 0.15):
                    na, nb = (a if a is None or a >= 0 else a + n), (b if b is None or b >= 0 else b + n)
                    sa, sb = (0 if na is None else na), (n if nb is None else nb)
                    k = rng.choice([0, 1, 2, 3, n, n + 1, -1])
                    yield L("rol", _mcls(rng), s, k, a, b)
                    yield L("ror", _mcls(rng), s, k, a, b)
        for s in conts[:2]:
            for pos in range(-(n + 2), n + 3):
                for v in ("", "1", "01", "1101", _pat(n + 1, 5)):
                    yield L("insert", _mcls(rng), s, wire(v), pos)
                    yield L("overwrite", _mcls(rng), s, wire(v), pos)
            for v in ("", "1", "01", "1101"):
                yield L("append", _mcls(rng), s, wire(v))
                yield L("prepend", _mcls(rng), s, wire(v))
            for k in range(-1, n + 3):
                for op in ("shl", "shr"):
                    yield L(op, _acls(rng), s, k)
                for op in ("ishl", "ishr"):
                    yield L(op, _mcls(rng), s, k)
            yield L("value", _acls(rng), s)


def gen_bytes(rng, tier):
    """byte-aligned searches, byteswap, longer contents"""
    big = tier != "quick"
    for n in [8, 15, 16, 17, 23, 24, 25, 31, 32, 33, 40, 47, 48, 64, 65]:
        for rep in range(4 if big else 2):
            byte = rand_bits(rng, 8) if rep else "10110000"
            s = list(rand_bits(rng, n))
            for _ in range(rng.randint(1, 3)):          # plant the byte at aligned and unaligned places
                p = rng.choice([0, 8, 16, n - 8, n - 16, rng.randint(0, max(n - 8, 0))])
                if 0 <= p <= n - 8:
                    s[p:p + 8] = byte
            s = "".join(s)
            for t in [byte, byte[:4], byte + byte[:8], "1", s[n - 8:], s[:16] if n >= 16 else s[:3]]:
                for _ in range(6 if big else 3):
                    a = rng.choice([None, 0, 1, 7, 8, 9, -8, -9, rng.randint(0, n)])
                    b = rng.choice([None, n, n - 1, n - 7, n - 8, -1, -8, rng.randint(0, n)])
                    for ba in (0, 1):
                        yield L("find", _acls(rng), s, wire(t), a, b, ba)
                        yield L("rfind", _acls(rng), s, wire(t), a, b, ba)
                        yield L("findall", _acls(rng), s, wire(t), a, b, rng.choice([None, None, 1, 2]), ba)
                    yield L("replace", _mcls(rng), s, wire(t), wire(rng.choice(["", "1", byte, "0000000011111111"])), a, b, rng.choice([None, 1, 2]), rng.choice([0, 0, 1]))
            for _ in range(40 if big else 14):
                a = rng.choice([None, 0, 8, 16, 1, 3, -8, -16, rng.randint(0, n)])
                b = rng.choice([None, n, n - 8, -8, -1, rng.randint(0, n)])
                fmt = rng.choice(["None", "0", "1", "2", "3", "1,1", "2,1", "1,2", "0,1", "1,0,2", "4", "-1"])
                rep_ = rng.choice([1, 1, 0])
                yield L("byteswap", _mcls(rng), s, fmt, a, b, rep_)
            for _ in range(20 if big else 8):
                a, b = rng.choice([None, 0, 3, 8, -8, rng.randint(0, n)]), rng.choice([None, n, n - 3, -1, rng.randint(0, n)])
                yield L("reverse", _mcls(rng), s, a, b)
                sa = 0 if a is None else (a + n if a < 0 else a)
                sb = n if b is None else (b + n if b < 0 else b)
                yield L(rng.choice(["rol", "ror"]), _mcls(rng), s, rng.choice([0, 1, 7, 8, 9, n, n + 3]), a, b)
                yield L("cut", _acls(rng), s, rng.choice([1, 7, 8, 9, 16, n]), a, b, rng.choice([None, None, 1, 3]))
            yield L("value", _acls(rng), s)
    for n in [63, 64, 65, 127, 128, 129, 1023, 1024, 1025]:
        s = rand_bits(rng, n)
        for _ in range(60 if big else 15):
            pick = lambda: rng.choice([None, 0, 1, -1, n, -n, n - 1, n + 1, -n - 1, 7, 8, 9, -8, rng.randint(-n - 2, n + 2)])
            st = rng.choice([None, 1, 2, 3, 7, 8, 64, n, rng.randint(1, n), -1, -2, -rng.randint(1, n)])
            a, b = pick(), pick()
            yield L("getslice", _acls(rng), s, a, b, st)
            yield L("delslice", _mcls(rng), s, a, b, st)
            rl = len(range(*slice(a, b, st).indices(n)))
            yield L("setslice", _mcls(rng), s, a, b, st, wire(rand_bits(rng, rl if st not in (None, 1) or rng.random() < 0.5 else rng.randint(0, 9))))
            i = rng.choice([0, -1, n - 1, n, -n, -n - 1, rng.randint(-n, n - 1)])
            yield L("getitem", _acls(rng), s, i)
            yield L("setitem", _mcls(rng), s, i, rng.choice([0, 1]))
            yield L("delitem", _mcls(rng), s, i)
            yield L("invert", _mcls(rng), s, f"i{i}")
        yield L("value", _acls(rng), s)


def gen_values(rng, tier):
    """whole-value interpretations, ==, hash (sampled from both ends above 2000 bits), len in both modes"""
    for n in [1, 3, 4, 8, 12, 16, 24, 32, 64, 1599, 1600, 1601, 1999, 2000, 2001, 2400, 3601]:
        for cls in (["Bits", "ConstBitStream"] if n > 64 else CLASS_NAMES):
            yield L("value", cls, rand_bits(rng, n))


def gen_streams(rng, tier):
    big = tier != "quick"
    kinds = "nbui"
    for n in range(0, 13):
        s = _pat(n, 2) if rng.random() < 0.5 else rand_bits(rng, n)
        for pos in range(0, n + 1):
            for k in range(0, n - pos + 2):
                kd = rng.choice(kinds)
                yield L("read", rng.choice(["ConstBitStream", "BitStream"]), s, pos, f"{kd}{k}")
                if rng.random() < 0.3:
                    yield L("peek", rng.choice(["ConstBitStream", "BitStream"]), s, pos, f"{rng.choice(kinds)}{k}")
        for _ in range(30 if big else 10):
            ws, left = [], n + rng.choice([0, 0, 0, 1])
            while left > 0 and len(ws) < 5:
                w = rng.randint(0 if rng.random() < 0.15 else 1, left)
                kd = rng.choice(kinds)
                if w == 0 and kd in "ui":
                    kd = "n"
                ws.append(f"{kd}{w}")
                left -= w
                if rng.random() < 0.25:
                    break
            toks = ",".join(ws) or "-"
            yield L("unpack", _acls(rng), s, toks)
            yield L("readlist", rng.choice(["ConstBitStream", "BitStream"]), s, rng.randint(0, n), toks)
    def ptok(kd):
        if kd == "y":
            return kd + rand_bits(rng, 8 * rng.randint(0, 2))
        return kd + rand_bits(rng, rng.randint(0 if kd in "nks" else 1, 9))
    kinds = "nbuevlksy"
    # every kind at the first / middle / last position of 1..3 tokens, then every ordered pair of kinds
    for kd in kinds:
        yield SEP.join(["C12", "pack", "BitStream", "-", ptok(kd)])
        for other in "ub":
            yield SEP.join(["C12", "pack", "BitStream", "-", ",".join([ptok(kd), ptok(other)])])
            yield SEP.join(["C12", "pack", "BitStream", "-", ",".join([ptok(other), ptok(kd)])])
            yield SEP.join(["C12", "pack", "BitStream", "-", ",".join([ptok(other), ptok(kd), ptok("n")])])
    for k1 in kinds:
        for k2 in kinds:
            yield SEP.join(["C12", "pack", "BitStream", "-", ",".join([ptok(k1), ptok(k2)])])
            if big or rng.random() < 0.5:
                yield SEP.join(["C12", "pack", "BitStream", "-", ",".join([ptok(rng.choice(kinds)), ptok(k1), ptok(k2)])])
    yield SEP.join(["C12", "pack", "BitStream", "-", "-"])
    for _ in range(2500 if big else 400):
        k = rng.randint(1, 5)
        yield SEP.join(["C12", "pack", "BitStream", "-", ",".join(ptok(rng.choice(kinds)) for _j in range(k))])


def _plant(rng, n, t, places):
    s = list(rand_bits(rng, n) if rng.random() < 0.7 else "0" * n)
    for p in places:
        if 0 <= p <= n - len(t):
            s[p:p + len(t)] = t
    return "".join(s)


def gen_chunks(rng, tier):
    """data longer than one chunk of _findall_lsb0's reverse scan (increment = max(8192, 80*len(pat)))"""
    big = tier != "quick"
    N = 200 if big else 26
    for it in range(N):
        m = rng.choice([1, 2, 3, 8, 9, 16, 24, 100, 103, 128] if it % 3 else [8, 16, 103])
        t = rand_bits(rng, m) if rng.random() < 0.8 else "1" * m
        if set(t) == {"0"}:
            t = "1" + t[1:]
        inc = max(8192, 80 * m)
        n = rng.choice([8000, 8191, 8192, 8193, inc + m - 1, inc + m, inc + m + 1, 2 * inc - 1, 2 * inc, 2 * inc + 1, 2 * inc + m,
                        16384 + 7, 20000, 24576, 3 * inc + m + 1, 40000, rng.randint(8000, 40000)])
        places = set()
        for k in range(0, n // inc + 2):
            for d in (-m - 1, -m, -m + 1, -1, 0, 1, m - 1, m, m + 1):
                if rng.random() < 0.35:
                    places.add(k * inc + d)                  # counted from the left …
                if rng.random() < 0.35:
                    places.add(n - (k * inc + d) - m)        # … and from the right (the scan starts at the right)
        for _ in range(rng.randint(0, 6)):
            places.add(rng.randint(0, n))
        a = rng.choice([None, None, 0, 1, m, 8, rng.randint(0, n // 2)])
        b = rng.choice([None, None, n, n - 1, n - m, -8, rng.randint(n // 2, n)])
        # matches starting / ending exactly at (and one bit off) the borders of the windows the scan uses today:
        # [pos, hi) with pos = max(s0, hi - inc - m), next hi = pos + m - 1, in stored coordinates
        lo_ = 0 if a is None else a
        hi_ = n if b is None else (b + n if b < 0 else b)
        s0, hi = n - hi_, n - lo_
        for _k in range(8):
            pos = max(s0, hi - inc - m)
            for q in (pos - 1, pos, pos + 1, hi - m - 1, hi - m, hi - m + 1):
                if rng.random() < 0.6:
                    places.add(q)
            if pos == s0:
                break
            hi = pos + m - 1
        s = _plant(rng, n, t, sorted(places))
        cls = _acls(rng)
        yield L("findall", cls, s, wire(t), a, b, rng.choice([None, None, None, 1, 3, 50]), 0)
        if it % 4 == 0:
            yield L("findall", cls, s, wire(t), a, b, rng.choice([None, 2]), 1)
        yield L("find", cls, s, wire(t), a, b, 0)
        yield L("rfind", cls, s, wire(t), a, b, 0)
        if it % 5 == 0:
            yield L("replace", _mcls(rng), s, wire(t), wire(rng.choice(["", "1", t + "0"])), a, b, rng.choice([None, 1, 4]), 0)
        if it % 6 == 0:
            i = rng.choice([0, 1, n - 1, -1, 8192, -8192, 8191])
            yield L("getitem", cls, s, i)
            yield L("getslice", cls, s, rng.choice([None, 1, 8191, 8192, -8193]), rng.choice([None, n - 1, 8193, -1]), rng.choice([None, 1, 2, 8192, -1, -8192]))
            yield L("cut", cls, s, 8192, rng.choice([None, 1]), None, rng.choice([None, 2]))
    # a pattern that is nowhere, and a pattern that is everywhere
    for n in ([8192, 8193, 16385, 30000] if big else [8193, 16500]):
        yield L("findall", "Bits", "0" * n, "1", None, None, None, 0)
        yield L("findall", "Bits", "0" * (n - 1) + "1", "1", None, None, None, 0)
        yield L("findall", "Bits", "1" + "0" * (n - 1), "1", None, None, None, 0)
        yield L("findall", "Bits", ("0" * 63 + "1") * (n // 64), "01", 3, -2, None, 0)
        yield L("findall", "Bits", ("0" * 63 + "1") * (n // 64), "01", 3, -2, 130, 0)


SEQ_VOCAB = ["ins", "ovw", "app", "pre", "del", "set", "inv", "rol", "ror", "rev", "get", "idx", "find"]


def gen_seq(rng, tier):
    """histories on one object with the option toggled between the calls (the state is tracked with the
    plain-Python reference so that most steps are valid)"""
    big = tier != "quick"
    for _ in range(12000 if big else 1500):
        n = rng.randint(0, 12)
        s = rand_bits(rng, n)
        cur, steps = s, []
        for _j in range(rng.randint(1, 6)):
            m = rng.choice("ML")
            op = rng.choice(SEQ_VOCAB)
            v = rand_bits(rng, rng.randint(0, 3))
            k = len(cur)
            p = lambda: rng.randint(0, k) if rng.random() < 0.85 else rng.randint(-k - 1, k + 1)
            if op in ("ins", "ovw"):
                a = [wire(v), str(p())]
            elif op in ("app", "pre"):
                a = [wire(v)]
            elif op == "del":
                a = [sv(p()), sv(p()), rng.choice(["None", "1", "2", "-1", "-2"])]
            elif op == "set":
                a = [sv(p()), sv(p()), "None", wire(v)]
            elif op in ("inv", "idx"):
                a = [str(p())]
            elif op in ("rol", "ror"):
                x, y = sorted([rng.randint(0, k), rng.randint(0, k)])
                if x == y and rng.random() < 0.7:
                    x, y = None, None
                a = [str(rng.randint(0, 5)), sv(x), sv(y)]
            elif op == "rev":
                a = [sv(p()), sv(p())]
            elif op == "get":
                a = [sv(rng.choice([None, p()])), sv(rng.choice([None, p()])), rng.choice(["None", "1", "2", "3", "-1", "-2"])]
            else:
                a = [wire(rand_bits(rng, rng.randint(1, 3)))]
            steps.append(":".join([m, op] + a))
            full = SEQ_OPS[op]
            ra = ["i" + a[0]] if op == "inv" else ([a[0], "None", "None", "0"] if op == "find" else a)
            e = expected(full, cur, ra, m == "L")
            if e != "err" and op not in ("get", "idx", "find"):
                cur = unwire(e[3:])
        if steps:
            yield L("seq", _mcls(rng), s, " ; ".join(steps))


def gen_random(rng, tier):
    big = tier != "quick"
    for _ in range(70000 if big else 2500):
        n = rng.choice([13, 14, 15, 16, 17, 20, 24, 31, 32, 33, 40])
        s = rand_bits(rng, n)
        pick = lambda: rng.choice([None, rng.randint(-n - 2, n + 2), rng.randint(0, n)])
        a, b = pick(), pick()
        c = rng.choice([None, 1, 2, 3, rng.randint(1, n), -1, -2, -rng.randint(1, n)])
        r = rng.random()
        if r < 0.2:
            yield L("getslice", _acls(rng), s, a, b, c)
        elif r < 0.35:
            yield L("delslice", _mcls(rng), s, a, b, c)
        elif r < 0.55:
            rl = len(range(*slice(a, b, c).indices(n)))
            yield L("setslice", _mcls(rng), s, a, b, c, wire(rand_bits(rng, rl if c not in (None, 1) or rng.random() < 0.4 else rng.randint(0, 6))))
        else:
            m = rng.randint(1, 4)
            q = rng.randint(0, n - m)
            t = s[q:q + m] if rng.random() < 0.7 else rand_bits(rng, m)
            op = rng.choice(["find", "rfind", "findall", "startswith", "endswith", "replace", "cut"])
            if op in ("find", "rfind"):
                yield L(op, _acls(rng), s, wire(t), a, b, rng.choice([0, 0, 1]))
            elif op == "findall":
                yield L(op, _acls(rng), s, wire(t), a, b, rng.choice([None, None, 1, 2]), rng.choice([0, 0, 1]))
            elif op in ("startswith", "endswith"):
                yield L(op, _acls(rng), s, wire(t), a, b)
            elif op == "replace":
                yield L(op, _mcls(rng), s, wire(t), wire(rand_bits(rng, rng.randint(0, 5))), a, b, rng.choice([None, 1, 2]), rng.choice([0, 0, 1]))
            else:
                yield L(op, _acls(rng), s, rng.randint(1, 9), a, b, rng.choice([None, 2]))


def gen_long_ranges(rng, tier):
    """in-place range operations whose range length sits around the sizes a 'long range' fast path would key on
    (round 9: a ranged reverse of >= 2048 bits done on stored positions, wrong only under lsb0 and only for a range
    that is not symmetric about the middle)"""
    big = tier != "quick"
    sizes = [1023, 1024, 1025, 2047, 2048, 2049, 4095, 4096, 4097, 8191, 8192, 8193]
    for w in (sizes if big else rng.sample(sizes, 6) + [2048, 4096]):
        for _ in range(3 if big else 1):
            left, right = rng.choice([(0, 5), (3, 0), (1, 8), (8, 17), (13, 2)])
            n = left + w + right
            s = rand_bits(rng, n)
            a, b = left, left + w
            yield L("reverse", _mcls(rng), s, a, b)
            yield L("reverse", _mcls(rng), s, a - n if a else None, b - n if right else None)
            yield L(rng.choice(["rol", "ror"]), _mcls(rng), s, rng.choice([1, 7, 8, 9, w - 1]), a, b)
            if w % 8 == 0:
                yield L("byteswap", _mcls(rng), s, rng.choice(["None", "2", "1,2", "4"]), a, b, 1)
            yield L("getslice", _acls(rng), s, a, b, rng.choice([None, 1, -1, 2]))


def gen(rng, tier):
    yield SEP.join(["C12", "tables"])
    yield from gen_long_ranges(rng, tier)
    yield from gen_slices(rng, tier)
    yield from gen_search(rng, tier)
    yield from gen_bytes(rng, tier)
    yield from gen_streams(rng, tier)
    yield from gen_values(rng, tier)
    yield from gen_seq(rng, tier)
    yield from gen_random(rng, tier)
    yield from gen_chunks(rng, tier)
