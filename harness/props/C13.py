"""C13 — equality and hashing form a consistent contract across classes and routes.

An OBJECT on the wire is  <Class>,<route>,<pos>,<bits>,<tail>,<param>   (bits/tail are 0/1 strings, '-' = empty)
  route says how the object is built (always in msb0 mode; the comparisons then run in the mode of the line):
    bin auto cache hex autohex bytes(param=offset) iter ba bakw(param=offset) bale(little-endian bitarray)
    slice(param=k: [k:k+n] of a larger object) add(param=k: bits[:k] + bits[k:]) copy conv(param: source class index)
    inv (~ of the complement) bytesio
    mappend mdel mset (mutable classes only, built by in-place edits: append in two parts at param / delete a junk prefix / slice-assign;
    for the immutable classes these fall back to bin)
    file (filename=f) filefull (filename=f, length=n = whole file) filelen (filename=f, length=n < file; the file
    holds bits+tail) fileoff (param=o>0: filename=f, offset=o, length=n) fileoffn (offset=o, no length) fileobj
  the literal '=' as second operand means "the same object again".

lines (field 2 is lsb0 = 0/1; model_line() inserts the thresholds T,A,B read from the source after it):
  C13 pair    <lsb0> <objA> <objB>          -> ok <a==b><a!=b><b==a><b!=a> <H> <ha><hb>
                                               each T/F (E = raised); H: '=' / '!' hashes equal or not, reported only when
                                               a == b and both are hashable, else '-'; ha/hb: h(ashable) / u(nhashable = TypeError)
  C13 triple  <lsb0> <objA> <objB> <objC>   -> ok <9 x T/F: aa ab ac ba bb bc ca cb cc> <H(ab)><H(bc)><H(ac)>
  C13 prom    <lsb0> <objA> <kind> <payload> -> ok <a==x><a!=x><x==a><x!=a>
  C13 nonprom <lsb0> <objA> <kind> <payload> -> ok FTFT
  C13 hash    <lsb0> <obj>                   -> ok <hex of the bytes the code hashes> <len>  |  err TypeError
  C13 member  <lsb0> <objA> <objB>           -> ok <b in [a]> <b in {a}> <len({a, b})>   (U U when a set cannot be built)
  C13 promst  <lsb0> <objA> <order> <kind> <state> <payload>
        ONE right-hand operand object X with hidden state (io.BytesIO fresh / filled with write() / partly read / seek()ed /
        at the end / used before as operand or initialiser; open file handle at a non-zero position; memoryview slice; or any
        other promotable kind, the same object re-used) is compared eight times — a==X a==X a!=X a!=X X==a X==a X!=a X!=a,
        order=1 runs them back to front — and then used twice as an initialiser (b = Cls(X); c = Cls(X)).
                                             -> ok <8 x T/F in the canonical order> <b==r><c==r><b==c><b in {r}><c in {b}>
        r = a plain object holding X's WHOLE content (getvalue() / the file / the slice); UU for the unhashable classes.
"""
from harness.common import *
import ast, atexit, builtins, copy as _copy, io, array, shutil, tempfile, hashlib

FUNCTIONAL = False      # the property fixes == / != / hash-equality, not hash values: a key disagreement alone is not a failing input

LEVEL_TEXT = ("Lean theorems about a transcription of Bits.__eq__/__ne__ (promotion by _create_from_bitstype: token strings of 0b/0x/0o literals, "
              "bytes-likes, BytesIO, file objects, bitarray, array, iterables by truthiness; TypeError -> False), BitStore.__eq__/tobytes/__len__/"
              "frombuffer and Bits.__hash__ (whole value up to T bits, else _absolute_slice(0, A) + _absolute_slice(len - B, len) through getslice_msb0), for "
              "ALL thresholds T, A, B, lengths, classes, positions: == is true exactly when the bit lists agree (for every store a constructor can "
              "produce), is an equivalence, ignores class and pos, != is its negation, non-promotable types give False; the hashed key is a function "
              "of the bit list alone (equal bits => equal key, identical under both settings of options.lsb0), is injective up to T bits, and the mutable classes are "
              "unhashable; set/dict membership coincides with equality of bits. Correspondence: pairs/triples over 4 classes x "
              "25 construction routes x pos x lengths 0..17 and around 2000/2800/3600/5000, one-bit differences inside/outside the sampled ends, "
              "zero-padding near misses, every promotable and non-promotable operand kind, set/dict membership, both modes; the thresholds are read "
              "from the source with ast on every run and the key the code really hashes is captured and compared with the model's.")
LEVEL_NOTE = ("Trusted: Lean kernel (+propext, Classical.choice, Quot.sound); CPython's hash of a (bytes, int) tuple is a function of its value and "
              "CPython's set/dict lookup is 'equal hash and ==' ; bitarray's ==, slicing, += and tobytes are modelled by their list meaning; the "
              "reflected forms x == a fall back to a.__eq__(x); the modelled string sub-language is comma-separated 0b/0x/0o literals only; "
              "hash values are never compared across processes; the correspondence harness.")
TECHNIQUE = "Lean 4 proof (equivalence, hash key is a function of the bits for all thresholds, toBytes injectivity) + differential correspondence with key capture"

# ------------------------------------------------------------------------------------------------ source extraction
PINNED_HASH_SHAPE = "7f0bf98e739cdee924f68ecdb74e76386a96200f"     # /repo 42091e9: _absolute_slice(0, A) + _absolute_slice(len - B, len)
DEFAULT_PARAMS = (2000, 800, 800)


def _hash_shape(path):
    """Normalised AST of Bits.__hash__ (docstring dropped, int literals abstracted) and its int literals in order."""
    try:
        tree = ast.parse(open(path).read())
    except Exception:                                   # noqa: BLE001
        return None, []
    fn = None
    for node in tree.body:
        if isinstance(node, ast.ClassDef) and node.name == "Bits":
            for it in node.body:
                if isinstance(it, ast.FunctionDef) and it.name == "__hash__":
                    fn = it
    if fn is None:
        return None, []
    body = list(fn.body)
    if body and isinstance(body[0], ast.Expr) and isinstance(body[0].value, ast.Constant) and isinstance(body[0].value.value, str):
        body = body[1:]
    consts = []

    class N(ast.NodeTransformer):
        def visit_Constant(self, node):
            if isinstance(node.value, int) and not isinstance(node.value, bool):
                consts.append(node.value)
                return ast.copy_location(ast.Constant(value=0), node)
            return node
    body = [N().visit(b) for b in body]
    return "|".join(ast.dump(b) for b in body), consts


_dump, _consts = _hash_shape(os.path.join(REPO, "bitstring", "bits.py"))
# int literals in source order: T (threshold), 0 and A (first slice), B (len - B)
HASH_SHAPE_OK = (_dump is not None and hashlib.sha1(_dump.encode()).hexdigest() == PINNED_HASH_SHAPE
                 and len(_consts) == 4 and _consts[1] == 0 and all(0 <= c <= 10 ** 6 for c in _consts))
PARAMS = (_consts[0], _consts[2], _consts[3]) if HASH_SHAPE_OK else DEFAULT_PARAMS
T_, A_, B_ = PARAMS
RULE = ("cases = corpus + known-finding witnesses + exhaustive small domains + seeded random (harness/props/C13.py gen); distinct = distinct case "
        "lines; non-trivial = at least one operand non-empty. Bits.__hash__ shape %s; thresholds read from the source: T=%d A=%d B=%d%s"
        % ("as pinned" if HASH_SHAPE_OK else "CHANGED", T_, A_, B_,
           "" if HASH_SHAPE_OK else " (defaults; the captured-key tie is not compared, the oracle alone decides, generator escalated)"))

# ------------------------------------------------------------------------------------------------ building operands
_TMP = None
_FILES = []
_NFILE = [0]


def _tmpdir():
    global _TMP
    if _TMP is None:
        _TMP = tempfile.mkdtemp(prefix="verif-C13-")
        atexit.register(shutil.rmtree, _TMP, True)
    return _TMP


def _newfile(bits: str) -> str:
    assert len(bits) % 8 == 0 and bits
    _NFILE[0] += 1
    p = os.path.join(_tmpdir(), "f%d.bin" % _NFILE[0])
    with open(p, "wb") as f:
        f.write(int(bits, 2).to_bytes(len(bits) // 8, "big"))
    _FILES.append(p)
    return p


def _cleanup_files():
    while _FILES:
        try:
            os.unlink(_FILES.pop())
        except OSError:
            pass


def _junk(k: int) -> str:
    return ("1101001110" * (k // 10 + 1))[:k]


def _tobytes(bits: str) -> bytes:
    return int(bits, 2).to_bytes(len(bits) // 8, "big") if bits else b""


def _pad8(bits: str) -> str:
    return bits + _junk((-len(bits)) % 8)


def _inv(bits: str) -> str:
    return bits.translate({48: 49, 49: 48})


def parse_obj(s: str):
    f = s.split(",")
    return f[0], f[1], int(f[2]), unwire(f[3]), unwire(f[4]), int(f[5]) if len(f) > 5 else 0


def route_ok(route: str, n: int, cls: str = "Bits") -> bool:
    if route in ("hex", "autohex"):
        return n > 0 and n % 4 == 0
    if route in ("file", "filefull", "fileobj", "bytesio", "biow", "bio2", "bior"):
        return n > 0 and n % 8 == 0
    if route == "inv":
        return n > 0
    return True


def build(s: str):
    """Build the object in msb0 mode (the line's mode applies to the comparisons only)."""
    cls, route, pos, bits, tail, param = parse_obj(s)
    C, n = CLASSES[cls], len(bits)
    with options(lsb0=False):
        if route == "bin":
            x = mk(cls, bits)
        elif route == "auto":
            x = C("0b" + bits if bits else "")
        elif route == "cache":
            Bits("0b" + bits if bits else "")            # warm the string cache, then hit it
            x = C("0b" + bits if bits else "")
        elif route == "hex":
            x = C(hex=format(int(bits, 2), "0%dx" % (n // 4)))
        elif route == "autohex":
            x = C("0x" + format(int(bits, 2), "0%dx" % (n // 4)))
        elif route == "bytes":
            x = C(bytes=_tobytes(_pad8(_junk(param) + bits)), offset=param, length=n)
        elif route == "bytesio":
            x = C(io.BytesIO(_tobytes(bits)))
        elif route == "biow":                               # a BytesIO filled with write(): position at the end
            w = io.BytesIO()
            w.write(_tobytes(bits)[:param])
            w.write(_tobytes(bits)[param:])
            x = C(w)
        elif route == "bio2":                               # the second object built from one BytesIO
            w = io.BytesIO(_tobytes(bits))
            C(w)
            x = C(w)
        elif route == "bior":                               # a BytesIO from which a header was read before
            w = io.BytesIO(_tobytes(bits))
            w.read(1 + param % max(1, n // 8))
            x = C(w)
        elif route == "iter":
            x = C([int(c) for c in bits])
        elif route == "ba":
            x = C(bitarray.bitarray(bits))
        elif route == "bakw":
            x = C(bitarray=bitarray.bitarray(_junk(param) + bits + "101"), offset=param, length=n)
        elif route == "bale":
            x = C(bitarray.bitarray(bits, endian="little"))
        elif route == "slice":
            x = C(bin=_junk(param) + bits + "011")[param:param + n]
        elif route == "add":
            x = mk(cls, bits[:param]) + mk(cls, bits[param:])
        elif route == "copy":
            x = _copy.copy(mk(cls, bits))
        elif route == "conv":
            x = C(mk(CLASS_NAMES[param % 4], bits))
        elif route == "inv":
            x = ~mk(cls, _inv(bits))
        elif route in ("mappend", "mdel", "mset"):
            if cls not in MUTABLE:
                x = mk(cls, bits)
            elif route == "mappend":
                x = C()
                x.append(mk("Bits", bits[:param]))
                x.append("0b" + bits[param:] if bits[param:] else "")
            elif route == "mdel":
                x = C(bin=_junk(param) + bits + "01")
                del x[:param]
                del x[-2:]
            else:
                x = C(bin=_junk(n + 3))
                x[:] = mk("BitArray", bits)
        elif route == "file":
            x = C(filename=_newfile(bits))
        elif route == "filefull":
            x = C(filename=_newfile(bits), length=n)
        elif route == "filelen":
            x = C(filename=_newfile(bits + tail), length=n)
        elif route == "fileoff":
            x = C(filename=_newfile(_pad8(_junk(param) + bits)), offset=param, length=n)
        elif route == "fileoffn":
            x = C(filename=_newfile(_junk(param) + bits), offset=param)
        elif route == "fileobj":
            with open(_newfile(bits), "rb") as fh:
                x = C(fh)
        else:
            raise ValueError("route " + route)
        if pos and cls in ("ConstBitStream", "BitStream"):
            try:
                x.pos = pos
            except ValueError:              # the route produced a shorter object than asked for: the oracle will say so
                pass
    return x


class _Thing:
    pass


def _elem(tok: str):
    if tok == "T":
        return True
    if tok == "F":
        return False
    if tok == "N":
        return None
    if tok[0] == "i":
        return int(tok[1:])
    if tok[0] == "s":
        return tok[1:]
    if tok == "fz":
        return 0.0
    if tok == "fn":
        return 1.5
    if tok[0] == "L":
        return [0] * int(tok[1:])
    raise ValueError(tok)


def operand(kind: str, payload: str):
    """A factory: a fresh right-hand operand per evaluation (generators and file objects are consumed)."""
    p = payload
    hexb = lambda h: b"" if h == "-" else bytes.fromhex(h)
    if kind == "str":
        return lambda: p[1:]
    if kind == "bytes":
        return lambda: hexb(p)
    if kind == "bytearray":
        return lambda: bytearray(hexb(p))
    if kind == "memoryview":
        return lambda: memoryview(hexb(p))
    if kind == "bytesio":
        return lambda: io.BytesIO(hexb(p))
    if kind == "fileobj":
        path = _newfile("".join(format(b, "08b") for b in hexb(p)))
        return lambda: open(path, "rb")
    if kind == "array":
        tc, h = p.split(":")
        return lambda: array.array(tc, hexb(h))
    if kind == "bitarray":
        return lambda: bitarray.bitarray(unwire(p))
    if kind == "bitarrayle":
        return lambda: bitarray.bitarray(unwire(p), endian="little")
    if kind in ("list", "tuple", "gen"):
        toks = [] if p == "-" else p.split(",")
        if kind == "list":
            return lambda: [_elem(t) for t in toks]
        if kind == "tuple":
            return lambda: tuple(_elem(t) for t in toks)
        return lambda: (_elem(t) for t in toks)
    if kind == "range":
        a, b, c = map(int, p.split(":"))
        return lambda: range(a, b, c)
    if kind == "int":
        return lambda: int(p[1:])
    if kind == "bool":
        return lambda: p == "T"
    if kind == "float":
        return lambda: {"fz": 0.0, "fn": 1.5, "fN": float("nan"), "fi": float("inf")}[p]
    if kind == "none":
        return lambda: None
    if kind == "object":
        return lambda: object() if p == "-" else _Thing()
    if kind == "complex":
        return lambda: 1 + 2j
    if kind == "class":
        return lambda: int
    if kind == "func":
        return lambda: len
    raise ValueError(kind)


BIO_STATES = ["fresh", "write", "write2", "read1", "read3", "end", "seek0", "seekmid", "seekend", "used", "usedeq", "usedlen", "usedoff"]
FH_STATES = ["fresh", "read1", "read3", "end", "seekmid", "used"]


def stateful_operand(kind: str, state: str, payload: str):
    """ONE operand object in the given state; the documented promotion of each of these kinds takes its whole content."""
    hexb = lambda h: b"" if h == "-" else bytes.fromhex(h)
    if kind == "bytesio":
        data = hexb(payload)
        if state in ("write", "write2", "seek0"):
            x = io.BytesIO()
            if state == "write2":
                x.write(data[:len(data) // 2]); x.write(data[len(data) // 2:])
            else:
                x.write(data)
            if state == "seek0":
                x.seek(0)
            return x
        x = io.BytesIO(data)
        if state == "read1":
            x.read(1)
        elif state == "read3":
            x.read(3)
        elif state == "end":
            x.read()
        elif state == "seekmid":
            x.seek(len(data) // 2)
        elif state == "seekend":
            x.seek(0, 2)
        elif state == "used":
            Bits(x)
        elif state == "usedeq":
            Bits() == x                                     # noqa: B015
        elif state == "usedlen" and data:
            Bits(x, length=8 * len(data))
        elif state == "usedoff" and data:
            Bits(x, offset=3)
        return x
    if kind == "fileobj":
        data = hexb(payload)
        x = open(_newfile("".join(format(b, "08b") for b in data)), "rb")
        if state == "read1":
            x.read(1)
        elif state == "read3":
            x.read(3)
        elif state == "end":
            x.read()
        elif state == "seekmid":
            x.seek(len(data) // 2)
        elif state == "used":
            Bits(x)
        return x
    if kind == "mvslice":
        h, sl = payload.split(";")
        a, b, c = [None if v == "None" else int(v) for v in sl.split(":")]
        return memoryview(hexb(h))[a:b:c]
    return operand(kind, payload)()


def operand_bits(kind: str, payload: str) -> str:
    """Independent reference: the bits a promotable operand stands for, from its documented meaning."""
    p = payload
    if kind == "str":
        out = ""
        for tok in "".join(p[1:].split()).split(","):
            if not tok:
                continue
            pre, digits = tok[:2].lower(), tok[2:].replace("_", "")
            w = {"0b": 1, "0x": 4, "0o": 3}[pre]
            out += "".join(format(int(d, 2 ** w), "0%db" % w) for d in digits)
        return out
    if kind in ("bytes", "bytearray", "memoryview", "bytesio", "fileobj"):
        return "" if p == "-" else "".join(format(b, "08b") for b in bytes.fromhex(p))
    if kind == "array":
        h = p.split(":")[1]
        return "" if h == "-" else "".join(format(b, "08b") for b in bytes.fromhex(h))
    if kind in ("bitarray", "bitarrayle"):
        return unwire(p)
    if kind == "mvslice":
        h, sl = p.split(";")
        a, b, c = [None if v == "None" else int(v) for v in sl.split(":")]
        return "".join(format(v, "08b") for v in (b"" if h == "-" else bytes.fromhex(h))[a:b:c])
    if kind in ("list", "tuple", "gen"):
        return "" if p == "-" else "".join("1" if _elem(t) else "0" for t in p.split(","))
    if kind == "range":
        a, b, c = map(int, p.split(":"))
        return "".join("1" if i else "0" for i in range(a, b, c))
    raise ValueError(kind)


# ------------------------------------------------------------------------------------------------ execution
def _tf(thunk) -> str:
    try:
        v = thunk()
    except Exception:                                   # noqa: BLE001
        return "E"
    return "T" if v is True else ("F" if v is False else "X")


def _hash(x):
    """('h', value) | ('u', None) for TypeError | ('x', None) for anything else."""
    try:
        return "h", hash(x)
    except TypeError:
        return "u", None
    except Exception:                                   # noqa: BLE001
        return "x", None


def _hrel(eq: str, ha, hb) -> str:
    if eq == "T" and ha[0] == "h" and hb[0] == "h":
        return "=" if ha[1] == hb[1] else "!"
    return "-"


def _cross_mode(objs, lsb0) -> bool:
    """hash(x) is the same with options.lsb0 on and off, evaluated in both orders, for every hashable object."""
    for x in objs:
        with options(lsb0=lsb0):
            h1 = _hash(x)
        with options(lsb0=not lsb0):
            h2 = _hash(x)
        with options(lsb0=lsb0):
            h3 = _hash(x)
        with options(lsb0=not lsb0):
            h4 = _hash(x)
        if not (h1 == h2 == h3 == h4):
            return False
    return True


def _state(x):
    return (wire(x), getattr(x, "pos", None), type(x).__name__)


def execute(line: str):
    f = line.split(SEP)
    try:
        return _execute(f)
    finally:
        _cleanup_files()


def _execute(f):
    op, lsb0 = f[1], f[2] == "1"
    extra = {}
    if op in ("pair", "member", "triple"):
        objs = []
        for s in f[3:]:
            objs.append(objs[0] if s == "=" else build(s))
        before = [_state(x) for x in objs]
        with options(lsb0=lsb0):
            if op == "pair":
                a, b = objs
                r = [_tf(lambda: a == b), _tf(lambda: a != b), _tf(lambda: b == a), _tf(lambda: b != a)]
                ha, hb = _hash(a), _hash(b)
                out = "ok %s %s %s%s" % ("".join(r), _hrel(r[0], ha, hb), ha[0], hb[0])
                extra["again"] = "".join([_tf(lambda: a == b), _tf(lambda: a != b), _tf(lambda: b == a), _tf(lambda: b != a)])
                extra["hash_again"] = (_hash(a) == ha and _hash(b) == hb)
                extra["dunder"] = _tf(lambda: a.__eq__(b)) + _tf(lambda: a.__ne__(b))
            elif op == "triple":
                m = "".join(_tf(lambda x=x, y=y: x == y) for x in objs for y in objs)
                hs = [_hash(x) for x in objs]
                e = lambda i, j: m[3 * i + j]
                out = "ok %s %s%s%s" % (m, _hrel(e(0, 1), hs[0], hs[1]), _hrel(e(1, 2), hs[1], hs[2]), _hrel(e(0, 2), hs[0], hs[2]))
                extra["ne"] = "".join(_tf(lambda x=x, y=y: x != y) for x in objs for y in objs)
            else:
                a, b = objs
                L = _tf(lambda: b in [a])
                extra["tuple_in"] = _tf(lambda: b in (a,))
                try:
                    st = {a}
                    S = "T" if b in st else "F"
                    N = str(len({a, b}))
                    d = {a: 1}
                    extra["dict_get"] = "T" if d.get(b) == 1 else "F"
                    extra["dict_in"] = "T" if b in d else "F"
                    extra["frozenset"] = "T" if b in frozenset([a]) else "F"
                    extra["set_eq"] = "T" if ({a} == {b}) else "F"
                except TypeError:
                    S, N = "U", "U"
                out = "ok %s %s %s" % (L, S, N)
            if op == "member" and S in ("T", "F"):
                # a set / dict filled in one mode is searched in the other
                with options(lsb0=not lsb0):
                    extra["cross_mode_lookup"] = ("T" if b in st else "F") + ("T" if b in d else "F")
        extra["cross_mode"] = _cross_mode(objs, lsb0)
        extra["unchanged"] = [_state(x) for x in objs] == before
    elif op in ("prom", "nonprom"):
        a = build(f[3])
        before = _state(a)
        mkx = operand(f[4], f[5])

        def use(g):
            x = mkx()
            try:
                return g(x)
            finally:
                if hasattr(x, "close") and not isinstance(x, (io.BytesIO,)) and f[4] == "fileobj":
                    x.close()
        with options(lsb0=lsb0):
            r = [_tf(lambda: use(lambda x: a == x)), _tf(lambda: use(lambda x: a != x)),
                 _tf(lambda: use(lambda x: x == a)), _tf(lambda: use(lambda x: x != a))]
            out = "ok " + "".join(r)
            extra["again"] = _tf(lambda: use(lambda x: a == x)) + _tf(lambda: use(lambda x: a != x))
        extra["unchanged"] = _state(a) == before
    elif op == "promst":
        a = build(f[3])
        before = _state(a)
        order, kind, state, payload = f[4], f[5], f[6], f[7]
        x = stateful_operand(kind, state, payload)
        C = type(a)
        try:
            with options(lsb0=lsb0):
                forms = [lambda: a == x, lambda: a == x, lambda: a != x, lambda: a != x,
                         lambda: x == a, lambda: x == a, lambda: x != a, lambda: x != a]
                idx = list(range(8))
                if order == "1":
                    idx.reverse()
                res = [None] * 8
                for i in idx:
                    res[i] = _tf(forms[i])
                try:
                    b = C(x)
                    c = C(x)
                    r = mk(type(a).__name__, operand_bits(kind, payload))
                    built = _tf(lambda: b == r) + _tf(lambda: c == r) + _tf(lambda: b == c)
                    try:
                        built += ("T" if b in {r} else "F") + ("T" if c in {b} else "F")
                        extra["hash3"] = (hash(b) == hash(c) == hash(r))
                        extra["set3"] = len({r, b, c})
                    except TypeError:
                        built += "UU"
                    extra["lens"] = (len(b), len(c))
                except Exception as e:                      # noqa: BLE001
                    built = "E"
                    extra["build_error"] = repr(e)
                out = "ok %s %s" % ("".join(res), built)
                if kind in ("bytesio",):
                    extra["content_after"] = x.getvalue().hex() or "-"
                elif kind in ("bytes", "bytearray", "memoryview", "mvslice"):
                    extra["content_after"] = bytes(x).hex() or "-"
                elif kind in ("bitarray", "bitarrayle"):
                    extra["content_after"] = x.to01() or "-"
        finally:
            if hasattr(x, "close") and kind == "fileobj":
                x.close()
        extra["unchanged"] = _state(a) == before
    elif op == "hash":
        a = build(f[3])
        before = _state(a)
        ref = mk("Bits", unwire(f[3].split(",")[3]))       # the plainest object with the same bits
        import bitstring.bits as bb
        seen = []

        def spy(x):
            seen.append(x)
            return builtins.hash(x)
        with options(lsb0=lsb0):
            bb.hash = spy
            try:
                h = _hash(a)
            finally:
                del bb.hash
            if h[0] == "u":
                out = "err TypeError"
            elif h[0] == "x":
                out = "err"
            else:
                key = None
                ks = [k for k in seen if isinstance(k, tuple) and len(k) == 2 and isinstance(k[0], bytes)
                      and isinstance(k[1], int) and not isinstance(k[1], bool)]
                if len(ks) == 1 and len(seen) == 1 and hash(ks[0]) == h[1]:
                    key = ks[0]
                else:
                    # not called through a visible hash((bytes, int)): rebuild the key from the public API
                    try:
                        n = len(a)
                        with options(lsb0=False):
                            k2 = (a.tobytes(), n) if n <= T_ else ((a[:A_] + a[n - B_:]).tobytes(), n)
                        if hash(k2) == h[1]:
                            key = k2
                    except Exception:                   # noqa: BLE001
                        pass
                out = "ok ?" if key is None else "ok %s %d" % (key[0].hex() or "-", key[1])
                extra["hash_again"] = _hash(a) == h
                extra["hash_ref_equal"] = (_hash(ref)[1] == h[1])
                extra["eq_ref"] = _tf(lambda: a == ref) + _tf(lambda: ref == a)
                extra["in_set_of_ref"] = _tf(lambda: a in {ref})
                # the captured key under the other setting of options.lsb0, then under this one again
                keys = []
                for m in (not lsb0, lsb0, not lsb0):
                    seen2 = []
                    with options(lsb0=m):
                        bb.hash = lambda x, seen2=seen2: (seen2.append(x), builtins.hash(x))[1]
                        try:
                            hv = _hash(a)
                        finally:
                            del bb.hash
                    keys.append((hv, tuple(seen2)))
                extra["cross_mode"] = all(k[0] == h for k in keys) and len({k[1] for k in keys}) == 1
                extra["cross_mode_ref"] = _cross_mode([ref], lsb0)
        if out.startswith("ok") and "cross_mode" not in extra:
            extra["cross_mode"] = _cross_mode([a], lsb0)
        extra["unchanged"] = _state(a) == before
    else:
        raise ValueError(line)
    return out, extra


# ------------------------------------------------------------------------------------------------ model line / compare
def model_line(line: str) -> str:
    f = line.split(SEP)
    if f[1] == "hash" and not HASH_SHAPE_OK:
        f[1] = "hashu"
    for i in range(4, len(f)):
        if f[i] == "=":
            f[i] = f[3]
    return SEP.join(f[:3] + ["%d,%d,%d" % PARAMS] + f[3:])


def compare(out: str, mout: str, line: str) -> bool:
    if line.split(SEP)[1] == "hash" and not HASH_SHAPE_OK:
        # __hash__ was rewritten: only hashability is tied to the model; the oracle decides the rest
        return (out.startswith("ok") and mout == "ok h") or out == mout
    return out == mout


# ------------------------------------------------------------------------------------------------ oracle
HASHABLE = ("Bits", "ConstBitStream")


def oracle(line: str, out: str, extra: dict):
    """a == b  <=>  same bits (hence same length); != is the negation; == objects of the hashable classes hash alike;
    BitArray / BitStream are unhashable; nothing is changed by comparing or hashing."""
    f = line.split(SEP)
    op = f[1]
    tf = lambda c: "T" if c else "F"
    if extra.get("unchanged") is False:
        return "an operand (content, pos or class) changed during comparison / hashing"
    if extra.get("cross_mode") is False or extra.get("cross_mode_ref") is False:
        return "hash() of the same object differs between options.lsb0 on and off"
    if op in ("pair", "member", "triple"):
        specs = [f[3] if s == "=" else s for s in f[3:]]
        P = [parse_obj(s) for s in specs]
        cls, bits = [p[0] for p in P], [p[3] for p in P]
        hb = lambda i: cls[i] in HASHABLE
        if op == "pair":
            e = bits[0] == bits[1]
            exp4 = tf(e) + tf(not e) + tf(e) + tf(not e)
            H = "=" if (e and hb(0) and hb(1)) else "-"
            exp = "ok %s %s %s%s" % (exp4, H, "h" if hb(0) else "u", "h" if hb(1) else "u")
            if out != exp:
                return f"expected {exp} (equal exactly when the bits agree; equal hashable objects hash alike), got {out}"
            if extra.get("again") != exp4:
                return f"second evaluation gives {extra.get('again')} instead of {exp4}"
            if extra.get("dunder") != exp4[:2]:
                return f"a.__eq__(b), a.__ne__(b) give {extra.get('dunder')} instead of {exp4[:2]}"
            if extra.get("hash_again") is False:
                return "hash() of the same object gave two different results"
        elif op == "triple":
            m = "".join(tf(x == y) for x in bits for y in bits)
            rel = lambda i, j: "=" if (bits[i] == bits[j] and hb(i) and hb(j)) else "-"
            exp = "ok %s %s%s%s" % (m, rel(0, 1), rel(1, 2), rel(0, 2))
            if out != exp:
                return f"expected {exp} (== is equality of the bits: reflexive, symmetric, transitive), got {out}"
            nm = "".join(tf(x != y) for x in bits for y in bits)
            if extra.get("ne") != nm:
                return f"!= matrix {extra.get('ne')} is not the negation {nm}"
        else:
            e = bits[0] == bits[1]
            if hb(0) and hb(1):
                exp = "ok %s %s %s" % (tf(e), tf(e), "1" if e else "2")
            else:
                exp = "ok %s U U" % tf(e)
            if out != exp:
                return f"expected {exp} (membership in list/set/dict follows equality of the bits), got {out}"
            if extra.get("tuple_in") != tf(e):
                return "b in (a,) disagrees with equality of the bits"
            if hb(0) and hb(1):
                for k in ("dict_get", "dict_in", "frozenset", "set_eq"):
                    if extra.get(k) != tf(e):
                        return f"{k} gives {extra.get(k)}, expected {tf(e)}"
                if extra.get("cross_mode_lookup") != tf(e) * 2:
                    return f"lookup in a set/dict filled under the other lsb0 setting gives {extra.get('cross_mode_lookup')}, expected {tf(e) * 2}"
        return None
    if op == "promst":
        a = parse_obj(f[3])
        kind, payload = f[5], f[7]
        xbits = operand_bits(kind, payload)
        e = a[3] == xbits
        exp8 = tf(e) * 2 + tf(not e) * 2 + tf(e) * 2 + tf(not e) * 2
        expb = "TTT" + ("TT" if a[0] in HASHABLE else "UU")
        if out != "ok %s %s" % (exp8, expb):
            return (f"expected ok {exp8} {expb} (every evaluation against the same operand object sees its whole content, "
                    f"whatever its position / history; objects built from it equal that content), got {out}"
                    + (f" [{extra.get('build_error')}]" if extra.get("build_error") else ""))
        if a[0] in HASHABLE and (extra.get("hash3") is not True or extra.get("set3") != 1):
            return f"objects built from the same operand hash differently / form a set of {extra.get('set3')}"
        if extra.get("lens") not in (None, (len(xbits), len(xbits))):
            return f"objects built from the operand have lengths {extra.get('lens')}, content has {len(xbits)} bits"
        if "content_after" in extra:
            want = {"bitarray": wire(xbits), "bitarrayle": wire(xbits)}.get(kind)
            if want is None:
                want = (_tobytes(xbits).hex() or "-")
            if extra["content_after"] != want:
                return "the operand's content was changed by comparing with it / building from it"
        return None
    if op in ("prom", "nonprom"):
        a = parse_obj(f[3])
        if op == "prom":
            e = a[3] == operand_bits(f[4], f[5])
        else:
            e = False
        exp4 = tf(e) + tf(not e) + tf(e) + tf(not e)
        if out != "ok " + exp4:
            what = "the bits agree" if op == "prom" else "False for a non-promotable type"
            return f"expected ok {exp4} ({what}), got {out}"
        if extra.get("again") != exp4[:2]:
            return f"second evaluation gives {extra.get('again')} instead of {exp4[:2]}"
        return None
    if op == "hash":
        a = parse_obj(f[3])
        if a[0] not in HASHABLE:
            return None if out == "err TypeError" else f"hash() of a {a[0]} must raise TypeError, got {out}"
        if not out.startswith("ok"):
            return f"hash() of a {a[0]} failed: {out}"
        if extra.get("eq_ref") != "TT":
            return f"the object is not == a Bits with the same bits ({extra.get('eq_ref')})"
        if extra.get("hash_ref_equal") is not True:
            return "hash differs from the hash of an equal Bits object built from the same bits"
        if extra.get("hash_again") is False:
            return "hash() of the same object gave two different results"
        if extra.get("in_set_of_ref") != "T":
            return "the object is not found in a set holding an equal Bits object"
        return None
    return "unknown op"


def nontrivial(line: str) -> bool:
    f = line.split(SEP)
    if f[1] == "promst":
        return f[3].split(",")[3] != "-" or f[7] not in ("-", "")
    return any(s != "=" and s.count(",") >= 4 and s.split(",")[3] != "-" for s in f[3:])


REGIONS = {}            # no known finding: the two defects this check found first (file-backed length limit, little-endian bitarray source) were fixed

# ------------------------------------------------------------------------------------------------ generators
ROUTES = ["bin", "auto", "cache", "hex", "autohex", "bytes", "bytesio", "biow", "bio2", "bior", "iter", "ba", "bakw", "bale", "slice", "add", "copy", "conv",
          "inv", "mappend", "mdel", "mset", "file", "filefull", "filelen", "fileoff", "fileoffn", "fileobj"]
CHEAP_ROUTES = ["bin", "auto", "cache", "bytes", "iter", "ba", "bakw", "slice", "add", "copy", "conv", "inv", "hex", "bytesio", "bale", "biow", "bio2", "bior",
                "mappend", "mdel", "mset"]
FILE_ROUTES = ["file", "filefull", "filelen", "fileoff", "fileoffn", "fileobj"]


def obj(rng, cls, route, bits, pos=None):
    n = len(bits)
    if not route_ok(route, n, cls):
        route = "bin"
    tail, param = "", 0
    if route in ("bytes", "bakw", "slice", "biow", "bior"):
        param = rng.choice([0, 1, 3, 7, 8, 9, 13])
    elif route in ("add", "mappend"):
        param = rng.choice([0, n, n // 2, min(n, 1), max(0, n - 1), min(n, 8)])
    elif route == "mdel":
        param = rng.choice([0, 1, 7, 8, 9])
    elif route == "conv":
        param = rng.randrange(4)
    elif route == "filelen":
        k = (-n) % 8 or 8
        tail = _junk(k) if rng.random() < 0.7 else "0" * k
    elif route == "fileoff":
        param = rng.choice([1, 3, 7, 8, 9, 13])
    elif route == "fileoffn":
        param = ((-n) % 8) or 8
        if n == 0:
            param = 8
    if pos is None:
        pos = rng.choice([0, 0, n, n // 2, min(n, 1), min(n, 7), rng.randint(0, n)]) if cls in ("ConstBitStream", "BitStream") else 0
    return ",".join([cls, route, str(pos), wire(bits), wire(tail), str(param)])


def _flip(bits: str, p: int) -> str:
    return bits[:p] + ("1" if bits[p] == "0" else "0") + bits[p + 1:]


def near(rng, bits: str):
    """Contents that must compare unequal to `bits`, chosen to be easy to confuse with it."""
    n = len(bits)
    out = []
    if n:
        ps = {0, n - 1, n // 2, rng.randrange(n)}
        for q in (A_ - 1, A_, n - B_ - 1, n - B_, 7, 8, n - 8, n - 9):
            if 0 <= q < n:
                ps.add(q)
        for p in sorted(ps):
            out.append(_flip(bits, p))
        out.append(bits[:-1])
        out.append(bits[1:])
        out.append(bits[::-1] if bits[::-1] != bits else _flip(bits, 0))
    out.append(bits + "0")                       # same bytes after zero padding, different length
    out.append(bits + "0" * ((-n) % 8 or 8))
    out.append("0" + bits)
    out.append(bits + "1")
    return [b for b in out if b != bits]


def content(rng, n: int) -> str:
    r = rng.random()
    if n and r < 0.15:
        # ends in zeros: tobytes() alone cannot tell the length
        k = rng.randint(1, min(n, 9))
        return rand_bits(rng, n - k) + "0" * k
    return rand_bits(rng, n)


SMALL = list(range(0, 18)) + [23, 24, 25, 31, 32, 33, 63, 64, 65]


def big_lengths():
    s = {T_ - 1, T_, T_ + 1, T_ + A_ - 1, T_ + A_, T_ + A_ + 1, T_ + A_ + B_ - 1, T_ + A_ + B_, T_ + A_ + B_ + 1,
         A_ + B_ - 1, A_ + B_, A_ + B_ + 1, A_, A_ + 1, 5000, 1999, 2000, 2001, 2799, 2800, 2801, 3599, 3600, 3601, 2048, 4096}
    return sorted(x for x in s if 0 < x <= 6000)


def gen(rng, tier: str):
    thorough = tier != "quick"
    escalate = thorough or not HASH_SHAPE_OK
    L = lambda *a: SEP.join(["C13"] + list(a))
    lsb = lambda: "1" if rng.random() < 0.3 else "0"
    anyroute = lambda: rng.choice(ROUTES) if rng.random() < 0.35 else rng.choice(CHEAP_ROUTES)
    anycls = lambda: rng.choice(CLASS_NAMES)
    hcls = lambda: rng.choice(HASHABLE) if rng.random() < 0.8 else rng.choice(CLASS_NAMES)

    # 1. every route x every class against the plainest object, equal and nearly equal, small lengths incl. 0, 1, 7, 8, 9, 16
    for n in [0, 1, 7, 8, 9, 16, 24]:
        bits = content(rng, n)
        for route in ROUTES:
            for cls in CLASS_NAMES:
                o = obj(rng, cls, route, bits)
                yield L("pair", lsb(), o, obj(rng, anycls(), "bin", bits))
                yield L("hash", lsb(), o)
                nb = rng.choice(near(rng, bits))
                yield L("pair", lsb(), o, obj(rng, hcls(), anyroute(), nb))
                yield L("member", lsb(), o, obj(rng, hcls(), anyroute(), bits if rng.random() < 0.6 else nb))
    # 2. route x route, hashable classes, equal content
    for n in [8, 16, 9] + ([24, 40, 13] if thorough else []):
        bits = content(rng, n)
        for r1 in ROUTES:
            for r2 in ROUTES:
                yield L("pair", lsb(), obj(rng, hcls(), r1, bits), obj(rng, hcls(), r2, bits))
    # 3. the same object on both sides; class x class x pos
    for n in [0, 1, 8, 13]:
        bits = content(rng, n)
        for c1 in CLASS_NAMES:
            yield L("pair", lsb(), obj(rng, c1, anyroute(), bits), "=")
            yield L("member", lsb(), obj(rng, c1, anyroute(), bits), "=")
            for c2 in CLASS_NAMES:
                for p1 in sorted({0, n // 2, n}):
                    for p2 in sorted({0, n}):
                        yield L("pair", lsb(), obj(rng, c1, "bin", bits, p1), obj(rng, c2, anyroute(), bits, p2))
    # 4. small random pairs / triples / membership
    N = 120000 if thorough else 14000
    for _ in range(N):
        n = rng.choice(SMALL)
        bits = content(rng, n)
        r = rng.random()
        other = bits if r < 0.5 else (rng.choice(near(rng, bits)) if r < 0.9 else content(rng, rng.choice(SMALL)))
        k = rng.random()
        if k < 0.55:
            yield L("pair", lsb(), obj(rng, anycls(), anyroute(), bits), obj(rng, anycls(), anyroute(), other))
        elif k < 0.75:
            third = rng.choice([bits, other, rng.choice(near(rng, other))])
            yield L("triple", lsb(), obj(rng, anycls(), anyroute(), bits), obj(rng, anycls(), anyroute(), other),
                    obj(rng, anycls(), anyroute(), third))
        elif k < 0.9:
            yield L("member", lsb(), obj(rng, hcls(), anyroute(), bits), obj(rng, hcls(), anyroute(), other))
        else:
            yield L("hash", lsb(), obj(rng, anycls(), anyroute(), bits))
    # 5. promotable right-hand operands
    yield from gen_prom(rng, 40000 if thorough else 7000)
    # 5b. right-hand operands with hidden state, the same object evaluated repeatedly and then used as an initialiser
    yield from gen_promst(rng, 12000 if thorough else 2200)
    # 6. non-promotable right-hand operands: every kind x class x a few contents
    NON = [("int", "i5"), ("int", "i0"), ("int", "i1"), ("int", "i-3"), ("bool", "T"), ("bool", "F"), ("float", "fz"), ("float", "fn"),
           ("float", "fN"), ("float", "fi"), ("none", "-"), ("object", "-"), ("object", "thing"), ("complex", "-"), ("class", "-"), ("func", "-")]
    for kind, p in NON:
        for cls in CLASS_NAMES:
            for bits in ["", "0", "1", "101", "00000101", "0" * 5, content(rng, rng.choice(SMALL))]:
                yield L("nonprom", lsb(), obj(rng, cls, anyroute(), bits), kind, p)
    # 7. long objects: the hash thresholds
    reps = (8 if thorough else 2) * (2 if escalate and not thorough else 1)
    for n in big_lengths():
        for _ in range(reps):
            bits = content(rng, n)
            routes = rng.sample(ROUTES, 9 if not thorough else 14)
            for route in routes:
                yield L("pair", lsb(), obj(rng, hcls(), route, bits), obj(rng, hcls(), anyroute(), bits))
            for route in rng.sample(ROUTES, 5):
                yield L("hash", lsb(), obj(rng, hcls(), route, bits))
            yield L("hash", lsb(), obj(rng, rng.choice(MUTABLE), anyroute(), bits))
            nears = near(rng, bits)
            for nb in rng.sample(nears, min(len(nears), 8)):
                yield L("pair", lsb(), obj(rng, hcls(), anyroute(), bits), obj(rng, hcls(), anyroute(), nb))
            for nb in rng.sample(nears, 3):
                yield L("member", lsb(), obj(rng, rng.choice(HASHABLE), anyroute(), bits), obj(rng, rng.choice(HASHABLE), anyroute(), nb))
            for _k in range(3):
                yield L("member", lsb(), obj(rng, rng.choice(HASHABLE), anyroute(), bits), obj(rng, rng.choice(HASHABLE), anyroute(), bits))
            yield L("triple", lsb(), obj(rng, hcls(), anyroute(), bits), obj(rng, hcls(), anyroute(), bits),
                    obj(rng, hcls(), anyroute(), rng.choice([bits, rng.choice(nears)])))
            if n % 8 == 0:
                yield L("prom", lsb(), obj(rng, anycls(), anyroute(), bits), "bytes", _tobytes(bits).hex())
            yield L("prom", lsb(), obj(rng, anycls(), anyroute(), bits), "str", '"0b' + rng.choice([bits, rng.choice(nears)]))
            yield L("prom", lsb(), obj(rng, anycls(), anyroute(), bits), "bitarray", wire(rng.choice([bits, rng.choice(nears)])))
    # 8. long random lengths
    for _ in range(4000 if thorough else 150):
        n = rng.randint(T_ - 50, T_ + A_ + B_ + 200) if rng.random() < 0.8 else rng.randint(1000, 6000)
        n = max(1, n)
        bits = content(rng, n)
        other = bits if rng.random() < 0.6 else rng.choice(near(rng, bits))
        yield L("pair", lsb(), obj(rng, hcls(), anyroute(), bits), obj(rng, hcls(), anyroute(), other))
        yield L("hash", lsb(), obj(rng, hcls(), anyroute(), bits))


def _lit(rng, bits: str) -> str:
    """A token string (within the modelled sub-language) whose value is `bits`."""
    if not bits:
        return rng.choice(["", " ", ",", ", ,"])
    parts, i, n = [], 0, len(bits)
    while i < n:
        k = rng.choice([n - i, n - i, rng.randint(1, n - i)])
        chunk = bits[i:i + k]
        forms = ["b"]
        if k % 4 == 0:
            forms += ["x", "x", "X"]
        if k % 3 == 0:
            forms += ["o"]
        fm = rng.choice(forms)
        if fm == "b":
            d = chunk
            if rng.random() < 0.15 and len(d) > 2:
                d = d[:1] + "_" + d[1:]
            parts.append(rng.choice(["0b", "0b", "0B"]) + d)
        elif fm in ("x", "X"):
            d = format(int(chunk, 2), "0%dx" % (k // 4))
            if rng.random() < 0.4:
                d = d.upper()
            parts.append(("0x" if fm == "x" else "0X") + d)
        else:
            parts.append(rng.choice(["0o", "0O"]) + format(int(chunk, 2), "0%do" % (k // 3)))
        i += k
    sep = rng.choice([",", ", ", " , ", ",,"])
    s = sep.join(parts)
    if rng.random() < 0.1:
        s = " " + s + " "
    return s


def _elems(rng, bits: str) -> str:
    toks = []
    for c in bits:
        toks.append(rng.choice(["i1", "i5", "i-1", "T", "sx", "s0", "fn", "L1", "L3", "i255"]) if c == "1"
                    else rng.choice(["i0", "F", "N", "s", "fz", "L0", "i0"]))
    return ",".join(toks) if toks else "-"


def gen_prom(rng, N):
    L = lambda *a: SEP.join(["C13"] + list(a))
    lsb = lambda: "1" if rng.random() < 0.3 else "0"
    KINDS = ["str", "str", "bytes", "bytearray", "memoryview", "bytesio", "fileobj", "array", "bitarray", "bitarrayle",
             "list", "tuple", "gen", "range"]
    for i in range(N):
        kind = KINDS[i % len(KINDS)]
        cls = rng.choice(CLASS_NAMES)
        byteish = kind in ("bytes", "bytearray", "memoryview", "bytesio", "fileobj", "array")
        if kind == "range":
            a, c = rng.randint(-4, 3), rng.choice([1, 1, 2, -1, 3])
            b = a + c * rng.randint(0, 9)
            xbits = "".join("1" if v else "0" for v in range(a, b, c))
            payload = "%d:%d:%d" % (a, b, c)
        else:
            n = rng.choice([0, 8, 16, 24, 64]) if byteish else rng.choice(SMALL)
            if kind == "fileobj" and n == 0:
                n = 8
            xbits = content(rng, n)
            if byteish:
                h = _tobytes(xbits).hex() or "-"
                payload = (rng.choice(["B", "b"] + (["H", "h"] if n % 16 == 0 else []) + (["I", "f"] if n % 32 == 0 else []) +
                                      (["d", "q"] if n % 64 == 0 else [])) + ":" + h) if kind == "array" else h
            elif kind == "str":
                payload = '"' + _lit(rng, xbits)
            elif kind in ("bitarray", "bitarrayle"):
                payload = wire(xbits)
            else:
                payload = _elems(rng, xbits)
        r = rng.random()
        abits = xbits if r < 0.55 else (rng.choice(near(rng, xbits)) if r < 0.9 else content(rng, rng.choice(SMALL)))
        route = rng.choice(ROUTES) if rng.random() < 0.35 else rng.choice(CHEAP_ROUTES)
        yield L("prom", lsb(), obj(rng, cls, route, abits), kind, payload)


def gen_promst(rng, N):
    L = lambda *a: SEP.join(["C13"] + list(a))
    lsb = lambda: "1" if rng.random() < 0.3 else "0"

    def lefts(xbits, skip_bytes):
        """left-hand contents: the whole content, what a position-dependent promotion would see, nothing, near misses"""
        out = [xbits, xbits, xbits, xbits[8 * skip_bytes:], "", xbits[:len(xbits) // 2]]
        out.append(rng.choice(near(rng, xbits)))
        return out
    # exhaustive: every state x class x order for two payloads (one beyond the hash threshold)
    payloads = [bytes([0x8f, 0x00, 0x31, 0xfe, 0x07]), bytes(range(200, 256)) + bytes(range(0, 200))]
    for data in payloads:
        xbits = "".join(format(b, "08b") for b in data)
        for kind, states in (("bytesio", BIO_STATES), ("fileobj", FH_STATES)):
            for state in states:
                for cls in CLASS_NAMES:
                    for order in "01":
                        for abits in (xbits, xbits[24:], ""):
                            yield L("promst", lsb(), obj(rng, cls, "bin", abits), order, kind, state, data.hex())
    # random
    for i in range(N):
        r = i % 10
        cls = rng.choice(CLASS_NAMES)
        order = rng.choice("01")
        if r < 5:
            kind, state = "bytesio", rng.choice(BIO_STATES)
        elif r < 7:
            kind, state = "fileobj", rng.choice(FH_STATES)
        elif r < 8:
            kind, state = "mvslice", "-"
        else:
            kind, state = rng.choice(["bytes", "bytearray", "memoryview", "array", "bitarray", "bitarrayle", "list", "tuple", "range", "str"]), "same"
        if kind in ("bytesio", "fileobj"):
            nb = rng.choice([0, 1, 2, 3, 4, 5, 8, 9, 16]) if kind == "bytesio" else rng.choice([1, 2, 3, 4, 5, 8, 9, 16])
            data = bytes(rng.getrandbits(8) for _ in range(nb))
            xbits = "".join(format(b, "08b") for b in data)
            payload = data.hex() or "-"
            skip = {"read1": 1, "read3": 3, "seekmid": nb // 2}.get(state, nb)
            abits = rng.choice(lefts(xbits, min(skip, nb)))
        elif kind == "mvslice":
            nb = rng.choice([0, 1, 4, 7, 8, 12])
            data = bytes(rng.getrandbits(8) for _ in range(nb))
            a = rng.choice([None, 0, 1, 2, -3, nb])
            b = rng.choice([None, nb, nb - 1, -1, 3])
            c = rng.choice([None, 1, 2, -1, 3, -2])
            sv = lambda v: "None" if v is None else str(v)
            payload = (data.hex() or "-") + ";" + ":".join([sv(a), sv(b), sv(c)])
            xbits = operand_bits(kind, payload)
            abits = rng.choice([xbits, xbits, "".join(format(v, "08b") for v in data), rng.choice(near(rng, xbits))])
        else:
            n = rng.choice([0, 8, 16, 24]) if kind in ("bytes", "bytearray", "memoryview", "array") else rng.choice(SMALL)
            xbits = content(rng, n)
            if kind in ("bytes", "bytearray", "memoryview"):
                payload = _tobytes(xbits).hex() or "-"
            elif kind == "array":
                payload = "B:" + (_tobytes(xbits).hex() or "-")
            elif kind in ("bitarray", "bitarrayle"):
                payload = wire(xbits)
            elif kind == "str":
                payload = '"' + _lit(rng, xbits)
            elif kind == "range":
                a, c = rng.randint(-4, 3), rng.choice([1, 2, -1])
                b = a + c * rng.randint(0, 9)
                payload = "%d:%d:%d" % (a, b, c)
                xbits = operand_bits(kind, payload)
            else:
                payload = _elems(rng, xbits)
            abits = rng.choice([xbits, xbits, rng.choice(near(rng, xbits))])
        route = rng.choice(CHEAP_ROUTES)
        yield L("promst", lsb(), obj(rng, cls, route, abits), order, kind, state, payload)
