"""C01 — every bitstring behaves as the Python sequence of its bits.

lines:
  C01 slice <cls> <bits> <start> <stop> <step>   -> ok <Class> <bits> | err ValueError
  C01 index <cls> <bits> <i>                     -> ok True|False | err IndexError
  C01 seq   <cls> <bits>                         -> ok <len> <bool> <iterated bits>
  C01 add   <clsA> <a> <clsB> <b>                -> ok <Class> <bits>      (bitstring + bitstring)
  C01 addp  <clsA> <a> <kind> <b>                -> ok <Class> <bits>      (bitstring + promotable)
  C01 radd  <clsA> <a> <kind> <b>                -> ok <Class> <bits>      (promotable + bitstring)
  C01 mul   <cls> <bits> <n> [r]                 -> ok <Class> <bits> | err ValueError   (r = reflected n * s)
"""
from harness.common import *
import itertools

FUNCTIONAL = True
LEVEL_TEXT = ("Lean theorems: the transcription of CPython slice.indices/range/list indexing used by the model is the list meaning "
              "for every (start, stop, step) and length (in-range indices, length, k-th element, [::-1] = reverse, l[:k]+l[k:] = l, "
              "IndexError iff out of range); the code's __add__ (copy the longer operand) computes ++ with the left class, the "
              "doubling loop of _imul computes n copies for every n >= 1. Correspondence: 4 classes x lengths 0..10 x all index "
              "triples in [-(n+2), n+2] + boundary lengths, class pairs, promotable operands, repeat counts.")
LEVEL_NOTE = ("Trusted: Lean kernel (+propext, Classical.choice, Quot.sound); bitarray's C slicing is assumed to implement Python "
              "slice semantics (checked against str slicing by the oracle on every case); correspondence harness.")
TECHNIQUE = "Lean 4 proof (slice arithmetic, loop invariant) + exhaustive small-domain correspondence"


def _opt(s):
    return None if s == "None" else int(s)


def _prom(kind, bits):
    if kind == "str":
        return ("0b" + bits) if bits else ""
    if kind == "list":
        return [int(c) for c in bits]
    if kind == "tuple":
        return tuple(c == "1" for c in bits)
    if kind in ("listx", "gen", "iter", "map"):
        # items that are only truthy / falsy (an iterable is promoted item by item with bool()); gen / iter / map are one-shot
        t, f_ = [1, 2, -1, "x", 7.5, True], [0, "", None, 0.0, False, ()]
        items = [(t if c == "1" else f_)[(i + len(bits)) % 6] for i, c in enumerate(bits)]
        if kind == "listx":
            return items
        if kind == "gen":
            return (x for x in items)
        if kind == "iter":
            return iter(items)
        return map(lambda x: x, items)
    if kind == "bitarray":
        return bitarray.bitarray(bits)
    if kind == "bytes":
        assert len(bits) % 8 == 0
        return int(bits, 2).to_bytes(len(bits) // 8, "big") if bits else b""
    raise ValueError(kind)


def _obj(r):
    return f"{type(r).__name__} {wire(r)}"


def execute(line):
    f = line.split(SEP)
    op, extra = f[1], {}
    if op == "slice":
        s = mk(f[2], unwire(f[3]))
        key = slice(_opt(f[4]), _opt(f[5]), _opt(f[6]))
        out = guarded(lambda: s[key], _obj)
        extra["self_after"] = wire(s)
    elif op == "index":
        s = mk(f[2], unwire(f[3]))
        out = guarded(lambda: s[int(f[4])], lambda v: "True" if v is True else ("False" if v is False else repr(v)))
    elif op == "seq":
        s = mk(f[2], unwire(f[3]))
        out = guarded(lambda: (len(s), bool(s), "".join("1" if b else "0" for b in s)),
                      lambda r: f"{r[0]} {r[1]} {r[2] or '-'}")
        extra["iter_types"] = sorted({type(b).__name__ for b in s})
    elif op == "add":
        a, b = mk(f[2], unwire(f[3])), mk(f[4], unwire(f[5]))
        out = guarded(lambda: a + b, _obj)
        extra["a_after"], extra["b_after"] = wire(a), wire(b)
        # concatenation joins the stored sequences: the same expression under lsb0 gives the same object
        with options(lsb0=True):
            extra["under_lsb0"] = guarded(lambda: mk(f[2], unwire(f[3])) + mk(f[4], unwire(f[5])), _obj)
    elif op == "addp":
        a, b = mk(f[2], unwire(f[3])), _prom(f[4], unwire(f[5]))
        out = guarded(lambda: a + b, _obj)
        extra["a_after"] = wire(a)
        # the content depends only on the operands' bits: the same expression again gives the same result
        extra["again"] = guarded(lambda: mk(f[2], unwire(f[3])) + _prom(f[4], unwire(f[5])), _obj)
        extra["b_reparsed"] = guarded(lambda: Bits(_prom(f[4], unwire(f[5]))), wire)
    elif op == "radd":
        a, b = mk(f[2], unwire(f[3])), _prom(f[4], unwire(f[5]))
        out = guarded(lambda: b + a, _obj)
        extra["a_after"] = wire(a)
        extra["again"] = guarded(lambda: _prom(f[4], unwire(f[5])) + mk(f[2], unwire(f[3])), _obj)
        extra["b_reparsed"] = guarded(lambda: Bits(_prom(f[4], unwire(f[5]))), wire)
    elif op == "mul":
        s, n = mk(f[2], unwire(f[3])), int(f[4])
        refl = len(f) > 5 and f[5] == "r"
        out = guarded(lambda: (n * s) if refl else (s * n), _obj)
        extra["self_after"] = wire(s)
    else:
        raise ValueError(line)
    return out, extra


def oracle(line, out, extra):
    """The same operation on the str of bits, in CPython."""
    f = line.split(SEP)
    op = f[1]
    if op == "slice":
        bits = unwire(f[3])
        st = _opt(f[6])
        exp = "err ValueError" if st == 0 else f"ok {f[2]} {wire(bits[slice(_opt(f[4]), _opt(f[5]), st)])}"
    elif op == "index":
        bits, i = unwire(f[3]), int(f[4])
        try:
            exp = "ok " + ("True" if bits[i] == "1" else "False")
        except IndexError:
            exp = "err IndexError"
    elif op == "seq":
        bits = unwire(f[3])
        exp = f"ok {len(bits)} {bool(bits)} {bits or '-'}"
        if extra.get("iter_types") not in ([], ["bool"]):
            return f"iteration yields {extra['iter_types']}, not bool"
    elif op == "add":
        exp = f"ok {f[2]} {wire(unwire(f[3]) + unwire(f[5]))}"
    elif op == "addp":
        exp = f"ok {f[2]} {wire(unwire(f[3]) + unwire(f[5]))}"
    elif op == "radd":
        exp = f"ok {f[2]} {wire(unwire(f[5]) + unwire(f[3]))}"
    elif op == "mul":
        n = int(f[4])
        exp = "err ValueError" if n < 0 else f"ok {f[2]} {wire(unwire(f[3]) * n)}"
    else:
        return "unknown op"
    if out != exp:
        return f"expected {exp} (str semantics), got {out}"
    for k in ("self_after", "a_after"):
        if k in extra and extra[k] != f[3]:
            return f"operand changed: {f[3]} -> {extra[k]}"
    if "under_lsb0" in extra and extra["under_lsb0"] != exp:
        return f"the same concatenation under lsb0 gives {extra['under_lsb0']} instead of {exp}"
    if "again" in extra and extra["again"] != exp:
        return f"evaluating the same expression again gives {extra['again']} instead of {exp}"
    if "b_reparsed" in extra and extra["b_reparsed"] != "ok " + f[5]:
        return f"the promotable operand now converts to {extra['b_reparsed']} instead of {f[5]}"
    if "b_after" in extra and extra["b_after"] != f[5]:
        return f"right operand changed: {f[5]} -> {extra['b_after']}"
    return None


def nontrivial(line):
    return line.split(SEP)[3] != "-"


def _pat(n):
    # a pattern in which positions are distinguishable for short lengths
    base = "1101000101100111010"
    return (base * (n // len(base) + 1))[:n]


def gen(rng, tier):
    big = tier != "quick"
    L = 10 if big else 8
    sv = lambda x: "None" if x is None else str(x)
    for n in range(0, L + 1):
        contents = [_pat(n), rand_bits(rng, n)] if n else [""]
        rngvals = [None] + list(range(-(n + 2), n + 3))
        steps = [None, 1, -1, 2, -2, 3, -3, n + 1, -(n + 1), 0] if not big else [None, 0] + [x for x in range(-(n + 2), n + 3) if x]
        for bits in contents:
            for cls in CLASS_NAMES:
                if cls != "Bits" and bits is not contents[0]:
                    continue
                for a in rngvals:
                    for b in rngvals:
                        for c in steps:
                            if cls != "Bits" and rng.random() < 0.75:
                                continue
                            yield SEP.join(["C01", "slice", cls, wire(bits), sv(a), sv(b), sv(c)])
                for i in range(-(n + 3), n + 4):
                    yield SEP.join(["C01", "index", cls, wire(bits), str(i)])
                yield SEP.join(["C01", "seq", cls, wire(bits)])
    # boundary lengths, random triples
    for n in [63, 64, 65, 127, 128, 129, 1023, 1024, 1025] + ([2047, 2048, 2049, 8191, 8192, 8193] if big else []):
        bits = rand_bits(rng, n)
        for _ in range(60 if big else 12):
            cls = rng.choice(CLASS_NAMES)
            pick = lambda: rng.choice([None, 0, 1, -1, n, -n, n - 1, n + 1, -n - 1, 7, 8, 9, -8, rng.randint(-n - 2, n + 2)])
            st = rng.choice([None, 1, -1, 2, -2, 3, -3, 7, 8, -8, 64, -64, n, -n, rng.randint(1, n), -rng.randint(1, n)])
            yield SEP.join(["C01", "slice", cls, wire(bits), sv(pick()), sv(pick()), sv(st)])
            yield SEP.join(["C01", "index", cls, wire(bits), str(rng.choice([0, -1, n - 1, n, -n, -n - 1, rng.randint(-n, n - 1)]))])
        yield SEP.join(["C01", "seq", rng.choice(CLASS_NAMES), wire(bits)])
    # iteration / len / bool at block-size lengths (a blockwise iterator shows only at exact multiples of its block)
    for n in [256, 512, 1024, 2048, 4095, 4096, 4097, 8192, 12288] + ([16384, 65536] if big else []):
        for cls in (CLASS_NAMES if n in (4096, 8192) else [rng.choice(CLASS_NAMES)]):
            yield SEP.join(["C01", "seq", cls, wire(rand_bits(rng, n))])
    # concatenation: class pairs x relative lengths
    for ca in CLASS_NAMES:
        for cb in CLASS_NAMES:
            for (la, lb) in [(0, 0), (0, 3), (3, 0), (1, 3), (3, 1), (3, 3), (8, 9), (9, 8), (64, 65), (65, 64), (5, 1030)]:
                yield SEP.join(["C01", "add", ca, wire(rand_bits(rng, la)), cb, wire(rand_bits(rng, lb))])
        for kind in ("str", "list", "tuple", "bitarray", "bytes", "listx", "gen", "iter", "map"):
            for (la, lb) in [(0, 0), (0, 8), (8, 0), (3, 8), (8, 16), (24, 8), (7, 16), (65, 8)]:
                if kind != "bytes" and rng.random() < 0.5:
                    lb = rng.choice([0, 1, 3, 9, 17])
                a, b = rand_bits(rng, la), rand_bits(rng, lb)
                yield SEP.join(["C01", "addp", ca, wire(a), kind, wire(b)])
                yield SEP.join(["C01", "radd", ca, wire(a), kind, wire(b)])
    for _ in range(4000 if big else 400):
        la, lb = rng.choice(BOUNDARY_LENGTHS), rng.choice(BOUNDARY_LENGTHS)
        yield SEP.join(["C01", "add", rng.choice(CLASS_NAMES), wire(rand_bits(rng, la)), rng.choice(CLASS_NAMES), wire(rand_bits(rng, lb))])
    # repetition
    for cls in CLASS_NAMES:
        for n in [0, 1, 2, 3, 5, 8, 13]:
            bits = rand_bits(rng, n)
            for k in list(range(-2, 18)) + [31, 32, 33, 64, 100]:
                yield SEP.join(["C01", "mul", cls, wire(bits), str(k)] + (["r"] if rng.random() < 0.3 else []))
    # results far beyond any internal block / doubling threshold (64 Kibit … 1 Mibit)
    for (n, k) in [(1, 70000), (1, 200000), (8, 50001), (13, 30001), (65, 4001), (1024, 300), (3, 350000)]:
        cls = rng.choice(CLASS_NAMES)
        yield SEP.join(["C01", "mul", cls, wire(rand_bits(rng, n)), str(k)] + (["r"] if rng.random() < 0.5 else []))
    for _ in range(1000 if big else 60):
        n = rng.choice([1, 7, 8, 9, 63, 64, 65])
        yield SEP.join(["C01", "mul", rng.choice(CLASS_NAMES), wire(rand_bits(rng, n)), str(rng.randint(0, 70))])
