"""Extractor for the struct-code tables (GENERATED layer of C18; DESIGN.md §3A item 1/2).

    extract(repo_path) -> dict     read the tables from the working-tree package (imports `bitstring` from repo_path)
    write(gen_dir, data) -> list   write lean/BitstringModel/Gen/StructTables.lean (write-if-changed); returns changed files

What is read (bitstring/utils.py, bitstring/__init__.py):
  REPLACEMENTS_BE / _LE / _NE    code -> dtype token, split with the library's own parse_name_length_token into
                                 (dtype name, bit length)               -> List (Char × String × Nat)
  PACK_CODE_SIZE                 code -> bytes                          -> List (Char × Nat)
  byteorder                      bitstring.byteorder, and sys.byteorder of the interpreter that ran the extraction
  neAliases                      the definition each of uintne/intne/floatne/bfloatne resolves to in dtype_register
  definitionOf                   name -> DtypeDefinition.name for the integer/float dtype names and every name in the tables
  singleToken                    the complete graph of parse_single_struct_token over endianness chars × code alphabet
  codeAlphabet / endianAlphabet  the characters SINGLE_STRUCT_PACK_RE / STRUCT_PACK_RE / BYTESWAP_STRUCT_PACK_RE accept,
                                 found by evaluating the regexes on every printable ASCII character
Nothing here interprets the tables: the theorems in Props/C18.lean compare them with `structSpec`, which is written
from the documentation of Python's `struct` module.

Run standalone:  /venv/bin/python harness/extract_C18.py   (prints the JSON list of changed files)
"""
from __future__ import annotations
import os, sys, json

VERIF = os.path.dirname(os.path.dirname(os.path.abspath(__file__)))
GEN_DIR = os.path.join(VERIF, "lean", "BitstringModel", "Gen")
FILE = "StructTables.lean"
ASCII = [chr(i) for i in range(33, 127)]


def _split(utils, token):
    """(name, length) of a replacement token, as the library itself splits it; length None -> 0."""
    try:
        name, length = utils.parse_name_length_token(token)
    except Exception:                                   # noqa: BLE001 - an unparsable entry is recorded as such
        return ("?" + str(token), 0)
    return (str(name), 0 if length is None else int(length))


def extract(repo_path: str) -> dict:
    if repo_path not in sys.path:
        sys.path.insert(0, repo_path)
    import bitstring
    from bitstring import utils
    from bitstring.dtypes import dtype_register
    got = os.path.realpath(os.path.dirname(os.path.dirname(bitstring.__file__)))
    if got != os.path.realpath(repo_path):
        raise RuntimeError("extract_C18: bitstring imported from %s, expected %s" % (got, repo_path))
    data: dict = {}
    for key, attr in (("replacementsBE", "REPLACEMENTS_BE"), ("replacementsLE", "REPLACEMENTS_LE"),
                      ("replacementsNE", "REPLACEMENTS_NE")):
        d = getattr(utils, attr, {})
        data[key] = [(str(c),) + _split(utils, v) for c, v in d.items() if isinstance(c, str) and len(c) == 1]
    pcs = getattr(utils, "PACK_CODE_SIZE", {})
    data["packCodeSize"] = [(str(c), int(v)) for c, v in pcs.items()
                            if isinstance(c, str) and len(c) == 1 and isinstance(v, int) and v >= 0]
    data["byteorder"] = str(getattr(bitstring, "byteorder", "?"))
    data["sysByteorder"] = sys.byteorder
    al = []
    for alias in ("uintne", "intne", "floatne", "bfloatne"):
        try:
            al.append((alias, str(dtype_register.names[alias].name)))
        except Exception:                               # noqa: BLE001
            al.append((alias, "?"))
    data["neAliases"] = al
    # the DtypeDefinition (by its name) every dtype name used above, and the plain integer / float names, resolve to
    names = ["uint", "int", "uintbe", "intbe", "uintle", "intle", "uintne", "intne",
             "float", "floatbe", "floatle", "floatne"]
    for key in ("replacementsBE", "replacementsLE", "replacementsNE"):
        for _c, n, _l in data[key]:
            if n not in names:
                names.append(n)
    defs = []
    for n in names:
        try:
            defs.append((n, str(dtype_register.names[n].name)))
        except Exception:                               # noqa: BLE001 - unknown names are simply absent
            pass
    data["definitionOf"] = defs
    # alphabets: evaluate the regexes the code uses on every printable ASCII character
    def ok(rx, s):
        try:
            return rx.match(s) is not None
        except Exception:                               # noqa: BLE001
            return False
    data["codeAlphabet"] = [c for c in ASCII if ok(utils.SINGLE_STRUCT_PACK_RE, ">" + c)]
    data["endianAlphabet"] = [c for c in ASCII if ok(utils.SINGLE_STRUCT_PACK_RE, c + "h")]
    data["packCodeAlphabet"] = [c for c in ASCII if not c.isdigit() and ok(utils.STRUCT_PACK_RE, ">" + c)]
    data["packEndianAlphabet"] = [c for c in ASCII if ok(utils.STRUCT_PACK_RE, c + "h")]
    data["swapCodeAlphabet"] = [c for c in ASCII if not c.isdigit() and ok(utils.BYTESWAP_STRUCT_PACK_RE, c)]
    data["swapEndianAlphabet"] = [c for c in ASCII if c not in data["swapCodeAlphabet"] and not c.isdigit()
                                  and ok(utils.BYTESWAP_STRUCT_PACK_RE, c + "h")]
    # complete graph of parse_single_struct_token on endian chars × code alphabet
    graph = []
    for e in data["endianAlphabet"]:
        for c in data["codeAlphabet"]:
            try:
                r = utils.parse_single_struct_token(e + c)
            except Exception:                           # noqa: BLE001
                r = None
            if r is not None:
                graph.append((e, c, str(r[0]), 0 if r[1] is None else int(r[1])))
    data["singleToken"] = graph
    return data


def _ch(c: str) -> str:
    return "'\\''" if c == "'" else ("'\\\\'" if c == "\\" else "'%s'" % c)


def _st(s: str) -> str:
    return '"' + s.replace("\\", "\\\\").replace('"', '\\"') + '"'


def render(data: dict) -> str:
    out = ["/-", "  GENERATED by harness/extract_C18.py from the working tree - do not edit.",
           "  bitstring/utils.py REPLACEMENTS_BE/LE/NE (code -> dtype name, bit length), PACK_CODE_SIZE, the character",
           "  classes of the struct regexes, the graph of parse_single_struct_token; bitstring/__init__.py byteorder and",
           "  the definitions the *ne aliases resolve to.", "-/", "namespace BM.Gen.Struct", ""]
    for key in ("replacementsBE", "replacementsLE", "replacementsNE"):
        rows = ", ".join("(%s, %s, %d)" % (_ch(c), _st(n), l) for c, n, l in data[key])
        out.append("def %s : List (Char × String × Nat) := [%s]" % (key, rows))
    out.append("def packCodeSize : List (Char × Nat) := [%s]"
               % ", ".join("(%s, %d)" % (_ch(c), v) for c, v in data["packCodeSize"]))
    out.append("def byteorder : String := %s" % _st(data["byteorder"]))
    out.append("def sysByteorder : String := %s" % _st(data["sysByteorder"]))
    out.append("def neAliases : List (String × String) := [%s]"
               % ", ".join("(%s, %s)" % (_st(a), _st(b)) for a, b in data["neAliases"]))
    out.append("def definitionOf : List (String × String) := [%s]"
               % ", ".join("(%s, %s)" % (_st(a), _st(b)) for a, b in data["definitionOf"]))
    for key in ("codeAlphabet", "endianAlphabet", "packCodeAlphabet", "packEndianAlphabet",
                "swapCodeAlphabet", "swapEndianAlphabet"):
        out.append("def %s : List Char := [%s]" % (key, ", ".join(_ch(c) for c in data[key])))
    out.append("def singleToken : List (Char × Char × String × Nat) := [%s]"
               % ", ".join("(%s, %s, %s, %d)" % (_ch(e), _ch(c), _st(n), l) for e, c, n, l in data["singleToken"]))
    out += ["", "end BM.Gen.Struct", ""]
    return "\n".join(out)


def write(gen_dir: str, data: dict) -> list:
    path = os.path.join(gen_dir, FILE)
    content = render(data)
    try:
        with open(path, "r") as f:
            if f.read() == content:
                return []
    except OSError:
        pass
    os.makedirs(gen_dir, exist_ok=True)
    tmp = path + ".tmp%d" % os.getpid()
    with open(tmp, "w") as f:
        f.write(content)
    os.replace(tmp, path)
    return [os.path.relpath(path, VERIF)]


if __name__ == "__main__":
    repo = os.environ.get("VERIF_REPO", "/repo")
    print(json.dumps({"changed": write(GEN_DIR, extract(repo))}))
