"""Compare theorem *statements* of a Props file between git HEAD and the working tree.
usage: stmtdiff.py lean/BitstringModel/Props/C10.lean   (exit 1 if any statement changed/disappeared)"""
import re, subprocess, sys, os
def stmts(src):
    out = {}
    # strip comments
    src = re.sub(r"/-.*?-/", "", src, flags=re.S)
    src = re.sub(r"--.*", "", src)
    for m in re.finditer(r"^(theorem|example)\s+(.*?):=\s*(by\b|\S)", src, re.S | re.M):
        body = " ".join(m.group(2).split())
        name = body.split()[0] if m.group(1) == "theorem" else "example#%d" % len(out)
        out[name] = body
    return out
bad = 0
for path in sys.argv[1:]:
    rel = os.path.relpath(os.path.abspath(path), "/verif")
    old = subprocess.run(["git", "-C", "/verif", "show", "HEAD:" + rel], capture_output=True, text=True).stdout
    a, b = stmts(old), stmts(open(path).read())
    for k, v in a.items():
        if k not in b:
            print(f"{rel}: MISSING {k}"); bad += 1
        elif b[k] != v:
            print(f"{rel}: CHANGED {k}\n   old: {v}\n   new: {b[k]}"); bad += 1
    new = [k for k in b if k not in a]
    print(f"{rel}: {len(a)} statements at HEAD, {len(b)} now, {len(new)} added: {new[:12]}")
sys.exit(1 if bad else 0)
