import BitstringModel.Model.C10
def main : IO Unit := BM.driverMain BM.C10.handle
