import BitstringModel.Model.C14
def main : IO Unit := BM.driverMain BM.C14.handle
