import BitstringModel.Model.C18
def main : IO Unit := BM.driverMain BM.C18.handle
