import BitstringModel.Model.C09
def main : IO Unit := BM.driverMain BM.C09.handle
