import BitstringModel.Model.C13
def main : IO Unit := BM.driverMain BM.C13.handle
