import BitstringModel.Model.C19
def main : IO Unit := BM.driverMain BM.C19.handle
