import BitstringModel.Model.C12
def main : IO Unit := BM.driverMain BM.C12.handle
