/-
  drivers/Src.lean — runs the definitions that harness/translate.py generated from the source (Gen/Src.lean) on case lines,
  so that harness/srccheck.py can compare them with the real Python functions (validation of the TRANSLATOR itself).
-/
import BitstringModel.Gen.Src
open BM BM.Gen

namespace BM.SrcDriver

def optInt? (s : String) : Option (Option Int) := if s = "N" then some none else s.toInt?.map some

def showOpt : Option Int → String
  | none => "N"
  | some i => toString i

def showAct (a : Py.Act) : String := a.name ++ "|" ++ ",".intercalate (a.args.map showOpt)
def showTrace (t : List Py.Act) : String := " ; ".intercalate (t.map showAct)

def handle (args : List String) : String :=
  match args with
  | ["validate_slice", n, a, b] =>
    match n.toInt?, optInt? a, optInt? b with
    | some n, some a, some b => resultToStr (fun p => s!"{p.1} {p.2}") (Src.validate_slice n a b)
    | _, _, _ => "bad-op"
  | ["offset", n, a, b, c] =>
    match n.toInt?, optInt? a, optInt? b, optInt? c with
    | some n, some a, some b, some c =>
      resultToStr (fun k => s!"{showOpt k.start} {showOpt k.stop} {showOpt k.step}") (Src.offset_slice_indices_lsb0 ⟨a, b, c⟩ n)
    | _, _, _, _ => "bad-op"
  | ["setbitpos", n, p, q] =>
    match n.toInt?, p.toInt?, q.toInt? with
    | some n, some p, some q => resultToStr toString (Src.setbitpos n p q)
    | _, _, _ => "bad-op"
  | ["getbytepos", n, p] =>
    match n.toInt?, p.toInt? with
    | some n, some p => resultToStr toString (Src.getbytepos n p)
    | _, _ => "bad-op"
  | ["bytealign", n, p] =>
    match n.toInt?, p.toInt? with
    | some n, some p => resultToStr (fun r => s!"{r.1} {r.2}") (Src.bytealign n p)
    | _, _ => "bad-op"
  | [f, bits, pos, lsb0] =>
    match bitsOfStr? bits, pos.toInt? with
    | some b, some p =>
      let l := lsb0 = "1"
      let sh := fun (r : Int × Int) => s!"{r.1} {r.2}"
      match f with
      | "readue" => resultToStr sh (Src.readue b p l)
      | "readse" => resultToStr sh (Src.readse b p l)
      | "readuie" => resultToStr sh (Src.readuie b p l)
      | "readsie" => resultToStr sh (Src.readsie b p l)
      | _ => "bad-op"
    | _, _ => "bad-op"
  | _ => "bad-op"

end BM.SrcDriver

def main : IO Unit := BM.driverMain BM.SrcDriver.handle
