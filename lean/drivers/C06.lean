import BitstringModel.Model.C06
def main : IO Unit := BM.driverMain BM.C06.handle
