import BitstringModel.Model.C02
def main : IO Unit := BM.driverMain BM.C02.handle
