import BitstringModel.Model.C04
def main : IO Unit := BM.driverMain BM.C04.handle
