import BitstringModel.Model.C05
def main : IO Unit := BM.driverMain BM.C05.handle
