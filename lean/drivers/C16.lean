import BitstringModel.Model.C16
def main : IO Unit := BM.driverMain BM.C16.handle
