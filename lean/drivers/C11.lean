import BitstringModel.Model.C11
def main : IO Unit := BM.driverMain BM.C11.handle
