import BitstringModel.Model.C01
def main : IO Unit := BM.driverMain BM.C01.handle
