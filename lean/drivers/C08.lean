import BitstringModel.Model.C08
def main : IO Unit := BM.driverMain BM.C08.handle
