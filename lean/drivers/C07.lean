import BitstringModel.Model.C07
def main : IO Unit := BM.driverMain BM.C07.handle
