import BitstringModel.Model.C17
def main : IO Unit := BM.driverMain BM.C17.handle
