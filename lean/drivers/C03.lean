import BitstringModel.Model.C03
def main : IO Unit := BM.driverMain BM.C03.handle
