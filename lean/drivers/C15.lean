import BitstringModel.Model.C15
def main : IO Unit := BM.driverMain BM.C15.handle
