import BitstringModel.Model.C20
def main : IO Unit := BM.driverMain BM.C20.handle
