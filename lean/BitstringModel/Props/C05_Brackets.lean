/-
  Props/C05_Brackets.lean — the string level of C05: `expand_brackets` (utils.py:214-241) on every bracket tree.
  Trees are `BItem` (Model/C05.lean): atoms (token texts without bracket or comma) and groups with an optional
  factor given by its digit string.  No bound on depth, width, factors or text.
-/
import BitstringModel.Model.C05
import BitstringModel.Proofs.C05_Brackets

namespace BM.C05
open BM

/-- What the code computes: for every well-formed bracket tree, `expand_brackets` applied to its one-line rendering
    terminates within the model's fuel and returns the comma-joined flattening in which a group with factor `n`
    is written `max n 1` times. -/
theorem expandBrackets_render (items : List BItem) (hne : items ≠ []) (hwf : BItem.wfList items = true) :
    expandBrackets (renderItems items) = .ok (joinComma (BItem.flattenCodeList items)) := by
  sorry

/-- the code's flattening is the specified one ("'n*(f)' equals f written n times") whenever no bracket group has factor 0 -/
theorem flattenCode_eq_spec (items : List BItem) (h : BItem.noZeroFactorList items = true) :
    BItem.flattenCodeList items = BItem.flattenSpecList items := by
  sorry

/-- Clause "'n*(f)' equals f written n times" at the string level, on the region `zero_bracket_factor` excluded
    (known finding): full statement would be without `hz`. -/
theorem expandBrackets_render_partial (items : List BItem) (hne : items ≠ []) (hwf : BItem.wfList items = true)
    (hz : BItem.noZeroFactorList items = true) :
    expandBrackets (renderItems items) = .ok (joinComma (BItem.flattenSpecList items)) := by
  sorry

/-- witness that the property fails outside the region: `0*(a)` expands to `a`, not to nothing -/
theorem zero_factor_witness :
    expandBrackets "0*(a)".toList = .ok "a".toList ∧
    joinComma (BItem.flattenSpecList [.group (some "0".toList) [.atom "a".toList]]) = [] := by
  sorry

/-- `n*(f)` with `n ≥ 1` is `f` written `n` times, comma separated -/
theorem expandBrackets_factor (ds : Str) (items : List BItem) (hne : items ≠ [])
    (hwf : BItem.wf (.group (some ds) items) = true) (hn : 1 ≤ parseNat ds) :
    expandBrackets (BItem.render (.group (some ds) items))
      = .ok (joinComma (List.replicate (parseNat ds) (BItem.flattenCodeList items)).flatten) := by
  sorry

/-- Unbalanced input: if the first opening bracket is never closed (the depth after it never returns to zero),
    `expand_brackets` raises ValueError. -/
theorem expandBrackets_unbalanced (pre rest : Str) (hpre : '(' ∉ pre)
    (hopen : ∀ k, k ≤ rest.length → (rest.take k).count ')' < (rest.take k).count '(' + 1) :
    expandBrackets (pre ++ '(' :: rest) = .error .value := by
  sorry

/-- … also after any amount of well-formed material: a rendered tree followed by an unclosed group -/
theorem expandBrackets_unbalanced_after (items : List BItem) (hne : items ≠ []) (hwf : BItem.wfList items = true) (rest : Str)
    (hopen : ∀ k, k ≤ rest.length → (rest.take k).count ')' < (rest.take k).count '(' + 1) :
    expandBrackets (renderItems items ++ ',' :: '(' :: rest) = .error .value := by
  sorry

/-! ### non-vacuity -/

example : BItem.wfList [.atom "a".toList, .group (some "2".toList) [.atom "b".toList, .group none [.atom "c".toList]]] = true := by decide
example : renderItems [.atom "a".toList, .group (some "2".toList) [.atom "b".toList, .group none [.atom "c".toList]]] = "a,2*(b,(c))".toList := by decide
example : joinComma (BItem.flattenSpecList [.atom "a".toList, .group (some "2".toList) [.atom "b".toList, .group none [.atom "c".toList]]])
    = "a,b,c,b,c".toList := by decide

end BM.C05
