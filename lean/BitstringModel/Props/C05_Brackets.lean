/-
  Props/C05_Brackets.lean — the string level of C05: `expand_brackets` (utils.py:215-242) on every bracket tree.
  Trees are `BItem` (Model/C05.lean): atoms (token texts without bracket or comma) and groups with an optional
  factor given by its digit string (value `parseNat`, 0 included).  No bound on depth, width, factors or text.
-/
import BitstringModel.Model.C05
import BitstringModel.Proofs.C05_Brackets

namespace BM.C05
open BM

/-- What the code returns, literally: for every well-formed bracket tree, `expand_brackets` applied to its one-line
    rendering terminates within the model's fuel and returns the comma-joined pieces `flattenCode` — every group
    with factor `n ≥ 1` written `n` times, a group with factor 0 leaving one empty piece. -/
theorem expandBrackets_render (items : List BItem) (hne : items ≠ []) (hwf : BItem.wfList items = true) :
    expandBrackets (renderItems items) = .ok (joinComma (BItem.flattenCodeList items)) := by
  exact expandBrackets_render' items hne hwf

/-- the non-empty pieces of the code's output are exactly the specified flattening -/
theorem flattenCode_filter (items : List BItem) (hwf : BItem.wfList items = true) :
    (BItem.flattenCodeList items).filter (fun s => !s.isEmpty) = BItem.flattenSpecList items := by
  exact flattenCode_filter_list items hwf

/-- Clause "formats compose / 'n*(f)' equals f written n times" at the string level, full strength (every factor,
    0 included): splitting the expanded text at the commas and dropping empty tokens — which is what
    `preprocess_tokens` does next — gives the specified flattening of the tree. -/
theorem expandBrackets_tokens (items : List BItem) (hne : items ≠ []) (hwf : BItem.wfList items = true) :
    ∃ s, expandBrackets (renderItems items) = .ok s ∧
      (splitOnChar ',' s).filter (fun t => !t.isEmpty) = BItem.flattenSpecList items := by
  refine ⟨_, expandBrackets_render' items hne hwf, ?_⟩
  rw [splitOnChar_joinComma _ (flattenCodeList_atoms items hwf hne).1 (flattenCode_nocomma_list items hwf)]
  exact flattenCode_filter_list items hwf

/-- `n*(f)` is `f` written `n` times, for every `n` -/
theorem expandBrackets_factor (ds : Str) (items : List BItem)
    (hwf : BItem.wf (.group (some ds) items) = true) :
    ∃ s, expandBrackets (BItem.render (.group (some ds) items)) = .ok s ∧
      (splitOnChar ',' s).filter (fun t => !t.isEmpty)
        = (List.replicate (parseNat ds) (BItem.flattenSpecList items)).flatten := by
  have hw : BItem.wfList [.group (some ds) items] = true := by simp [BItem.wfList, hwf]
  obtain ⟨s, h1, h2⟩ := expandBrackets_tokens [.group (some ds) items] (by simp) hw
  rw [renderItems_single] at h1
  refine ⟨s, h1, ?_⟩
  rw [h2]
  simp [BItem.flattenSpecList, BItem.flattenSpec]

/-- Unbalanced input: if the first opening bracket is never closed (the depth after it never returns to zero),
    `expand_brackets` raises ValueError. -/
theorem expandBrackets_unbalanced (pre rest : Str) (hpre : '(' ∉ pre)
    (hopen : ∀ k, k ≤ rest.length → (rest.take k).count ')' < (rest.take k).count '(' + 1) :
    expandBrackets (pre ++ '(' :: rest) = .error .value := by
  exact expandBrackets_unbalanced' pre rest hpre hopen

/-- … also after any amount of well-formed material: a rendered tree followed by an unclosed group -/
theorem expandBrackets_unbalanced_after (items : List BItem) (hne : items ≠ []) (hwf : BItem.wfList items = true) (rest : Str)
    (hopen : ∀ k, k ≤ rest.length → (rest.take k).count ')' < (rest.take k).count '(' + 1) :
    expandBrackets (renderItems items ++ ',' :: '(' :: rest) = .error .value := by
  exact expandBrackets_unbalanced_after' items hne hwf rest hopen

/-! ### non-vacuity -/

example : BItem.wfList [.atom "a".toList, .group (some "2".toList) [.atom "b".toList, .group none [.atom "c".toList]]] = true := by decide
example : renderItems [.atom "a".toList, .group (some "2".toList) [.atom "b".toList, .group none [.atom "c".toList]]] = "a,2*(b,(c))".toList := by decide
example : joinComma (BItem.flattenSpecList [.atom "a".toList, .group (some "2".toList) [.atom "b".toList, .group none [.atom "c".toList]]])
    = "a,b,c,b,c".toList := by decide
/-- factor 0: `a,0*(b),c` expands to `a,,c`, i.e. the tokens `a`, `c` -/
example : renderItems [.atom "a".toList, .group (some "0".toList) [.atom "b".toList], .atom "c".toList] = "a,0*(b),c".toList ∧
    joinComma (BItem.flattenCodeList [.atom "a".toList, .group (some "0".toList) [.atom "b".toList], .atom "c".toList]) = "a,,c".toList ∧
    BItem.flattenSpecList [.atom "a".toList, .group (some "0".toList) [.atom "b".toList], .atom "c".toList] = ["a".toList, "c".toList] := by decide
example : (∀ k, k ≤ "a,(b".toList.length → ("a,(b".toList.take k).count ')' < ("a,(b".toList.take k).count '(' + 1) := by decide

end BM.C05
