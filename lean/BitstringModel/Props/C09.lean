/-
  Props/C09.lean — construction and parsing are pure: results never depend on call history.

  Property clauses and the theorems that carry them
    "never on which calls were made earlier, on cache hits, misses or evictions"
        lru_correct, lru_correct_upto, run_eq_pure_of_invalidate, evict_irrelevant, lru_capacity,
        sys_pure_caches_correct, sys_capacity, head_dtype_caches_typed, dtype_create_exact_typed, dtype_create_value_pure
    "on option values that were in force earlier"
        head_setters_invalidate (generated obligation: in the working tree assigning lsb0 / mxfp_overflow leaves no
        stale string behind), cached_eq_pure, run_eq_pure_of_invalidate, str_to_bitstore_pure_when_invalidating,
        sys_all_pure_of_invalidate, head_all_pure (the model of the working tree: ALL histories, full strength);
        documentation of what the repair (commit a428504) removed: stale_after_mxfp_overflow_change,
        stale_after_lsb0_change, staleness_depends_on_eviction, sys_stale_witnesses (WITHOUT invalidation purity
        fails) and run_eq_pure_partial / sys_all_pure_partial (what still holds without it)
    "Setting an option back to an earlier value restores the earlier behaviour exactly"
        set_back_restores, option_restore, option_restore_set_back, str_to_bitstore_option_restore,
        sys_option_restore, head_option_restore, option_restore_partial,
        set_lsb0_tables_inverse, bindings_follow_lsb0, method_dispatch_pure_gen
  Every theorem is quantified over ALL histories (lists of calls, cache_clears and option assignments), all
  capacities and all wrapped functions satisfying the stated hypothesis; no size bound anywhere.
-/
import BitstringModel.Model.C09
import BitstringModel.Proofs.C09

namespace BM.C09
open BM

section generic
variable {α κ ν : Type} [DecidableEq κ]

/-! ### the cache itself -/

/-- A memoised function never holds more than `maxsize` entries and never two entries for one key — after any
    history whatsoever. -/
theorem lru_capacity (m : Cfg α κ ν) (s₀ : St κ ν) (h₀ : Bounded m.cap s₀.cache) (ops : List (Op α)) :
    Bounded m.cap (run m s₀ ops).1.cache :=
  bounded_run m ops s₀ h₀

theorem lru_capacity_init (m : Cfg α κ ν) (ops : List (Op α)) :
    Bounded m.cap (run m St.init ops).1.cache :=
  bounded_run m ops St.init ⟨Nat.zero_le _, List.nodup_nil⟩

/-- Every entry ever held was returned by the wrapped function for a call with that key. -/
theorem lru_entries_computed (m : Cfg α κ ν) (s₀ : St κ ν) (h₀ : Computed m s₀.cache) (ops : List (Op α)) :
    Computed m (run m s₀ ops).1.cache :=
  computed_run m ops s₀ h₀

/-- `lru_correct`, in the generality needed for keys compared with `==` (`Dtype._create`): if whatever any colliding
    call could have stored is `R`-related to what this call computes under every option setting, then after ANY
    history of calls, evictions, cache_clears and option changes the memoised call returns a value `R`-related to
    the pure result (and raises exactly when the pure computation raises). -/
theorem lru_correct_upto (m : Cfg α κ ν) (R : ν → ν → Prop) (a : α)
    (hcol : ∀ o o' a' v', m.key a' = m.key a → m.f o' a' = .ok v' → ∃ v, m.f o a = .ok v ∧ R v v')
    (s₀ : St κ ν) (h₀ : Computed m s₀.cache) (ops : List (Op α)) :
    match (step m (run m s₀ ops).1 (.call a)).2 with
    | some (.ok v') => ∃ v, m.f (run m s₀ ops).1.opts a = .ok v ∧ R v v'
    | some (.error e) => m.f (run m s₀ ops).1.opts a = .error e
    | none => False :=
  correct_upto m R a hcol (run m s₀ ops).1 (computed_run m ops s₀ h₀)

/-- `lru_correct`: a call whose computation reads no option (and whose key is not shared with a different call)
    returns, after ANY history and for ANY capacity, exactly what the wrapped function computes now. -/
theorem lru_correct (m : Cfg α κ ν) (a : α)
    (hopt : ∀ o₁ o₂, m.f o₁ a = m.f o₂ a)
    (hkey : ∀ a', m.key a' = m.key a → a' = a)
    (s₀ : St κ ν) (h₀ : Computed m s₀.cache) (ops : List (Op α)) :
    (step m (run m s₀ ops).1 (.call a)).2 = some (m.f (run m s₀ ops).1.opts a) :=
  correct_exact m a hopt hkey (run m s₀ ops).1 (computed_run m ops s₀ h₀)

/-! ### option-dependent functions -/

/-- `cached_eq_pure`: while every entry is what the function computes under the CURRENT options, a memoised call
    returns the pure result, and the invariant survives the call. -/
theorem cached_eq_pure (m : Cfg α κ ν) (hk : KeyDetermines m) (s : St κ ν) (hf : Fresh m s.opts s.cache) (a : α) :
    (step m s (.call a)).2 = some (m.f s.opts a) ∧
    Fresh m (step m s (.call a)).1.opts (step m s (.call a)).1.cache :=
  fresh_call m hk s hf a

/-- If every option the function reads clears the cache when assigned (the shape of the proposed repair; also the
    trivial case of a function that reads nothing), then for ALL histories ALG = SPEC: every call returns what the
    function computes under the options in force at that moment. -/
theorem run_eq_pure_of_invalidate (m : Cfg α κ ν) (hk : KeyDetermines m) (hr : ReadsOnlyInvalidating m)
    (s : St κ ν) (hf : Fresh m s.opts s.cache) (ops : List (Op α)) :
    (run m s ops).2 = pureRun m.f s.opts ops :=
  run_pure m hk hr ops s hf

/-- `evict_irrelevant`: under the same hypotheses neither the capacity nor the initial content of the cache
    (any content consistent with the current options) influences any result. -/
theorem evict_irrelevant (m : Cfg α κ ν) (cap' : Nat) (hk : KeyDetermines m) (hr : ReadsOnlyInvalidating m)
    (s s' : St κ ν) (ho : s.opts = s'.opts) (hf : Fresh m s.opts s.cache)
    (hf' : Fresh { m with cap := cap' } s'.opts s'.cache) (ops : List (Op α)) :
    (run m s ops).2 = (run { m with cap := cap' } s' ops).2 := by
  rw [run_pure m hk hr ops s hf, run_pure { m with cap := cap' } hk hr ops s' hf', ho]

/-- Assigning an option and assigning its old value back leaves the option state unchanged. -/
theorem set_back_restores (o : Opts) (n : OptName) (v : Bool) : (o.set n v).set n (o.get n) = o := by
  cases n <;> rfl

/-- `option_restore`: results are a function of (current options, arguments) — two histories that end in the
    same option state give the same result for the same call. -/
theorem option_restore (m : Cfg α κ ν) (hk : KeyDetermines m) (hr : ReadsOnlyInvalidating m)
    (ops₁ ops₂ : List (Op α)) (a : α)
    (h : optsAfter Opts.init ops₁ = optsAfter Opts.init ops₂) :
    (step m (run m St.init ops₁).1 (.call a)).2 = (step m (run m St.init ops₂).1 (.call a)).2 :=
  restore m hk hr ops₁ ops₂ a h

/-- … in particular after `options.n = v; options.n = <old value>`. -/
theorem option_restore_set_back (m : Cfg α κ ν) (hk : KeyDetermines m) (hr : ReadsOnlyInvalidating m)
    (ops : List (Op α)) (n : OptName) (v : Bool) (a : α) :
    (step m (run m St.init (ops ++ [.setOpt n v, .setOpt n ((optsAfter Opts.init ops).get n)])).1 (.call a)).2
      = (step m (run m St.init ops).1 (.call a)).2 :=
  restore m hk hr _ ops a (by
    simp only [optsAfter, List.foldl_append, List.foldl_cons, List.foldl_nil, optsStep]
    exact set_back_restores _ n v)

/-- Without any assumption on the setters (`m.inval` arbitrary, in particular nothing clears anything): ALG = SPEC on
    every history OUTSIDE the region — no key is used under two option settings for which its computation differs.
    The unrestricted statement `∀ ops, (run m ⟨o, []⟩ ops).2 = pureRun m.f o ops` needs `ReadsOnlyInvalidating`
    (`run_eq_pure_of_invalidate`); without it it is false (witnesses below). -/
theorem run_eq_pure_partial [DecidableEq ν] (m : Cfg α κ ν) (hk : KeyDetermines m) (o : Opts) (ops : List (Op α))
    (h : reuse_after_option_change m o ops = false) :
    (run m ⟨o, []⟩ ops).2 = pureRun m.f o ops :=
  run_pure_partial m hk o ops h

/-- `option_restore_partial`: outside the region, histories ending in the same option state agree on every call. -/
theorem option_restore_partial [DecidableEq ν] (m : Cfg α κ ν) (hk : KeyDetermines m)
    (ops₁ ops₂ : List (Op α)) (a : α)
    (h₁ : reuse_after_option_change m Opts.init (ops₁ ++ [.call a]) = false)
    (h₂ : reuse_after_option_change m Opts.init (ops₂ ++ [.call a]) = false)
    (h : optsAfter Opts.init ops₁ = optsAfter Opts.init ops₂) :
    (run m St.init (ops₁ ++ [.call a])).2.getLast? = (run m St.init (ops₂ ++ [.call a])).2.getLast? :=
  restore_partial m hk ops₁ ops₂ a h₁ h₂ h

end generic

/-! ### what happens WITHOUT invalidation (`str_to_bitstore` keyed on the string alone, setters clear nothing):
    the two deviations of the tree before commit a428504, kept as documentation of why the setters must clear -/

def kMxfp : Call := ⟨"e4m3mxfp=1000", false, true, false⟩
def kUe : Call := ⟨"ue=3", true, false, false⟩
def kLit (s : String) : Call := ⟨s, false, false, false⟩

/-- Without invalidation (deviation 1 of the tree before a428504): `Bits('e4m3mxfp=1000')`, `options.mxfp_overflow = 'overflow'`, `Bits('e4m3mxfp=1000')` —
    the second construction returns the saturate-mode result. -/
theorem stale_after_mxfp_overflow_change :
    let h := [Op.call kMxfp, .setOpt .mxfp true, .call kMxfp]
    (run (strCfg 256 false) St.init h).2 ≠ pureRun (strCfg 256 false).f Opts.init h ∧
    reuse_after_option_change (strCfg 256 false) Opts.init h = true := by
  decide

/-- Without invalidation (deviation 2 of the tree before a428504): `Bits('ue=3')`, `options.lsb0 = True`, `Bits('ue=3')` — served from the cache where it
    must raise. -/
theorem stale_after_lsb0_change :
    let h := [Op.call kUe, .setOpt .lsb0 true, .call kUe]
    (run (strCfg 256 false) St.init h).2 ≠ pureRun (strCfg 256 false).f Opts.init h ∧
    (run (strCfg 256 false) St.init h).2.getLast? = some (some (.ok ⟨kUe, none⟩)) ∧
    pureRun (strCfg 256 false).f Opts.init h = [some (.ok ⟨kUe, none⟩), none, some (.error .value)] := by
  decide

/-- The deviation is a dependence on cache state: the same call under the same options is right or wrong depending
    on whether the entry was evicted in between (capacity 2: two other strings evict it, one does not), and not at
    all when the first construction raised (exceptions are not stored). -/
theorem staleness_depends_on_eviction :
    let pre := [Op.call kMxfp, .setOpt .mxfp true]
    (run (strCfg 2 false) St.init (pre ++ [.call (kLit "0x1"), .call kMxfp])).2.getLast?
      = some (some (.ok ⟨kMxfp, some false⟩)) ∧
    (run (strCfg 2 false) St.init (pre ++ [.call (kLit "0x1"), .call (kLit "0x2"), .call kMxfp])).2.getLast?
      = some (some (.ok ⟨kMxfp, some true⟩)) ∧
    (run (strCfg 2 false) St.init [.setOpt .lsb0 true, .call kUe, .setOpt .lsb0 false, .call kUe, .setOpt .lsb0 true,
        .call kUe]).2 = [none, some (.error .value), none, some (.ok ⟨kUe, none⟩), none, some (.ok ⟨kUe, none⟩)] := by
  decide

/-- `str_to_bitstore` satisfies the hypotheses of the general theorems exactly when the setters of lsb0 and
    mxfp_overflow clear it. -/
theorem strCfg_keyDetermines (cap : Nat) (inv : Bool) : KeyDetermines (strCfg cap inv) := by
  intro o a a' h; simp only [strCfg, id] at h; rw [h]

theorem strCfg_readsOnlyInvalidating (cap : Nat) : ReadsOnlyInvalidating (strCfg cap true) :=
  strCfg_roi cap

/-- With the repair, `str_to_bitstore` is pure on ALL histories (instance of `run_eq_pure_of_invalidate`). -/
theorem str_to_bitstore_pure_when_invalidating (cap : Nat) (ops : List (Op Call)) :
    (run (strCfg cap true) St.init ops).2 = pureRun (sem .strToBitstore) Opts.init ops :=
  run_pure (strCfg cap true) (strCfg_keyDetermines cap true) (strCfg_roi cap) ops St.init
    (by intro e he; cases he)

/-! ### the eight caches, the options and the method tables together -/

/-- Every cache stays within its capacity, without duplicate keys, along every history. -/
theorem sys_capacity (cfg : SysCfg) (ops : List SysOp) : SysBounded cfg (sysRun cfg (Sys.init cfg) ops).1 :=
  sysBounded_run cfg ops (Sys.init cfg) (sysBounded_init cfg)

/-- The seven caches whose functions read no option are correct on ALL histories, whatever the setters clear:
    whatever was called, evicted or assigned before, a call returns what its function computes. -/
theorem sys_pure_caches_correct (cfg : SysCfg) (ops : List SysOp) (cid : CacheId) (o : Opts) (a : Call)
    (r : Except Err Val) (hc : cid ≠ .strToBitstore)
    (h : SysOut.called cid o a r ∈ (sysRun cfg (Sys.init cfg) ops).2) : r = sem cid o a :=
  sys_other_pure cfg ops (Sys.init cfg) (sysComputed_init cfg) cid o a r hc h

/-- The bound methods are a function of the current lsb0 value: after any history every re-bindable attribute
    dispatches to the method the table of the CURRENT mode names — provided the two tables re-bind the same
    attributes. -/
theorem bindings_follow_lsb0 (cfg : SysCfg) (hs : SameKeys cfg) (ops : List SysOp) (k : String × String) :
    tableFind (sysRun cfg (Sys.init cfg) ops).1.bindings k
      = tableLast (cfg.table (sysRun cfg (Sys.init cfg) ops).1.opts.lsb0) k :=
  bindings_run cfg hs ops (Sys.init cfg) (bindings_init cfg) k

/-- `set_lsb0_tables_inverse`: in the working tree, every (class, attribute) re-bound by the lsb0 table is
    re-bound by the msb0 table and vice versa (tables re-extracted from bitstring_options.py on every run). -/
theorem set_lsb0_tables_inverse :
    ∀ k, k ∈ Gen.lsb0Table.map (·.1) ↔ k ∈ Gen.msb0Table.map (·.1) :=
  keys_iff_of_subsets Gen.lsb0Table Gen.msb0Table (by decide) (by decide)

theorem gen_same_keys (cfg : SysCfg) (h₁ : cfg.tblLsb0 = Gen.lsb0Table) (h₂ : cfg.tblMsb0 = Gen.msb0Table) :
    SameKeys cfg :=
  sameKeys_of_keys_iff cfg (by rw [h₁, h₂]; exact set_lsb0_tables_inverse)

/-- With the tables of the working tree: every dispatch observed along any history is the pure one. -/
theorem method_dispatch_pure_gen (cfg : SysCfg) (h₁ : cfg.tblLsb0 = Gen.lsb0Table) (h₂ : cfg.tblMsb0 = Gen.msb0Table)
    (ops : List SysOp) (bound : Option String) (o : Opts) (k : String × String)
    (h : SysOut.method bound o k ∈ (sysRun cfg (Sys.init cfg) ops).2) :
    bound = tableLast (cfg.table o.lsb0) k :=
  sys_method_pure cfg (gen_same_keys cfg h₁ h₂) ops (Sys.init cfg) (bindings_init cfg) bound o k h

/-- The hypothesis is needed: with an attribute re-bound by the lsb0 table only, switching lsb0 on and off again
    leaves the lsb0 method bound. -/
theorem unequal_tables_break_restore :
    let cfg : SysCfg := { cap := fun _ => 4, inval := fun _ _ => false,
                          tblLsb0 := [(("Bits", "_find"), "lsb0 find"), (("Bits", "extra"), "lsb0 extra")],
                          tblMsb0 := [(("Bits", "_find"), "msb0 find")] }
    ((sysRun cfg (Sys.init cfg) [.setOpt .lsb0 true, .setOpt .lsb0 false, .useMethod ("Bits", "extra")]).2.map
        (SysOut.pure cfg)) = [true, true, false] := by
  decide

/-- The repaired shape: if assigning lsb0 or mxfp_overflow clears `str_to_bitstore` (and the tables re-bind the same
    attributes), EVERY observation of EVERY history is pure: all eight caches, all option orders, all capacities. -/
theorem sys_all_pure_of_invalidate (cfg : SysCfg) (hs : SameKeys cfg)
    (hl : cfg.inval .strToBitstore .lsb0 = true) (hm : cfg.inval .strToBitstore .mxfp = true)
    (ops : List SysOp) : ∀ out ∈ (sysRun cfg (Sys.init cfg) ops).2, out.pure cfg = true :=
  sys_pure_inval cfg hs hl hm ops

/-- Without any assumption on the setters (`cfg.inval` arbitrary, in particular nothing clears anything): every
    observation is pure on every history outside the two regions.  (With invalidating setters the region hypotheses
    are not needed: `sys_all_pure_of_invalidate`.) -/
theorem sys_all_pure_partial (cfg : SysCfg) (hs : SameKeys cfg) (ops : List SysOp)
    (h₁ : reuse_after_lsb0_change ops = false) (h₂ : reuse_after_mxfp_overflow_change ops = false) :
    ∀ out ∈ (sysRun cfg (Sys.init cfg) ops).2, out.pure cfg = true :=
  sys_pure_partial cfg hs ops h₁ h₂

/-- … and inside the regions a system whose setters clear nothing really deviates (the two deviations that commit
    a428504 repaired, in system form). -/
theorem sys_stale_witnesses :
    let cfg : SysCfg := { cap := fun _ => 256, inval := fun _ _ => false, tblLsb0 := [], tblMsb0 := [] }
    let h₁ := [SysOp.call .strToBitstore kMxfp, .setOpt .mxfp true, .call .strToBitstore kMxfp]
    let h₂ := [SysOp.call .strToBitstore kUe, .setOpt .lsb0 true, .call .strToBitstore kUe]
    ((sysRun cfg (Sys.init cfg) h₁).2.map (SysOut.pure cfg)) = [true, true, false] ∧
    reuse_after_mxfp_overflow_change h₁ = true ∧ reuse_after_lsb0_change h₁ = false ∧
    ((sysRun cfg (Sys.init cfg) h₂).2.map (SysOut.pure cfg)) = [true, true, false] ∧
    reuse_after_lsb0_change h₂ = true ∧ reuse_after_mxfp_overflow_change h₂ = false := by
  decide

/-! ### the model of the working tree (setters as extracted: `Gen.staleAfterMxfp`, `Gen.staleAfterLsb0`) -/

/-- Generated obligation: evaluated on the working tree, a string parsed before `options.mxfp_overflow = …` /
    `options.lsb0 = …` is not served afterwards (the setters clear `str_to_bitstore`, commit a428504). -/
theorem head_setters_invalidate : Gen.staleAfterMxfp = false ∧ Gen.staleAfterLsb0 = false := by
  decide

/-- Full strength for the configuration the driver runs (`genCfg`: capacities, tables and setter behaviour as
    extracted from the working tree): EVERY observation of EVERY history is pure — all eight caches, every order of
    option assignments, every interleaving with cache_clears, method dispatch included. -/
theorem head_all_pure (cfg : SysCfg) (h : genCfg = some cfg) (ops : List SysOp) :
    ∀ out ∈ (sysRun cfg (Sys.init cfg) ops).2, out.pure cfg = true := by
  have hc := genCfg_spec cfg h
  exact sys_pure_inval cfg (gen_same_keys cfg hc.1 hc.2.1)
    (by rw [hc.2.2.1, head_setters_invalidate.2]; rfl) (by rw [hc.2.2.2, head_setters_invalidate.1]; rfl) ops

/-- `str_to_bitstore` with invalidating setters: two histories ending in the same option state agree on every call. -/
theorem str_to_bitstore_option_restore (cap : Nat) (ops₁ ops₂ : List (Op Call)) (a : Call)
    (h : optsAfter Opts.init ops₁ = optsAfter Opts.init ops₂) :
    (step (strCfg cap true) (run (strCfg cap true) St.init ops₁).1 (.call a)).2
      = (step (strCfg cap true) (run (strCfg cap true) St.init ops₂).1 (.call a)).2 :=
  restore (strCfg cap true) (strCfg_keyDetermines cap true) (strCfg_roi cap) ops₁ ops₂ a h

/-- `option_restore` for the whole system with invalidating setters: what a call of ANY of the eight memoised
    functions returns is a function of the current option state and the arguments — never of the history. -/
theorem sys_option_restore (cfg : SysCfg)
    (hl : cfg.inval .strToBitstore .lsb0 = true) (hm : cfg.inval .strToBitstore .mxfp = true)
    (ops₁ ops₂ : List SysOp) (cid : CacheId) (a : Call)
    (h : sysOptsAfter Opts.init ops₁ = sysOptsAfter Opts.init ops₂) :
    (sysStep cfg (sysRun cfg (Sys.init cfg) ops₁).1 (.call cid a)).2
      = (sysStep cfg (sysRun cfg (Sys.init cfg) ops₂).1 (.call cid a)).2 := by
  have e : (Sys.init cfg).opts = Opts.init := rfl
  rw [sys_call_fresh cfg hl hm ops₁ cid a, sys_call_fresh cfg hl hm ops₂ cid a, sysRun_opts, sysRun_opts, e, h]

/-- … for the configuration of the working tree. -/
theorem head_option_restore (cfg : SysCfg) (hg : genCfg = some cfg) (ops₁ ops₂ : List SysOp) (cid : CacheId) (a : Call)
    (h : sysOptsAfter Opts.init ops₁ = sysOptsAfter Opts.init ops₂) :
    (sysStep cfg (sysRun cfg (Sys.init cfg) ops₁).1 (.call cid a)).2
      = (sysStep cfg (sysRun cfg (Sys.init cfg) ops₂).1 (.call cid a)).2 := by
  have hc := genCfg_spec cfg hg
  exact sys_option_restore cfg (by rw [hc.2.2.1, head_setters_invalidate.2]; rfl)
    (by rw [hc.2.2.2, head_setters_invalidate.1]; rfl) ops₁ ops₂ cid a h

/-- In particular: `options.n = v` followed by `options.n = <old value>` changes no later result. -/
theorem sys_set_back_restores (o : Opts) (ops : List SysOp) (n : OptName) (v : Bool) :
    sysOptsAfter o (ops ++ [.setOpt n v, .setOpt n ((sysOptsAfter o ops).get n)]) = sysOptsAfter o ops := by
  simp only [sysOptsAfter, List.foldl_append, List.foldl_cons, List.foldl_nil]
  exact set_back_restores _ n v

/-! ### `Dtype._create` / `Dtype._new_from_token`: typed keys (e6496ea) -/

/-- Generated obligation: both Dtype caches of the working tree are `typed=True`. -/
theorem head_dtype_caches_typed : Gen.dtypeCachesTyped = true := by
  decide

/-- With typed keys (the working tree): after ANY history `Dtype._create(definition, length, scale)` returns EXACTLY
    the Dtype a cold call builds — the scale object asked for, int or float or bool — and raises exactly when a cold
    call raises. -/
theorem dtype_create_exact_typed (cap : Nat) (ops : List (Op DtypeArg)) (a : DtypeArg) :
    (step (dtypeCfg cap true) (run (dtypeCfg cap true) St.init ops).1 (.call a)).2
      = some (dtypeCreate Opts.init a) :=
  dtype_exact_typed cap ops a

/-- Typed or not: the Dtype served equals the cold one BY VALUE (same name, same length, numerically equal scale),
    and the call raises exactly when a cold call raises. -/
theorem dtype_create_value_pure (cap : Nat) (typed : Bool) (ops : List (Op DtypeArg)) (a : DtypeArg) :
    match (step (dtypeCfg cap typed) (run (dtypeCfg cap typed) St.init ops).1 (.call a)).2 with
    | some (.ok d) => dtypeCreate Opts.init a = .ok a ∧ d.valueEq a
    | some (.error e) => dtypeCreate Opts.init a = .error e
    | none => False :=
  dtype_value_pure cap typed ops a

/-- Why the caches must be typed (the tree before e6496ea): with `==` keys the scale OBJECT is the first caller's
    (int 2 served for float 2.0), in either order; with typed keys each call gets its own. -/
theorem dtype_create_first_caller_wins :
    let i2 : DtypeArg := ⟨"uint", some 8, some ⟨2, 1, .int⟩⟩
    let f2 : DtypeArg := ⟨"uint", some 8, some ⟨2, 1, .float⟩⟩
    (run (dtypeCfg 256 false) St.init [.call i2, .call f2]).2 = [some (.ok i2), some (.ok i2)] ∧
    (run (dtypeCfg 256 false) St.init [.call f2, .call i2]).2 = [some (.ok f2), some (.ok f2)] ∧
    (run (dtypeCfg 256 true) St.init [.call i2, .call f2, .call i2]).2 = [some (.ok i2), some (.ok f2), some (.ok i2)] ∧
    i2 ≠ f2 ∧ i2.valueEq f2 := by
  decide

/-! ### non-vacuity: the hypotheses are satisfiable by non-trivial values -/

/-- `KeyDetermines`, `ReadsOnlyInvalidating`, `Fresh` hold for the repaired `str_to_bitstore` with a warm cache. -/
example : KeyDetermines (strCfg 256 true) ∧ ReadsOnlyInvalidating (strCfg 256 true) ∧
    Fresh (strCfg 256 true) (Opts.init.set .mxfp true)
      (run (strCfg 256 true) St.init [.call kMxfp, .setOpt .mxfp true, .call kMxfp, .call (kLit "0x1")]).1.cache :=
  ⟨strCfg_keyDetermines _ _, strCfg_roi _, by
    intro e he
    have : e = (kLit "0x1", ⟨kLit "0x1", none⟩) ∨ e = (kMxfp, ⟨kMxfp, some true⟩) := by
      revert he; decide +revert
    rcases this with rfl | rfl
    · exact ⟨kLit "0x1", rfl, by decide⟩
    · exact ⟨kMxfp, rfl, by decide⟩⟩

/-- The repaired cache really serves hits and still agrees with the specification on a history that flips both options. -/
example :
    let h := [Op.call kMxfp, .call kMxfp, .setOpt .mxfp true, .call kMxfp, .call kUe, .setOpt .lsb0 true, .call kUe,
              .setOpt .lsb0 false, .setOpt .mxfp false, .call kMxfp, .call kUe]
    (run (strCfg 2 true) St.init h).2 = pureRun (sem .strToBitstore) Opts.init h ∧
    (run (strCfg 2 true) St.init h).1.cache.length = 2 := by
  decide

/-- A history outside both regions that still re-uses option-reading strings, changes options and evicts. -/
example :
    let h := [SysOp.call .strToBitstore kUe, .setOpt .mxfp true, .call .strToBitstore kUe,
              .call .strToBitstore kMxfp, .setOpt .lsb0 true, .call .strToBitstore kMxfp, .useMethod ("Bits", "_find")]
    reuse_after_lsb0_change h = false ∧ reuse_after_mxfp_overflow_change h = false := by
  decide

/-- `SameKeys` holds for the tables of the working tree, which are not empty and not equal. -/
example : SameKeys { cap := fun _ => 256, inval := fun _ _ => false, tblLsb0 := Gen.lsb0Table, tblMsb0 := Gen.msb0Table } ∧
    Gen.lsb0Table ≠ Gen.msb0Table ∧ Gen.lsb0Table.length = Gen.msb0Table.length ∧ 0 < Gen.lsb0Table.length :=
  ⟨gen_same_keys _ rfl rfl, by decide, by decide, by decide⟩

/-- The configuration of the working tree exists (all eight capacities were extracted) and its string cache is cleared by both
    setters, so `head_all_pure` / `head_option_restore` are not vacuous. -/
example : ∃ cfg, genCfg = some cfg ∧ cfg.inval .strToBitstore .lsb0 = true ∧ cfg.inval .strToBitstore .mxfp = true := by
  refine ⟨_, rfl, by decide, by decide⟩

/-- The Dtype hypothesis of `lru_correct_upto` is used with a relation that is not equality. -/
example : (⟨"uint", some 8, some ⟨2, 1, .int⟩⟩ : DtypeArg).valueEq ⟨"uint", some 8, some ⟨2, 1, .bool⟩⟩ := by
  decide

end BM.C09
