/-
  Props/C03_Src4.lean — tie between C03's hand-written ALG transcription of `BitArray.reverse` and the CURRENT source
  text (fourth batch; `_validate_slice`, `ror` / `rol`, `*=` are in Props/C03_Src.lean, `insert` / `overwrite` in
  C03_Src2, `invert` / `byteswap` in C03_Src3).

  `Gen.Src.ba_reverse self_len start end` is regenerated on every run by harness/translate.py from
  bitstring/bitarray_.py: the range validation (the translated `_validate_slice`), the whole-range test
  `start == 0 and end == len(self)` and the bounds of the slice that is taken and of the slice that is assigned are
  translated; the effects (`self._bitstore.reverse()`, `L1 = self._slice(_, _)`, `L1._bitstore.reverse()`,
  `self[_:_] = L1`) are recorded.  `reverseMeaning` gives them the meaning the C03 model gives the primitives they name
  (`List.reverse`, `slc`, `PyL.setSlice`), and the theorem states that for EVERY content and EVERY pair of Optional
  bounds the translated method IS `Alg.reverse` of Model/C03.lean, the ValueError of an invalid range included.  A
  change of the whole-range shortcut's guard, of either pair of bounds, or of the validation breaks it.
-/
import BitstringModel.Model.C03
import BitstringModel.Gen.Src
import BitstringModel.Props.C03_Src
namespace BM.C03.Src4
open BM BM.C03 BM.C03.Src

/-- Meaning of the effects recorded for `BitArray.reverse` on the content `l`. -/
def reverseMeaning (l : Bits) : List Py.Act → Option (Except Err Bits)
  | [⟨"self._bitstore.reverse()", []⟩] => some (.ok l.reverse)
  | [⟨"L1 = self._slice(_, _)", [some a, some z]⟩, ⟨"L1._bitstore.reverse()", []⟩, ⟨"self[_:_] = L1", [some a', some z']⟩] =>
      if 0 ≤ a ∧ 0 ≤ z then some (PyL.setSlice l (some a') (some z') none (slc l a.toNat z.toNat).reverse) else none
  | _ => none

/-- `BitArray.reverse` as the source has it now = `Alg.reverse`, for every content and all Optional bounds. -/
theorem reverse_eq (l : Bits) (s e : Option Int) :
    interp (Gen.Src.ba_reverse (l.length : Int) s e) (reverseMeaning l) = some (Alg.reverse l s e) := by
  unfold Gen.Src.ba_reverse Alg.reverse validateSlice
  rw [src_validate_slice]
  by_cases h : 0 ≤ boundOr l.length 0 s ∧ boundOr l.length 0 s ≤ boundOr l.length l.length e
      ∧ boundOr l.length l.length e ≤ l.length
  · simp only [if_pos h, Except.bind]
    by_cases hw : (boundOr l.length 0 s).toNat = 0 ∧ (boundOr l.length l.length e).toNat = l.length
    · have h1 : boundOr l.length 0 s = 0 := by omega
      have h2 : boundOr l.length l.length e = (l.length : Int) := by omega
      simp [h1, h2, interp, reverseMeaning]
    · have hw' : ¬ (boundOr l.length 0 s = 0 ∧ boundOr l.length l.length e = (l.length : Int)) := by omega
      have hb : (decide (boundOr l.length 0 s = 0) && decide (boundOr l.length l.length e = (l.length : Int))) = false := by
        simpa using hw'
      have ha : ((boundOr l.length 0 s).toNat : Int) = boundOr l.length 0 s := by omega
      have hz : ((boundOr l.length l.length e).toNat : Int) = boundOr l.length l.length e := by omega
      simp only [hb, if_neg hw, interp, reverseMeaning, List.nil_append, List.cons_append, ha, hz]
      simp [h.1, show 0 ≤ boundOr l.length l.length e by omega]
  · simp [if_neg h, interp, Except.bind]

/-- Non-vacuity: an inner range goes through slice / reverse / assign, the whole range through the shortcut, a
    reversed range is the ValueError. -/
example : interp (Gen.Src.ba_reverse 5 (some 1) (some (-1))) (reverseMeaning [true, true, false, false, false])
    = some (.ok [true, false, false, true, false]) := by decide
example : interp (Gen.Src.ba_reverse 3 none none) (reverseMeaning [true, true, false]) = some (.ok [false, true, true]) := by
  decide
example : interp (Gen.Src.ba_reverse 3 (some 2) (some 1)) (reverseMeaning [true, true, false]) = some (.error .value) := by
  decide

end BM.C03.Src4
