/-
  Props/C01_Src.lean — tie between C01's hand-written ALG transcription of `s * n` and the CURRENT source text.

  `Gen.Src.mul` is regenerated on every run by harness/translate.py from `Bits.__mul__` (bitstring/bits.py): the
  guards are translated, the effects on objects (`self.__class__()`, `self._copy()`, `L1._imul(n)`, `return L1`) are
  recorded as `Py.Act`s.  `mulMeaning` gives them the meaning the C01 model gives them (an object = class + bits;
  `_imul` = `C01.imul`, the transcribed doubling loop), and `mul_eq` states that, for EVERY object and EVERY integer,
  the translated function under that meaning IS `C01.mul`, the function the theorems of Props/C01.lean are about.
-/
import BitstringModel.Model.C01
import BitstringModel.Gen.Src
namespace BM.C01.Src
open BM BM.C01

/-- `x._imul(n)` on the bits `l` (bits.py: def _imul): `assert n >= 0` — no meaning for a negative `n`;
    `n == 0 → _clear()`; otherwise the doubling loop, for which the model's own transcription `C01.imul` is used
    (`C01.imul` is the `else` branch only, i.e. `n ≥ 1`). -/
def imulPrim (l : Bits) (n : Int) : Option Bits :=
  if n < 0 then none else if n = 0 then some [] else some (imul l n.toNat)

/-- Meaning of the effects recorded for `Bits.__mul__` on the object `s`:
    `return self.__class__()` = an empty object of the class of `s`;
    `L1 = self._copy()` = same class, same bits; `L1._imul(n)`; `return L1`. -/
def mulMeaning (s : Obj) : List Py.Act → Option Obj
  | [⟨"return self.__class__()", []⟩] => some ⟨s.cls, []⟩
  | [⟨"L1 = self._copy()", []⟩, ⟨"L1._imul(_)", [some n]⟩, ⟨"return L1", []⟩] =>
      (imulPrim s.bits n).map fun b => ⟨s.cls, b⟩
  | _ => none

/-- `Bits.__mul__` as the source has it now = `C01.mul`, for every class, every content and every integer `n`
    (`n < 0`: ValueError on both sides; `n = 0`: the empty object of the class). -/
theorem mul_eq (s : Obj) (n : Int) :
    (Gen.Src.mul (s.bits.length : Int) n).map (mulMeaning s) = (mul s n).map some := by
  unfold Gen.Src.mul mul
  by_cases hn : n < 0
  · simp [hn, Except.map]
  · by_cases h0 : n = 0
    · subst h0; simp [Except.map, mulMeaning]
    · simp [hn, h0, Except.map, mulMeaning, imulPrim]

/-- Non-vacuity: `BitStream('0b10') * 3` really goes through copy / `_imul` / return. -/
example : (Gen.Src.mul 2 3).map (mulMeaning ⟨.bitStream, [true, false]⟩)
    = .ok (some ⟨.bitStream, [true, false, true, false, true, false]⟩) := by
  rfl

example : (Gen.Src.mul 2 0).map (mulMeaning ⟨.bitArray, [true, false]⟩) = .ok (some ⟨.bitArray, []⟩) := by
  rfl

end BM.C01.Src
