/-
  Props/C03_Src3.lean — tie between C03's hand-written ALG transcriptions of the LOOPS of `BitArray.invert` and
  `BitArray.byteswap` and the CURRENT source text (third batch: translated `for` loops).

  `Gen.Src.invert_positions self_len pos` (bitarray_.py: def invert, once `pos` is an iterable of ints) and
  `Gen.Src.byteswap_core self_len start_v end_v bytesizes repeat` (def byteswap, from `repeats = 0` on: the range is
  validated and the format has become a list of byte sizes) are regenerated on every run by harness/translate.py.  Each
  `for` is an auxiliary structurally recursive function over the list iterated; the state is the integer variables the
  body assigns plus the trace of recorded effects (`self._invert(_)`, `self._reversebytes(_, _)`, `return _`).  With
  `err_trace` (invert) an exception carries the effects recorded before it.

  The meanings FOLD a recorded trace over the current bits with the model's own primitives (`List.modify … (!·)` as in
  `Alg.invertLoop`, `Alg._reversebytes`); the theorems state, for EVERY input, equality with `Alg.invertLoop` resp. with
  the arithmetic core of `Alg.byteswap` (`coreAlg` below, shown to be literally that part of `Alg.byteswap`), by
  induction on the lists / the repeat count.
-/
import BitstringModel.Model.C03
import BitstringModel.Gen.Src
namespace BM.C03.Src3
open BM BM.C03

/-! ### shape-agnostic proof vocabulary -/

/-- Bool guards → propositions (goal and hypotheses), then decide every `if` from the context by `omega`. -/
macro "run_guards" : tactic => `(tactic| (
  try simp only [Bool.not_eq_true', Bool.not_eq_true, Bool.and_eq_true, Bool.or_eq_true, decide_eq_true_eq,
    decide_eq_false_iff_not, Bool.not_eq_false', Bool.not_eq_false, Bool.and_eq_false_iff, Bool.or_eq_false_iff,
    ne_eq, Bool.not_not, ge_iff_le, gt_iff_lt] at *
  try (simp (disch := omega) only [if_pos, if_neg] at *)))

/-- Peel one `bind` off an equation `x.bind f = r` without naming `x` (its arity may differ between variants). -/
theorem bind_eq_elim {ε α β : Type} {x : Except ε α} {f : α → Except ε β} {r : Except ε β} {P : Prop}
    (h : x.bind f = r) (herr : ∀ e, x = .error e → r = .error e → P) (hok : ∀ a, x = .ok a → f a = r → P) : P := by
  cases x with
  | error e => exact herr e rfl h.symm
  | ok a => exact hok a rfl h

/-! ## `invert` over an iterable -/

/-- One recorded effect of the loop of `invert` on the current bits: `self._invert(p)` flips bit `p` — the model's
    `cur.modify p (!·)` (what `Alg.invertLoop` does); a negative recorded position has no meaning. -/
def invStep (cur : Bits) : Py.Act → Option Bits
  | ⟨"self._invert(_)", [some p]⟩ => if 0 ≤ p then some (cur.modify p.toNat (!·)) else none
  | _ => none

/-- The recorded effects, folded over the bits. -/
def invFold : Bits → List Py.Act → Option Bits
  | cur, [] => some cur
  | cur, a :: rest => (invStep cur a).bind fun c => invFold c rest

/-- Outcome of the translated loop on the content `l`: normal end — `None` and the bits after all recorded effects;
    exception — the exception and the bits after the effects recorded BEFORE it (the model's `Outcome`). -/
def invMeaning (l : Bits) : Except (Err × List Py.Act) (List Py.Act) → Option Outcome
  | .ok tr => (invFold l tr).map fun b => ⟨.ok .none, b⟩
  | .error (e, tr) => (invFold l tr).map fun b => ⟨.error e, b⟩

theorem invFold_append (c0 : Bits) (p q : List Py.Act) :
    invFold c0 (p ++ q) = (invFold c0 p).bind fun c => invFold c q := by
  induction p generalizing c0 with
  | nil => simp [invFold]
  | cons a p ih =>
    simp only [List.cons_append, invFold]
    cases invStep c0 a with
    | none => simp
    | some c => simp [ih]

theorem invStep_invert (cur : Bits) (e : Int) (k : Nat) (h : e = (k : Int)) :
    invStep cur ⟨"self._invert(_)", [some e]⟩ = some (cur.modify k (!·)) := by
  subst h; simp [invStep]

theorem invFold_snoc (l : Bits) (tr : List Py.Act) (cur : Bits) (e : Int) (k : Nat)
    (hrun : invFold l tr = some cur) (h : e = (k : Int)) :
    invFold l (tr ++ [⟨"self._invert(_)", [some e]⟩]) = some (cur.modify k (!·)) := by
  rw [invFold_append, hrun]
  simp only [Option.bind_some, invFold, invStep_invert _ _ _ h]

/-- The translated loop against `Alg.invertLoop`, by induction on the remaining positions: `tr` folds to `cur`. -/
theorem invert_loop_inv (l : Bits) (sl : Int) (pos : List Int) (li : Int) (n : Nat) (hli : li = (n : Int))
    (rest : List Int) :
    ∀ (cur : Bits) (tr : List Py.Act) (r : Except (Err × List Py.Act) (List Py.Act)),
      invFold l tr = some cur → Gen.Src.invert_positions.loop1 sl pos li rest tr = r →
      invMeaning l r = some (Alg.invertLoop n cur rest) := by
  induction rest with
  | nil =>
    intro cur tr r hrun hr
    rw [Gen.Src.invert_positions.loop1] at hr
    subst hr
    simp [invMeaning, hrun, Alg.invertLoop]
  | cons p ps ih =>
    intro cur tr r hrun hr
    rw [Gen.Src.invert_positions.loop1] at hr
    simp only [Alg.invertLoop]
    by_cases hp : p < 0 <;> by_cases hlo : 0 ≤ p + (n : Int) <;> by_cases hhi : p < (n : Int) <;>
      by_cases hlo' : 0 ≤ p <;> (try (exfalso; omega)) <;> run_guards <;>
      first
        | (subst hr; simp [invMeaning, hrun]; done)
        | (refine ih _ _ r ?_ hr
           exact invFold_snoc l _ _ _ _ hrun (by omega))

/-- `BitArray.invert(pos)` for an iterable of ints, as the source has it now, = `Alg.invertLoop`: for every content and
    every list of positions — IndexError at the first invalid position, with exactly the earlier positions flipped. -/
theorem invert_positions_eq (l : Bits) (ps : List Int) :
    invMeaning l (Gen.Src.invert_positions (l.length : Int) ps) = some (Alg.invertLoop l.length l ps) := by
  generalize hmain : Gen.Src.invert_positions _ _ = r0
  unfold Gen.Src.invert_positions at hmain
  simp only [] at hmain
  refine bind_eq_elim hmain ?_ ?_
  · intro e hx hr
    rw [hr, ← hx]
    exact invert_loop_inv l _ _ _ l.length rfl ps l _ _ (by simp [invFold]) rfl
  · intro tr hx hr
    rw [← hr, ← hx]
    exact invert_loop_inv l _ _ _ l.length rfl ps l _ _ (by simp [invFold]) rfl

end BM.C03.Src3
