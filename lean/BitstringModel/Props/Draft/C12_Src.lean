/-
  Props/C12_Src.lean — tie between C12's hand-written ALG transcriptions and the CURRENT source text: the functions
  below are regenerated from /repo on every run by harness/translate.py (Gen/Src.lean); the theorems state that, for
  EVERY input, they compute what the ALG functions of Model/C12.lean (which Props/C12.lean reasons about) compute.
-/
import BitstringModel.Model.C12
import BitstringModel.Gen.Src
namespace BM.C12.Src
open BM BM.C12

def toSlice (k : Key) : Py.Slice := ⟨k.start, k.stop, k.step⟩
def ofSlice (k : Py.Slice) : Key := ⟨k.start, k.stop, k.step⟩

/-- `offset_slice_indices_lsb0` (bitstore.py) as translated from the source = `C12.offsetSliceLsb0`, for every slice
    and every length. -/
theorem offset_slice_indices_lsb0_eq (k : Key) (n : Nat) :
    (Gen.Src.offset_slice_indices_lsb0 (toSlice k) (n : Int)).map ofSlice = offsetSliceLsb0 k n := by
  sorry

/-- `Bits._validate_slice` (bits.py) as translated from the source = `C12.validateSlice`. -/
theorem validate_slice_eq (n : Nat) (a b : Option Int) :
    (Gen.Src.validate_slice (n : Int) a b).map (fun p => (p.1.toNat, p.2.toNat)) = validateSlice n a b := by
  sorry

/-- Non-vacuity: a negative-step slice of a 10-bit value. -/
example : (Gen.Src.offset_slice_indices_lsb0 ⟨some 7, some 2, some (-2)⟩ 10).map ofSlice = .ok ⟨some 6, some 1, some (-2)⟩ := by
  rfl

end BM.C12.Src
