/-
  Props/C03_Byteswap.lean — in-place mutations, part 4: `byteswap`.

  SPEC: the byte-size pattern is applied as often as it fits into `[start, end)` (at most once without `repeat`);
  each application byte-reverses consecutive groups; nothing outside the range moves; returns the repeat count.
  ALG: `for patternend in range(start + total, finalbit + 1, total)` around `for bytesize in bytesizes` around
  `_reversebytes` = `self._bitstore[s:e] = frombytes(getslice(s, e).tobytes()[::-1])` (clamping and zero-padding at
  the end of the data included).
-/
import BitstringModel.Model.C03
import BitstringModel.Proofs.C03
import BitstringModel.Proofs.C03Byteswap

namespace BM.C03
open BM
open Byteswap

/-! ### byte reversal -/

theorem revBytes_length (b : Bits) : (revBytes b).length = b.length := by
  exact Byteswap.revBytes_length b

/-- `revBytes` moves whole bytes: the first byte goes last. -/
theorem revBytes_append (a b : Bits) (ha : a.length = 8) : revBytes (a ++ b) = revBytes b ++ a := by
  exact Byteswap.revBytes_append a b ha

theorem revBytes_involutive (b : Bits) (h : 8 ∣ b.length) : revBytes (revBytes b) = b := by
  exact Byteswap.revBytes_involutive b h

/-- Bit `i` of byte `j` goes to bit `i` of byte `m-1-j` (for `m` whole bytes). -/
theorem revBytes_getElem (b : Bits) (m : Nat) (h : b.length = 8 * m) (j i : Nat) (hj : j < m) (hi : i < 8) :
    (revBytes b)[8 * (m - 1 - j) + i]? = b[8 * j + i]? := by
  exact Byteswap.revBytes_getElem b m h j i hj hi

/-- `_reversebytes(s, e)` on a whole-byte range inside the data is the splice of the byte-reversed range. -/
theorem reversebytes_in_range (l : Bits) (s e : Nat) (hse : s ≤ e) (he : e ≤ l.length) (h8 : 8 ∣ e - s) :
    Alg._reversebytes l s e = .ok (l.take s ++ revBytes (slc l s e) ++ l.drop e) := by
  exact Byteswap.reversebytes_in_range l s e hse he h8

/-! ### format strings (shared grammar of SPEC and ALG; these pin it to utils.BYTESWAP_STRUCT_PACK_RE / PACK_CODE_SIZE) -/

theorem parseFmt_examples :
    parseFmt "h" = some [2] ∧ parseFmt "2h" = some [2, 2] ∧ parseFmt "<bhlq" = some [1, 2, 4, 8] ∧
    parseFmt ">3b2H" = some [1, 1, 1, 2, 2] ∧ parseFmt "=efd" = some [2, 4, 8] ∧ parseFmt "@iILQ" = some [4, 4, 4, 8] ∧
    parseFmt "0h" = some [] ∧ parseFmt "10b" = some (List.replicate 10 1) ∧
    parseFmt "" = none ∧ parseFmt "<" = none ∧ parseFmt "x" = none ∧ parseFmt "h2" = none ∧ parseFmt "h<" = none := by
  decide

/-! ### byteswap -/

/-- `byteswap`: ALG = SPEC for every format, range and `repeat` setting: the pattern loop
    `range(start + total, finalbit + 1, total)` (with `finalbit = end`, or `min(start + total, end)` without `repeat`)
    applies the pattern exactly as often as it fits into `[start, end)`. -/
theorem byteswap_eq_spec (l : Bits) (f : Fmt) (s e : Option Int) (rep : Bool) :
    Alg.byteswap l f s e rep = Spec.byteswap l f s e rep := by
  exact Byteswap.alg_byteswap_eq l f s e rep

/-- A pattern that does not fit into `[start, end)` is not applied (the pinned tree swapped past `end` here and grew a
    17-bit bitstring to 24 bits). -/
theorem byteswap_past_end_examples :
    Alg.byteswap (natToBits 24 0x010203) (.int 2) (some 0) (some 8) false = .ok (0, natToBits 24 0x010203) ∧
    Alg.byteswap (natToBits 17 0x15555) (.int 3) none none false = .ok (0, natToBits 17 0x15555) ∧
    Alg.byteswap (natToBits 24 0x010203) (.int 2) (some 0) (some 16) false = .ok (1, natToBits 24 0x020103) := by
  refine ⟨by decide, by decide, by decide⟩

theorem byteswap_length (l r : Bits) (f : Fmt) (s e : Option Int) (rep : Bool) (k : Nat)
    (h : Spec.byteswap l f s e rep = .ok (k, r)) : r.length = l.length := by
  exact Byteswap.byteswap_length l r f s e rep k h

/-- Frame: nothing outside `[a, z)` is altered — in fact nothing outside the `k` whole patterns. -/
theorem byteswap_frame (l r : Bits) (f : Fmt) (s e : Option Int) (rep : Bool) (k a z : Nat)
    (h : Spec.byteswap l f s e rep = .ok (k, r)) (hv : validateSlice l.length s e = .ok (a, z)) :
    r.take a = l.take a ∧ r.drop z = l.drop z := by
  exact Byteswap.byteswap_frame l r f s e rep k a z h hv

/-- The return value: as many whole patterns as fit (with `repeat`), one if it fits (without), 0 for an empty pattern. -/
theorem byteswap_count (l r : Bits) (f : Fmt) (s e : Option Int) (rep : Bool) (k a z : Nat) (sizes : List Nat)
    (h : Spec.byteswap l f s e rep = .ok (k, r)) (hv : validateSlice l.length s e = .ok (a, z))
    (hf : fmtSizes f a z = .ok sizes) :
    k * (8 * sizes.sum) ≤ z - a ∧
    (rep = true → 8 * sizes.sum ≠ 0 → z - a < (k + 1) * (8 * sizes.sum)) ∧
    (rep = false → k ≤ 1) ∧ (8 * sizes.sum = 0 → k = 0 ∧ r = l) := by
  exact Byteswap.byteswap_count l r f s e rep k a z sizes h hv hf

/-- Swapping twice with the same arguments restores the content. -/
theorem byteswap_involutive (l r : Bits) (f : Fmt) (s e : Option Int) (rep : Bool) (k : Nat)
    (h : Spec.byteswap l f s e rep = .ok (k, r)) : Spec.byteswap r f s e rep = .ok (k, l) := by
  exact Byteswap.byteswap_involutive l r f s e rep k h

/-- The default format reverses all whole bytes of the range. -/
theorem byteswap_default (l : Bits) (s e : Option Int) (a z : Nat) (hv : validateSlice l.length s e = .ok (a, z))
    (h8 : 8 ≤ z - a) :
    Spec.byteswap l .none s e true =
      .ok (1, l.take a ++ revBytes (slc l a (a + 8 * ((z - a) / 8))) ++ l.drop (a + 8 * ((z - a) / 8))) := by
  exact Byteswap.byteswap_default l s e a z hv h8

theorem byteswap_errors (l : Bits) (f : Fmt) (s e : Option Int) (rep : Bool) :
    (validateSlice l.length s e = .error .value → Spec.byteswap l f s e rep = .error .value) ∧
    (∀ a z, validateSlice l.length s e = .ok (a, z) → fmtSizes f a z = .error .value →
      Spec.byteswap l f s e rep = .error .value) := by
  exact Byteswap.byteswap_errors l f s e rep

theorem fmtSizes_err_iff (f : Fmt) (a z : Nat) :
    fmtSizes f a z = .error .value ↔
      match f with
      | .none => False
      | .int k => k < 0
      | .sizes ks => ∃ k ∈ ks, k < 0
      | .str s => parseFmt s = none := by
  exact Byteswap.fmtSizes_err_iff f a z

/-! ### non-vacuity -/
example : Alg.byteswap (natToBits 24 0x010203) (.int 2) none none false = .ok (1, natToBits 24 0x020103) := by decide
example : Alg.byteswap (natToBits 40 0x0102030405) (.str "hb") none none true = .ok (1, natToBits 40 0x0201030405) := by decide
example : Alg.byteswap (natToBits 40 0x0102030405) (.sizes [2, 0, 1]) (some 4) (some 36) true =
    .ok (1, natToBits 40 0x0201030405) := by decide

end BM.C03
