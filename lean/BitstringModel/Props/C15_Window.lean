/-
  Props/C15_Window.lean — C15 for windows over a supplied source: "an offset or length beyond the supplied
  bytes/bitarray/file raises CreationError … every in-range combination succeeds and has exactly the requested length".
  `windowSpec` is the property; `bytesWin`, `bitarrayWin`, `bytesioWin`, `fileWin` are the code
  (`_setbytes_with_truncation`, `_setbitarray`, the BytesIO branch of `_setauto`, `_setfile` + `BitStore.frombuffer`).
  Full strength since /repo dbe55ac + bcebbd6 (negative offset / length and an offset past the end are refused).
-/
import BitstringModel.Model.C15
import BitstringModel.Proofs.C15Window

namespace BM.C15
open BM

/-- The specification unfolded: a window succeeds iff `0 ≤ off ∧ 0 ≤ len ∧ off + len ≤ n`
    (defaults `off = 0`, `len = n - off`), and then it is exactly those bits. -/
theorem window_ok_iff (src : Bits) (off len : Option Int) (b : Bits) :
    windowSpec src off len = .ok b ↔
      (0 ≤ off.getD 0 ∧ 0 ≤ len.getD ((src.length : Int) - off.getD 0) ∧
        off.getD 0 + len.getD ((src.length : Int) - off.getD 0) ≤ src.length ∧
        b = (src.drop (off.getD 0).toNat).take (len.getD ((src.length : Int) - off.getD 0)).toNat) :=
  window_ok_iff_aux src off len b

/-- … with exactly the requested length. -/
theorem window_length (src : Bits) (off len : Option Int) (b : Bits) (h : windowSpec src off len = .ok b) :
    (b.length : Int) = len.getD ((src.length : Int) - off.getD 0) := window_length_aux src off len b h

/-- Anything else is a ValueError (CreationError): the classification is total. -/
theorem window_total (src : Bits) (off len : Option Int) :
    (∃ b, windowSpec src off len = .ok b) ∨ windowSpec src off len = .error .value := by
  unfold windowSpec; simp only; split
  · exact Or.inl ⟨_, rfl⟩
  · exact Or.inr rfl

/-- `Bits(bitarray=ba, offset=off, length=len)`: exactly the specification, for every offset and length
    (negative, beyond the end, `None`) and every source. -/
theorem bitarrayWin_eq (ba : Bits) (off len : Option Int) :
    bitarrayWin ba off len = windowSpec ba off len := bitarrayWin_eq_aux ba off len

/-- `Bits(bytes=data, offset=off, length=len)`. -/
theorem bytesWin_eq (data : List Nat) (off len : Option Int) :
    bytesWin data off len = windowSpec (fromBytes data) off len := bytesWin_eq_aux data off len

/-- `Bits(io.BytesIO(data), offset=off, length=len)`: the byte-offset / bit-offset arithmetic
    (`divmod(offset, 8)`, the chunk of ⌈(length + offset) / 8⌉ − ⌊offset / 8⌋ bytes, the bit slice inside it)
    selects exactly bits `off … off + len`. -/
theorem bytesioWin_eq (data : List Nat) (off len : Option Int) :
    bytesioWin data off len = windowSpec (fromBytes data) off len := bytesioWin_eq_aux data off len

/-- `Bits(filename=f, …)` and `Bits(open(f, 'rb'), …)` (empty files included). -/
theorem fileWin_eq (data : List Nat) (off len : Option Int) :
    fileWin data off len = windowSpec (fromBytes data) off len := fileWin_eq_aux data off len

/-- `window_ok_iff` for each source: success iff `0 ≤ off ∧ 0 ≤ len ∧ off + len ≤ n`, with exactly those bits. -/
theorem source_window_ok_iff (data : List Nat) (ba : Bits) (off len : Option Int) (b : Bits) :
    (bytesWin data off len = .ok b ↔ windowSpec (fromBytes data) off len = .ok b) ∧
    (bytesioWin data off len = .ok b ↔ windowSpec (fromBytes data) off len = .ok b) ∧
    (fileWin data off len = .ok b ↔ windowSpec (fromBytes data) off len = .ok b) ∧
    (bitarrayWin ba off len = .ok b ↔ windowSpec ba off len = .ok b) := by
  rw [bytesWin_eq, bytesioWin_eq, fileWin_eq, bitarrayWin_eq]
  exact ⟨Iff.rfl, Iff.rfl, Iff.rfl, Iff.rfl⟩

/-! ### non-vacuity: in-range, out-of-range and formerly deviant cases, decided -/

example : bytesioWin [0xa5, 0x3c] (some 3) (some 7) = .ok [false, false, true, false, true, false, false] ∧
    windowSpec (fromBytes [0xa5, 0x3c]) (some 3) (some 7) = .ok [false, false, true, false, true, false, false] ∧
    bytesioWin [0xa5, 0x3c] (some 3) (some 14) = .error .value ∧
    fileWin [0xa5, 0x3c] (some 9) none = .ok [false, true, true, true, true, false, false] ∧
    fileWin [] none none = .ok [] ∧ fileWin [] (some 1) none = .error .value := by decide
example : bytesWin [0xf0, 0x0f] (some 17) none = .error .value ∧ bytesWin [0xf0, 0x0f] (some 16) none = .ok [] ∧
    bytesWin [0xf0, 0x0f] (some (-3)) none = .error .value ∧ bytesWin [0x01, 0xaa, 0xf0] (some 16) (some 12) = .error .value ∧
    bitarrayWin [true, false, true, true] none (some (-1)) = .error .value ∧
    bytesioWin [0xf0, 0x0f] (some 17) none = .error .value ∧ fileWin [0xf0, 0x0f] (some 17) (some 0) = .error .value ∧
    fileWin [0xf0, 0x0f] (some (-2)) (some 1) = .error .value := by decide

end BM.C15
