/-
  Props/C15_Window.lean — C15 for windows over a supplied source: "an offset or length beyond the supplied
  bytes/bitarray/file raises CreationError … every in-range combination succeeds and has exactly the requested length".
  `windowSpec` is the property; `bytesWin`, `bitarrayWin`, `bytesioWin`, `fileWin` are the code.
-/
import BitstringModel.Model.C15
import BitstringModel.Proofs.C15Window

namespace BM.C15
open BM

/-- The specification unfolded: a window succeeds iff `0 ≤ off ∧ 0 ≤ len ∧ off + len ≤ n`
    (defaults `off = 0`, `len = n - off`), and then it is exactly those bits. -/
theorem window_ok_iff (src : Bits) (off len : Option Int) (b : Bits) :
    windowSpec src off len = .ok b ↔
      (0 ≤ off.getD 0 ∧ 0 ≤ len.getD ((src.length : Int) - off.getD 0) ∧
        off.getD 0 + len.getD ((src.length : Int) - off.getD 0) ≤ src.length ∧
        b = (src.drop (off.getD 0).toNat).take (len.getD ((src.length : Int) - off.getD 0)).toNat) :=
  window_ok_iff_aux src off len b

/-- … with exactly the requested length. -/
theorem window_length (src : Bits) (off len : Option Int) (b : Bits) (h : windowSpec src off len = .ok b) :
    (b.length : Int) = len.getD ((src.length : Int) - off.getD 0) := window_length_aux src off len b h

/-- `bitarray=` is right whenever offset and length are not negative. -/
theorem bitarrayWin_eq_partial (ba : Bits) (off len : Option Int) (hneg : winNegative off len = false) :
    bitarrayWin ba off len = windowSpec ba off len := bitarrayWin_eq_partial_aux ba off len hneg

/-- `bytes=` is right whenever offset and length are not negative and (with no length) the offset is inside the data. -/
theorem bytesWin_eq_partial (data : List Nat) (off len : Option Int) (hneg : winNegative off len = false)
    (hbey : len = none → winBeyond (fromBytes data).length off = false) :
    bytesWin data off len = windowSpec (fromBytes data) off len := bytesWin_eq_partial_aux data off len hneg hbey

/-- The BytesIO branch (byte offset / bit offset arithmetic) on the same region. -/
theorem bytesioWin_eq_partial (data : List Nat) (off len : Option Int) (hneg : winNegative off len = false)
    (hbey : len = none → winBeyond (fromBytes data).length off = false) :
    bytesioWin data off len = windowSpec (fromBytes data) off len := bytesioWin_eq_partial_aux data off len hneg hbey

/-- Files (by name or handle, empty files included): right for a non-negative offset, except a zero length at an
    offset past the end. Negative lengths ARE refused here. -/
theorem fileWin_eq_partial (data : List Nat) (off len : Option Int)
    (hoff : 0 ≤ off.getD 0) (hbey : winBeyond (fromBytes data).length off = false ∨ len ≠ some 0) :
    fileWin data off len = windowSpec (fromBytes data) off len := fileWin_eq_partial_aux data off len hoff hbey

/-! ### known deviations of the pinned tree (decided witnesses; the regions are the hypotheses dropped above) -/

/-- `window_offset_beyond`: `Bits(bytes=b'\xf0\x0f', offset=17)` is an empty bitstring, as is the BytesIO form;
    a file accepts `offset=17, length=0`. -/
theorem window_offset_beyond_deviates :
    bytesWin [0xf0, 0x0f] (some 17) none = .ok [] ∧ bytesioWin [0xf0, 0x0f] (some 17) none = .ok [] ∧
    fileWin [0xf0, 0x0f] (some 17) (some 0) = .ok [] ∧
    windowSpec (fromBytes [0xf0, 0x0f]) (some 17) none = .error .value ∧
    windowSpec (fromBytes [0xf0, 0x0f]) (some 17) (some 0) = .error .value := by decide

/-- `window_negative`: `Bits(bytes=b, offset=-3)` is the last three bits; a negative length is taken as a slice end. -/
theorem window_negative_deviates :
    bytesWin [0xf0, 0x0f] (some (-3)) none = .ok [true, true, true] ∧
    bitarrayWin [true, false, true, true] (some (-2)) none = .ok [true, true] ∧
    bitarrayWin [true, false, true, true] none (some (-1)) = .ok [true, false, true] ∧
    bytesioWin [0xf0, 0x0f] none (some (-3)) = .ok [] ∧
    fileWin [0xf0, 0x0f] (some (-2)) (some 1) = .ok [true] ∧
    windowSpec (fromBytes [0xf0, 0x0f]) (some (-3)) none = .error .value ∧
    windowSpec [true, false, true, true] none (some (-1)) = .error .value := by decide

/-! ### non-vacuity -/

example : winNegative (some 3) (some 7) = false ∧ winBeyond (fromBytes [1, 2]).length (some 3) = false ∧
    bytesioWin [0xa5, 0x3c] (some 3) (some 7) = .ok [false, false, true, false, true, false, false] ∧
    windowSpec (fromBytes [0xa5, 0x3c]) (some 3) (some 7) = .ok [false, false, true, false, true, false, false] ∧
    bytesioWin [0xa5, 0x3c] (some 3) (some 14) = .error .value ∧
    fileWin [0xa5, 0x3c] (some 9) none = .ok [false, true, true, true, true, false, false] ∧
    fileWin [] none none = .ok [] ∧ fileWin [] (some 1) none = .error .value := by decide

end BM.C15
