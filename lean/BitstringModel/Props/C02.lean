/-
  Props/C02.lean — value ↔ bits for every fixed-length dtype: canonical encodings, the two round trips,
  agreement of all seven creation routes and of all five reading routes.
  Every statement is ∀ lengths / values / bit patterns; no size bound.
  (The IEEE 754 facts used for the float dtypes are stated in Props/C02_Ieee.lean.)
-/
import BitstringModel.Model.C02
import BitstringModel.Proofs.C02
import BitstringModel.Proofs.C02Ieee

namespace BM.C02
open BM

/-! ### unsigned (property: "MSB-first … interpreting them returns the value") -/

/-- Encoding an in-range unsigned value on `len` bits and reading it back is the identity. -/
theorem bitsToNat_natToBits_range (len n : Nat) (h : n < 2 ^ len) : bitsToNat (natToBits len n) = n := by
  exact bitsToNat_natToBits len n h

/-- Conversely every pattern is the encoding of the unsigned value it reads as, which is below `2^len`. -/
theorem natToBits_bitsToNat_pattern (b : Bits) : natToBits b.length (bitsToNat b) = b ∧ bitsToNat b < 2 ^ b.length := by
  exact ⟨natToBits_bitsToNat b, bitsToNat_lt b⟩

theorem natToBits_length_eq (len n : Nat) : (natToBits len n).length = len := by
  exact natToBits_length len n

/-! ### two's complement (property: "MSB-first two's complement … interpreting them returns the value") -/

/-- Encoding an in-range signed value on `len > 0` bits and reading it back is the identity. -/
theorem bitsToInt_intToBits (len : Nat) (i : Int) (hl : 0 < len)
    (h : -((2 : Int) ^ (len - 1)) ≤ i ∧ i < (2 : Int) ^ (len - 1)) :
    bitsToInt (intToBits len i) = i := by
  obtain ⟨k, rfl⟩ : ∃ k, len = k + 1 := ⟨len - 1, by omega⟩
  exact bitsToInt_intToBits' k i (by simpa using h)

/-- Conversely every non-empty pattern is the encoding of the signed value it reads as. -/
theorem intToBits_bitsToInt (b : Bits) (hb : b ≠ []) : intToBits b.length (bitsToInt b) = b := by
  exact intToBits_bitsToInt' b hb

/-- A pattern of `n > 0` bits reads as a value in exactly the documented range `[-2^(n-1), 2^(n-1))`. -/
theorem bitsToInt_range (b : Bits) (hb : b ≠ []) :
    -((2 : Int) ^ (b.length - 1)) ≤ bitsToInt b ∧ bitsToInt b < (2 : Int) ^ (b.length - 1) := by
  exact bitsToInt_range' b hb

/-- Canonical form, non-negative half: the unsigned encoding of the same number (so `int` and `uint` agree there). -/
theorem intToBits_nonneg (len : Nat) (i : Int) (h : 0 ≤ i) : intToBits len i = natToBits len i.toNat := by
  exact intToBits_nonneg' len i h

/-- Canonical form, negative half: the unsigned encoding of `2^len + i`. -/
theorem intToBits_neg (len : Nat) (i : Int) (h : i < 0) (hr : -((2 : Int) ^ len) ≤ i) :
    intToBits len i = natToBits len ((2 : Int) ^ len + i).toNat := by
  exact intToBits_neg' len i h hr

/-- The first bit is the sign. -/
theorem intToBits_sign (len : Nat) (i : Int) (hl : 0 < len)
    (h : -((2 : Int) ^ (len - 1)) ≤ i ∧ i < (2 : Int) ^ (len - 1)) :
    (intToBits len i).head? = some (decide (i < 0)) := by
  obtain ⟨k, rfl⟩ : ∃ k, len = k + 1 := ⟨len - 1, by omega⟩
  have hrt := bitsToInt_intToBits' k i (by simpa using h)
  have hlen : (intToBits (k + 1) i).length = k + 1 := by simp [intToBits]
  cases hb : intToBits (k + 1) i with
  | nil => rw [hb] at hlen; simp at hlen
  | cons s t =>
    rw [hb, bitsToInt_cons] at hrt
    have hlt := bitsToNat_lt (s :: t)
    have htl : t.length = k := by rw [hb] at hlen; simpa using hlen
    rw [htl] at hrt
    have hc : ((2 : Int) ^ (k + 1)) = ((2 ^ (k + 1) : Nat) : Int) := by simp
    simp only [List.length_cons, htl] at hlt
    simp only [List.head?_cons, Option.some.injEq]
    cases s
    · simp only [Bool.false_eq_true, if_false] at hrt
      simp; omega
    · simp only [if_true] at hrt
      rw [hc] at hrt
      simp; omega

theorem intToBits_length (len : Nat) (i : Int) : (intToBits len i).length = len := by
  simp [intToBits]

/-! ### bytes and byte order (property: "byte-reversed for little-endian") -/

theorem bytesRev_length (b : Bits) (h : 8 ∣ b.length) : (bytesRev b).length = b.length := by
  exact bytesRev_length' b h

/-- Reversing the bytes twice gives the original whole-byte pattern back. -/
theorem bytesRev_involutive (b : Bits) (h : 8 ∣ b.length) : bytesRev (bytesRev b) = b := by
  exact bytesRev_involutive' b h

/-- The code's little-endian getter is the big-endian getter applied to the byte-reversed pattern. -/
theorem uintle_eq_uintbe_bytesRev (b : Bits) (h : 8 ∣ b.length) :
    getRaw .uintle b = getRaw .uintbe (bytesRev b) ∧ getRaw .intle b = getRaw .intbe (bytesRev b) := by
  have hl := bytesRev_length' b h
  have hm : b.length % 8 = 0 := Nat.mod_eq_zero_of_dvd h
  have hi := bytesRev_involutive' b h
  constructor <;> simp [getRaw, hl, hm]

/-- What byte reversal means numerically: the byte-reversed pattern read MSB-first is `Σ byteᵢ · 256^i`
    (`int.from_bytes(x, 'little')`). -/
theorem bytesRev_value (b : Bits) (h : 8 ∣ b.length) : bitsToNat (bytesRev b) = leValue (toBytes b) := by
  exact bytesRev_value' b h

/-- `tobytes` ∘ `frombytes` on a `bytes` object, and conversely on a whole-byte pattern. -/
theorem toBytes_fromBytes (d : List Nat) (h : ∀ x ∈ d, x < 256) : toBytes (fromBytes d) = d := by
  exact toBytes_fromBytes' d h

theorem fromBytes_toBytes (b : Bits) (h : 8 ∣ b.length) : fromBytes (toBytes b) = b := by
  exact fromBytes_toBytes' b h

/-! ### hex / oct / bin (property: "one digit per 4/3/1 bits") -/

/-- One digit per `w` bits: printing a pattern that starts with a full group prints that group's digit first. -/
theorem digits_chunk (w : Nat) (hw : 0 < w) (g b : Bits) (hg : g.length = w) (hb : w ∣ b.length) :
    bitsToDigits w (g ++ b) =
      (match bitsToDigits w b with
       | .ok s => .ok (digitChar (bitsToNat g) :: s)
       | .error e => .error e) := by
  obtain ⟨s, hs⟩ := bitsToDigits_ok w hw b hb
  rw [hs, bitsToDigits_append w hw g b hg s hs]

/-- Parsing what was printed gives the pattern back (hex). -/
theorem parseHex_hexDigits (b : Bits) (h : 4 ∣ b.length) :
    ∃ s, bitsToDigits 4 b = .ok s ∧ digitsToBits 4 hexVal? s = .ok b ∧ hex2bitstore s = .ok b := by
  obtain ⟨s, h1, h2, h3⟩ := parse_print 4 (by omega) hexVal? hexVal_digitChar b h
  refine ⟨s, h1, h2, ?_⟩
  unfold hex2bitstore
  have hp : ∀ c ∈ s, ∃ n, n < 16 ∧ c = digitChar n := h3
  rw [tidy_fix s (fun c hc => by obtain ⟨n, hn, rfl⟩ := hp c hc; have := digitChar_plain n hn; exact ⟨this.1, this.2.1, this.2.2.1⟩),
    removeAll2_fix _ _ s (fun c hc => by obtain ⟨n, hn, rfl⟩ := hp c hc; exact (digitChar_plain n hn).2.2.2.1)]
  exact h2

theorem parseOct_octDigits (b : Bits) (h : 3 ∣ b.length) :
    ∃ s, bitsToDigits 3 b = .ok s ∧ digitsToBits 3 octVal? s = .ok b ∧ oct2bitstore s = .ok b := by
  obtain ⟨s, h1, h2, h3⟩ := parse_print 3 (by omega) octVal? octVal_digitChar b h
  refine ⟨s, h1, h2, ?_⟩
  unfold oct2bitstore
  have hp : ∀ c ∈ s, ∃ n, n < 16 ∧ c = digitChar n := fun c hc => by
    obtain ⟨n, hn, rfl⟩ := h3 c hc; exact ⟨n, by omega, rfl⟩
  rw [tidy_fix s (fun c hc => by obtain ⟨n, hn, rfl⟩ := hp c hc; have := digitChar_plain n hn; exact ⟨this.1, this.2.1, this.2.2.1⟩),
    removeAll2_fix _ _ s (fun c hc => by obtain ⟨n, hn, rfl⟩ := hp c hc; exact (digitChar_plain n hn).2.2.2.2.1)]
  exact h2

theorem parseBin_binDigits (b : Bits) :
    ∃ s, bitsToDigits 1 b = .ok s ∧ digitsToBits 1 binVal? s = .ok b ∧ bin2bitstore s = .ok b := by
  obtain ⟨s, h1, h2, h3⟩ := parse_print 1 (by omega) binVal? binVal_digitChar b (Nat.one_dvd _)
  refine ⟨s, h1, h2, ?_⟩
  unfold bin2bitstore
  have hp : ∀ c ∈ s, ∃ n, n < 2 ∧ c = digitChar n := h3
  rw [tidy_fix s (fun c hc => by obtain ⟨n, hn, rfl⟩ := hp c hc; have := digitChar_plain n (by omega); exact ⟨this.1, this.2.1, this.2.2.1⟩),
    removeAll2_fix _ _ s (fun c hc => by obtain ⟨n, hn, rfl⟩ := hp c hc; exact (digitChar_plain n (by omega)).2.2.2.2.2 hn)]
  exact h2

/-- Printing what was parsed gives the canonical (tidied, prefix-free, lower-case) text back. -/
theorem digits_of_parse (k : StrKind) (s : List Char) (h : (k.canon s).all (fun c => (k.val? c).isSome) = true) :
    ∃ b, k.set s = .ok b ∧ bitsToDigits k.width b = .ok (k.canon s) := by
  obtain ⟨h1, h2, _⟩ := str_set_valid k s h
  exact ⟨_, h1, h2⟩

/-! ### creation: every route gives the canonical encoding -/

/-- "Exactly the requested number of bits": the canonical encoding of a valid request has the requested length. -/
theorem encode_length (q : Req) (len : Option Nat) (hv : Valid q len = true) :
    (encode q (resultLen q len)).length = resultLen q len := by
  exact encode_length' q len hv

/-- Route agreement: on every valid (dtype, length, value) each of the seven creation routes — keyword with
    `length=`, keyword with the length in the name, property assignment (plain and with length) on a mutable
    object, token string, `Dtype.build`, `pack` — returns exactly the canonical encoding. -/
theorem routes_agree (q : Req) (len : Option Nat) (hv : Valid q len = true)
    (r : Route) (ha : applicable r q len = true) :
    route r q len = .ok (encode q (resultLen q len)) := by
  exact routes_agree' q len hv r ha

/-- "Exactly the requested number of bits", for every input (valid or not): whenever a creation route that is
    given a length succeeds, the result has that many bits. (`prop` is the plain property assignment, which is given
    no length.) Before the fix b88b583 this failed for the keyword routes with hex/oct/bin/bits/bytes<n> values. -/
theorem route_ok_length (r : Route) (q : Req) (len : Option Nat) (n : Nat) (b : Bits)
    (hr : r ≠ .prop) (hn : bitLen q len = some n) (h : route r q len = .ok b) : b.length = n := by
  exact route_ok_length' r q len n b hr hn h

/-- The former deviation (`Bits(hex='ff', length=4)` had 8 bits) is gone: every route rejects the request. -/
theorem kw_length_checked_witness :
    ∀ r : Route, r ≠ .prop → route r (.str .hex ['f', 'f']) (some 4) = .error .value := by
  intro r hr
  cases r <;> first | exact absurd rfl hr | decide

/-! ### reading: every route gives the value the pattern denotes -/

/-- Reader agreement: on every pattern of a valid length, named with its own length or with none, each of the five
    reading routes — property, property with length, `Dtype.parse`, `unpack`, `read` — returns the specified value. -/
theorem readers_agree (k : Kind) (b : Bits) (len : Option Nat) (hl : ValidLen k b.length = true)
    (hlen : len = none ∨ len = some (itemsOf k b.length)) (r : Reader) :
    reader r k len b = .ok (decodeSpec k b) := by
  exact readers_agree' k b len hl hlen r

/-- The value does not depend on where the pattern sits in a stream; the position advances by exactly its length. -/
theorem streamRead_at (k : Kind) (pre body post : Bits) (hl : ValidLen k body.length = true) :
    streamRead k (some (itemsOf k body.length)) (pre ++ body ++ post) pre.length
      = .ok (decodeSpec k body, pre.length + body.length) := by
  exact streamRead_at' k pre body post hl

/-! ### the two round trips -/

/-- value → bits → value: interpreting the canonical encoding of a valid request returns the value. -/
theorem decode_encode (q : Req) (len : Option Nat) (hv : Valid q len = true) :
    getFn q.kind (encode q (resultLen q len)) = .ok (valueOf q (resultLen q len)) := by
  exact decode_encode' q len hv

/-- bits → value → bits: rebuilding from the value read from any pattern of a valid length reproduces the pattern
    (`reqOfValue` is `none` exactly for a NaN and for `pad`, which carry no value to rebuild from). -/
theorem encode_decode (k : Kind) (b : Bits) (hl : ValidLen k b.length = true) (q : Req)
    (hq : reqOfValue k (decodeSpec k b) = some q) :
    Valid q (some (itemsOf k b.length)) = true ∧ encode q b.length = b := by
  exact encode_decode' k b hl q hq

/-- … and therefore through every creation route. -/
theorem rebuild_all_routes (k : Kind) (b : Bits) (hl : ValidLen k b.length = true) (q : Req)
    (hq : reqOfValue k (decodeSpec k b) = some q) (r : Route)
    (ha : applicable r q (some (itemsOf k b.length)) = true) :
    route r q (some (itemsOf k b.length)) = .ok b := by
  obtain ⟨hv, he⟩ := encode_decode' k b hl q hq
  have hk : q.kind = k := reqOfValue_kind k _ q hq
  have hr : resultLen q (some (itemsOf k b.length)) = b.length := by
    rw [resultLen_some, hk]; exact itemsOf_mul k _ hl
  rw [routes_agree' q _ hv r ha, hr, he]

/-! ### non-vacuity -/
example : Valid (.int .intle (-2)) (some 24) = true := by decide
example : route .token (.int .intle (-2)) (some 24)
    = .ok (natToBits 8 254 ++ natToBits 8 255 ++ natToBits 8 255) := by decide
example : Valid (.str .hex "0x_Ff 0".toList) (some 12) = true := by decide
example : route .propLen (.str .hex "0x_Ff 0".toList) (some 12) = .ok (natToBits 12 0xff0) := by decide
example : ValidLen .uintle 16 = true ∧ reader .unpack .uintle (some 16) (natToBits 16 0x0102) = .ok (.int 0x0201) := by decide
example : reqOfValue .oct (decodeSpec .oct (natToBits 6 0o17)) = some (.str .oct ['1', '7']) := by decide
example : route .kw (.str .hex ['f']) (some 4) = .ok [true, true, true, true] := by decide

end BM.C02
