/-
  Props/C05_String.lean — C05 end to end on format STRINGS: `unpack(fmt, pack(fmt, values)) = values`.

  `pack` and `unpack` here are the string-level functions of the model (whitespace removal, `expand_brackets`,
  split on `,`, `n*tok`, struct groups, `tokenparser` / `parse_name_length_token`, `Dtype(...)`, the token loop of
  `pack`, the two passes of `_read_dtype_list`).  A format is "rendered" from a bracket tree `BItem` whose atoms are the
  written token texts; any amount of whitespace may be inserted anywhere (`removeWs fmt = renderItems items`).
-/
import BitstringModel.Model.C05
import BitstringModel.Proofs.C05_String

namespace BM.C05
open BM

/-- The two single-token parsers agree on plain token texts (`name:n`, `namen`, `name:keyword`, bare length):
    the dtype `unpack` derives from the text is the dtype of the token `pack` derives from it. -/
theorem tokenparsers_agree (kw : Kw) (t : Str) (tok : Tok) (s : Bool) (d : DT)
    (hpt : plainText kw t = true)
    (h : tokenOf kw.keys t = .ok (some (tok, s))) (hd : tokDtype kw tok = .ok d) :
    tokenToDtype kw t = .ok d ∧ tok.plain kw = true := by
  obtain ⟨tok', s', he, hplain⟩ := tokenOf_plain kw t _ hpt h
  cases he
  simp only [plainText, Bool.and_eq_true, Bool.not_eq_true', Option.isNone_iff_eq_none] at hpt
  obtain ⟨⟨⟨⟨⟨-, heq⟩, hkey⟩, hlit⟩, -⟩, hnum⟩ := hpt
  exact ⟨tokenOf_bridge kw t tok s d (by simpa using heq) hkey hlit
    (by intro name k hmi hmk; simp only [hmi, hmk] at hnum; simpa using hnum) h hd, hplain⟩

/-- `preprocess_tokens` on a rendered tree (whitespace anywhere, brackets with any factors): each written token text is
    expanded by `preprocessMeta`, in the order of the specified flattening (`n*(f)` = `f` written `n` times). -/
theorem preprocess_render (items : List BItem) (hne : items ≠ []) (hwf : BItem.wfList items = true)
    (g : Str → List Str) (hg : ∀ a ∈ BItem.atomsList items, preprocessMeta a = .ok (g a))
    (fmt : Str) (hfmt : removeWs fmt = renderItems items) :
    preprocess fmt = .ok ((BItem.flattenSpecList items).flatMap g) := by
  exact preprocess_render_gen items hne hwf g hg fmt hfmt

/-- … an ordinary token text stands for itself, -/
theorem written_simple (t : Str) (h : simpleText t = true) : preprocessMeta t = .ok [t] := by
  exact preprocessMeta_simple t h

/-- … `n*tok` for `tok` written `n` times, -/
theorem written_factor (ds a : Str) (hne : ds ≠ []) (hd : ds.all Char.isDigit = true) (ha : simpleText a = true) :
    preprocessMeta (ds ++ '*' :: a) = .ok (List.replicate (parseNat ds) a) := by
  exact preprocessMeta_factor ds a hne hd ha

/-- … a struct-style group for the tokens of its codes (`structTokens`: endianness table, counts). -/
theorem written_struct (t : Str) (e : Char) (groups : List (Str × Char)) (hstar : '*' ∉ t)
    (h : matchStruct t = some (e, groups)) : preprocessMeta t = .ok (structTokens e groups) := by
  exact preprocessMeta_struct t e groups hstar h

/-- String-level round trip, given what `preprocess_tokens` makes of the format: if every pre-processed token text
    is plain, the token list is well formed (`pass1`) and the values are canonical, then `unpack(fmt)` applied to
    `pack(fmt, *values)` returns the values. -/
theorem unpack_pack_string (fmt : Str) (kw : Kw) (vs : List Val) (b : Bits) (pre : List Str) (st : Bool) (toks : List Tok)
    (ds : List DT) (st' : Bool) (after : Int)
    (hpre : preprocess fmt = .ok pre) (hpt : ∀ t ∈ pre, plainText kw t = true)
    (htp : tokenparser fmt kw.keys = .ok (st, toks))
    (hd : tokDtypes kw toks = .ok ds) (hwf : pass1 ds false 0 = .ok (st', after))
    (hc : conform kw toks vs = true) (hp : pack fmt kw vs = .inl (.ok b)) :
    unpack fmt kw b = .ok vs := by
  exact unpack_pack_string' fmt kw vs b pre st toks ds st' after hpre hpt htp hd hwf hc hp

/-- END TO END.  For every bracket tree (any depth, any factors incl. 0) whose written token texts expand (`g`: identity,
    `n*tok`, struct group — see `written_*`) to plain token texts, for every format string that is its rendering with
    whitespace inserted anywhere, every keyword dictionary and all canonical values for a well-formed token list:
    `unpack(fmt, **kw)` of `pack(fmt, *values, **kw)` is `values`. -/
theorem unpack_pack_render (items : List BItem) (hne : items ≠ []) (hwf : BItem.wfList items = true)
    (g : Str → List Str) (hg : ∀ a ∈ BItem.atomsList items, preprocessMeta a = .ok (g a))
    (kw : Kw) (hpt : ∀ a ∈ BItem.atomsList items, ∀ t ∈ g a, plainText kw t = true)
    (fmt : Str) (hfmt : removeWs fmt = renderItems items)
    (vs : List Val) (b : Bits) (st : Bool) (toks : List Tok) (ds : List DT) (st' : Bool) (after : Int)
    (htp : tokenparser fmt kw.keys = .ok (st, toks))
    (hd : tokDtypes kw toks = .ok ds) (hwf' : pass1 ds false 0 = .ok (st', after))
    (hc : conform kw toks vs = true) (hp : pack fmt kw vs = .inl (.ok b)) :
    unpack fmt kw b = .ok vs := by
  have hpre := preprocess_render_gen items hne hwf g hg fmt hfmt
  refine unpack_pack_string' fmt kw vs b _ st toks ds st' after hpre ?_ htp hd hwf' hc hp
  intro t ht
  obtain ⟨a, ha, hta⟩ := List.mem_flatMap.mp ht
  exact hpt a (flattenSpecList_mem_atoms items a ha) t hta

/-- the same for trees of ordinary token texts only -/
theorem unpack_pack_render_simple (items : List BItem) (hne : items ≠ []) (hwf : BItem.wfList items = true)
    (hs : ∀ a ∈ BItem.atomsList items, simpleText a = true)
    (kw : Kw) (hpt : ∀ a ∈ BItem.atomsList items, plainText kw a = true)
    (fmt : Str) (hfmt : removeWs fmt = renderItems items)
    (vs : List Val) (b : Bits) (st : Bool) (toks : List Tok) (ds : List DT) (st' : Bool) (after : Int)
    (htp : tokenparser fmt kw.keys = .ok (st, toks))
    (hd : tokDtypes kw toks = .ok ds) (hwf' : pass1 ds false 0 = .ok (st', after))
    (hc : conform kw toks vs = true) (hp : pack fmt kw vs = .inl (.ok b)) :
    unpack fmt kw b = .ok vs := by
  exact unpack_pack_render items hne hwf (fun a => [a]) (fun a ha => preprocessMeta_simple a (hs a ha)) kw
    (fun a ha t ht => by simp at ht; rw [ht]; exact hpt a ha) fmt hfmt vs b st toks ds st' after htp hd hwf' hc hp

/-! ### non-vacuity: `' 2*( u8 , bool ), hex:n ,pad:3'` with `n = 8` and values `(7, True, 0, False, 'a5')` -/

example :
    let items : List BItem := [.group (some "2".toList) [.atom "u8".toList, .atom "bool".toList], .atom "hex:n".toList, .atom "pad:3".toList]
    let kw : Kw := [("n".toList, .int 8)]
    let fmt : Str := " 2*( u8 , bool ), hex:n ,pad:3".toList
    BItem.wfList items = true ∧ (∀ a ∈ BItem.atomsList items, simpleText a = true) ∧
    (∀ a ∈ BItem.atomsList items, plainText kw a = true) ∧ removeWs fmt = renderItems items := by
  decide

example :
    let kw : Kw := [("n".toList, .int 8)]
    let fmt : Str := " 2*( u8 , bool ), hex:n ,pad:3".toList
    let vs : List Val := [.int 7, .bool true, .int 0, .bool false, .str "a5".toList]
    ∃ st toks ds st' after b, tokenparser fmt kw.keys = .ok (st, toks) ∧ tokDtypes kw toks = .ok ds ∧
      pass1 ds false 0 = .ok (st', after) ∧ conform kw toks vs = true ∧ pack fmt kw vs = .inl (.ok b) ∧ b.length = 29 := by
  refine ⟨true,
    [⟨"u".toList, some (.int 8), none⟩, ⟨"bool".toList, none, none⟩, ⟨"u".toList, some (.int 8), none⟩, ⟨"bool".toList, none, none⟩,
     ⟨"hex".toList, some (.key "n".toList), none⟩, ⟨"pad".toList, some (.int 3), none⟩],
    [⟨.uint, some 8⟩, ⟨.bool, some 1⟩, ⟨.uint, some 8⟩, ⟨.bool, some 1⟩, ⟨.hex, some 8⟩, ⟨.pad, some 3⟩], false, 0,
    natToBits 8 7 ++ [true] ++ natToBits 8 0 ++ [false] ++ [true, false, true, false, false, true, false, true] ++ [false, false, false],
    by decide +kernel, by decide, by decide, by decide, by decide +kernel, by decide⟩

example : written_factor "3".toList "bool".toList (by decide) (by decide) (by decide)
    = written_factor "3".toList "bool".toList (by decide) (by decide) (by decide) := rfl
example : matchStruct "<2hB".toList = some ('<', [("2".toList, 'h'), ([], 'B')]) ∧
    structTokens '<' [("2".toList, 'h'), ([], 'B')] = ["intle16".toList, "intle16".toList, "uint8".toList] := by decide

end BM.C05
