/-
  Props/C14_Src4.lean — tie between C14's hand-written ALG transcription of `Array.append` and the CURRENT source text
  (fourth batch; `insert` is tied in Props/C14_Src.lean, `pop` in C14_Src2, `reverse` / `fromfile` in C14_Src3).

  `Gen.Src.array_append itemsize len_data` is regenerated from /repo on every run by harness/translate.py (trace mode):
  the guard `len(self.data) % self._dtype.bitlength != 0` (ValueError: an Array with trailing bits cannot be appended to)
  is translated, Python's `%` being `Int.fmod` with a ZeroDivisionError for a zero divisor; the effect
  `self.data += self._create_element(x)` is recorded.  `appendMeaning` gives it the meaning the C14 model gives it
  (`createElement`, whose error leaves the data alone, then concatenation), and the theorem states that for EVERY codec
  of positive item width, EVERY data and EVERY value the translated method IS `C14.append`.  (`0 < c.w`: an Array's dtype
  always has a positive bit length — `Array.__init__` / the `dtype` setter reject a dtype without one; it is what keeps
  the ZeroDivisionError branch of the translation unreachable.)
-/
import BitstringModel.Model.C14
import BitstringModel.Gen.Src
import BitstringModel.Props.C14_Src2
namespace BM.C14.Src4
open BM BM.C14 BM.C14.Src2

/-- Meaning of the effect recorded for `Array.append` on the data `d` of an Array with dtype codec `c`. -/
def appendMeaning {V : Type} (c : Codec V) (d : Bits) (v : V) : List Py.Act → Option (Step Unit)
  | [⟨"self.data += self._create_element(x)", []⟩] =>
      some (match createElement c v with
        | .error e => ⟨d, .error e⟩
        | .ok b => ⟨d ++ b, .ok ()⟩)
  | _ => none

/-- `Array.append` as the source has it now = `C14.append`, for every codec of positive width, data and value. -/
theorem array_append_eq {V : Type} (c : Codec V) (hw : 0 < c.w) (d : Bits) (v : V) :
    interp d (Gen.Src.array_append (c.w : Int) (d.length : Int)) (appendMeaning c d v) = some (append c d v) := by
  have hne : ((c.w : Nat) : Int) ≠ 0 := by omega
  have hmod : Int.fmod (d.length : Int) (c.w : Int) = (d.length : Int) % (c.w : Int) :=
    Int.fmod_eq_emod_of_nonneg _ (by omega)
  unfold Gen.Src.array_append append
  simp only [Py.fmodE, if_neg hne, Except.bind, hmod]
  by_cases h : d.length % c.w = 0
  · have h' : (d.length : Int) % (c.w : Int) = 0 := by omega
    simp only [h, h', interp, appendMeaning, ne_eq, not_true_eq_false, decide_false, Bool.false_eq_true, if_false,
      List.nil_append]
    cases createElement c v <;> rfl
  · have h' : (d.length : Int) % (c.w : Int) ≠ 0 := by omega
    simp [h, h', interp]

/-- Non-vacuity (the guard): data with trailing bits is the ValueError, whole items reach the effect. -/
example : (Gen.Src.array_append 4 10).toOption.map List.length = none := by decide
example : (Gen.Src.array_append 4 8).toOption.map List.length = some 1 := by decide

end BM.C14.Src4
