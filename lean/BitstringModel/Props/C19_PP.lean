/-
  Props/C19_PP.lean — property theorems for C19, part 2: what `pp` prints.

  `pp a = .ok lay` is the transcription of `Bits.pp` → `Bits._pp` → `Bits._format_bits`; a `Layout` is the list of
  printed lines, each with the digit strings of its groups (first and second format) and its text.
  All theorems hold for every value, every pair of tokens, every width, separator, offset setting, msb0 and lsb0.
-/
import BitstringModel.Model.C19
import BitstringModel.Proofs.C19PP

namespace BM.C19
open BM

/-! ### the groups of a value (SPEC `groupsOf`) partition it -/

/-- msb0: the groups, left to right, are the value. -/
theorem groupsOf_flatten_msb0 (bpg : Nat) (data : Bits) (h : bpg ≠ 0) :
    (groupsOf false bpg data).flatten = data := by
  sorry

/-- lsb0: the groups are listed least-significant first; read in reverse they are the value. -/
theorem groupsOf_flatten_lsb0 (bpg : Nat) (data : Bits) (h : bpg ≠ 0) :
    (groupsOf true bpg data).reverse.flatten = data := by
  sorry

/-- Every group is non-empty and has at most `bpg` bits; every group but the last listed has exactly `bpg`. -/
theorem groupsOf_sizes (lsb0 : Bool) (bpg : Nat) (data : Bits) (h : bpg ≠ 0) :
    (∀ g ∈ groupsOf lsb0 bpg data, 0 < g.length ∧ g.length ≤ bpg) ∧
    (∀ g ∈ (groupsOf lsb0 bpg data).dropLast, g.length = bpg) := by
  sorry

/-! ### data and trailing bits -/

/-- The value is the printed data followed (msb0) / preceded (lsb0) by the trailing bits. -/
theorem pp_data_trailing (lsb0 : Bool) (l : Bits) (t : Nat) (h : t ≤ l.length) :
    (if lsb0 then ppTrailing lsb0 l t ++ ppData lsb0 l t else ppData lsb0 l t ++ ppTrailing lsb0 l t) = l := by
  sorry

/-- With an explicit group size the data is a whole number of groups, and fewer than one group is left over. -/
theorem pp_data_whole_groups (lsb0 : Bool) (l : Bits) (bpg : Nat) (h : bpg ≠ 0) :
    (ppData lsb0 l (l.length % bpg)).length % bpg = 0 ∧ (ppTrailing lsb0 l (l.length % bpg)).length < bpg := by
  sorry

/-- The trailing bits are reported exactly when there are some, as the `str` of those bits … -/
theorem pp_trailing (a : PPArgs) (lay : Layout) (bpg : Nat) (hasLen : Bool)
    (ht : processTokens a.t1 a.t2 = .ok (bpg, hasLen)) (h : pp a = .ok lay) :
    lay.trailing =
      (if trailingLen a.l.length bpg hasLen = 0 then none
       else some (strFormAlg a.lsb0 (ppTrailing a.lsb0 a.l (trailingLen a.l.length bpg hasLen)))) := by
  sorry

/-- … which (msb0, and at most `4 * MAX_CHARS` of them — always so for group sizes up to 1000) read back as those bits. -/
theorem pp_trailing_faithful (a : PPArgs) (lay : Layout) (bpg : Nat) (hasLen : Bool) (s : Str)
    (ht : processTokens a.t1 a.t2 = .ok (bpg, hasLen)) (h : pp a = .ok lay) (hs : lay.trailing = some s)
    (hm : a.lsb0 = false) (hb : bpg ≤ 4 * Gen.maxChars) :
    parseAuto s = .ok (ppTrailing false a.l (trailingLen a.l.length bpg hasLen)) := by
  sorry

/-! ### `pp_group_atomic`: the lines list whole groups, in order, nothing else -/

/-- Grouped formats: the groups printed on the successive lines are exactly the digit strings of the groups of the
    data, in order — in the first column and in the second.  So a line never holds part of a group. -/
theorem pp_group_atomic (a : PPArgs) (lay : Layout) (bpg : Nat) (hasLen : Bool)
    (ht : processTokens a.t1 a.t2 = .ok (bpg, hasLen)) (h : pp a = .ok lay) (hb : bpg ≠ 0) :
    let data := ppData a.lsb0 a.l (trailingLen a.l.length bpg hasLen)
    lay.lines.flatMap (·.groups1) = (groupsOf a.lsb0 bpg data).map (digits a.t1.fmt) ∧
    ∀ t2, a.t2 = some t2 →
      lay.lines.flatMap (fun ln => ln.groups2.getD []) = (groupsOf a.lsb0 bpg data).map (digits t2.fmt) := by
  sorry

/-- Both columns of a line show the same number of groups; a line is never empty. -/
theorem pp_columns_aligned (a : PPArgs) (lay : Layout) (h : pp a = .ok lay) :
    ∀ ln ∈ lay.lines, ln.groups1 ≠ [] ∧
      (match ln.groups2 with | none => a.t2 = none | some g2 => a.t2.isSome ∧ g2.length = ln.groups1.length) := by
  sorry

/-! ### `pp_digits_complete`: in order, exactly the digits of the data -/

/-- msb0, grouped or not, first column: the groups of all lines, concatenated, are the digits of the data. -/
theorem pp_digits_complete_msb0 (a : PPArgs) (lay : Layout) (bpg : Nat) (hasLen : Bool)
    (ht : processTokens a.t1 a.t2 = .ok (bpg, hasLen)) (h : pp a = .ok lay) (hm : a.lsb0 = false) :
    let data := ppData false a.l (trailingLen a.l.length bpg hasLen)
    (lay.lines.flatMap (·.groups1)).flatten = digits a.t1.fmt data ∧
    ∀ t2, a.t2 = some t2 →
      (lay.lines.flatMap (fun ln => ln.groups2.getD [])).flatten = digits t2.fmt data := by
  sorry

/-- lsb0: lines and groups are listed least-significant first; read in reverse they are the digits of the data. -/
theorem pp_digits_complete_lsb0 (a : PPArgs) (lay : Layout) (bpg : Nat) (hasLen : Bool)
    (ht : processTokens a.t1 a.t2 = .ok (bpg, hasLen)) (h : pp a = .ok lay) (hm : a.lsb0 = true) :
    let data := ppData true a.l (trailingLen a.l.length bpg hasLen)
    (lay.lines.flatMap (·.groups1)).reverse.flatten = digits a.t1.fmt data ∧
    ∀ t2, a.t2 = some t2 →
      (lay.lines.flatMap (fun ln => ln.groups2.getD [])).reverse.flatten = digits t2.fmt data := by
  sorry

/-- The digits shown are a whole number of characters: pp succeeds only when every format can represent the data. -/
theorem pp_ok_representable (a : PPArgs) (lay : Layout) (bpg : Nat) (hasLen : Bool)
    (ht : processTokens a.t1 a.t2 = .ok (bpg, hasLen)) (h : pp a = .ok lay) :
    let data := ppData a.lsb0 a.l (trailingLen a.l.length bpg hasLen)
    data.length % a.t1.fmt.bpc = 0 ∧ ∀ t2, a.t2 = some t2 → data.length % t2.fmt.bpc = 0 := by
  sorry

/-! ### non-vacuity -/

example : processTokens ⟨.bin, some 3⟩ (some ⟨.oct, some 3⟩) = .ok (3, true) := by decide
example : (pp ⟨[true, true, true, false, false, false, true], ⟨.bin, some 3⟩, some ⟨.oct, some 3⟩, 80, [' '],
              true, false, false⟩).map (fun lay => (lay.lines.map (·.groups1), lay.lines.map (·.groups2), lay.trailing))
    = .ok ([[['1', '1', '1'], ['0', '0', '0']]], [some [['7'], ['0']]], some ['0', 'b', '1']) := by decide
example : groupsOf true 3 [true, true, true, false, false, false, true]
    = [[false, false, true], [true, true, false], [true]] := by decide

end BM.C19
