/-
  Props/C19_PP.lean — property theorems for C19, part 2: what `pp` prints.

  `pp a = .ok lay` is the transcription of `Bits.pp` → `Bits._pp` → `Bits._format_bits`; a `Layout` is the list of
  printed lines, each with the digit strings of its groups (first and second format) and its text.
  All theorems hold for every value, every pair of tokens, every width, separator, offset setting, msb0 and lsb0.
-/
import BitstringModel.Model.C19
import BitstringModel.Proofs.C19PP
import BitstringModel.Props.C19

namespace BM.C19
open BM

/-! ### the groups of a value (SPEC `groupsOf`) partition it -/

/-- msb0: the groups, left to right, are the value. -/
theorem groupsOf_flatten_msb0 (bpg : Nat) (data : Bits) (h : bpg ≠ 0) :
    (groupsOf false bpg data).flatten = data := by
  have := cut_flatten false bpg h data
  simpa only [groupsOf, Bool.false_eq_true, if_false] using this

/-- lsb0: the groups are listed least-significant first; read in reverse they are the value. -/
theorem groupsOf_flatten_lsb0 (bpg : Nat) (data : Bits) (h : bpg ≠ 0) :
    (groupsOf true bpg data).reverse.flatten = data := by
  have := cut_flatten true bpg h data
  simpa only [groupsOf, if_true] using this

/-- Every group is non-empty and has at most `bpg` bits; every group but the last listed has exactly `bpg`. -/
theorem groupsOf_sizes (lsb0 : Bool) (bpg : Nat) (data : Bits) (h : bpg ≠ 0) :
    (∀ g ∈ groupsOf lsb0 bpg data, 0 < g.length ∧ g.length ≤ bpg) ∧
    (∀ g ∈ (groupsOf lsb0 bpg data).dropLast, g.length = bpg) := by
  exact cut_sizes lsb0 bpg h data

/-! ### data and trailing bits -/

/-- The value is the printed data followed (msb0) / preceded (lsb0) by the trailing bits. -/
theorem pp_data_trailing (lsb0 : Bool) (l : Bits) (t : Nat) (h : t ≤ l.length) :
    (if lsb0 then ppTrailing lsb0 l t ++ ppData lsb0 l t else ppData lsb0 l t ++ ppTrailing lsb0 l t) = l := by
  have _ := h
  unfold ppData ppTrailing
  cases lsb0 with
  | false => simp only [Bool.false_eq_true, if_false]; exact List.take_append_drop _ _
  | true => simp only [if_true]; exact List.take_append_drop _ _

/-- With an explicit group size the data is a whole number of groups, and fewer than one group is left over. -/
theorem pp_data_whole_groups (lsb0 : Bool) (l : Bits) (bpg : Nat) (h : bpg ≠ 0) :
    (ppData lsb0 l (l.length % bpg)).length % bpg = 0 ∧ (ppTrailing lsb0 l (l.length % bpg)).length < bpg := by
  have hpos : 0 < bpg := Nat.pos_of_ne_zero h
  have hlt : l.length % bpg < bpg := Nat.mod_lt _ hpos
  have hle : l.length % bpg ≤ l.length := Nat.mod_le _ _
  have hdm : bpg * (l.length / bpg) + l.length % bpg = l.length := Nat.div_add_mod _ _
  have hsub : l.length - l.length % bpg = bpg * (l.length / bpg) := by omega
  unfold ppData ppTrailing
  cases lsb0 with
  | false =>
    simp only [Bool.false_eq_true, if_false, List.length_take, List.length_drop]
    refine ⟨?_, by omega⟩
    rw [Nat.min_eq_left (Nat.sub_le _ _), hsub]
    exact Nat.mul_mod_right _ _
  | true =>
    simp only [if_true, List.length_take, List.length_drop]
    refine ⟨?_, by omega⟩
    rw [hsub]
    exact Nat.mul_mod_right _ _

/-- The trailing bits are reported exactly when there are some, as the `str` of those bits … -/
theorem pp_trailing (a : PPArgs) (lay : Layout) (bpg : Nat) (hasLen : Bool)
    (ht : processTokens a.t1 a.t2 = .ok (bpg, hasLen)) (h : pp a = .ok lay) :
    lay.trailing =
      (if trailingLen a.l.length bpg hasLen = 0 then none
       else some (strFormAlg a.lsb0 (ppTrailing a.lsb0 a.l (trailingLen a.l.length bpg hasLen)))) := by
  exact (pp_unfold a lay bpg hasLen ht h).2

/-- … which (at most `4 * MAX_CHARS` of them — always so for group sizes up to 1000) read back as those bits,
    in msb0 and in lsb0. -/
theorem pp_trailing_faithful (a : PPArgs) (lay : Layout) (bpg : Nat) (hasLen : Bool) (s : Str)
    (ht : processTokens a.t1 a.t2 = .ok (bpg, hasLen)) (h : pp a = .ok lay) (hs : lay.trailing = some s)
    (hb : bpg ≤ 4 * Gen.maxChars) :
    parseAuto s = .ok (ppTrailing a.lsb0 a.l (trailingLen a.l.length bpg hasLen)) := by
  have htr := (pp_unfold a lay bpg hasLen ht h).2
  rw [hs] at htr
  split at htr
  · exact absurd htr (by simp)
  · simp only [Option.some.injEq] at htr
    rw [htr, strFormAlg_eq_strForm]
    apply parse_strForm
    have hlen : (ppTrailing a.lsb0 a.l (trailingLen a.l.length bpg hasLen)).length
        ≤ trailingLen a.l.length bpg hasLen := by
      unfold ppTrailing
      split
      · simp only [List.length_take]; omega
      · simp only [List.length_drop]; omega
    have hlt : trailingLen a.l.length bpg hasLen ≤ bpg := by
      unfold trailingLen
      split
      · rename_i hc
        exact Nat.le_of_lt (Nat.mod_lt _ (Nat.pos_of_ne_zero hc.2))
      · omega
    omega

/-! ### `pp_group_atomic`: the lines list whole groups, in order, nothing else -/

/-- Grouped formats: the groups printed on the successive lines are exactly the digit strings of the groups of the
    data, in order — in the first column and in the second.  So a line never holds part of a group. -/
theorem pp_group_atomic (a : PPArgs) (lay : Layout) (bpg : Nat) (hasLen : Bool)
    (ht : processTokens a.t1 a.t2 = .ok (bpg, hasLen)) (h : pp a = .ok lay) (hb : bpg ≠ 0) :
    let data := ppData a.lsb0 a.l (trailingLen a.l.length bpg hasLen)
    lay.lines.flatMap (·.groups1) = (groupsOf a.lsb0 bpg data).map (digits a.t1.fmt) ∧
    ∀ t2, a.t2 = some t2 →
      lay.lines.flatMap (fun ln => ln.groups2.getD []) = (groupsOf a.lsb0 bpg data).map (digits t2.fmt) := by
  intro data
  obtain ⟨m, _, hk, ⟨h1, _⟩, h2⟩ := pp_cols a lay bpg hasLen ht h
  obtain ⟨k, hk0, rfl⟩ := hk hb
  refine ⟨?_, ?_⟩
  · rw [List.flatMap_def, h1]
    exact ppGroups_atomic a.lsb0 bpg k a.t1.fmt data hb hk0
  · intro t2 ht2
    rw [List.flatMap_def, (h2 t2 ht2).1]
    exact ppGroups_atomic a.lsb0 bpg k t2.fmt data hb hk0

/-- Both columns of a line show the same number of groups; a line is never empty. -/
theorem pp_columns_aligned (a : PPArgs) (lay : Layout) (h : pp a = .ok lay) :
    ∀ ln ∈ lay.lines, ln.groups1 ≠ [] ∧
      (match ln.groups2 with | none => a.t2 = none | some g2 => a.t2.isSome ∧ g2.length = ln.groups1.length) := by
  cases ht : processTokens a.t1 a.t2 with
  | error e => unfold pp at h; rw [ht] at h; exact absurd h (by simp)
  | ok r =>
    obtain ⟨bpg, hasLen⟩ := r
    obtain ⟨m, hm, _, hrel⟩ := pp_rel a lay bpg hasLen ht h
    intro ln hln
    obtain ⟨ch, hch, hr⟩ := ppForall_mem _ _ _ hrel ln hln
    have hne : ch ≠ [] := cut_mem_ne_nil _ m hm _ ch hch
    refine ⟨by rw [hr.1.1]; exact ppGroups_ne_nil _ _ _ ch hne, ?_⟩
    have h2 := hr.2
    cases hf2 : a.t2 with
    | none =>
      have : (cfgOf a bpg).f2 = none := by simp [cfgOf, hf2]
      rw [this] at h2
      simp only at h2
      rw [h2]
    | some t2 =>
      have : (cfgOf a bpg).f2 = some t2.fmt := by simp [cfgOf, hf2]
      rw [this] at h2
      simp only at h2
      rw [h2.1, hr.1.1]
      exact ⟨rfl, ppGroups_length _ _ _ _ ch⟩

/-! ### `pp_digits_complete`: in order, exactly the digits of the data -/

/-- msb0, grouped or not, first column: the groups of all lines, concatenated, are the digits of the data. -/
theorem pp_digits_complete_msb0 (a : PPArgs) (lay : Layout) (bpg : Nat) (hasLen : Bool)
    (ht : processTokens a.t1 a.t2 = .ok (bpg, hasLen)) (h : pp a = .ok lay) (hm : a.lsb0 = false) :
    let data := ppData false a.l (trailingLen a.l.length bpg hasLen)
    (lay.lines.flatMap (·.groups1)).flatten = digits a.t1.fmt data ∧
    ∀ t2, a.t2 = some t2 →
      (lay.lines.flatMap (fun ln => ln.groups2.getD [])).flatten = digits t2.fmt data := by
  intro data
  obtain ⟨m, hm0, _, ⟨h1, ok1⟩, h2⟩ := pp_cols a lay bpg hasLen ht h
  rw [hm] at h1 ok1 h2
  refine ⟨?_, ?_⟩
  · rw [List.flatMap_def, h1]
    have := ppGroups_digits false bpg m a.t1.fmt data hm0 ok1
    simpa only [Bool.false_eq_true, if_false] using this
  · intro t2 ht2
    rw [List.flatMap_def, (h2 t2 ht2).1]
    have := ppGroups_digits false bpg m t2.fmt data hm0 (h2 t2 ht2).2
    simpa only [Bool.false_eq_true, if_false] using this

/-- lsb0: lines and groups are listed least-significant first; read in reverse they are the digits of the data. -/
theorem pp_digits_complete_lsb0 (a : PPArgs) (lay : Layout) (bpg : Nat) (hasLen : Bool)
    (ht : processTokens a.t1 a.t2 = .ok (bpg, hasLen)) (h : pp a = .ok lay) (hm : a.lsb0 = true) :
    let data := ppData true a.l (trailingLen a.l.length bpg hasLen)
    (lay.lines.flatMap (·.groups1)).reverse.flatten = digits a.t1.fmt data ∧
    ∀ t2, a.t2 = some t2 →
      (lay.lines.flatMap (fun ln => ln.groups2.getD [])).reverse.flatten = digits t2.fmt data := by
  intro data
  obtain ⟨m, hm0, _, ⟨h1, ok1⟩, h2⟩ := pp_cols a lay bpg hasLen ht h
  rw [hm] at h1 ok1 h2
  refine ⟨?_, ?_⟩
  · rw [List.flatMap_def, h1]
    have := ppGroups_digits true bpg m a.t1.fmt data hm0 ok1
    simpa only [if_true] using this
  · intro t2 ht2
    rw [List.flatMap_def, (h2 t2 ht2).1]
    have := ppGroups_digits true bpg m t2.fmt data hm0 (h2 t2 ht2).2
    simpa only [if_true] using this

/-- The digits shown are a whole number of characters: pp succeeds only when every format can represent the data. -/
theorem pp_ok_representable (a : PPArgs) (lay : Layout) (bpg : Nat) (hasLen : Bool)
    (ht : processTokens a.t1 a.t2 = .ok (bpg, hasLen)) (h : pp a = .ok lay) :
    let data := ppData a.lsb0 a.l (trailingLen a.l.length bpg hasLen)
    data.length % a.t1.fmt.bpc = 0 ∧ ∀ t2, a.t2 = some t2 → data.length % t2.fmt.bpc = 0 := by
  intro data
  obtain ⟨m, hm0, _, ⟨_, ok1⟩, h2⟩ := pp_cols a lay bpg hasLen ht h
  exact ⟨ppGroups_representable a.lsb0 bpg m a.t1.fmt data hm0 ok1,
    fun t2 ht2 => ppGroups_representable a.lsb0 bpg m t2.fmt data hm0 (h2 t2 ht2).2⟩

/-! ### `Array.pp` is `Bits.pp` of the Array's data -/

/-- Whatever `Array.pp(fmt)` prints for bin / oct / hex formats, `Bits.pp` prints for the Array's data with both tokens
    given the token length explicitly and a blank separator — provided that length is a whole number of digits of each
    format (otherwise `Array.pp` can only succeed by printing no line at all).  So `pp_group_atomic`,
    `pp_digits_complete_*`, `pp_trailing*`, `pp_width`, `pp_no_escape_when_no_color` hold for `Array.pp` too: in
    particular the groups printed are exactly those of `self.data` minus the reported trailing bits, whatever the item
    size of the Array's own dtype. -/
theorem arrayPP_eq_pp (data : Bits) (itemsize : Nat) (t1 : Tok) (t2 : Option Tok) (width : Nat)
    (showOffset lsb0 colour : Bool) (lay : Layout)
    (h : arrayPP data itemsize t1 t2 width showOffset lsb0 colour = .ok lay)
    (h1 : arrayTokenLength itemsize t1 t2 % t1.fmt.bpc = 0)
    (h2 : ∀ u, t2 = some u → arrayTokenLength itemsize t1 t2 % u.fmt.bpc = 0) :
    pp ⟨data, ⟨t1.fmt, some (arrayTokenLength itemsize t1 t2)⟩,
        t2.map (fun u => ⟨u.fmt, some (arrayTokenLength itemsize t1 t2)⟩), width, [' '], showOffset, lsb0, colour⟩
      = .ok lay := by
  have key : ∀ (p : Prop) [Decidable p] (X : Except Err Layout),
      (if p then Except.error Err.value else X) = .ok lay → ¬ p ∧ X = .ok lay := by
    intro p _ X hh
    by_cases hp : p
    · rw [if_pos hp] at hh; exact absurd hh (by simp)
    · rw [if_neg hp] at hh; exact ⟨hp, hh⟩
  unfold arrayPP at h
  split at h
  · exact absurd h (by simp)
  · simp only at h
    split at h
    · exact absurd h (by simp)
    · obtain ⟨-, h⟩ := key _ _ h
      obtain ⟨htl0, h⟩ := key _ _ h
      generalize arrayTokenLength itemsize t1 t2 = tl at h1 h2 h htl0
      have hpt : processTokens ⟨t1.fmt, some tl⟩ (t2.map (fun u => ⟨u.fmt, some tl⟩)) = .ok (tl, true) := by
        unfold processTokens mkDtype
        simp only [h1, ne_eq, not_true_eq_false, if_false]
        cases t2 with
        | none => rfl
        | some u =>
          have := h2 u rfl
          simp only [Option.map_some, this, not_true_eq_false, if_false]
      unfold pp
      simp only [hpt, trailingLen, htl0, ne_eq, not_false_eq_true, and_self, if_true, cfgOf]
      have hmap : Option.map (fun x => x.fmt) (Option.map (fun u => ({ fmt := u.fmt, len := some tl } : Tok)) t2)
          = Option.map (fun x => x.fmt) t2 := by cases t2 <;> rfl
      rw [hmap]
      exact h

/-! ### non-vacuity -/

example : processTokens ⟨.bin, some 3⟩ (some ⟨.oct, some 3⟩) = .ok (3, true) := by decide
example : (pp ⟨[true, true, true, false, false, false, true], ⟨.bin, some 3⟩, some ⟨.oct, some 3⟩, 80, [' '],
              true, false, false⟩).map (fun lay => (lay.lines.map (·.groups1), lay.lines.map (·.groups2), lay.trailing))
    = .ok ([[['1', '1', '1'], ['0', '0', '0']]], [some [['7'], ['0']]], some ['0', 'b', '1']) := by decide
example : (arrayPP (List.replicate 48 true) 8 ⟨.hex, some 16⟩ none 60 true false false).map
    (fun lay => (lay.lines.map (·.groups1), lay.trailing))
    = .ok ([[['f', 'f', 'f', 'f'], ['f', 'f', 'f', 'f'], ['f', 'f', 'f', 'f']]], none) := by decide
example : groupsOf true 3 [true, true, true, false, false, false, true]
    = [[false, false, true], [true, true, false], [true]] := by decide

end BM.C19
