/-
  Props/C02_Ieee.lean — IEEE 754 binary16 / binary32 / binary64 / bfloat16 as exact dyadics.
  A finite value is a whole number of units 2^-1074; `decode` is IEEE 754 §3.4, `encode` is round-to-nearest-even
  with overflow to infinity.  All statements are ∀ formats no wider than binary64, ∀ patterns.
  CPython's `struct` is tied to `encode ∘ decode` by the correspondence run only (LEVEL_NOTE: partial).
-/
import BitstringModel.Model.C02
import BitstringModel.Proofs.C02Ieee

namespace BM.C02.Ieee
open BM

/-! ### the rounding function is round-to-nearest, ties to even -/

/-- Exact when nothing is discarded. -/
theorem rne_exact (n q : Nat) (h : 2 ^ q ∣ n) : rne n q = n / 2 ^ q := by
  exact rne_exact' n q h

/-- Nearest: the rounded multiple of `2^q` is within half a quantum of `n`; on a tie the even neighbour is taken. -/
theorem rne_nearest (n q : Nat) :
    2 * ((rne n q * 2 ^ q : Nat) - (n : Int)).natAbs ≤ 2 ^ q ∧
    (2 * ((rne n q * 2 ^ q : Nat) - (n : Int)).natAbs = 2 ^ q → rne n q % 2 = 0) := by
  exact rne_nearest' n q

/-! ### encode is a left inverse of decode -/

/-- `roundFrom64` is the identity on representable values: re-encoding the value a non-NaN pattern denotes
    gives the pattern back. -/
theorem encode_decode (f : Fmt) (hf : f.ok) (p : Nat) (hp : p < 2 ^ f.width) (hn : decode f p ≠ .nan) :
    encode f (decode f p) = p := by
  exact encode_decode' f hf p hp hn

/-- Distinct non-NaN patterns denote distinct values (in particular +0 and −0 are kept apart). -/
theorem decode_injective (f : Fmt) (hf : f.ok) (p q : Nat) (hp : p < 2 ^ f.width) (hq : q < 2 ^ f.width)
    (hn : decode f p ≠ .nan) (h : decode f p = decode f q) : p = q := by
  have h1 := encode_decode' f hf p hp hn
  have h2 := encode_decode' f hf q hq (by rw [← h]; exact hn)
  rw [← h1, ← h2, h]

/-- Widening to binary64 is exact: the Python float obtained from a pattern of a narrower format denotes the same value. -/
theorem widen_exact (f : Fmt) (hf : f.ok) (p : Nat) :
    decode f64 (encode f64 (decode f p)) = decode f p := by
  exact widen_exact' f hf p

/-! ### the float dtypes -/

/-- bits → float → bits: packing the Python float read from a non-NaN pattern gives the pattern back. -/
theorem packFloat_unpackFloat (f : Fmt) (hf : stdFmt f) (b : Bits) (hb : b.length = f.width) (p : Nat)
    (h : unpackFloat f b = some p) : packFloat f p = b := by
  exact packFloat_unpackFloat' f (stdFmt_ok f hf) b hb p h

/-- float → bits → float for binary64: every non-NaN Python float survives unchanged. -/
theorem unpackFloat_packFloat_f64 (p : Nat) (hp : p < 2 ^ 64) (hn : decode f64 p ≠ .nan) :
    unpackFloat f64 (packFloat f64 p) = some p := by
  exact unpackFloat_packFloat_f64' p hp hn

/-- float → bits → float for binary16/32: a Python float that came out of the format goes back in unchanged. -/
theorem unpackFloat_packFloat_representable (f : Fmt) (hf : stdFmt f) (b : Bits) (hb : b.length = f.width) (p : Nat)
    (h : unpackFloat f b = some p) : unpackFloat f (packFloat f p) = some p := by
  rw [packFloat_unpackFloat' f (stdFmt_ok f hf) b hb p h]; exact h

/-- bfloat16 is the top half of binary32 ("decode by zero-padding"): a 16-bit pattern followed by 16 zero bits is a
    binary32 pattern denoting the same value; `bfloat2bitstore` keeps exactly those top 16 bits (truncation). -/
theorem decode_bf16_top (p : Nat) (hp : p < 2 ^ 16) : decode f32 (p * 2 ^ 16) = decode bf16 p := by
  exact decode_bf16_top' p hp

/-! ### non-vacuity -/
example : f16.ok ∧ f32.ok ∧ f64.ok ∧ bf16.ok := by
  unfold Fmt.ok; decide
example : decode f16 0x3c00 = .fin false (2 ^ 1074) := by decide +kernel
example : encode f16 (decode f64 0x40effc0000000000) = 0x7bff := by decide +kernel   -- 65504.0, the largest half
example : encode f16 (decode f64 0x40effe0000000000) = 0x7c00 := by decide +kernel   -- 65520.0, the tie that overflows
example : encode f16 (decode f64 0x3e60000000000000) = 0 := by decide +kernel        -- 2^-25, half the smallest subnormal: tie to even = 0

end BM.C02.Ieee
