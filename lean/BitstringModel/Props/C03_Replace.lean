/-
  Props/C03_Replace.lean — in-place mutations, part 3: `replace`.

  SPEC: all occurrences of `old` inside `[start, end)` (`occ`), a greedy left-to-right choice of non-overlapping ones,
  at most `count` of them (`select`), each chosen occurrence spliced out for `new` (`spliceAll`); the return value is
  the number chosen.  ALG: `_replace` — the loop over `findall` that collects `starting_points` (with its `break`),
  then the rebuild from `getslice` pieces.
-/
import BitstringModel.Model.C03
import BitstringModel.Proofs.C03
import BitstringModel.Proofs.C03Replace

namespace BM.C03
open BM
open Replace

/-! ### occurrences -/

/-- `occ` lists exactly the in-range (aligned) match positions … -/
theorem occ_mem_iff (l old : Bits) (s e : Nat) (al : Bool) (p : Nat) :
    p ∈ occ l old s e al ↔
      (s ≤ p ∧ p + old.length ≤ e ∧ slc l p (p + old.length) = old ∧ (al = true → p % 8 = 0)) := by
  exact occ_mem_iff' l old s e al p

/-- … in ascending order. -/
theorem occ_sorted (l old : Bits) (s e : Nat) (al : Bool) : (occ l old s e al).Pairwise (· < ·) := by
  exact occ_sorted' l old s e al

/-! ### the selection -/

/-- The selected positions are occurrences, in order … -/
theorem select_sublist (oldLen : Nat) (b : Option Nat) (m : Nat) (xs : List Nat) :
    (Spec.select oldLen b m xs).Sublist xs := by
  exact select_sublist' oldLen b m xs

/-- … do not overlap (each starts at or after the end of the previous one) … -/
theorem select_nonoverlap (oldLen : Nat) (b : Option Nat) (m : Nat) (xs : List Nat) :
    (Spec.select oldLen b m xs).Pairwise (fun p q => p + oldLen ≤ q) ∧ ∀ p ∈ Spec.select oldLen b m xs, m ≤ p := by
  exact ⟨select_pairwise oldLen b m xs, select_ge oldLen b m xs⟩

/-- … respect the limit … -/
theorem select_le_budget (oldLen c m : Nat) (xs : List Nat) : (Spec.select oldLen (some c) m xs).length ≤ c := by
  exact select_le_budget' oldLen c m xs

/-- … and are greedy: an occurrence that was passed over overlaps a chosen one, or the budget was used up. -/
theorem select_maximal (oldLen : Nat) (hpos : 0 < oldLen) (m : Nat) (xs : List Nat) (hs : xs.Pairwise (· < ·))
    (x : Nat) (hx : x ∈ xs) (hm : m ≤ x) (hnot : x ∉ Spec.select oldLen none m xs) :
    ∃ p ∈ Spec.select oldLen none m xs, p < x ∧ x < p + oldLen := by
  have _ := hpos  -- (not needed: with `oldLen = 0` nothing is ever passed over)
  exact select_maximal' oldLen m xs hs x hx hm hnot

/-- The loop of `_replace` (first match always taken, later ones iff `x ≥ last + len(old)`, `break` when `count`
    is reached) computes the greedy selection.  `count` is what `replace` passes on: `0 if count is None else count`,
    never 0 for a given count (that case returned earlier). -/
theorem collect_eq_select (oldLen : Nat) (count : Option Int) (hc : count ≠ some 0) (xs : List Nat) :
    Alg.collect oldLen (count.getD 0) xs [] = Spec.select oldLen (Spec.budget count) 0 xs := by
  exact collect_eq_select' oldLen count hc xs

/-! ### the rebuild -/

/-- Rebuilding from `l[0:p0], new, l[p0+|old|:p1], new, …, new, l[p_last+|old|:]` is the successive splice, for any
    ascending non-overlapping in-range positions. -/
theorem rebuild_eq_spliceAll (l new : Bits) (oldLen : Nat) (p0 : Nat) (rest : List Nat)
    (hno : (p0 :: rest).Pairwise (fun p q => p + oldLen ≤ q)) (hin : ∀ p ∈ p0 :: rest, p + oldLen ≤ l.length) :
    slc l 0 p0 ++ Alg.rebuildTail l oldLen new p0 rest = Spec.spliceAll l oldLen new (p0 :: rest) := by
  rw [slc_zero, spliceAll_closed l new oldLen p0 rest hno hin]

/-! ### replace -/

/-- `replace`: ALG = SPEC on every input — validation of `old` and of the range first, `count = 0` replaces nothing,
    otherwise collect + rebuild equals select + splice. -/
theorem replace_eq_spec (l : Bits) (old new : Operand) (s e : Option Int) (count : Option Int) (al : Bool) :
    Alg.replace l old new s e count al = Spec.replace l (old.val l) (new.val l) s e count al := by
  unfold Alg.replace Spec.replace
  split
  · rfl
  · cases hvs : validateSlice l.length s e with
    | error err => rfl
    | ok az =>
      obtain ⟨a, z⟩ := az
      simp only
      by_cases hc : count = some 0
      · subst hc
        rw [if_pos rfl]
        have hb : Spec.budget (some 0) = some 0 := by simp [Spec.budget]
        rw [hb, select_zero]
        rfl
      · rw [if_neg hc]
        unfold Alg._replace
        simp only
        rw [collect_eq_select' _ count hc]
        have hf := sel_facts l (old.val l) a z al (Spec.budget count)
        have hz := (validateSlice_ok hvs).2
        generalize Spec.select (old.val l).length (Spec.budget count) 0 (occ l (old.val l) a z al) = sel at hf
        cases sel with
        | nil => rfl
        | cons p0 rest =>
          simp only
          rw [slc_zero, spliceAll_closed l (new.val l) (old.val l).length p0 rest hf.1
            (fun p hp => by have := (hf.2 p hp).2; omega)]

/-- `count = 0` still validates its arguments (and then replaces nothing). -/
theorem replace_count_zero (l : Bits) (old new : Operand) (s e : Option Int) (al : Bool) :
    Alg.replace [false, true] (.lit [true]) (.lit [true]) (some 8) (some 9) (some 0) false = .error .value ∧
    Alg.replace [false, true] (.lit []) (.lit [true]) none none (some 0) false = .error .value ∧
    (∀ a z, (old.val l) ≠ [] → validateSlice l.length s e = .ok (a, z) →
      Alg.replace l old new s e (some 0) al = .ok (0, l)) := by
  refine ⟨by decide, by decide, ?_⟩
  intro a z ho hv
  unfold Alg.replace
  have : (old.val l).length ≠ 0 := fun h => ho (List.length_eq_zero_iff.mp h)
  rw [if_neg this, hv]
  simp

/-- The return value is the number of selected matches, and at most `count`. -/
theorem replace_count (l old new r : Bits) (s e : Option Int) (count : Option Int) (al : Bool) (k a z : Nat)
    (h : Spec.replace l old new s e count al = .ok (k, r)) (hv : validateSlice l.length s e = .ok (a, z)) :
    k = (Spec.select old.length (Spec.budget count) 0 (occ l old a z al)).length ∧
    (∀ c : Nat, count = some (c : Int) → k ≤ c) := by
  obtain ⟨_, a', z', hv', hk, _⟩ := replace_ok h
  rw [hv] at hv'
  simp only [Except.ok.injEq, Prod.mk.injEq] at hv'
  obtain ⟨rfl, rfl⟩ := hv'
  refine ⟨hk, ?_⟩
  intro c hc
  subst hc
  have hb : Spec.budget (some (c : Int)) = some c := by
    simp [Spec.budget]
  rw [hk, hb]
  exact select_le_budget' _ _ _ _

/-- Length: each replacement trades `|old|` bits for `|new|` bits. -/
theorem replace_length (l old new r : Bits) (s e : Option Int) (count : Option Int) (al : Bool) (k : Nat)
    (h : Spec.replace l old new s e count al = .ok (k, r)) :
    r.length + k * old.length = l.length + k * new.length := by
  obtain ⟨_, a, z, hv, hk, hr⟩ := replace_ok h
  have hf := sel_facts l old a z al (Spec.budget count)
  have hz := (validateSlice_ok hv).2
  generalize Spec.select old.length (Spec.budget count) 0 (occ l old a z al) = sel at hf hk hr
  subst hk hr
  cases sel with
  | nil => simp [spliceAll_nil]
  | cons p0 rest =>
    have hin : ∀ p ∈ p0 :: rest, p + old.length ≤ l.length := fun p hp => by
      have := (hf.2 p hp).2; omega
    have h0 := hin p0 List.mem_cons_self
    have := rebuildTail_length l new old.length p0 rest hf.1 hin
    rw [spliceAll_closed l new old.length p0 rest hf.1 hin]
    simp only [List.length_append, List.length_take, List.length_cons]
    rw [Nat.min_eq_left (by omega)]
    omega

/-- Frame: the bits before `start` and the bits from `end` on are untouched (the latter shifted as a block). -/
theorem replace_frame (l old new r : Bits) (s e : Option Int) (count : Option Int) (al : Bool) (k a z : Nat)
    (h : Spec.replace l old new s e count al = .ok (k, r)) (hv : validateSlice l.length s e = .ok (a, z)) :
    r.take a = l.take a ∧ r.drop (r.length - (l.length - z)) = l.drop z := by
  obtain ⟨_, a', z', hv', hk, hr⟩ := replace_ok h
  rw [hv] at hv'
  simp only [Except.ok.injEq, Prod.mk.injEq] at hv'
  obtain ⟨rfl, rfl⟩ := hv'
  have hf := sel_facts l old a z al (Spec.budget count)
  have hz := (validateSlice_ok hv).2
  generalize Spec.select old.length (Spec.budget count) 0 (occ l old a z al) = sel at hf hk hr
  subst hr
  cases sel with
  | nil =>
    refine ⟨rfl, ?_⟩
    rw [spliceAll_nil]
    congr 1
    omega
  | cons p0 rest =>
    have hin : ∀ p ∈ p0 :: rest, p + old.length ≤ l.length := fun p hp => by
      have := (hf.2 p hp).2; omega
    have h0 := hf.2 p0 List.mem_cons_self
    rw [spliceAll_closed l new old.length p0 rest hf.1 hin]
    constructor
    · rw [List.take_append_of_le_length (by rw [List.length_take]; omega), List.take_take,
        Nat.min_eq_left (by omega)]
    · obtain ⟨pre, hpre⟩ := rebuildTail_suffix l new old.length z p0 rest (fun p hp => (hf.2 p hp).2)
      rw [hpre, ← List.append_assoc]
      apply List.drop_left'
      simp only [List.length_append, List.length_drop]
      omega

theorem replace_no_match (l old new : Bits) (s e : Option Int) (count : Option Int) (al : Bool) (a z : Nat)
    (ho : old ≠ []) (hv : validateSlice l.length s e = .ok (a, z)) (hnone : occ l old a z al = []) :
    Spec.replace l old new s e count al = .ok (0, l) := by
  rw [replace_of_ok l old new s e count al a z ho hv, hnone, select_nil]
  rfl

/-- One occurrence, replaced: the textbook splice. -/
theorem replace_single (l old new : Bits) (s e : Option Int) (count : Option Int) (al : Bool) (a z p : Nat)
    (ho : old ≠ []) (hc : count ≠ some 0) (hv : validateSlice l.length s e = .ok (a, z))
    (hone : occ l old a z al = [p]) :
    Spec.replace l old new s e count al = .ok (1, l.take p ++ new ++ l.drop (p + old.length)) := by
  rw [replace_of_ok l old new s e count al a z ho hv, hone]
  have hsel : Spec.select old.length (Spec.budget count) 0 [p] = [p] := by
    rcases budget_cases count hc with ⟨hb, _⟩ | ⟨c, hpos, hb, _⟩
    · rw [hb, select_cons_none, if_pos (Nat.zero_le _), select_nil]
    · obtain ⟨k, rfl⟩ : ∃ k, c = k + 1 := ⟨c - 1, by omega⟩
      rw [hb, select_cons_succ, if_pos (Nat.zero_le _), select_nil]
  rw [hsel]
  rfl

theorem replace_errors (l old new : Bits) (s e : Option Int) (count : Option Int) (al : Bool) :
    (old = [] → Spec.replace l old new s e count al = .error .value) ∧
    (validateSlice l.length s e = .error .value → Spec.replace l old new s e count al = .error .value) := by
  constructor
  · intro ho
    subst ho
    rfl
  · intro hv
    unfold Spec.replace
    split
    · rfl
    · rw [hv]

/-! ### non-vacuity -/
example : Alg.replace [true, true, true, true] (.lit [true, true]) (.lit [false]) none none (some 2) false = .ok (2, [false, false]) := by decide
example : Spec.replace [true, true, true, true, true] [true, true] [false] none none none false = .ok (2, [false, false, true]) := by decide
example : Alg.replace [false, true, true, false, true, true, false] (.lit [true, true]) .self none none (some 1) false =
    .ok (1, [false, false, true, true, false, true, true, false, false, true, true, false]) := by decide
example : occ [true, true, true, true] [true, true] 0 4 false = [0, 1, 2] := by decide

end BM.C03
