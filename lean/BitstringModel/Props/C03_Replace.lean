/-
  Props/C03_Replace.lean — in-place mutations, part 3: `replace`.

  SPEC: all occurrences of `old` inside `[start, end)` (`occ`), a greedy left-to-right choice of non-overlapping ones,
  at most `count` of them (`select`), each chosen occurrence spliced out for `new` (`spliceAll`); the return value is
  the number chosen.  ALG: `_replace` — the loop over `findall` that collects `starting_points` (with its `break`),
  then the rebuild from `getslice` pieces.
-/
import BitstringModel.Model.C03
import BitstringModel.Proofs.C03
import BitstringModel.Proofs.C03Replace

namespace BM.C03
open BM

/-! ### occurrences -/

/-- `occ` lists exactly the in-range (aligned) match positions … -/
theorem occ_mem_iff (l old : Bits) (s e : Nat) (al : Bool) (p : Nat) :
    p ∈ occ l old s e al ↔
      (s ≤ p ∧ p + old.length ≤ e ∧ slc l p (p + old.length) = old ∧ (al = true → p % 8 = 0)) := by
  sorry

/-- … in ascending order. -/
theorem occ_sorted (l old : Bits) (s e : Nat) (al : Bool) : (occ l old s e al).Pairwise (· < ·) := by
  sorry

/-! ### the selection -/

/-- The selected positions are occurrences, in order … -/
theorem select_sublist (oldLen : Nat) (b : Option Nat) (m : Nat) (xs : List Nat) :
    (Spec.select oldLen b m xs).Sublist xs := by
  sorry

/-- … do not overlap (each starts at or after the end of the previous one) … -/
theorem select_nonoverlap (oldLen : Nat) (b : Option Nat) (m : Nat) (xs : List Nat) :
    (Spec.select oldLen b m xs).Pairwise (fun p q => p + oldLen ≤ q) ∧ ∀ p ∈ Spec.select oldLen b m xs, m ≤ p := by
  sorry

/-- … respect the limit … -/
theorem select_le_budget (oldLen c m : Nat) (xs : List Nat) : (Spec.select oldLen (some c) m xs).length ≤ c := by
  sorry

/-- … and are greedy: an occurrence that was passed over overlaps a chosen one, or the budget was used up. -/
theorem select_maximal (oldLen : Nat) (hpos : 0 < oldLen) (m : Nat) (xs : List Nat) (hs : xs.Pairwise (· < ·))
    (x : Nat) (hx : x ∈ xs) (hm : m ≤ x) (hnot : x ∉ Spec.select oldLen none m xs) :
    ∃ p ∈ Spec.select oldLen none m xs, p < x ∧ x < p + oldLen := by
  sorry

/-- The loop of `_replace` (first match always taken, later ones iff `x ≥ last + len(old)`, `break` when `count`
    is reached) computes the greedy selection.  `count` is what `replace` passes on: `0 if count is None else count`,
    never 0 for a given count (that case returned earlier). -/
theorem collect_eq_select (oldLen : Nat) (count : Option Int) (hc : count ≠ some 0) (xs : List Nat) :
    Alg.collect oldLen (count.getD 0) xs [] = Spec.select oldLen (Spec.budget count) 0 xs := by
  sorry

/-! ### the rebuild -/

/-- Rebuilding from `l[0:p0], new, l[p0+|old|:p1], new, …, new, l[p_last+|old|:]` is the successive splice, for any
    ascending non-overlapping in-range positions. -/
theorem rebuild_eq_spliceAll (l new : Bits) (oldLen : Nat) (p0 : Nat) (rest : List Nat)
    (hno : (p0 :: rest).Pairwise (fun p q => p + oldLen ≤ q)) (hin : ∀ p ∈ p0 :: rest, p + oldLen ≤ l.length) :
    slc l 0 p0 ++ Alg.rebuildTail l oldLen new p0 rest = Spec.spliceAll l oldLen new (p0 :: rest) := by
  sorry

/-! ### replace -/

/-- `replace`: ALG = SPEC, except that `count=0` returns before `old` and the range are validated
    (known deviation `replaceCountZeroUnchecked`). -/
theorem replace_eq_spec_partial (l : Bits) (old new : Operand) (s e : Option Int) (count : Option Int) (al : Bool)
    (h : replaceCountZeroUnchecked l old s e count = false) :
    Alg.replace l old new s e count al = Spec.replace l (old.val l) (new.val l) s e count al := by
  sorry

theorem replace_count_zero_witness :
    Alg.replace [false, true] (.lit [true]) (.lit [true]) (some 8) (some 9) (some 0) false = .ok (0, [false, true]) ∧
    Spec.replace [false, true] [true] [true] (some 8) (some 9) (some 0) false = .error .value ∧
    Alg.replace [false, true] (.lit []) (.lit [true]) none none (some 0) false = .ok (0, [false, true]) ∧
    Spec.replace [false, true] [] [true] none none (some 0) false = .error .value := by
  decide

/-- The return value is the number of selected matches, and at most `count`. -/
theorem replace_count (l old new r : Bits) (s e : Option Int) (count : Option Int) (al : Bool) (k a z : Nat)
    (h : Spec.replace l old new s e count al = .ok (k, r)) (hv : validateSlice l.length s e = .ok (a, z)) :
    k = (Spec.select old.length (Spec.budget count) 0 (occ l old a z al)).length ∧
    (∀ c : Nat, count = some (c : Int) → k ≤ c) := by
  sorry

/-- Length: each replacement trades `|old|` bits for `|new|` bits. -/
theorem replace_length (l old new r : Bits) (s e : Option Int) (count : Option Int) (al : Bool) (k : Nat)
    (h : Spec.replace l old new s e count al = .ok (k, r)) :
    r.length + k * old.length = l.length + k * new.length := by
  sorry

/-- Frame: the bits before `start` and the bits from `end` on are untouched (the latter shifted as a block). -/
theorem replace_frame (l old new r : Bits) (s e : Option Int) (count : Option Int) (al : Bool) (k a z : Nat)
    (h : Spec.replace l old new s e count al = .ok (k, r)) (hv : validateSlice l.length s e = .ok (a, z)) :
    r.take a = l.take a ∧ r.drop (r.length - (l.length - z)) = l.drop z := by
  sorry

theorem replace_no_match (l old new : Bits) (s e : Option Int) (count : Option Int) (al : Bool) (a z : Nat)
    (ho : old ≠ []) (hv : validateSlice l.length s e = .ok (a, z)) (hnone : occ l old a z al = []) :
    Spec.replace l old new s e count al = .ok (0, l) := by
  sorry

/-- One occurrence, replaced: the textbook splice. -/
theorem replace_single (l old new : Bits) (s e : Option Int) (count : Option Int) (al : Bool) (a z p : Nat)
    (ho : old ≠ []) (hc : count ≠ some 0) (hv : validateSlice l.length s e = .ok (a, z))
    (hone : occ l old a z al = [p]) :
    Spec.replace l old new s e count al = .ok (1, l.take p ++ new ++ l.drop (p + old.length)) := by
  sorry

theorem replace_errors (l old new : Bits) (s e : Option Int) (count : Option Int) (al : Bool) :
    (old = [] → Spec.replace l old new s e count al = .error .value) ∧
    (validateSlice l.length s e = .error .value → Spec.replace l old new s e count al = .error .value) := by
  sorry

/-! ### non-vacuity -/
example : Alg.replace [true, true, true, true] (.lit [true, true]) (.lit [false]) none none (some 2) false = .ok (2, [false, false]) := by decide
example : Spec.replace [true, true, true, true, true] [true, true] [false] none none none false = .ok (2, [false, false, true]) := by decide
example : Alg.replace [false, true, true, false, true, true, false] (.lit [true, true]) .self none none (some 1) false =
    .ok (1, [false, false, true, true, false, true, true, false, false, true, true, false]) := by decide
example : occ [true, true, true, true] [true, true] 0 4 false = [0, 1, 2] := by decide

end BM.C03
