/-
  Props/C14_Slices.lean — slicing with any step, slice assignment, slice deletion and reverse:
  the code's loops over bit offsets (`range(start*w, stop*w, step*w)`, `w = dtype.bitlength`, the `overwrite` loop, deletion from the end,
  the swap loop) compute the Python-list operation on the items and never touch the trailing bits.
  Hypotheses as in Props/C14.lean.
-/
import BitstringModel.Model.C14
import BitstringModel.Proofs.C14
import BitstringModel.Proofs.C14Slices
import BitstringModel.Props.C14

namespace BM.C14
open BM

variable {V : Type}

/-! ### a[start:stop:step] -/

/-- Bit level: the new Array's data is the selected items' bits back to back — for every start/stop/step
    (the step-1 branch takes one bit slice, the other branch appends `data[s:s+L]` for `s` in a range of bit offsets). -/
theorem getSlice_chunks (c : Codec V) (hL : 0 < c.w) (d : Bits) (s e st : Option Int) :
    getSlice c d s e st = (Py.getSlice (chunks c.w d) s e st).map List.flatten := by
  obtain ⟨bs, t, hbs, ht, rfl, hch, htr, hlen, hit⟩ := blocks_view c hL d
  rw [hch, pyGetSlice_getD]
  unfold getSlice
  rw [hlen]
  generalize hst' : st.getD 1 = k
  by_cases h0 : k = 0
  · subst h0
    simp [Py.getSlice, Except.map]
  · simp only [h0, if_false]
    by_cases h1 : k = 1
    · subst h1
      simp only [ne_eq, not_true_eq_false, if_false]
      have hr := sliceIndices_pos_range s e 1 (by omega) bs.length
      rw [getSlice_step1_blocks c.w bs t hbs _ _ ⟨hr.1, hr.2.1⟩ ⟨hr.2.2.1, hr.2.2.2⟩]
      have : Py.getSlice bs s e (some 1) = Py.getSlice bs s e none := rfl
      rw [this, C01.getSlice_step1]
      rfl
    · simp only [ne_eq, h1, not_false_eq_true, if_true]
      rw [pyGetSlice_eq bs s e k h0]
      rw [rangeList_scaled _ _ _ (c.w : Int) (by omega) h0]
      rw [getSlice_fold c.w bs t hbs _ (fun i hi => rangeList_slice_mem s e k h0 bs.length i hi) []]
      simp [Except.map]

/-- Item level: slicing = Python list slicing, and the result has no trailing bits. -/
theorem getSlice_refines (c : Codec V) (hL : 0 < c.w) (d : Bits) (s e st : Option Int) :
    (getSlice c d s e st).map (items c) = Py.getSlice (items c d) s e st ∧
    ∀ r, getSlice c d s e st = .ok r → trailing c.w r = [] := by
  have hc := getSlice_chunks c hL d s e st
  have hit : items c d = (chunks c.w d).map c.dec := rfl
  have hcl : ∀ b ∈ chunks c.w d, b.length = c.w := by
    exact chunks_mem_length c.w hL d
  rw [hc, hit, pyGetSlice_map]
  cases hp : Py.getSlice (chunks c.w d) s e st with
  | error er => exact ⟨rfl, fun r hr => by cases hr⟩
  | ok r =>
    have hr : ∀ b ∈ r, b.length = c.w := fun b hb => hcl b (pyGetSlice_mem _ _ _ _ _ hp b hb)
    have hv := view_of_blocks c hL r [] hr hL
    rw [List.append_nil] at hv
    refine ⟨?_, ?_⟩
    · simp only [Except.map, hv.1]
    · intro r' hr'
      simp only [Except.map] at hr'
      injection hr' with hr'
      subst hr'
      exact hv.2.1

theorem getSlice_step_zero (c : Codec V) (d : Bits) (s e : Option Int) :
    getSlice c d s e (some 0) = .error .value := by
  unfold getSlice
  simp

/-! ### a[start:stop:step] = values -/

/-- Slice assignment = Python list slice assignment when every value fits: step 1 splices any number of values,
    an extended slice needs exactly as many values as indices (else ValueError, nothing changed). -/
theorem setSlice_refines (c : Codec V) (hL : 0 < c.w) (hwf : c.WF) (d : Bits)
    (s e st : Option Int) (vals : List V) (hv : vals.all (fits c) = true) :
    (setSlice c d s e st vals).view c = (PyL.setSlice (items c d) s e st vals).map fun l => ((), l) := by
  obtain ⟨bs, t, hbs, ht, rfl, hch, htr, hlen, hit⟩ := blocks_view c hL d
  obtain ⟨bl, hf, hbl, hdec, _, hca⟩ := encs_of_fits c hwf vals hv
  obtain ⟨h1, h2⟩ := setSlice_blocks c hL hwf bs t hbs ht s e st vals bl hf hbl hca
  rw [h1, hit, ← hdec, pySetSlice_map]
  cases hp : PyL.setSlice bs s e st bl with
  | error er => simp [Step.view, Except.map]
  | ok bs' =>
    have hv' := view_of_blocks c hL bs' t (h2 bs' hp) ht
    simp [Step.view, Except.map, hv'.1]

theorem setSlice_trailing (c : Codec V) (hL : 0 < c.w) (hwf : c.WF) (d : Bits)
    (s e st : Option Int) (vals : List V) (hv : vals.all (fits c) = true) :
    trailing c.w (setSlice c d s e st vals).data = trailing c.w d := by
  obtain ⟨bs, t, hbs, ht, rfl, hch, htr, hlen, hit⟩ := blocks_view c hL d
  obtain ⟨bl, hf, hbl, hdec, _, hca⟩ := encs_of_fits c hwf vals hv
  obtain ⟨h1, h2⟩ := setSlice_blocks c hL hwf bs t hbs ht s e st vals bl hf hbl hca
  rw [h1, htr]
  cases hp : PyL.setSlice bs s e st bl with
  | error er => exact htr
  | ok bs' => exact (view_of_blocks c hL bs' t (h2 bs' hp) ht).2.1

/-- A wrong number of values for an extended slice, or step 0, changes nothing. -/
theorem setSlice_error_unchanged (c : Codec V) (hL : 0 < c.w) (hwf : c.WF) (d : Bits)
    (s e st : Option Int) (vals : List V) (hv : vals.all (fits c) = true) (er : Err)
    (h : (setSlice c d s e st vals).res = .error er) : (setSlice c d s e st vals).data = d := by
  obtain ⟨bs, t, hbs, ht, rfl, hch, htr, hlen, hit⟩ := blocks_view c hL d
  obtain ⟨bl, hf, hbl, hdec, _, hca⟩ := encs_of_fits c hwf vals hv
  obtain ⟨h1, h2⟩ := setSlice_blocks c hL hwf bs t hbs ht s e st vals bl hf hbl hca
  rw [h1] at h ⊢
  cases hp : PyL.setSlice bs s e st bl with
  | error er' => rfl
  | ok bs' => rw [hp] at h; cases h

/-- Step-1 assignment is atomic also when a value does not fit (all elements are built before the splice). -/
theorem setSlice_step1_rejects (c : Codec V) (d : Bits) (s e : Option Int) (vals : List V)
    (hv : vals.all (fits c) = false) :
    (∃ er, (setSlice c d s e none vals).res = .error er) ∧ (setSlice c d s e none vals).data = d := by
  obtain ⟨er, her⟩ := createAll_err c vals hv
  have : setSlice c d s e none vals = ⟨d, .error er⟩ := by
    unfold setSlice
    simp [her]
  rw [this]
  exact ⟨⟨er, rfl⟩, rfl⟩

/-! ### a[start:stop:step] = a -/

/-- Assigning the Array to a slice of itself is assigning (a snapshot of) its items, for every start/stop/step. -/
theorem setSliceSelf_eq (c : Codec V) (hL : 0 < c.w) (d : Bits) (s e st : Option Int) :
    setSliceSelf c d s e st = setSlice c d s e st (items c d) := by
  unfold setSliceSelf
  rw [iter_eq_items c hL d]
  by_cases h0 : st.getD 1 = 0
  · unfold setSlice
    simp [h0]
  · simp [h0]

/-- `a[start:stop:step] = a` = the list assignment `l[start:stop:step] = l` (`a[::-1] = a` reverses), trailing bits kept. -/
theorem setSliceSelf_refines (c : Codec V) (hL : 0 < c.w) (hwf : c.WF) (d : Bits) (s e st : Option Int)
    (hfit : ∀ v ∈ items c d, fits c v = true) :
    (setSliceSelf c d s e st).view c = ((PyL.setSlice (items c d) s e st (items c d)).map fun l => ((), l)) ∧
    trailing c.w (setSliceSelf c d s e st).data = trailing c.w d := by
  have hv : (items c d).all (fits c) = true := by
    rw [List.all_eq_true]; exact hfit
  rw [setSliceSelf_eq c hL d s e st]
  exact ⟨setSlice_refines c hL hwf d s e st _ hv, setSlice_trailing c hL hwf d s e st _ hv⟩

/-! ### del a[start:stop:step] -/

theorem delSlice_refines (c : Codec V) (hL : 0 < c.w) (d : Bits) (s e st : Option Int) :
    (delSlice c d s e st).view c = (PyL.delSlice (items c d) s e st).map fun l => ((), l) := by
  obtain ⟨bs, t, hbs, ht, rfl, hch, htr, hlen, hit⟩ := blocks_view c hL d
  rw [delSlice_blocks c hL bs t hbs ht s e st, hit, pyDelSlice_map]
  cases hp : PyL.delSlice bs s e st with
  | error er => simp [Step.view, Except.map]
  | ok bs' =>
    have hbs' : ∀ b ∈ bs', b.length = c.w := fun b hb => hbs b (pyDelSlice_mem _ _ _ _ _ hp b hb)
    have hv' := view_of_blocks c hL bs' t hbs' ht
    simp [Step.view, Except.map, hv'.1]

theorem delSlice_trailing (c : Codec V) (hL : 0 < c.w) (d : Bits) (s e st : Option Int) :
    trailing c.w (delSlice c d s e st).data = trailing c.w d := by
  obtain ⟨bs, t, hbs, ht, rfl, hch, htr, hlen, hit⟩ := blocks_view c hL d
  rw [delSlice_blocks c hL bs t hbs ht s e st, htr]
  cases hp : PyL.delSlice bs s e st with
  | error er => exact htr
  | ok bs' =>
    have hbs' : ∀ b ∈ bs', b.length = c.w := fun b hb => hbs b (pyDelSlice_mem _ _ _ _ _ hp b hb)
    exact (view_of_blocks c hL bs' t hbs' ht).2.1

theorem delSlice_error_unchanged (c : Codec V) (d : Bits) (s e st : Option Int) (er : Err)
    (h : (delSlice c d s e st).res = .error er) : (delSlice c d s e st).data = d := by
  revert h
  unfold delSlice
  simp only
  split
  · intro _; rfl
  · split
    · intro h; cases h
    · intro h; cases h

/-- The list specification of slice deletion agrees with "delete one index after the other from the highest down". -/
theorem delSlice_spec_all {α} (l : List α) : PyL.delSlice l none none none = .ok [] := by
  have h0 : ¬ ((1 : Int) = 0) := by omega
  have : PyL.delSlice l none none none = PyL.delSlice l none none (some 1) := rfl
  rw [this, pyDelSlice_eq l none none 1 h0, C01.sliceIndices_none_none_pos 1 (by omega)]
  simp only
  have h := keep_interval l 0 l.length (by omega) (Nat.le_refl _)
  simp only [Nat.cast_zero] at h
  rw [h]
  simp

/-! ### reverse -/

/-- The swap loop reverses the items (no trailing bits). -/
theorem reverse_refines (c : Codec V) (hL : 0 < c.w) (d : Bits) (ht : trailing c.w d = []) :
    (reverse c d).view c = .ok ((), (items c d).reverse) ∧ trailing c.w (reverse c d).data = [] := by
  obtain ⟨bs, t, hbs, ht', rfl, hch, htr, hlen, hit⟩ := blocks_view c hL d
  rw [htr] at ht
  subst ht
  have hN : (bs.flatten ++ ([] : Bits)).length = bs.length * c.w := by
    rw [List.append_nil, blocks_flatten_length c.w bs hbs]
  have hm0 : (bs.flatten ++ ([] : Bits)).length % c.w = 0 := by
    rw [hN]; exact Nat.mul_mod_left _ _
  have hs : reverse c (bs.flatten ++ []) = ⟨bs.reverse.flatten ++ [], .ok ()⟩ := by
    unfold reverse
    rw [if_neg (not_not.mpr hm0)]
    unfold Py.rangeList
    rw [List.foldl_map]
    generalize hmdef : Py.rangeLen 0 (((bs.flatten ++ ([] : Bits)).length / 2 : Nat) : Int) (c.w : Int) = m
    have hlt : ∀ k : Nat, k < m ↔ k * c.w < (bs.length * c.w) / 2 := by
      intro k
      rw [← hmdef, lt_rangeLen_pos _ _ _ (by omega) k, hN]
      have e : (0 : Int) + (k : Int) * (c.w : Int) = ((k * c.w : Nat) : Int) := by push_cast; ring
      rw [e]
      omega
    have h1 : ∀ k < m, 2 * k + 1 ≤ bs.length := by
      intro k hk
      have hk' := (hlt k).mp hk
      have h2 : (2 * k) * c.w < bs.length * c.w := by
        have : (2 * k) * c.w = 2 * (k * c.w) := by ring
        omega
      have := Nat.lt_of_mul_lt_mul_right h2
      omega
    have h2 : bs.length ≤ 2 * m + 1 := by
      by_contra hcon
      have hge : 2 * m + 2 ≤ bs.length := by omega
      have hmul : (2 * m + 2) * c.w ≤ bs.length * c.w := Nat.mul_le_mul_right _ hge
      have e : (2 * m + 2) * c.w = 2 * (m * c.w) + 2 * c.w := by ring
      have : m * c.w < (bs.length * c.w) / 2 := by omega
      have := (hlt m).mpr this
      omega
    have h3 : 2 * m ≤ bs.length + 1 := by
      cases m with
      | zero => omega
      | succ k => have := h1 k (by omega); omega
    have := swap_fold c.w bs hbs m h1
    simp only at this
    rw [this, swapped_full bs m h2 h3]
  have hbr : ∀ b ∈ bs.reverse, b.length = c.w := fun b hb => hbs b (List.mem_reverse.mp hb)
  have hv := view_of_blocks c hL bs.reverse [] hbr ht'
  rw [hs, hit]
  refine ⟨?_, hv.2.1⟩
  unfold Step.view
  simp only [hv.1, List.map_reverse]

/-- With trailing bits `reverse` raises and changes nothing. -/
theorem reverse_trailing_rejects (c : Codec V) (hL : 0 < c.w) (d : Bits) (ht : trailing c.w d ≠ []) :
    (reverse c d).res = .error .value ∧ (reverse c d).data = d := by
  have hm : d.length % c.w ≠ 0 := by
    exact fun h0 => ht ((trailing_nil_iff c.w d).mpr h0)
  unfold reverse
  rw [if_pos hm]
  exact ⟨rfl, rfl⟩

/-! ### non-vacuity -/
example : (getSlice (mkCodec .u "uint" 2 1 .int false) [false, true, true, false, true, true, false, false, true] (some (-1)) none (some (-2))).map
    (items (mkCodec .u "uint" 2 1 .int false)) = .ok [.int 0, .int 2] := by decide
example : items (mkCodec .u "uint" 2 1 .int false)
    (setSlice (mkCodec .u "uint" 2 1 .int false) [false, true, true, false, true, true, false, false, true] none none (some 2) [.int 0, .int 0]).data
    = [.int 0, .int 2, .int 0, .int 0] := by decide
example : (delSlice (mkCodec .u "uint" 2 1 .int false) [false, true, true, false, true, true, false, false, true] (some 3) none (some (-2))).data
    = [false, true, true, true, true] := by decide
example : (reverse (mkCodec .u "uint" 2 1 .int false) [false, true, true, false, true, true]).data = [true, true, true, false, false, true] := by decide
-- `a = Array('uint2', [1, 2]); a[::-1] = a` gives `[2, 1]`
example : items (mkCodec .u "uint" 2 1 .int false)
    (setSliceSelf (mkCodec .u "uint" 2 1 .int false) [false, true, true, false] none none (some (-1))).data = [.int 2, .int 1] := by decide

end BM.C14
