/-
  Props/C06_Src3.lean — tie between C06's hand-written ALG transcription of the position rule of
  `BitStream.__setitem__` / `BitStream.__delitem__` ("pos = 0 iff the length changed", `C06.afterLenChange`, the shared
  tail of the `setSlice` / `setIdxBits` / `delSlice` / `delIdx` cases of `stepCore`) and the CURRENT source text (third
  batch; `_setbitpos`, `_getbytepos`, `bytealign` are in Props/C06_Src.lean, insert / overwrite / append / prepend in
  C06_Src2).

  `Gen.Src.bs_setitem self_len self_len_after` / `Gen.Src.bs_delitem …` are regenerated from /repo on every run by
  harness/translate.py (trace mode).  Both methods read `len(self)` BEFORE and AFTER the one statement that changes the
  object: the translator gives the second read its own parameter `self_len_after` (only because the function contains
  exactly one statement that can change `self`; otherwise the function leaves the subset).  The mutation itself
  (`super().__setitem__(key, value)` → `BitArray.__setitem__`, `self._bitstore.__delitem__(key)`) is recorded; its
  meaning here is "the bits become `nb`" for an ARBITRARY new content `nb` — what the new content is for a given key and
  value is C03's and C01's subject; C06 is about the position.  The theorems state that for EVERY stream and EVERY new
  content the translated method, with `self_len_after` instantiated by the new length, IS `afterLenChange s nb`.  So a
  change of the comparison (`!=` into `<`, the wrong operands), of the value written to `_pos`, or a second mutation
  breaks the theorem or the translation.
-/
import BitstringModel.Model.C06
import BitstringModel.Gen.Src
namespace BM.C06.Src3
open BM BM.C06

/-- Meaning of one recorded effect on the stream, the mutation's result being `nb` (unknown effect ↦ `none`). -/
def act (nb : Bits) (s : Stream) : Py.Act → Option Stream
  | ⟨"super().__setitem__(key, value)", []⟩ => some { s with bits := nb }
  | ⟨"self._bitstore.__delitem__(key)", []⟩ => some { s with bits := nb }
  | ⟨"self._pos = _", [some v]⟩ => some { s with pos := v }
  | _ => none

/-- Meaning of a trace: the effects in order. -/
def run (nb : Bits) : Stream → List Py.Act → Option Stream
  | s, [] => some s
  | s, a :: rest => match act nb s a with
    | some s' => run nb s' rest
    | none => none

/-- What a call did (these two methods raise nothing themselves: an exception of the mutation is raised before any
    effect on the position and is the primitive's, not theirs). -/
def outcome (nb : Bits) (s : Stream) : Except Err (List Py.Act) → Option Stream
  | .ok tr => run nb s tr
  | .error _ => none

macro "src_auto" : tactic => `(tactic| (
  try simp only [decide_eq_true_eq, decide_eq_false_iff_not, Bool.not_eq_true', Bool.not_eq_false', Bool.and_eq_true,
    Bool.or_eq_true, ne_eq, Decidable.not_not, Stream.len]
  repeat' split
  all_goals (first
    | omega
    | (simp_all [outcome, run, act, Stream.len, afterLenChange] <;> first | omega | grind)
    | grind [outcome, run, act, Stream.len, afterLenChange])))

/-- `BitStream.__setitem__` as the source has it now: whatever the new content, the stream afterwards is
    `afterLenChange s nb` (position reset iff the length changed, kept otherwise). -/
theorem setitem_eq (s : Stream) (nb : Bits) :
    outcome nb s (Gen.Src.bs_setitem s.len (nb.length : Int)) = some (afterLenChange s nb) := by
  simp only [Gen.Src.bs_setitem]
  src_auto

/-- `BitStream.__delitem__` as the source has it now. -/
theorem delitem_eq (s : Stream) (nb : Bits) :
    outcome nb s (Gen.Src.bs_delitem s.len (nb.length : Int)) = some (afterLenChange s nb) := by
  simp only [Gen.Src.bs_delitem]
  src_auto

/-- Non-vacuity: a deletion that shortens the stream resets the position, an assignment of equal length keeps it. -/
example : outcome [true] ⟨true, [true, false], 2⟩ (Gen.Src.bs_delitem 2 1) = some ⟨true, [true], 0⟩ := by decide
example : outcome [false, false] ⟨true, [true, false], 1⟩ (Gen.Src.bs_setitem 2 2) = some ⟨true, [false, false], 1⟩ := by
  decide

end BM.C06.Src3
