/-
  Props/C15.lean — property theorems for C15 (out-of-range or mis-sized values are rejected, never
  wrapped or truncated).  Every theorem is ∀-quantified over widths, values, lengths and contents; no bound.
  Windows over bytes / bitarray / BytesIO / file sources are in Props/C15_Window.lean.
-/
import BitstringModel.Model.C15
import BitstringModel.Proofs.C15

namespace BM.C15
open BM

/-! ### "an integer outside [0, 2^n) or [-2^(n-1), 2^(n-1)) … raises CreationError" — at EVERY width -/

/-- The re-diagnosis in `int2bitstore` is exact for ANY primitive `ba` that behaves like `int2ba`
    ("ValueError if length ≤ 0, OverflowError iff out of range"), whatever bits it produces: an in-range value is
    never rejected, an out-of-range value is never let through, and the OverflowError never escapes. -/
theorem int2bitsWith_exact (ba : Int → Int → Bool → Except BaErr Bits)
    (hlen : ∀ i n s, n ≤ 0 → ba i n s = .error .value)
    (hovf : ∀ i n s, 0 < n → inRange s n.toNat i = false → ba i n s = .error .overflow)
    (hok : ∀ i n s, 0 < n → inRange s n.toNat i = true → ∃ b, ba i n s = .ok b)
    (i n : Int) (s : Bool) :
    (∃ b, int2bitsWith ba i n s = .ok b) ↔ (1 ≤ n ∧ inRange s n.toNat i = true) :=
  int2bitsWith_exact_aux ba hlen hovf hok i n s

theorem int2bitsWith_never_internal (ba : Int → Int → Bool → Except BaErr Bits)
    (hlen : ∀ i n s, n ≤ 0 → ba i n s = .error .value)
    (hovf : ∀ i n s, 0 < n → inRange s n.toNat i = false → ba i n s = .error .overflow)
    (hok : ∀ i n s, 0 < n → inRange s n.toNat i = true → ∃ b, ba i n s = .ok b)
    (i n : Int) (s : Bool) :
    (∃ b, int2bitsWith ba i n s = .ok b) ∨ int2bitsWith ba i n s = .error .value :=
  int2bitsWith_never_internal_aux ba hlen hovf hok i n s

/-- `int2bitstore(i, n, signed)` returns the `n` two's-complement bits iff `n ≥ 1` and `i` is in range. -/
theorem int2bits_overflow_iff (i n : Int) (s : Bool) (b : Bits) :
    int2bits i n s = .ok b ↔ (1 ≤ n ∧ inRange s n.toNat i = true ∧ b = intToBits n.toNat i) :=
  int2bits_ok_iff_aux i n s b

/-- Total classification: the bits, or ValueError (CreationError) — nothing else, at every width. -/
theorem int2bits_total (i n : Int) (s : Bool) :
    int2bits i n s =
      if 1 ≤ n ∧ inRange s n.toNat i = true then .ok (intToBits n.toNat i) else .error .value :=
  int2bits_total_aux i n s

/-- Exactly the requested length. -/
theorem int2bits_length (i n : Int) (s : Bool) (b : Bits) (h : int2bits i n s = .ok b) :
    (b.length : Int) = n := by
  obtain ⟨h1, _, rfl⟩ := (int2bits_overflow_iff i n s b).1 h
  simp [intToBits]; omega

/-- Never wrapped: an accepted unsigned value reads back as itself. -/
theorem int2bits_unsigned_value (i n : Int) (b : Bits) (h : int2bits i n false = .ok b) :
    (bitsToNat b : Int) = i := int2bits_unsigned_value_aux i n b h

/-- `intle2bitstore`: same acceptance; on whole bytes the result is the byte-reversed big-endian form and keeps
    the length. -/
theorem intle2bits_total (i n : Int) (s : Bool) :
    intle2bits i n s =
      if 1 ≤ n ∧ inRange s n.toNat i = true then .ok (bytesRev (intToBits n.toNat i)) else .error .value := by
  unfold intle2bits; rw [int2bits_total]
  by_cases h : 1 ≤ n ∧ inRange s n.toNat i = true
  · rw [if_pos h, if_pos h]
  · rw [if_neg h, if_neg h]

theorem bytesRev_whole_bytes (b : Bits) (h : b.length % 8 = 0) :
    bytesRev b = leBits b ∧ (bytesRev b).length = b.length := bytesRev_whole_bytes_aux b h

/-! ### "invalid digits … raises CreationError" -/

/-- A digit string is accepted iff every character left after dropping whitespace, underscores and the
    `0x`/`0o`/`0b` markers is a digit of the base; the result has exactly `width` bits per digit. -/
theorem digits2bits_ok_iff (k : DigitKind) (s : List Char) (b : Bits) :
    digits2bits k s = .ok b ↔
      ((cleaned k s).all fun c => (k.val? c).isSome) = true ∧
      b = ((cleaned k s).filterMap k.val?).flatMap (natToBits k.width) :=
  digits2bits_ok_iff_aux k s b

theorem digits2bits_length (k : DigitKind) (s : List Char) (b : Bits) (h : digits2bits k s = .ok b) :
    b.length = k.width * (cleaned k s).length := digits2bits_length_aux k s b h

theorem digits2bits_total (k : DigitKind) (s : List Char) :
    digits2bits k s =
      if ((cleaned k s).all fun c => (k.val? c).isSome) = true
      then .ok (((cleaned k s).filterMap k.val?).flatMap (natToBits k.width)) else .error .value :=
  digits2bits_total_aux k s

/-! ### "a length that is zero, negative or not allowed for the type" — the table's meaning -/

/-- Endian types: whole bytes.  Hex / oct: multiples of 4 / 3.  (Python's floor `%` also lets negative multiples
    through `get_dtype`; they are refused later, see `build_eq`.) -/
theorem allowed_meaning (n : Int) :
    ((defOf .uintbe).allowed.contains n = true ↔ n % 8 = 0) ∧
    ((defOf .intle).allowed.contains n = true ↔ n % 8 = 0) ∧
    ((defOf .hex).allowed.contains n = true ↔ n % 4 = 0) ∧
    ((defOf .oct).allowed.contains n = true ↔ n % 3 = 0) ∧
    ((defOf .float).allowed.contains n = true ↔ (n = 16 ∨ n = 32 ∨ n = 64)) ∧
    ((defOf .bool).allowed.contains n = true ↔ n = 1) ∧
    ((defOf .bfloat).allowed.contains n = true ↔ n = 16) := allowed_meaning_aux n

/-! ### the total classification: every route with its real validation -/

/-- "Every in-range combination succeeds and has exactly the requested length". -/
theorem encode_length (d : DT) (n : Int) (v : Val) (h : valid d (some n) v = true) :
    ((encode d (some n) v).length : Int) = n * (defOf d).mult := encode_length_aux d n v h

/-- `Dtype(name, len).build(v)`: success with exactly `encode`, or ValueError — decided by `valid`. -/
theorem build_eq (d : DT) (len : Option Int) (v : Val) (hw : wellTyped d v = true) :
    build d len v = if valid d len v = true then .ok (encode d len v) else .error .value :=
  build_eq_aux d len v hw

theorem build_ok_iff_valid (d : DT) (len : Option Int) (v : Val) (hw : wellTyped d v = true) (b : Bits) :
    build d len v = .ok b ↔ (valid d len v = true ∧ b = encode d len v) := by
  rw [build_eq d len v hw]
  by_cases h : valid d len v = true
  · rw [if_pos h]
    exact ⟨fun e => ⟨h, by injection e with e; exact e.symm⟩, fun e => by rw [e.2]⟩
  · rw [if_neg h]
    exact ⟨fun e => (by cases e), fun e => absurd e.1 h⟩

/-- Token strings (`'uint:8=255'`) and `pack`: `bitstore_from_token`. -/
theorem fromToken_eq (d : DT) (len : Option Int) (v : Val) (hw : wellTyped d v = true) :
    fromToken d len v = if valid d len v = true then .ok (encode d len v) else .error .value :=
  fromToken_eq_aux d len v hw

theorem packRoute_eq (d : DT) (len : Option Int) (v : Val) (hw : wellTyped d v = true) :
    packRoute d len v = if valid d len v = true then .ok (encode d len v) else .error .value :=
  packRoute_eq_aux d len v hw

/-- `a.<name><n> = v` (`BitArray.__setattr__`). -/
theorem propnSet_eq (d : DT) (n : Int) (v : Val) (hw : wellTyped d v = true) :
    propnSet d n v = if valid d (some n) v = true then .ok (encode d (some n) v) else .error .value :=
  propnSet_eq_aux d n v hw

/-- `Array._create_element`. -/
theorem createElement_eq (d : DT) (n : Int) (v : Val) (hw : wellTyped d v = true) :
    createElement d n v = if valid d (some n) v = true then .ok (encode d (some n) v) else .error .value :=
  createElement_eq_aux d n v hw

/-- `ok_length`: whatever these routes return has exactly the requested number of bits. -/
theorem ok_length (d : DT) (n : Int) (v : Val) (hw : wellTyped d v = true) (b : Bits)
    (h : build d (some n) v = .ok b ∨ fromToken d (some n) v = .ok b ∨ packRoute d (some n) v = .ok b
      ∨ propnSet d n v = .ok b ∨ kwnRoute d n v = .ok b) :
    (b.length : Int) = n * (defOf d).mult := by
  rw [build_eq d _ v hw, fromToken_eq d _ v hw, packRoute_eq d _ v hw, propnSet_eq d n v hw,
    kwnRoute_eq_aux d n v hw] at h
  by_cases hv : valid d (some n) v = true
  · simp only [hv, if_true] at h
    have : b = encode d (some n) v := by
      rcases h with h | h | h | h | h <;> (injection h with h; exact h.symm)
    rw [this]; exact encode_length d n v hv
  · simp [hv] at h

/-- Constructor keyword `Cls(name=v, length=len)` (everything but `bytes=`, which is a window): the same
    classification — the resulting length is checked since /repo b88b583. -/
theorem kwRoute_eq (d : DT) (len : Option Int) (v : Val) (hw : wellTyped d v = true) (hd : d ≠ .bytes) :
    kwRoute d v len none = if valid d len v = true then .ok (encode d len v) else .error .value :=
  kwRoute_eq_aux d len v hw hd

/-- `offset=` with anything but a bytes / file / bitarray source is refused. -/
theorem kwRoute_offset (d : DT) (len : Option Int) (off : Int) (v : Val) (hd : d ≠ .bytes) :
    kwRoute d v len (some off) = .error .value := kwRoute_offset_aux d len off v hd

/-- Name-with-length keyword `Cls(name<n>=v)` (`bytes<n>=` included: `n` counts bytes). -/
theorem kwnRoute_eq (d : DT) (n : Int) (v : Val) (hw : wellTyped d v = true) :
    kwnRoute d n v = if valid d (some n) v = true then .ok (encode d (some n) v) else .error .value :=
  kwnRoute_eq_aux d n v hw

/-- Plain property assignment `a.<name> = v`: the classification at the object's own length (for the int and
    float setters; byte-order integers need a whole-byte object since /repo bf99409), no length for the rest. -/
theorem propSet_eq (d : DT) (cur : Bits) (v : Val) (hw : wellTyped d v = true) :
    propSet d cur v =
      if valid d (effLen d cur) v = true then .ok (encode d (effLen d cur) v) else .error .value :=
  propSet_eq_aux d cur v hw

/-- `encode_ok_iff_valid`, route by route: each of the eight routes succeeds with bits `b` iff the triple is valid
    and `b` is its encoding. -/
theorem encode_ok_iff_valid (d : DT) (len : Option Int) (n : Int) (cur : Bits) (v : Val) (b : Bits)
    (hw : wellTyped d v = true) (hd : d ≠ .bytes) :
    (build d len v = .ok b ↔ (valid d len v = true ∧ b = encode d len v)) ∧
    (fromToken d len v = .ok b ↔ (valid d len v = true ∧ b = encode d len v)) ∧
    (packRoute d len v = .ok b ↔ (valid d len v = true ∧ b = encode d len v)) ∧
    (kwRoute d v len none = .ok b ↔ (valid d len v = true ∧ b = encode d len v)) ∧
    (kwnRoute d n v = .ok b ↔ (valid d (some n) v = true ∧ b = encode d (some n) v)) ∧
    (propnSet d n v = .ok b ↔ (valid d (some n) v = true ∧ b = encode d (some n) v)) ∧
    (createElement d n v = .ok b ↔ (valid d (some n) v = true ∧ b = encode d (some n) v)) ∧
    (propSet d cur v = .ok b ↔ (valid d (effLen d cur) v = true ∧ b = encode d (effLen d cur) v)) := by
  have key : ∀ (c : Bool) (e : Bits),
      ((if c = true then (Except.ok e : Except Err Bits) else .error .value) = .ok b ↔ (c = true ∧ b = e)) := by
    intro c e
    cases c with
    | true => simp [eq_comm]
    | false => simp
  rw [build_eq d len v hw, fromToken_eq d len v hw, packRoute_eq d len v hw, kwRoute_eq d len v hw hd,
    kwnRoute_eq d n v hw, propnSet_eq d n v hw, createElement_eq d n v hw, propSet_eq d cur v hw]
  exact ⟨key _ _, key _ _, key _ _, key _ _, key _ _, key _ _, key _ _, key _ _⟩

/-! ### "… and neither creates nor changes anything" -/

/-- A rejected property assignment leaves the object exactly as it was. -/
theorem rejected_assignment_no_change (d : DT) (len : Option Int) (cur : Bits) (v : Val)
    (h : (assign d len cur v).err ≠ none) : (assign d len cur v).bits = cur := by
  unfold assign at *; split at h <;> simp_all

/-- An accepted one replaces it by the value's bits: nothing of the old content survives by accident. -/
theorem accepted_assignment (d : DT) (n : Int) (cur : Bits) (v : Val) (hw : wellTyped d v = true)
    (h : (assign d (some n) cur v).err = none) :
    valid d (some n) v = true ∧ (assign d (some n) cur v).bits = encode d (some n) v :=
  accepted_assignment_aux d n cur v hw h

/-- A rejected Array element assignment (bad value or bad index) leaves the data unchanged. -/
theorem arrSet_rejected_no_change (d : DT) (n : Nat) (data : Bits) (key : Int) (v : Val)
    (h : (arrSet d n data key v).err ≠ none) : (arrSet d n data key v).bits = data := by
  unfold arrSet at h ⊢
  simp only at h ⊢
  generalize (if key < 0 then key + (data.length : Int) / ((n * (defOf d).mult : Nat) : Int) else key) = k at h ⊢
  by_cases hk : k < 0 ∨ k ≥ (data.length : Int) / ((n * (defOf d).mult : Nat) : Int)
  · rw [if_pos hk]
  · rw [if_neg hk] at h ⊢
    cases hc : createElement d n v with
    | error e => rfl
    | ok b => rw [hc] at h; exact absurd rfl h

/-- Rejection happens exactly for an index outside the array or a value that does not fit the item type
    (`w = n · multiplier` bits per item). -/
theorem arrSet_err_iff (d : DT) (n : Nat) (data : Bits) (key : Int) (v : Val) (hw : wellTyped d v = true) :
    (arrSet d n data key v).err ≠ none ↔
      (¬ (-(data.length / (n * (defOf d).mult : Nat) : Int) ≤ key ∧ key < (data.length / (n * (defOf d).mult : Nat) : Int))
        ∨ valid d (some n) v = false) :=
  arrSet_err_iff_aux d n data key v hw

/-- An accepted element assignment changes item `k` only: same total length, same bits before and after. -/
theorem arrSet_ok_frame (d : DT) (n : Nat) (data : Bits) (key : Int) (v : Val)
    (hw : wellTyped d v = true) (hn : 0 < n)
    (h : (arrSet d n data key v).err = none) :
    ∃ k : Nat, (k : Int) = (if key < 0 then key + (data.length / (n * (defOf d).mult : Nat) : Int) else key) ∧
      k < data.length / (n * (defOf d).mult) ∧
      (arrSet d n data key v).bits = data.take (n * (defOf d).mult * k) ++ encode d (some n) v
        ++ data.drop (n * (defOf d).mult * k + n * (defOf d).mult) ∧
      (arrSet d n data key v).bits.length = data.length :=
  arrSet_ok_frame_aux d n data key v hw hn h

/-! ### non-vacuity: the hypotheses are satisfiable by concrete, non-trivial values -/

example : int2bits 255 8 false = .ok (natToBits 8 255) ∧ int2bits 256 8 false = .error .value ∧
    int2bits (-128) 8 true = .ok (intToBits 8 (-128)) ∧ int2bits (-129) 8 true = .error .value ∧
    int2bits 128 8 true = .error .value ∧ int2bits 0 0 false = .error .value := by decide
example : int2bits (2 ^ 64 - 1) 64 false = .ok (natToBits 64 (2 ^ 64 - 1)) ∧ int2bits (2 ^ 64) 64 false = .error .value ∧
    int2bits (-(2 ^ 64)) 65 true = .ok (intToBits 65 (-(2 ^ 64))) ∧ int2bits (2 ^ 64) 65 true = .error .value := by decide
example : wellTyped .intle (.int (-2)) = true ∧ valid .intle (some 16) (.int (-2)) = true ∧
    build .intle (some 16) (.int (-2)) = .ok (natToBits 8 254 ++ natToBits 8 255) := by decide
example : valid .hex (some 8) (.str "0xfF".toList) = true ∧ valid .hex (some 8) (.str "f".toList) = false ∧
    valid .hex none (.str "fg".toList) = false ∧ valid .float (some 17) (.float 1 2 3) = false ∧
    valid .bool (some 2) (.int 1) = false ∧ valid .ue (some 3) (.int 1) = false ∧ valid .ue none (.int 1) = true := by decide
example : kwRoute .hex (.str "ff".toList) (some 4) none = .error .value ∧
    kwRoute .hex (.str "ff".toList) (some 8) none = .ok (natToBits 8 255) ∧
    propSet .uintle (List.replicate 12 false) (.int 5) = .error .value ∧
    propSet .uintle (List.replicate 16 false) (.int 5) = .ok (natToBits 8 5 ++ natToBits 8 0) ∧
    (assign .uint none [true, false, true] (.int 9)).err ≠ none ∧
    (assign .uint none [true, false, true] (.int 9)).bits = [true, false, true] ∧
    (arrSet .uint 4 (natToBits 12 0xabc) (-1) (.int 16)).err ≠ none ∧
    (arrSet .uint 4 (natToBits 12 0xabc) 1 (.int 5)).bits = natToBits 12 0xa5c := by decide

end BM.C15
