/-
  Props/C19.lean — property theorems for C19, part 1: `str`, `repr`, the literal parser, and the obligations over the
  GENERATED constants (`MAX_CHARS`, the `*_bits2chars` graphs, the default pp group sizes).
  Part 2 (pp) is in Props/C19_PP.lean and Props/C19_PPWidth.lean.

  Every theorem is ∀-quantified over contents and lengths; none has a size bound other than the
  truncation limit `4 * MAX_CHARS` the property itself names.
-/
import BitstringModel.Model.C19
import BitstringModel.Proofs.C19

namespace BM.C19
open BM

/-! ### obligations over the generated layer (re-checked whenever the source changes them) -/

/-- The property says "not truncated (at most 1000 bits)": `MAX_CHARS` hexadecimal characters are 1000 bits. -/
theorem maxChars_is_1000_bits : Gen.maxChars * 4 = 1000 := by decide

/-- `hex_bits2chars`, evaluated on 0…512, is the arithmetic the model uses. -/
theorem hex_bits2chars_graph : ∀ n, n ≤ 512 → Gen.hexBits2chars[n]? = some (Fmt.b2c .hex n) := by
  intro n hn
  exact graph_of_toList Gen.hexBits2chars (Fmt.b2c .hex) 513 (by decide +kernel) n (by omega)

theorem oct_bits2chars_graph : ∀ n, n ≤ 512 → Gen.octBits2chars[n]? = some (Fmt.b2c .oct n) := by
  intro n hn
  exact graph_of_toList Gen.octBits2chars (Fmt.b2c .oct) 513 (by decide +kernel) n (by omega)

theorem bin_bits2chars_graph : ∀ n, n ≤ 512 → Gen.binBits2chars[n]? = some (Fmt.b2c .bin n) := by
  intro n hn
  exact graph_of_toList Gen.binBits2chars (Fmt.b2c .bin) 513 (by decide +kernel) n (by omega)

theorem bytes_bits2chars_graph : ∀ n, n ≤ 512 → Gen.bytesBits2chars[n]? = some (n / 8) := by
  intro n hn
  exact graph_of_toList Gen.bytesBits2chars (· / 8) 513 (by decide +kernel) n (by omega)

/-- `_bits_per_char` (`24 // bitlength2chars_fn(24)`) is the number of bits one character stands for. -/
theorem bitsPerChar_eq (f : Fmt) : bitsPerChar f = f.bpc := by
  cases f <;> decide

/-- A whole number of digits takes `bits / bits-per-character` characters. -/
theorem b2c_whole (f : Fmt) (n : Nat) (h : n % f.bpc = 0) : f.b2c n * f.bpc = n := by
  cases f <;> simp only [Fmt.b2c, Fmt.bpc] at * <;> omega

/-- The default group size of every format (re-read from the dict literal in `_process_pp_tokens`)
    is a positive whole number of digits. -/
theorem defaultGroup_printable (f : Fmt) : 0 < defaultGroup f ∧ defaultGroup f % f.bpc = 0 := by
  cases f <;> decide

/-! ### digit strings -/

/-- A digit string has one character per `bpc` bits. -/
theorem digits_length (f : Fmt) (b : Bits) (h : b.length % f.bpc = 0) :
    (digits f b).length * f.bpc = b.length := by
  cases f <;> simp only [digits, Fmt.bpc] at *
  · rw [binDigits_length]; omega
  · rw [octDigits_length]; omega
  · rw [hexDigits_length]; omega

/-- Digits of a concatenation, when the cut falls between digits. -/
theorem digits_append (f : Fmt) (a b : Bits) (h : a.length % f.bpc = 0) :
    digits f (a ++ b) = digits f a ++ digits f b := by
  cases f
  · exact binDigits_append a b
  · exact octDigits_append a b h
  · exact hexDigits_append a b h

/-- Faithfulness of the digit strings: two values with a whole number of digits and the same digits are equal. -/
theorem digits_injective (f : Fmt) (a b : Bits) (ha : a.length % f.bpc = 0) (hb : b.length % f.bpc = 0)
    (h : digits f a = digits f b) : a = b := by
  cases f
  · exact binDigits_inj a b h
  · exact octDigits_inj a b ha hb h
  · exact hexDigits_inj a b ha hb h

/-- `get_fn` succeeds exactly on a whole number of digits. -/
theorem getDigits_ok_iff (f : Fmt) (b : Bits) :
    (∃ d, getDigits f b = .ok d) ↔ b.length % f.bpc = 0 := by
  unfold getDigits
  constructor
  · rintro ⟨d, hd⟩
    by_contra hne
    rw [if_pos hne] at hd
    cases hd
  · intro h
    exact ⟨digits f b, if_neg (fun hne => hne h)⟩

/-! ### `str` -/

/-- In msb0 the slices `Bits.__str__` takes are the ones the specification names. -/
theorem strFormAlg_msb0 (l : Bits) : strFormAlg false l = strForm l := by
  exact strFormAlgG_msb0 Gen.maxChars l

/-- `Bits(str(s)) == s` whenever `s` is not truncated (at most `4 * MAX_CHARS` = 1000 bits): every length,
    every residue mod 4 (hex form, binary form below 32 bits, mixed `0x…, 0b…` form). -/
theorem parse_strForm (l : Bits) (h : l.length ≤ 4 * Gen.maxChars) : parseAuto (strForm l) = .ok l := by
  exact parse_strFormG Gen.maxChars l h

/-- Longer values are cut to the first `4 * MAX_CHARS` bits in hexadecimal and marked with `...`. -/
theorem strForm_truncated_marks (l : Bits) (h : l.length > 4 * Gen.maxChars) :
    strForm l = pre0x ++ hexDigits (l.take (4 * Gen.maxChars)) ++ dots ∧ endsWithDots (strForm l) = true := by
  exact ⟨strFormG_truncated Gen.maxChars l h, (strFormG_marks_iff Gen.maxChars l).mpr h⟩

/-- … and what is shown before the mark describes exactly the leading `4 * MAX_CHARS` bits. -/
theorem strForm_truncated_prefix (l : Bits) (h : l.length > 4 * Gen.maxChars) :
    parseAuto (pre0x ++ hexDigits (l.take (4 * Gen.maxChars))) = .ok (l.take (4 * Gen.maxChars)) := by
  exact parse_truncated_prefixG Gen.maxChars (by decide) l h

/-- The mark appears only on truncated values. -/
theorem strForm_marks_iff (l : Bits) : endsWithDots (strForm l) = true ↔ l.length > 4 * Gen.maxChars := by
  exact strFormG_marks_iff Gen.maxChars l

/-- `options.lsb0` does not change `str`: `__str__` slices in absolute (msb0) positions, which is how
    `Bits(<string>)` reads the text back under either option.  (Before /repo 55378c7 it used `self[a:b]`, and the
    mixed and truncated forms were wrong under lsb0 — finding `lsb0-str-mixed`, fixed.) -/
theorem strFormAlg_eq_strForm (lsb0 : Bool) (l : Bits) : strFormAlg lsb0 l = strForm l := by
  rw [strFormAlg_eq_G, strForm_eq_G]; exact strFormAlgG_eq _ _ _

/-- Hence `Bits(str(s)) == s` under lsb0 as well, for every untruncated value. -/
theorem parse_strFormAlg (lsb0 : Bool) (l : Bits) (h : l.length ≤ 4 * Gen.maxChars) :
    parseAuto (strFormAlg lsb0 l) = .ok l := by
  rw [strFormAlg_eq_strForm]; exact parse_strForm l h

/-! ### `repr` -/

theorem reprFormAlg_msb0 (cls : Cls) (l : Bits) (pos : Nat) : reprFormAlg false cls l pos = reprForm cls l pos := by
  unfold reprFormAlg reprForm
  rw [strFormAlg_msb0]

/-- … and under lsb0 too: `repr` is the same text whatever the option. -/
theorem reprFormAlg_eq_reprForm (lsb0 : Bool) (cls : Cls) (l : Bits) (pos : Nat) :
    reprFormAlg lsb0 cls l pos = reprForm cls l pos := by
  unfold reprFormAlg reprForm
  rw [strFormAlg_eq_strForm]

/-- `str(n)` reads back as `n`. -/
theorem natDec_roundtrip (n : Nat) : parseNat? (natDec n) = some n := by
  exact parseNat_natDec n

/-- Evaluating `repr(s)` rebuilds the class, the bits and (for the stream classes) the position, whenever `s` is
    not truncated.  `Bits`/`BitArray` have no position (`hc`); a stream position lies in `[0, len]` (`hp`). -/
theorem repr_roundtrip (cls : Cls) (l : Bits) (pos : Nat) (h : l.length ≤ 4 * Gen.maxChars)
    (hp : pos ≤ l.length) (hc : cls.hasPos = false → pos = 0) :
    parseRepr (reprForm cls l pos) = .ok (cls, l, pos) := by
  have hnd : endsWithDots (strForm l) = false := by
    cases hE : endsWithDots (strForm l) with
    | false => rfl
    | true => exact absurd ((strForm_marks_iff l).mp hE) (Nat.not_lt.mpr h)
  unfold reprForm
  simp only [hnd, Bool.false_eq_true, if_false]
  exact parseRepr_text cls (strForm l) l pos (quote_not_mem_strFormG Gen.maxChars l) (parse_strForm l h) hp hc

/-- A truncated `repr` carries the `...` mark inside the literal and ends with the true length. -/
theorem repr_truncated_reports_length (cls : Cls) (l : Bits) (pos : Nat) (h : l.length > 4 * Gen.maxChars) :
    ∃ body, reprForm cls l pos = body ++ lenComment ++ natDec l.length ∧
      ∃ pre post, body = pre ++ dots ++ ['\''] ++ post := by
  obtain ⟨hs, hE⟩ := strForm_truncated_marks l h
  refine ⟨Cls.nameStr cls ++ ['(', '\''] ++ strForm l ++ ['\''] ++ (if pos ≠ 0 then posEq ++ natDec pos else []) ++ [')'],
    ?_, Cls.nameStr cls ++ ['(', '\''] ++ pre0x ++ hexDigits (l.take (4 * Gen.maxChars)),
    (if pos ≠ 0 then posEq ++ natDec pos else []) ++ [')'], ?_⟩
  · unfold reprForm
    simp only [hE, if_true, List.append_assoc]
  · rw [hs]
    simp only [List.append_assoc]

/-! ### `Array.__repr__`: the trailing bits -/

/-- Whatever the number of trailing bits, `Array.__repr__` ends with a text that evaluates back to exactly those bits
    as a `BitArray`: their faithful `repr` when there are at most `4 * MAX_CHARS` of them, spelled out in binary
    otherwise.  (Before /repo 059409d the long case embedded the truncated repr, whose `# length=` comment swallowed
    the closing parenthesis — finding `array-long-trailing`, fixed.) -/
theorem arrayRepr_trailing (k : Kind) (n : Nat) (data : Bits) (ht : data.length % n ≠ 0) :
    ∃ pre tr, arrayRepr k n data = pre ++ tr ++ [')'] ∧
      parseRepr tr = .ok (.bitArray, data.drop (data.length - data.length % n), 0) := by
  have hle : data.length % n ≤ data.length := Nat.mod_le _ _
  have hlen : (data.drop (data.length - data.length % n)).length = data.length % n := by
    rw [List.length_drop]; omega
  by_cases hlong : (data.drop (data.length - data.length % n)).length > Gen.maxChars * 4
  · refine ⟨"Array('".toList ++ (k.name ++ if k = Kind.bool then [] else natDec n) ++ "', ".toList ++
        (['['] ++ joinSep commaSp (List.map (itemRepr k) (items n data)) ++ [']']) ++ ", trailing_bits=".toList,
      Cls.nameStr .bitArray ++ ['(', '\''] ++ (pre0b ++ binDigits (data.drop (data.length - data.length % n))) ++ ['\'']
        ++ (if (0 : Nat) ≠ 0 then posEq ++ natDec 0 else []) ++ [')'] ++ [], ?_, ?_⟩
    · unfold arrayRepr
      simp only [ht, hlong, if_true, if_false, List.append_assoc, ne_eq, not_true_eq_false, List.append_nil,
        List.nil_append, List.cons_append]
    · refine parseRepr_text .bitArray _ _ 0 ?_ (parseAuto_binLit _ (by omega)) (Nat.zero_le _) (fun _ => rfl)
      have hb : '\'' ∉ binDigits (data.drop (data.length - data.length % n)) :=
        ((binDigits_digStr _).mono (by omega : 2 ≤ 16)).not_mem dig_ne_quote
      have h2 : '\'' ∉ pre0b := by decide
      simp only [List.mem_append, not_or]
      exact ⟨h2, hb⟩
  · refine ⟨"Array('".toList ++ (k.name ++ if k = Kind.bool then [] else natDec n) ++ "', ".toList ++
        (['['] ++ joinSep commaSp (List.map (itemRepr k) (items n data)) ++ [']']) ++ ", trailing_bits=".toList,
      reprForm .bitArray (data.drop (data.length - data.length % n)) 0, ?_, ?_⟩
    · unfold arrayRepr
      simp only [ht, hlong, if_false, reprFormAlg_msb0, List.append_assoc]
    · exact repr_roundtrip .bitArray _ 0 (by omega) (Nat.zero_le _) (fun _ => rfl)

/-! ### `repr` of an object created from a file -/

/-- `Bits` / `ConstBitStream` created from a file keep showing the file (they cannot change), and that text evaluates
    to their value: the whole content of the file. -/
theorem file_repr_immutable (cls : Cls) (fname : Str) (file : Bits) (pos : Nat) (h : cls.isMutable = false) :
    reprFileObj cls fname .none file pos = reprFileAlg cls fname file.length pos ∧
    evalFileRepr file file.length = .ok file := by
  constructor
  · simp [reprFileObj, applyMut, h]
  · simp [evalFileRepr]

/-- `BitArray` / `BitStream` created from a file are described by their current bits, whatever was done to them
    since: evaluating the text rebuilds class, value and pos (for values that are not truncated).  (Before /repo
    19a4a37 the text kept naming the file after a mutation — finding `file-repr-after-mutation`, fixed.) -/
theorem file_repr_mutable (cls : Cls) (fname : Str) (m : FileMut) (file : Bits) (pos : Nat) (h : cls.isMutable = true)
    (hl : (applyMut m file).length ≤ 4 * Gen.maxChars) (hp : pos ≤ (applyMut m file).length)
    (hc : cls.hasPos = false → pos = 0) :
    parseRepr (reprFileObj cls fname m file pos) = .ok (cls, applyMut m file, pos) := by
  simp only [reprFileObj, h, if_true, reprFormAlg_msb0]
  exact repr_roundtrip cls _ pos hl hp hc

/-! ### non-vacuity -/

example : strForm [true, false, true] = ['0', 'b', '1', '0', '1'] := by decide
example : strForm [true, false, true, false] = ['0', 'x', 'a'] := by decide
example : parseAuto ['0', 'x', 'a', ',', ' ', '0', 'b', '1'] = .ok [true, false, true, false, true] := by decide
example : (List.replicate 33 true).length ≤ 4 * Gen.maxChars := by decide
example : reprForm .bitStream [true, false, true, false] 3
    = "BitStream('0xa', pos=3)".toList := by decide
example : parseRepr "BitStream('0xa', pos=3)".toList = .ok (.bitStream, [true, false, true, false], 3) := by decide
example : arrayRepr .uint 4 [true, false, true, false, true]
    = "Array('uint4', [10], trailing_bits=BitArray('0b1'))".toList := by decide
example : reprFileObj .bitArray ['F'] .invert0 [false, true, true, true] 0 = "BitArray('0xf')".toList := by decide
example : reprFileObj .bits "'F'".toList .none [false, true, true, true] 0 = "Bits(filename='F', length=4)".toList := by
  decide

end BM.C19
