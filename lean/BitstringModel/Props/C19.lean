/-
  Props/C19.lean — property theorems for C19, part 1: `str`, `repr`, the literal parser, and the obligations over the
  GENERATED constants (`MAX_CHARS`, the `*_bits2chars` graphs, the default pp group sizes).
  Part 2 (pp) is in Props/C19_PP.lean and Props/C19_PPWidth.lean.

  Every theorem is ∀-quantified over contents and lengths; none has a size bound other than the
  truncation limit `4 * MAX_CHARS` the property itself names.
-/
import BitstringModel.Model.C19
import BitstringModel.Proofs.C19

namespace BM.C19
open BM

/-! ### obligations over the generated layer (re-checked whenever the source changes them) -/

/-- The property says "not truncated (at most 1000 bits)": `MAX_CHARS` hexadecimal characters are 1000 bits. -/
theorem maxChars_is_1000_bits : Gen.maxChars * 4 = 1000 := by decide

/-- `hex_bits2chars`, evaluated on 0…512, is the arithmetic the model uses. -/
theorem hex_bits2chars_graph : ∀ n, n ≤ 512 → Gen.hexBits2chars[n]? = some (Fmt.b2c .hex n) := by
  sorry

theorem oct_bits2chars_graph : ∀ n, n ≤ 512 → Gen.octBits2chars[n]? = some (Fmt.b2c .oct n) := by
  sorry

theorem bin_bits2chars_graph : ∀ n, n ≤ 512 → Gen.binBits2chars[n]? = some (Fmt.b2c .bin n) := by
  sorry

theorem bytes_bits2chars_graph : ∀ n, n ≤ 512 → Gen.bytesBits2chars[n]? = some (n / 8) := by
  sorry

/-- `_bits_per_char` (`24 // bitlength2chars_fn(24)`) is the number of bits one character stands for. -/
theorem bitsPerChar_eq (f : Fmt) : bitsPerChar f = f.bpc := by
  sorry

/-- A whole number of digits takes `bits / bits-per-character` characters. -/
theorem b2c_whole (f : Fmt) (n : Nat) (h : n % f.bpc = 0) : f.b2c n * f.bpc = n := by
  sorry

/-- The default group size of every format (re-read from the dict literal in `_process_pp_tokens`)
    is a positive whole number of digits. -/
theorem defaultGroup_printable (f : Fmt) : 0 < defaultGroup f ∧ defaultGroup f % f.bpc = 0 := by
  sorry

/-! ### digit strings -/

/-- A digit string has one character per `bpc` bits. -/
theorem digits_length (f : Fmt) (b : Bits) (h : b.length % f.bpc = 0) :
    (digits f b).length * f.bpc = b.length := by
  sorry

/-- Digits of a concatenation, when the cut falls between digits. -/
theorem digits_append (f : Fmt) (a b : Bits) (h : a.length % f.bpc = 0) :
    digits f (a ++ b) = digits f a ++ digits f b := by
  sorry

/-- Faithfulness of the digit strings: two values with a whole number of digits and the same digits are equal. -/
theorem digits_injective (f : Fmt) (a b : Bits) (ha : a.length % f.bpc = 0) (hb : b.length % f.bpc = 0)
    (h : digits f a = digits f b) : a = b := by
  sorry

/-- `get_fn` succeeds exactly on a whole number of digits. -/
theorem getDigits_ok_iff (f : Fmt) (b : Bits) :
    (∃ d, getDigits f b = .ok d) ↔ b.length % f.bpc = 0 := by
  sorry

/-! ### `str` -/

/-- In msb0 the slices `Bits.__str__` takes are the ones the specification names. -/
theorem strFormAlg_msb0 (l : Bits) : strFormAlg false l = strForm l := by
  sorry

/-- `Bits(str(s)) == s` whenever `s` is not truncated (at most `4 * MAX_CHARS` = 1000 bits): every length,
    every residue mod 4 (hex form, binary form below 32 bits, mixed `0x…, 0b…` form). -/
theorem parse_strForm (l : Bits) (h : l.length ≤ 4 * Gen.maxChars) : parseAuto (strForm l) = .ok l := by
  sorry

/-- Longer values are cut to the first `4 * MAX_CHARS` bits in hexadecimal and marked with `...`. -/
theorem strForm_truncated_marks (l : Bits) (h : l.length > 4 * Gen.maxChars) :
    strForm l = pre0x ++ hexDigits (l.take (4 * Gen.maxChars)) ++ dots ∧ endsWithDots (strForm l) = true := by
  sorry

/-- … and what is shown before the mark describes exactly the leading `4 * MAX_CHARS` bits. -/
theorem strForm_truncated_prefix (l : Bits) (h : l.length > 4 * Gen.maxChars) :
    parseAuto (pre0x ++ hexDigits (l.take (4 * Gen.maxChars))) = .ok (l.take (4 * Gen.maxChars)) := by
  sorry

/-- The mark appears only on truncated values. -/
theorem strForm_marks_iff (l : Bits) : endsWithDots (strForm l) = true ↔ l.length > 4 * Gen.maxChars := by
  sorry

/-! ### known finding `lsb0-str-mixed`: with `options.lsb0` set `__str__` slices from the wrong end -/

/-- Outside the region (no slice taken: empty, pure binary or pure hexadecimal form) lsb0 does not matter. -/
theorem strFormAlg_lsb0_partial (l : Bits) (h : lsb0StrSlices l = false) : strFormAlg true l = strForm l := by
  sorry

/-- Inside it the printed form does not describe the value: a 33-bit witness. -/
theorem strFormAlg_lsb0_witness :
    ∃ l : Bits, lsb0StrSlices l = true ∧ l.length ≤ 4 * Gen.maxChars ∧ parseAuto (strFormAlg true l) ≠ .ok l := by
  sorry

/-! ### `repr` -/

theorem reprFormAlg_msb0 (cls : Cls) (l : Bits) (pos : Nat) : reprFormAlg false cls l pos = reprForm cls l pos := by
  sorry

/-- `str(n)` reads back as `n`. -/
theorem natDec_roundtrip (n : Nat) : parseNat? (natDec n) = some n := by
  sorry

/-- Evaluating `repr(s)` rebuilds the class, the bits and (for the stream classes) the position, whenever `s` is
    not truncated.  `Bits`/`BitArray` have no position (`hc`); a stream position lies in `[0, len]` (`hp`). -/
theorem repr_roundtrip (cls : Cls) (l : Bits) (pos : Nat) (h : l.length ≤ 4 * Gen.maxChars)
    (hp : pos ≤ l.length) (hc : cls.hasPos = false → pos = 0) :
    parseRepr (reprForm cls l pos) = .ok (cls, l, pos) := by
  sorry

/-- A truncated `repr` carries the `...` mark inside the literal and ends with the true length. -/
theorem repr_truncated_reports_length (cls : Cls) (l : Bits) (pos : Nat) (h : l.length > 4 * Gen.maxChars) :
    ∃ body, reprForm cls l pos = body ++ lenComment ++ natDec l.length ∧
      ∃ pre post, body = pre ++ dots ++ ['\''] ++ post := by
  sorry

/-! ### non-vacuity -/

example : strForm [true, false, true] = ['0', 'b', '1', '0', '1'] := by decide
example : strForm [true, false, true, false] = ['0', 'x', 'a'] := by decide
example : parseAuto ['0', 'x', 'a', ',', ' ', '0', 'b', '1'] = .ok [true, false, true, false, true] := by decide
example : (List.replicate 33 true).length ≤ 4 * Gen.maxChars := by decide
example : reprForm .bitStream [true, false, true, false] 3
    = "BitStream('0xa', pos=3)".toList := by decide
example : parseRepr "BitStream('0xa', pos=3)".toList = .ok (.bitStream, [true, false, true, false], 3) := by decide

end BM.C19
