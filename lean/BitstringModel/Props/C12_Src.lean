/-
  Props/C12_Src.lean — tie between C12's hand-written ALG transcriptions and the CURRENT source text: the functions
  below are regenerated from /repo on every run by harness/translate.py (Gen/Src.lean); the theorems state that, for
  EVERY input, they compute what the ALG functions of Model/C12.lean (which Props/C12.lean reasons about) compute.
-/
import BitstringModel.Model.C12
import BitstringModel.Gen.Src
namespace BM.C12.Src
open BM BM.C12

def toSlice (k : Key) : Py.Slice := ⟨k.start, k.stop, k.step⟩
def ofSlice (k : Py.Slice) : Key := ⟨k.start, k.stop, k.step⟩

/-- `offset_slice_indices_lsb0` (bitstore.py) as translated from the source = `C12.offsetSliceLsb0`, for every slice
    and every length. -/
theorem offset_slice_indices_lsb0_eq (k : Key) (n : Nat) :
    (Gen.Src.offset_slice_indices_lsb0 (toSlice k) (n : Int)).map ofSlice = offsetSliceLsb0 k n := by
  unfold Gen.Src.offset_slice_indices_lsb0 offsetSliceLsb0 Py.Slice.indices toSlice
  simp only [Int.toNat_natCast]
  by_cases hst : k.step.getD 1 = 0
  · simp [hst, Except.bind, Except.map]
  simp only [hst, if_false, Except.bind]
  -- start, stop, step = key.indices(length); the third component is the step handed in
  rcases hr : Py.sliceIndices k.start k.stop (k.step.getD 1) n with ⟨s, e, st'⟩
  have h3 : st' = k.step.getD 1 := by
    have : (Py.sliceIndices k.start k.stop (k.step.getD 1) n).2.2 = k.step.getD 1 := rfl
    rw [hr] at this; exact this
  subst h3
  simp only [Py.rangeLenI]
  by_cases hc : Py.rangeLen s e (k.step.getD 1) = 0 <;> by_cases hp : k.step.getD 1 > 0 <;>
    simp [hc, hp, Except.map, ofSlice]

/-- The final guard of `_validate_slice` (`if not 0 <= start <= end <= len(self): raise ValueError`) for bounds that
    are already normalised: the translated Boolean test against the model's propositional one. -/
theorem validate_core (n s e : Int) :
    (if (!(decide ((0 : Int) ≤ s) && decide (s ≤ e) && decide (e ≤ n))) then (.error .value : Except Err (Int × Int))
      else .ok (s, e)).map (fun p => (p.1.toNat, p.2.toNat))
      = if 0 ≤ s ∧ s ≤ e ∧ e ≤ n then .ok (s.toNat, e.toNat) else .error .value := by
  by_cases h : 0 ≤ s ∧ s ≤ e ∧ e ≤ n
  · simp [h, Except.map]
  · rw [if_neg h]
    have : (!(decide ((0 : Int) ≤ s) && decide (s ≤ e) && decide (e ≤ n))) = true := by
      simp only [Bool.not_eq_true', Bool.and_eq_false_iff, decide_eq_false_iff_not]
      omega
    simp [this, Except.map]

/-- `Bits._validate_slice` (bits.py) as translated from the source = `C12.validateSlice`. -/
theorem validate_slice_eq (n : Nat) (a b : Option Int) :
    (Gen.Src.validate_slice (n : Int) a b).map (fun p => (p.1.toNat, p.2.toNat)) = validateSlice n a b := by
  unfold Gen.Src.validate_slice validateSlice
  cases a <;> cases b <;> simp only [decide_eq_true_eq] <;> exact validate_core _ _ _

/-- Non-vacuity: a negative-step slice of a 10-bit value. -/
example : (Gen.Src.offset_slice_indices_lsb0 ⟨some 7, some 2, some (-2)⟩ 10).map ofSlice = .ok ⟨some 6, some 1, some (-2)⟩ := by
  rfl

end BM.C12.Src
