/-
  Props/C07_Split.lean — split, the match selection of replace, cut.

  "split and replace use successive non-overlapping matches from the left": the SPEC is the greedy walk
  `selectNonOverlap` over the brute-force list `occ`; the code reaches it in two different ways — `split` by
  searching again from `pos + len(delimiter)`, `_replace` by filtering the complete `findall` list against
  `starting_points[-1] + len(old)` — and both are proved equal to it here.
-/
import BitstringModel.Model.C07
import BitstringModel.Proofs.C07Split

namespace BM.C07
open BM

/-! ### the greedy selection is what the property says -/

/-- Only matches are selected. -/
theorem selectNonOverlap_sub (m lim : Nat) (l : List Nat) :
    ∀ x ∈ selectNonOverlap m lim l, x ∈ l ∧ lim ≤ x := by
  exact Split.sel_sub m l lim

/-- Selected matches do not overlap: each starts at or after the end of the one before. -/
theorem selectNonOverlap_nonoverlapping (m lim : Nat) (l : List Nat) :
    (selectNonOverlap m lim l).Pairwise (fun x y => x + m ≤ y) := by
  exact Split.sel_nonoverlapping m l lim

/-- "successive … from the left": a match that was not selected overlaps a selected one that starts before it
    (so the selection is the left-most one, not just any non-overlapping subset). -/
theorem selectNonOverlap_greedy (m lim : Nat) (l : List Nat) (hs : l.Pairwise (· < ·)) :
    ∀ x ∈ l, lim ≤ x → x ∉ selectNonOverlap m lim l →
      ∃ y ∈ selectNonOverlap m lim l, y < x ∧ x < y + m := by
  exact Split.sel_greedy m l hs lim

/-! ### split -/

/-- `split`: the re-search from `pos + len(delimiter)` equals the greedy non-overlapping selection, and the
    generated pieces are the stretches between selected matches (first `count` of them); ValueError for an
    empty delimiter or an invalid range.  `hc`: the property's count domain is `None, 0, 1, 2, …`. -/
theorem split_eq_selectNonOverlap (data pat : Bits) (start stop : Option Int) (count : Option Int)
    (ba : Option Bool) (optBA : Bool) (hc : ∀ c, count = some c → 0 ≤ c) :
    split data pat start stop count ba optBA =
      specGuard true data.length pat start stop fun s e =>
        specSplit data pat s e (specAligned ba optBA) (countNat count) := by
  exact Split.split_main data pat start stop count ba optBA hc

theorem empty_pattern_error_split (data : Bits) (start stop : Option Int) (count : Option Int) (ba : Option Bool) (o : Bool) :
    split data [] start stop count ba o = .error .value := by
  simp [split]

/-- Joining all pieces gives back the window: nothing is lost or duplicated by `split`. -/
theorem specSplit_flatten (data pat : Bits) (s e : Nat) (al : Bool) (hse : s ≤ e) :
    (specSplit data pat s e al none).flatten = slice data s e := by
  exact Split.specSplit_flatten_main data pat s e al hse

/-! ### replace -/

/-- The `starting_points` loop of `_replace` over any list of positions = greedy selection, cut off at `count`
    (`count = 0` is the code's "no limit"). -/
theorem replace_sel_eq (m count : Nat) (l : List Nat) :
    replaceSelLoop m count [] 0 l =
      if count = 0 then selectNonOverlap m 0 l else (selectNonOverlap m 0 l).take count := by
  exact Split.replaceSelLoop_init m count l

/-- The assembly of `_replace` puts `new` exactly at the selected positions. -/
theorem replace_assemble_eq (data new : Bits) (m : Nat) (p : Nat) (ps : List Nat) :
    slice data 0 p ++ replaceAssemble data new m (p :: ps) = spliceFrom data new m 0 (p :: ps) := by
  exact Split.replaceAssemble_gen data new m ps 0 p

/-- `replace`: ValueError for an empty pattern or an invalid range (whatever `count` is), otherwise `new` is put
    in place of the first `count` successive non-overlapping matches from the left; the return value is their number. -/
theorem replace_eq_spec (data old new : Bits) (start stop : Option Int) (count : Option Int)
    (ba : Option Bool) (optBA : Bool) (hc : ∀ c, count = some c → 0 ≤ c) :
    replace data old new start stop count ba optBA =
      specGuard true data.length old start stop fun s e =>
        specReplace data old new s e (specAligned ba optBA) (countNat count) := by
  exact Split.replace_main data old new start stop count ba optBA hc

theorem empty_pattern_error_replace (data new : Bits) (start stop : Option Int) (count : Option Int)
    (ba : Option Bool) (o : Bool) :
    replace data [] new start stop count ba o = .error .value := by
  simp [replace]

/-! ### cut -/

/-- `cut`: the chunk loop yields the window in consecutive `bits`-sized pieces, at most `count` of them. -/
theorem cut_chunks (data : Bits) (bits : Int) (start stop : Option Int) (count : Option Int)
    (hb : 0 < bits) (hc : ∀ c, count = some c → 0 ≤ c) :
    cut data bits start stop count =
      specGuard false data.length [] start stop fun s e => specCut data bits.toNat s e (countNat count) := by
  exact Split.cut_main data bits start stop count hb hc

/-- The pieces of `cut` tile the window … -/
theorem specCut_flatten (data : Bits) (bits s e : Nat) (hb : 0 < bits) (hse : s ≤ e) :
    (specCut data bits s e none).flatten = slice data s e := by
  exact Split.specCut_flatten_main data bits s e hb hse

/-- … each has `bits` bits except possibly the last, which has between 1 and `bits`. -/
theorem specCut_lengths (data : Bits) (bits s e : Nat) (hb : 0 < bits) (he : e ≤ data.length)
    (i : Nat) (hi : i < (specCut data bits s e none).length) :
    (i + 1 < (specCut data bits s e none).length → ((specCut data bits s e none)[i]).length = bits) ∧
    0 < ((specCut data bits s e none)[i]).length ∧ ((specCut data bits s e none)[i]).length ≤ bits := by
  exact Split.specCut_lengths_main data bits s e hb he i hi

/-! ### the option value that counts is the one at the call -/

/-- `findall`: the positions are those for `options.bytealigned` as it was when `findall` was called, whatever it
    is while the iterator is consumed. -/
theorem findall_option_at_call (data pat : Bits) (start stop : Option Int) (count : Option Int)
    (ba : Option Bool) (optCall optConsume : Bool) (hc : ∀ c, count = some c → 0 ≤ c) :
    findallSched data pat start stop count ba optCall optConsume =
      specGuard true data.length pat start stop fun s e =>
        specFindall data pat s e (specAligned ba optCall) (countNat count) := by
  exact findall_sorted_complete data pat start stop count ba optCall hc

theorem cut_option_irrelevant (data : Bits) (bits : Int) (start stop : Option Int) (count : Option Int)
    (optCall optConsume : Bool) (hb : 0 < bits) (hc : ∀ c, count = some c → 0 ≤ c) :
    cutSched data bits start stop count optCall optConsume =
      specGuard false data.length [] start stop fun s e => specCut data bits.toNat s e (countNat count) := by
  exact cut_chunks data bits start stop count hb hc

/-- `split`: the pieces are those for `options.bytealigned` as it was when `split` was called, whatever it is
    while the iterator is consumed. -/
theorem split_option_at_call (data pat : Bits) (start stop : Option Int) (count : Option Int)
    (ba : Option Bool) (optCall optConsume : Bool) (hc : ∀ c, count = some c → 0 ≤ c) :
    splitSched data pat start stop count ba optCall optConsume =
      specGuard true data.length pat start stop fun s e =>
        specSplit data pat s e (specAligned ba optCall) (countNat count) := by
  exact split_eq_selectNonOverlap data pat start stop count ba optCall hc

/-! ### non-vacuity -/
example : split [false,true,true,false,true,true,false] [true] none none none none false
    = .ok [[false],[true],[true,false],[true],[true,false]] := by decide
example : replace [true,true,true,true,true] [true,true] [false] none none none none false
    = .ok (2, [false,false,true]) := by decide
example : selectNonOverlap 2 0 [0,1,2,3] = [0,2] := by decide
example : splitSched [false,false,true,false,false] [true] none none none none true false
    = .ok [[false,false,true,false,false]] := by decide
example : cut [true,true,false,true,true,false,true] 3 none none none
    = .ok [[true,true,false],[true,true,false],[true]] := by decide
example : specSplit (List.replicate 24 false) (List.replicate 8 false) 0 24 true (some 2)
    = [[], List.replicate 8 false] := by decide

end BM.C07
