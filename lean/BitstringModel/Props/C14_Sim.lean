/-
  Props/C14_Sim.lean — `array_refines_list`: for every finite history of list operations the Array (ALG: `arrRun`,
  offset arithmetic on one bit buffer) and the Python list (SPEC: `listRun`) show the same observations step by step,
  the Array's items stay equal to the list and its trailing bits never change.
-/
import BitstringModel.Model.C14
import BitstringModel.Proofs.C14
import BitstringModel.Proofs.C14Sim
import BitstringModel.Props.C14
import BitstringModel.Props.C14_Slices

namespace BM.C14
open BM

variable {V : Type}

/-- The abstraction function: what the list model sees of the Array's data. -/
def absState (c : Codec V) (d : Bits) : LState V := ⟨items c d, trailing c.w d⟩

/-- One step: same outcome, and the abstraction commutes (items = list after the step, trailing bits unchanged). -/
theorem array_refines_list_step (c : Codec V) (vo : ValOps V) (hL : 0 < c.w) (hwf : c.WF)
    (op : Op V) (d : Bits) (hop : admissible c vo op = true) :
    sameOutcome (arrStep c vo op d).res (listStep c vo op (absState c d)).2 ∧
    absState c (arrStep c vo op d).data = (listStep c vo op (absState c d)).1 := by
  unfold absState
  cases op with
  | len =>
    simp only [arrStep, listStep, sameOutcome, len_eq c d, and_self]
  | get i =>
    simp only [arrStep, listStep, getItem_refines c hL d i]
    cases Py.getIndex (items c d) i <;> simp [sameOutcome]
  | getSlice s e st =>
    simp only [arrStep, listStep]
    obtain ⟨h1, _⟩ := getSlice_refines c hL d s e st
    cases hg : getSlice c d s e st with
    | error er =>
      rw [hg] at h1
      simp only [Except.map] at h1
      rw [← h1]
      simp [sameOutcome]
    | ok r =>
      rw [hg] at h1
      simp only [Except.map] at h1
      rw [← h1]
      simp [sameOutcome, tolist_eq_items c hL r]
  | set i v =>
    simp only [arrStep, listStep]
    cases hf : fits c v with
    | true =>
      simp only [if_true]
      exact mut_step c d (setItem c d i v) _ (setItem_refines c hL hwf d i v hf) (setItem_trailing c hL hwf d i v)
        (setItem_error_unchanged c d i v)
    | false =>
      obtain ⟨e, he⟩ := setItem_rejects c d i v hf
      simp only [Bool.false_eq_true, if_false]
      exact rejected_step c d (setItem c d i v) e .value he (setItem_error_unchanged c d i v e he)
  | setSlice s e st vals =>
    simp only [arrStep, listStep]
    have hv : vals.all (fits c) = true := by simpa [admissible] using hop
    simp only [hv, if_true]
    exact mut_step c d (setSlice c d s e st vals) _ (setSlice_refines c hL hwf d s e st vals hv)
      (setSlice_trailing c hL hwf d s e st vals hv) (setSlice_error_unchanged c hL hwf d s e st vals hv)
  | del i =>
    simp only [arrStep, listStep]
    exact mut_step c d (delItem c d i) _ (delItem_refines c hL d i) (delItem_trailing c hL d i)
      (delItem_error_unchanged c d i)
  | delSlice s e st =>
    simp only [arrStep, listStep]
    exact mut_step c d (delSlice c d s e st) _ (delSlice_refines c hL d s e st) (delSlice_trailing c hL d s e st)
      (delSlice_error_unchanged c d s e st)
  | append v =>
    simp only [arrStep, listStep]
    by_cases ht : trailing c.w d = []
    · cases hf : fits c v with
      | true =>
        obtain ⟨h1, h2⟩ := append_refines c hL hwf d v hf ht
        obtain ⟨hr, hi⟩ := view_ok c _ () _ h1
        simp [ht, unitObs, hr, sameOutcome, hi, h2]
      | false =>
        obtain ⟨⟨e, he⟩, hd⟩ := append_rejects c hL d v (Or.inr hf)
        simp [ht, unitObs, he, sameOutcome, hd]
    · obtain ⟨⟨e, he⟩, hd⟩ := append_rejects c hL d v (Or.inl ht)
      simp [ht, unitObs, he, sameOutcome, hd]
  | extend vals =>
    simp only [arrStep, listStep]
    have hv : vals.all (fits c) = true := by simpa [admissible] using hop
    by_cases ht : trailing c.w d = []
    · obtain ⟨h1, h2⟩ := extendIter_refines c hL hwf d vals hv ht
      obtain ⟨hr, hi⟩ := view_ok c _ () _ h1
      simp [ht, hv, unitObs, hr, sameOutcome, hi, h2]
    · obtain ⟨he, hd⟩ := extendIter_trailing_rejects c hL d vals ht
      simp [ht, unitObs, he, sameOutcome, hd]
  | insert i v =>
    simp only [arrStep, listStep]
    cases hf : fits c v with
    | true =>
      obtain ⟨h1, h2⟩ := insert_refines c hL hwf d i v hf
      obtain ⟨hr, hi⟩ := view_ok c _ () _ h1
      simp [unitObs, hr, sameOutcome, hi, h2]
    | false =>
      obtain ⟨⟨e, he⟩, hd⟩ := insert_rejects c d i v hf
      simp [unitObs, he, sameOutcome, hd]
  | pop i =>
    simp only [arrStep, listStep]
    have h1 := pop_refines c hL d i
    have h2 := pop_trailing c hL d i
    cases hp : PyL.pop (items c d) i with
    | error e =>
      rw [hp] at h1
      have hr := view_err c _ e h1
      have hd := pop_error_unchanged c d i e hr
      simp [hr, sameOutcome, hd]
    | ok r =>
      obtain ⟨x, l'⟩ := r
      rw [hp] at h1
      obtain ⟨hr, hi⟩ := view_ok c _ x l' h1
      simp [hr, sameOutcome, hi, h2]
  | reverse =>
    simp only [arrStep, listStep]
    by_cases ht : trailing c.w d = []
    · obtain ⟨h1, h2⟩ := reverse_refines c hL d ht
      obtain ⟨hr, hi⟩ := view_ok c _ () _ h1
      simp [ht, unitObs, hr, sameOutcome, hi, h2]
    · obtain ⟨he, hd⟩ := reverse_trailing_rejects c hL d ht
      simp [ht, unitObs, he, sameOutcome, hd]
  | count v =>
    simp only [arrStep, listStep]
    have hn : vo.isnan v ≠ .ok true := by
      intro h
      simp [admissible, h] at hop
    rw [count_refines c vo hL d v hn]
    simp [sameOutcome]
  | iter =>
    simp only [arrStep, listStep, iter_eq_items c hL d]
    simp [sameOutcome]
  | tolist =>
    simp only [arrStep, listStep, tolist_eq_items c hL d]
    simp [sameOutcome]

/-- The list model never changes the trailing bits, hence neither does the Array. -/
theorem listStep_trailing (c : Codec V) (vo : ValOps V) (op : Op V) (s : LState V) :
    (listStep c vo op s).1.t = s.t := by
  cases op <;> simp only [listStep, lmut] <;> (repeat' split) <;> rfl

/-- Whole histories, by induction over the operation list. -/
theorem array_refines_list (c : Codec V) (vo : ValOps V) (hL : 0 < c.w) (hwf : c.WF)
    (ops : List (Op V)) (d : Bits) (hadm : Admissible c vo ops d) :
    List.Forall₂ sameOutcome (arrRun c vo ops d).2 (listRun c vo ops (absState c d)).2 ∧
    absState c (arrRun c vo ops d).1 = (listRun c vo ops (absState c d)).1 := by
  induction ops generalizing d with
  | nil => exact ⟨List.Forall₂.nil, rfl⟩
  | cons op ops ih =>
    unfold Admissible admissibleRun at hadm
    rw [Bool.and_eq_true] at hadm
    obtain ⟨h1, h2⟩ := array_refines_list_step c vo hL hwf op d hadm.1
    obtain ⟨h3, h4⟩ := ih (arrStep c vo op d).data hadm.2
    simp only [arrRun, listRun]
    rw [← h2]
    exact ⟨List.Forall₂.cons h1 h3, h4⟩

/-- `trailing_preserved`: after any admissible history the trailing bits are the initial ones. -/
theorem trailing_preserved (c : Codec V) (vo : ValOps V) (hL : 0 < c.w) (hwf : c.WF)
    (ops : List (Op V)) (d : Bits) (hadm : Admissible c vo ops d) :
    trailing c.w (arrRun c vo ops d).1 = trailing c.w d := by
  have h := (array_refines_list c vo hL hwf ops d hadm).2
  have ht : ∀ (ops : List (Op V)) (s : LState V), (listRun c vo ops s).1.t = s.t := by
    intro ops
    induction ops with
    | nil => intro s; rfl
    | cons op ops ih =>
      intro s
      simp only [listRun]
      rw [ih, listStep_trailing]
  have := congrArg LState.t h
  rw [ht] at this
  exact this

/-! ### non-vacuity -/
example :
    let c := mkCodec .u "uint" 2 1 .int false
    let ops : List (Op Val) := [.append (.int 1), .insert 1 (.int 3), .setSlice none none (some 2) [.int 0, .int 0], .pop (-1), .reverse,
                                 .delSlice none none (some (-2)), .get 0]
    admissibleRun c (valOps c) ops [true, false] = true ∧
    (arrRun c (valOps c) ops [true, false]).1 = [true, true] := by
  decide

end BM.C14
