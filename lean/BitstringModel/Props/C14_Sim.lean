/-
  Props/C14_Sim.lean — `array_refines_list`: for every finite history of list operations the Array (ALG: `arrRun`,
  offset arithmetic on one bit buffer) and the Python list (SPEC: `listRun`) show the same observations step by step,
  the Array's items stay equal to the list and its trailing bits never change.
-/
import BitstringModel.Model.C14
import BitstringModel.Proofs.C14
import BitstringModel.Proofs.C14Sim
import BitstringModel.Props.C14
import BitstringModel.Props.C14_Slices

namespace BM.C14
open BM

variable {V : Type}

/-- The abstraction function: what the list model sees of the Array's data. -/
def absState (c : Codec V) (d : Bits) : LState V := ⟨items c d, trailing c.w d⟩

/-- One step: same outcome, and the abstraction commutes (items = list after the step, trailing bits unchanged). -/
theorem array_refines_list_step (c : Codec V) (vo : ValOps V) (hL : 0 < c.w) (hwf : c.WF)
    (op : Op V) (d : Bits) (hop : admissible c vo op = true) :
    sameOutcome (arrStep c vo op d).res (listStep c vo op (absState c d)).2 ∧
    absState c (arrStep c vo op d).data = (listStep c vo op (absState c d)).1 := by
  sorry

/-- The list model never changes the trailing bits, hence neither does the Array. -/
theorem listStep_trailing (c : Codec V) (vo : ValOps V) (op : Op V) (s : LState V) :
    (listStep c vo op s).1.t = s.t := by
  sorry

/-- Whole histories, by induction over the operation list. -/
theorem array_refines_list (c : Codec V) (vo : ValOps V) (hL : 0 < c.w) (hwf : c.WF)
    (ops : List (Op V)) (d : Bits) (hadm : Admissible c vo ops d) :
    List.Forall₂ sameOutcome (arrRun c vo ops d).2 (listRun c vo ops (absState c d)).2 ∧
    absState c (arrRun c vo ops d).1 = (listRun c vo ops (absState c d)).1 := by
  sorry

/-- `trailing_preserved`: after any admissible history the trailing bits are the initial ones. -/
theorem trailing_preserved (c : Codec V) (vo : ValOps V) (hL : 0 < c.w) (hwf : c.WF)
    (ops : List (Op V)) (d : Bits) (hadm : Admissible c vo ops d) :
    trailing c.w (arrRun c vo ops d).1 = trailing c.w d := by
  sorry

/-! ### non-vacuity -/
example :
    let c := mkCodec .u "uint" 2 1 .int false
    let ops : List (Op Val) := [.append (.int 1), .insert 1 (.int 3), .setSlice none none (some 2) [.int 0, .int 0], .pop (-1), .reverse,
                                 .delSlice none none (some (-2)), .get 0]
    admissibleRun c (valOps c) ops [true, false] = true ∧
    (arrRun c (valOps c) ops [true, false]).1 = [true, true] := by
  decide

end BM.C14
