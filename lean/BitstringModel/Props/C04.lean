/-
  Props/C04.lean — value isolation.  The heap machine of Model/C04.lean transcribes every place the code
  shares or copies a bit store.  `Inv`: a store held by a mutable object (or by an external buffer) is held
  by nothing else.  The invariant is preserved by EVERY operation from EVERY state satisfying it, hence in
  every reachable state, for every history — and with it: mutating one object never changes another,
  immutable objects and the string cache never change.
-/
import BitstringModel.Model.C04
import BitstringModel.Proofs.C04

namespace BM.C04
open BM

theorem inv_empty : Inv {} := by
  exact wf_empty.inv

/-- One-step preservation, for every operation and every argument (out-of-range ids are no-ops). -/
theorem inv_step (h : Heap) (op : Op) (hi : Inv h) : Inv (step h op) := by
  exact ((WF.of_inv hi).of_step op).inv

/-- Every reachable state satisfies the invariant. -/
theorem inv_run (ops : List Op) : Inv (run {} ops) := by
  exact (wf_empty.of_run ops).inv

theorem inv_run_from (h : Heap) (ops : List Op) (hi : Inv h) : Inv (run h ops) := by
  exact ((WF.of_inv hi).of_run ops).inv

/-- Objects are never removed and never change class. -/
theorem step_objs_mono (h : Heap) (op : Op) (j : Nat) (o : Obj) (hj : h.objs[j]? = some o) :
    ∃ o', (step h op).objs[j]? = some o' ∧ o'.cls = o.cls := by
  exact (Frame.of_step h op).objsCls j o hj

/-- Mutation is local: an in-place mutation of object `t` changes no other object … -/
theorem mutate_frame_objs (h : Heap) (hi : Inv h) (t : Nat) (g : Bits → Bits) (j : Nat) (hj : j ≠ t) :
    value (step h (.mutate t g)) j = value h j := by
  by_cases hl : j < h.objs.length
  · exact step_value_frame (WF.of_inv hi) _ j hl (fun e => hj (Option.some.inj e).symm)
  · unfold value
    rw [step_mutate_objs, List.getElem?_eq_none (Nat.le_of_not_lt hl)]
    rfl

/-- … no external buffer … -/
theorem mutate_frame_exts (h : Heap) (hi : Inv h) (t : Nat) (g : Bits → Bits) (k : Nat) :
    extValue (step h (.mutate t g)) k = extValue h k := by
  have w := WF.of_inv hi
  have f := Frame.of_step h (.mutate t g)
  unfold extValue
  rw [step_mutate_exts]
  cases hk : h.exts[k]? with
  | none => rfl
  | some s =>
    simp only [Option.map_some]
    rw [f.bits s (w.extR s (List.mem_of_getElem? hk)) (w.writes_mutate_ne_ext t g s (List.mem_of_getElem? hk))]

/-- … and no cache entry. -/
theorem mutate_frame_cache (h : Heap) (hi : Inv h) (t : Nat) (g : Bits → Bits) (key : String) :
    cacheValue (step h (.mutate t g)) key = cacheValue h key := by
  exact cacheValue_of_cache_eq (WF.of_inv hi) _ (step_mutate_cache h t g) key

/-- Mutating an external buffer (the bytearray/bitarray an object was built from, or a bitarray obtained with
    `tobitarray`) changes no object and no cache entry. -/
theorem mutateExt_frame_objs (h : Heap) (hi : Inv h) (k : Nat) (g : Bits → Bits) (j : Nat) :
    value (step h (.mutateExt k g)) j = value h j := by
  by_cases hl : j < h.objs.length
  · exact step_value_frame (WF.of_inv hi) _ j hl (by simp [tgt])
  · unfold value
    rw [step_mutateExt_objs, List.getElem?_eq_none (Nat.le_of_not_lt hl)]
    rfl

theorem mutateExt_frame_cache (h : Heap) (hi : Inv h) (k : Nat) (g : Bits → Bits) (key : String) :
    cacheValue (step h (.mutateExt k g)) key = cacheValue h key := by
  exact cacheValue_of_cache_eq (WF.of_inv hi) _ (step_mutateExt_cache h k g) key

/-- No operation whatsoever changes the value of an existing object, except a mutation / re-binding /
    `bits` assignment aimed at that very object. -/
def targets : Op → Option Nat
  | .mutate t _ => some t
  | .rebind t _ => some t
  | .assignBits d _ => some d
  | _ => none

theorem step_frame (h : Heap) (hi : Inv h) (op : Op) (j : Nat) (hj : j < h.objs.length)
    (ht : targets op ≠ some j) : value (step h op) j = value h j := by
  have he : targets op = tgt op := by cases op <;> rfl
  exact step_value_frame (WF.of_inv hi) op j hj (by rwa [← he])

/-- The value of a Bits or ConstBitStream object never changes, whatever is done later. -/
theorem immutable_constant (h : Heap) (hi : Inv h) (ops : List Op) (j : Nat) (o : Obj)
    (hj : h.objs[j]? = some o) (hm : o.cls.isMutable = false) :
    value (run h ops) j = value h j := by
  induction ops generalizing h o with
  | nil => rfl
  | cons op ops ih =>
    have w := WF.of_inv hi
    obtain ⟨o', ho', hc'⟩ := (Frame.of_step h op).objsCls j o hj
    have h1 : value (step h op) j = value h j := by
      by_cases ht : tgt op = some j
      · rw [step_eq_self_of_immutable_target h op j o hj hm ht]
      · exact step_value_frame w op j (List.getElem?_eq_some_iff.1 hj).1 ht
    show value (run (step h op) ops) j = value h j
    rw [ih (step h op) (w.of_step op).inv o' ho' (by rw [hc']; exact hm), h1]

/-- A cached literal always parses to the bits it had when first parsed. -/
theorem cache_constant (h : Heap) (hi : Inv h) (ops : List Op) (key : String) (b : Bits)
    (hc : cacheValue h key = some b) : cacheValue (run h ops) key = some b := by
  induction ops generalizing h with
  | nil => exact hc
  | cons op ops ih =>
    have w := WF.of_inv hi
    exact ih (step h op) (w.of_step op).inv (step_cacheValue w op key b hc)

/-- Immutable classes expose no operation that alters their own content. -/
theorem immutable_no_self_mutation (h : Heap) (t : Nat) (o : Obj) (g : Bits → Bits)
    (ho : h.objs[t]? = some o) (hm : o.cls.isMutable = false) :
    step h (.mutate t g) = h ∧ step h (.rebind t g) = h ∧ ∀ s, step h (.assignBits t s) = h := by
  refine ⟨?_, ?_, ?_⟩
  · simp [step, ho, hm]
  · simp [step, ho, hm]
  · intro s
    simp only [step, ho]
    cases h.objs[s]? <;> simp [hm]

/-! ### non-vacuity: a reachable state with sharing among immutables, a cache entry and an external buffer -/
example :
    let h := run {} [.fromStr .bits "1010" [true, false, true, false], .fromObj .constBitStream 0,
                     .fromObj .bitArray 0, .toExt 2, .mutate 2 (fun b => b.map (!·)), .copyCopy 1]
    value h 0 = some [true, false, true, false] ∧ value h 2 = some [false, true, false, true] ∧
    extValue h 0 = some [true, false, true, false] ∧ (h.objs[0]?.map (·.sid)) = (h.objs[1]?.map (·.sid)) := by
  decide

end BM.C04
