/-
  Props/C05.lean — pack / unpack at the token-list level.
  All statements are ∀ keyword dictionaries, token lists, value lists; no size bound.
  (The bracket / string level is in Props/C05_Brackets.lean.)
-/
import BitstringModel.Model.C05
import BitstringModel.Proofs.C05
import BitstringModel.Proofs.C05_Unpack

namespace BM.C05
open BM

/-! ### ALG = SPEC for `pack` -/

/-- The code's token loop (value iterator, list `bsl`, surplus check, `+=` of every piece) computes the
    concatenation of the per-token encodings with the values consumed left to right. -/
theorem pack_alg_eq_spec (kw : Kw) (ts : List Tok) (vs : List Val) :
    packAlg kw ts vs = packT kw ts vs := by
  unfold packAlg
  refine (Eq.trans ?_ (packLoop_spec kw ts vs [])).trans ?_
  · cases packLoop kw ts vs [] <;> rfl
  · cases packT kw ts vs <;> simp [Except.map]

/-- `packT` is the concatenation of the per-token encodings `packParts`. -/
theorem packT_eq_parts (kw : Kw) (ts : List Tok) (vs : List Val) :
    packT kw ts vs = (packParts kw ts vs).map List.flatten := by
  exact packT_eq_parts' kw ts vs

/-! ### length = Σ token lengths; wrong size → error -/

/-- Clause "pack(fmt, *values) has length equal to the sum of the token lengths":
    one piece per token, the result is their concatenation, and every piece of a token that declares a length has
    exactly that length. -/
theorem pack_length (kw : Kw) (ts : List Tok) (vs : List Val) (b : Bits) (h : packT kw ts vs = .ok b) :
    ∃ ps : List Bits, packParts kw ts vs = .ok ps ∧ b = ps.flatten ∧ ps.length = ts.length ∧
      b.length = (ps.map List.length).sum ∧
      ∀ (i : Nat) (t : Tok) (p : Bits) (n : Int), ts[i]? = some t → ps[i]? = some p → declLen kw t = some n →
        (p.length : Int) = n := by
  exact pack_length' kw ts vs b h

/-- With only length-declaring tokens the total is the sum of the declared lengths. -/
theorem pack_length_fixed (kw : Kw) (ts : List Tok) (vs : List Val) (b : Bits) (h : packT kw ts vs = .ok b)
    (hfix : ∀ t ∈ ts, (declLen kw t).isSome) :
    (b.length : Int) = (ts.map fun t => (declLen kw t).getD 0).sum := by
  exact pack_length_fixed' kw ts vs b h hfix

/-- Clause "wrongly sized values raise": a token that declares a length never yields another number of bits —
    whatever the value, the result is that many bits or an error. -/
theorem tokBits_declared_length (kw : Kw) (t : Tok) (v : Option Val) (b : Bits) (n : Int)
    (h : tokBits kw t v = .ok b) (hn : declLen kw t = some n) : (b.length : Int) = n := by
  exact tokBits_declared_length' kw t v b n h hn

/-- … and the error is a `ValueError` (`CreationError`): integers out of range, -/
theorem uint_out_of_range (kw : Kw) (n : Nat) (i : Int) (h : i < 0 ∨ (2 : Int) ^ n ≤ i) :
    tokBits kw ⟨"uint".toList, some (.int n), none⟩ (some (.int i)) = .error .value := by
  exact uint_out_of_range' kw n i h

theorem int_out_of_range (kw : Kw) (n : Nat) (i : Int) (h : i < -((2 : Int) ^ (n - 1)) ∨ (2 : Int) ^ (n - 1) ≤ i) :
    tokBits kw ⟨"int".toList, some (.int n), none⟩ (some (.int i)) = .error .value := by
  exact int_out_of_range' kw n i h

/-- … bitstring values of another length, -/
theorem bits_wrong_size (kw : Kw) (n : Nat) (x : Bits) (h : x.length ≠ n) :
    tokBits kw ⟨"bits".toList, some (.int n), none⟩ (some (.bits x)) = .error .value := by
  exact bits_wrong_size' kw n x h

/-- … byte strings of another length, -/
theorem bytes_wrong_size (kw : Kw) (n : Nat) (x : Bits) (h : x.length ≠ 8 * n) :
    tokBits kw ⟨"bytes".toList, some (.int n), none⟩ (some (.bytes x)) = .error .value := by
  exact bytes_wrong_size' kw n x h

/-- … hex strings with another number of digits. -/
theorem hex_wrong_size (kw : Kw) (n : Nat) (s : Str) (hs : s.all isLowerHex = true) (h : 4 * s.length ≠ n) :
    tokBits kw ⟨"hex".toList, some (.int n), none⟩ (some (.str s)) = .error .value := by
  exact hex_wrong_size' kw n s hs h

/-! ### arity -/

/-- Success implies that exactly `arity` values were supplied. -/
theorem pack_ok_arity (kw : Kw) (ts : List Tok) (vs : List Val) (b : Bits) (h : packT kw ts vs = .ok b) :
    vs.length = arity kw ts := by
  exact pack_ok_arity' kw ts vs b h

/-- Clause "too few values raise CreationError": any proper prefix of an accepted value list is rejected with ValueError. -/
theorem pack_too_few (kw : Kw) (ts : List Tok) (vs : List Val) (b : Bits) (h : packT kw ts vs = .ok b)
    (k : Nat) (hk : k < vs.length) : packT kw ts (vs.take k) = .error .value := by
  exact pack_too_few' kw ts vs b h k hk

/-- Clause "too many values raise CreationError". -/
theorem pack_too_many (kw : Kw) (ts : List Tok) (vs : List Val) (b : Bits) (h : packT kw ts vs = .ok b)
    (w : Val) (ws : List Val) : packT kw ts (vs ++ w :: ws) = .error .value := by
  exact pack_too_many' kw ts vs b h w ws

/-! ### compositionality -/

/-- "the bits for 'f1, f2' are the bits for f1 followed by those for f2" — as an equation between results
    (errors included), when `v1` are the values `f1` consumes. -/
theorem pack_append (kw : Kw) (f1 f2 : List Tok) (v1 v2 : List Val) (h : v1.length = arity kw f1) :
    packT kw (f1 ++ f2) (v1 ++ v2) =
      (packT kw f1 v1).bind fun b1 => (packT kw f2 v2).map fun b2 => b1 ++ b2 := by
  exact pack_append' kw f1 f2 v1 v2 h

theorem pack_append_ok (kw : Kw) (f1 f2 : List Tok) (v1 v2 : List Val) (b1 b2 : Bits)
    (h1 : packT kw f1 v1 = .ok b1) (h2 : packT kw f2 v2 = .ok b2) :
    packT kw (f1 ++ f2) (v1 ++ v2) = .ok (b1 ++ b2) := by
  exact pack_append_ok' kw f1 f2 v1 v2 b1 b2 h1 h2

/-- every way of splitting an accepted format into two formats splits the bits accordingly. -/
theorem pack_split (kw : Kw) (f1 f2 : List Tok) (vs : List Val) (b : Bits)
    (h : packT kw (f1 ++ f2) vs = .ok b) :
    ∃ b1 b2, packT kw f1 (vs.take (arity kw f1)) = .ok b1 ∧ packT kw f2 (vs.drop (arity kw f1)) = .ok b2 ∧ b = b1 ++ b2 := by
  exact pack_split' kw f1 f2 vs b h

/-- "'n*(f)' equals f written n times": the flattening of a repetition is the n-fold concatenation … -/
theorem rep_unfold (n : Nat) (f : Fmt) : (Fmt.rep n f).flatten = (List.replicate n f.flatten).flatten := by
  rfl

/-- … and it packs to n copies of the bits when the values are repeated as well. -/
theorem pack_rep (kw : Kw) (ts : List Tok) (vs : List Val) (b : Bits) (h : packT kw ts vs = .ok b) (n : Nat) :
    packT kw (List.replicate n ts).flatten (List.replicate n vs).flatten = .ok (List.replicate n b).flatten := by
  exact pack_rep' kw ts vs b h n

/-- more generally each copy may get its own values -/
theorem pack_rep_values (kw : Kw) (ts : List Tok) (vss : List (List Val)) (bs : List Bits)
    (h : List.Forall₂ (fun vs b => packT kw ts vs = .ok b) vss bs) :
    packT kw (List.replicate vss.length ts).flatten vss.flatten = .ok bs.flatten := by
  exact pack_rep_values' kw ts vss bs h

/-! ### embedded values -/

/-- "A token string with embedded =value parts builds the same bits as pack with the values passed separately":
    `name:len=value` is `name:len` with the text `value` as the next positional value. -/
theorem embedded_eq_separate (kw : Kw) (name : Str) (len : Option LenV) (s : Str) (ts : List Tok) (vs : List Val)
    (hpad : name ≠ "pad".toList) (hkey : kw.get? s = none) (hdict : ¬ (kw.has name = true ∧ len = none)) :
    packT kw (⟨name, len, some s⟩ :: ts) vs = packT kw (⟨name, len, none⟩ :: ts) (.str s :: vs) := by
  exact value_eq_separate kw name len s (.str s) ts vs hpad (by simp [resolveVal, hkey]) hdict

/-- a keyword value `name:len=key` is the keyword's value passed positionally -/
theorem keyword_eq_separate (kw : Kw) (name : Str) (len : Option LenV) (s : Str) (x : Val) (ts : List Tok) (vs : List Val)
    (hpad : name ≠ "pad".toList) (hkey : kw.get? s = some x) (hdict : ¬ (kw.has name = true ∧ len = none)) :
    packT kw (⟨name, len, some s⟩ :: ts) vs = packT kw (⟨name, len, none⟩ :: ts) (x :: vs) := by
  exact value_eq_separate kw name len s x ts vs hpad (by simp [resolveVal, hkey]) hdict

/-- for the integer kinds the text of a number and the number build the same bits (`int('…')`) -/
theorem int_text_eq_int (s : Str) (i : Int) (h : pyInt? s = some i) : valToInt (.str s) = valToInt (.int i) := by
  exact int_text_eq_int' s i h

/-! ### unpack ∘ pack = id -/

/-- "unpack(fmt) on the result returns the values": for a token list of plain `name[:len]` tokens that is well formed
    (`pass1` succeeds: at most one length-less token and no self-delimiting token after it) and canonical values,
    the two-pass `_read_dtype_list` run on the packed bits returns exactly the values (pads contribute none)
    and stops at the end of the bits. -/
theorem unpack_pack (kw : Kw) (ts : List Tok) (vs : List Val) (b : Bits) (ds : List DT) (st : Bool) (after : Int)
    (hplain : ∀ t ∈ ts, t.plain kw = true)
    (hd : tokDtypes kw ts = .ok ds)
    (hwf : pass1 ds false 0 = .ok (st, after))
    (hc : conform kw ts vs = true)
    (hp : packT kw ts vs = .ok b) :
    readDtypeList b ds 0 = .ok (vs, b.length) := by
  exact unpack_pack' kw ts vs b ds st after hplain hd hwf hc hp

/-- the first pass computes what the statement calls "the bits after the length-less token" -/
theorem pass1_no_stretchy (ds : List DT) (h : ∀ d ∈ ds, d.stretchy = false) :
    pass1 ds false 0 = .ok (false, 0) := by
  exact pass1_nohas ds 0 h

/-- two length-less tokens, or a self-delimiting token after one, are rejected (`bitstring.Error`) -/
theorem pass1_two_stretchy (l1 l2 l3 : List DT) (d1 d2 : DT) (h1 : d1.stretchy = true) (h2 : d2.stretchy = true)
    (hl1 : ∀ d ∈ l1, d.stretchy = false) (hl2 : ∀ d ∈ l2, d.stretchy = false ∧ d.kind.variable = false) :
    pass1 (l1 ++ d1 :: l2 ++ d2 :: l3) false 0 = .error .bitstring := by
  exact pass1_two_stretchy' l1 l2 l3 d1 d2 h1 h2 hl1 hl2

/-! ### non-vacuity -/

example : packT [] [⟨"uint".toList, some (.int 12), none⟩, ⟨"bits".toList, none, none⟩]
    [.int 100, .bits [true, false]] = .ok (natToBits 12 100 ++ [true, false]) := by decide

/-- the hypotheses of `unpack_pack` hold for `'bool, hex, pad:2, int:3'` with `(True, 'a5', -2)` -/
example :
    let kw : Kw := []
    let ts : List Tok := [⟨"bool".toList, none, none⟩, ⟨"hex".toList, none, none⟩, ⟨"pad".toList, some (.int 2), none⟩, ⟨"int".toList, some (.int 3), none⟩]
    let vs : List Val := [.bool true, .str "a5".toList, .int (-2)]
    let ds : List DT := [⟨.bool, some 1⟩, ⟨.hex, none⟩, ⟨.pad, some 2⟩, ⟨.int, some 3⟩]
    let b : Bits := [true, true, false, true, false, false, true, false, true, false, false, true, true, false]
    (∀ t ∈ ts, t.plain kw = true) ∧ conform kw ts vs = true ∧ tokDtypes kw ts = .ok ds ∧
    pass1 ds false 0 = .ok (true, 5) ∧ packT kw ts vs = .ok b := by
  decide

example : tokBits [] ⟨"uint".toList, some (.int 8), none⟩ (some (.int 256)) = .error .value := by decide
example : declLen [] ⟨"bytes".toList, some (.int 2), none⟩ = some 16 := by decide

end BM.C05
