/-
  Props/C18.lean — struct-code formats match `struct`; little/big/native-endian readings relate by byte reversal.

  Part 1 (this file): obligations over the GENERATED struct tables (re-extracted from the working tree on every run),
  the integer / float readings and encodings against `int.from_bytes` / `int.to_bytes` (base-256 digits).
  `pack` / `unpack` themselves: Props/C18_Pack.lean.  `byteswap`: Props/C18_Byteswap.lean.  `Array`, `array.array`
  and the two known deviations: Props/C18_Array.lean.
-/
import BitstringModel.Model.C18
import BitstringModel.Proofs.C18

namespace BM.C18
open BM

/-! ### Obligations over the generated tables ("for every struct-style code … and endianness prefix") -/

/-- The characters the code's three regular expressions accept are exactly the thirteen codes and four prefixes
    of the property (`SINGLE_STRUCT_PACK_RE`, `STRUCT_PACK_RE`, `BYTESWAP_STRUCT_PACK_RE`, evaluated on every
    printable ASCII character by the extractor). -/
theorem alphabets_match :
    (∀ c ∈ Gen.Struct.codeAlphabet, c ∈ specCodes) ∧ (∀ c ∈ specCodes, c ∈ Gen.Struct.codeAlphabet) ∧
    (∀ c ∈ Gen.Struct.packCodeAlphabet, c ∈ specCodes) ∧ (∀ c ∈ specCodes, c ∈ Gen.Struct.packCodeAlphabet) ∧
    (∀ c ∈ Gen.Struct.swapCodeAlphabet, c ∈ specCodes) ∧ (∀ c ∈ specCodes, c ∈ Gen.Struct.swapCodeAlphabet) ∧
    (∀ c ∈ Gen.Struct.endianAlphabet, c ∈ specEndians) ∧ (∀ c ∈ specEndians, c ∈ Gen.Struct.endianAlphabet) ∧
    (∀ c ∈ Gen.Struct.packEndianAlphabet, c ∈ specEndians) ∧ (∀ c ∈ specEndians, c ∈ Gen.Struct.packEndianAlphabet) ∧
    (∀ c ∈ Gen.Struct.swapEndianAlphabet, c ∈ specEndians) ∧ (∀ c ∈ specEndians, c ∈ Gen.Struct.swapEndianAlphabet) := by
  decide

/-- `REPLACEMENTS_BE/LE/NE`: for every prefix and every code, the dtype the code's table names means — by
    bitstring's own documentation of `int`, `uintbe`, `floatle`, … and the alias the `…ne` names resolve to —
    exactly what the `struct` documentation says the code means (kind by letter case, standard size, byte order by
    prefix with `=`/`@` = `sys.byteorder`). -/
theorem struct_codes_match :
    ∀ e ∈ specEndians, ∀ c ∈ specCodes, specEquiv (tableSpec e c) (structSpec e c) = true := by
  decide

/-- The three tables have no entries beyond the thirteen codes. -/
theorem struct_tables_keys :
    (∀ t ∈ Gen.Struct.replacementsBE, t.1 ∈ specCodes) ∧ (∀ t ∈ Gen.Struct.replacementsLE, t.1 ∈ specCodes) ∧
    (∀ t ∈ Gen.Struct.replacementsNE, t.1 ∈ specCodes) ∧ (∀ t ∈ Gen.Struct.packCodeSize, t.1 ∈ specCodes) := by
  decide

/-- `PACK_CODE_SIZE` (the byte sizes `byteswap` uses for a format string) is the standard size of every code, and
    agrees with the bit length of the dtype `pack` uses for that code under every prefix. -/
theorem pack_code_size_match :
    (∀ c ∈ specCodes, packCodeSize c = (structKindSize c).map (·.2)) ∧
    (∀ e ∈ specEndians, ∀ c ∈ specCodes,
      ((replacements e).lookup c).map (·.2) = (packCodeSize c).map (8 * ·)) := by
  decide

/-- The graph of the real `parse_single_struct_token` on all 4 × 13 arguments (evaluated by the extractor) is the
    table pick transcribed in `singleStructToken` / `structparser` (`'@='` native, `'<'` little, `'>'` big). -/
theorem single_token_graph_match :
    ∀ e ∈ specEndians, ∀ c ∈ specCodes,
      (Gen.Struct.singleToken.find? (fun t => t.1 = e ∧ t.2.1 = c)).map (·.2.2) = (replacements e).lookup c ∧
      singleStructToken e c = ((replacements e).lookup c).map .ok := by
  decide

/-- "the native-endian one equals whichever sys.byteorder says": `bitstring.byteorder` is `sys.byteorder`, and the
    definitions registered for `uintne`, `intne`, `floatne` are the little-endian ones exactly when it is `little`
    (`floatbe` is `float`). -/
theorem ne_eq_sysorder :
    Gen.Struct.byteorder = Gen.Struct.sysByteorder ∧
    resolve "uintne" = some (if nativeOrder = .little then .uintle else .uintbe) ∧
    resolve "intne" = some (if nativeOrder = .little then .intle else .intbe) ∧
    resolve "floatne" = some (if nativeOrder = .little then .floatle else .float) ∧
    resolve "floatbe" = some .float ∧
    (∀ d : DefName, resolve d.toStr = some d) := by
  refine ⟨by decide, by decide, by decide, by decide, by decide, ?_⟩
  intro d; cases d <;> decide

/-! ### The readings: little / big endian = `int.from_bytes`, and they relate by byte reversal -/

/-- `tobytes` / `frombytes` are inverse on whole-byte bit strings, and `bytesRev` reverses the byte list. -/
theorem bitsOfBytes_toBytes (b : Bits) (h8 : b.length % 8 = 0) : bitsOfBytes (toBytes b) = b := by
  exact bitsOfBytes_toBytes' b h8

theorem toBytes_bitsOfBytes (d : List Nat) (hd : ∀ x ∈ d, x < 256) : toBytes (bitsOfBytes d) = d := by
  exact toBytes_bitsOfBytes' d hd

theorem toBytes_bytesRev (b : Bits) (h8 : b.length % 8 = 0) : toBytes (bytesRev b) = (toBytes b).reverse := by
  exact toBytes_bytesRev' b h8

/-- Byte reversal is an involution on whole-byte bit strings and keeps the length. -/
theorem bytesRev_bytesRev (b : Bits) (h8 : b.length % 8 = 0) : bytesRev (bytesRev b) = b := by
  exact bytesRev_bytesRev' b h8

theorem bytesRev_length (b : Bits) (h8 : b.length % 8 = 0) : (bytesRev b).length = b.length := by
  exact bytesRev_length' b h8

/-- The big-endian unsigned reading of a whole-byte, non-empty bit string is `int.from_bytes(bytes, 'big')`. -/
theorem getuintbe_eq_from_bytes (b : Bits) (h8 : b.length % 8 = 0) (hne : b ≠ []) :
    getuintbe b = .ok (beValue (toBytes b)) := by
  exact getuintbe_eq_from_bytes' b h8 hne

/-- The little-endian unsigned reading is `int.from_bytes(bytes, 'little')`. -/
theorem getuintle_eq_from_bytes (b : Bits) (h8 : b.length % 8 = 0) (hne : b ≠ []) :
    getuintle b = .ok (leValue (toBytes b)) := by
  exact getuintle_eq_from_bytes' b h8 hne

/-- Signed readings: `int.from_bytes(bytes, order, signed=True)`. -/
theorem getintbe_eq_from_bytes (b : Bits) (h8 : b.length % 8 = 0) (hne : b ≠ []) :
    getintbe b = .ok (Struct.unpackInt .big true (toBytes b)) := by
  exact getintbe_eq_from_bytes' b h8 hne

theorem getintle_eq_from_bytes (b : Bits) (h8 : b.length % 8 = 0) (hne : b ≠ []) :
    getintle b = .ok (Struct.unpackInt .little true (toBytes b)) := by
  exact getintle_eq_from_bytes' b h8 hne

/-- "For any whole-byte bitstring the little-endian interpretation equals the big-endian interpretation of the
    byte-reversed bits" — unsigned, signed and float, including the cases where both raise (empty). -/
theorem le_eq_be_bytesRev (b : Bits) (h8 : b.length % 8 = 0) :
    getuintle b = getuintbe (bytesRev b) ∧ getintle b = getintbe (bytesRev b) ∧
    getfloat false b = getfloat true (bytesRev b) := by
  exact le_eq_be_bytesRev' b h8

/-- … and conversely the big-endian interpretation is the little-endian one of the reversed bits. -/
theorem be_eq_le_bytesRev (b : Bits) (h8 : b.length % 8 = 0) :
    getuintbe b = getuintle (bytesRev b) ∧ getintbe b = getintle (bytesRev b) ∧
    getfloat true b = getfloat false (bytesRev b) := by
  exact be_eq_le_bytesRev' b h8

/-- The le / be readings raise exactly on bit strings that are empty or not whole-byte. -/
theorem le_be_error_iff (b : Bits) :
    ((getuintle b).toOption = none ↔ (b.length % 8 ≠ 0 ∨ b = [])) ∧
    ((getuintbe b).toOption = none ↔ (b.length % 8 ≠ 0 ∨ b = [])) ∧
    ((getintle b).toOption = none ↔ (b.length % 8 ≠ 0 ∨ b = [])) ∧
    ((getintbe b).toOption = none ↔ (b.length % 8 ≠ 0 ∨ b = [])) := by
  exact le_be_error_iff' b

/-- The native-endian readings are the readings of the byte order `sys.byteorder` names. -/
theorem ne_reading (b : Bits) :
    getNe false b = getFn (if nativeOrder = .little then .uintle else .uintbe) b ∧
    getNe true b = getFn (if nativeOrder = .little then .intle else .intbe) b := by
  exact ne_reading' b

/-! ### The encodings: `int2bitstore` / `intle2bitstore` = `int.to_bytes` -/

/-- `natToBits` on a whole number of bytes is the big-endian base-256 digit string. -/
theorem natToBits_eq_bytes (n v : Nat) : natToBits (8 * n) v = bitsOfBytes (leBytes n v).reverse := by
  exact natToBits_eq_bytes' n v

/-- Base-256 digits and `int.from_bytes` are inverse. -/
theorem leValue_leBytes (n v : Nat) : leValue (leBytes n v) = v % 256 ^ n := by
  exact leValue_leBytes' n v

theorem leBytes_leValue (d : List Nat) (hd : ∀ x ∈ d, x < 256) : leBytes d.length (leValue d) = d := by
  exact leBytes_leValue' d hd

/-- The big-endian encoders are `int.to_bytes(size, 'big', signed=…)`: same bytes, same range of accepted values. -/
theorem int2bitstore_eq_to_bytes (size : Nat) (hs : 0 < size) (signed : Bool) (v : Int) :
    int2bitstore v (8 * size) signed = (Struct.packInt size .big signed v).map bitsOfBytes := by
  exact int2bitstore_eq_to_bytes' size hs signed v

/-- The little-endian encoders are `int.to_bytes(size, 'little', signed=…)`. -/
theorem intle2bitstore_eq_to_bytes (size : Nat) (hs : 0 < size) (signed : Bool) (v : Int) :
    intle2bitstore v (8 * size) signed = (Struct.packInt size .little signed v).map bitsOfBytes := by
  exact intle2bitstore_eq_to_bytes' size hs signed v

/-- `int.to_bytes` and `int.from_bytes` are inverse on the accepted range (SPEC sanity, used by `unpack_inverts`). -/
theorem unpackInt_packInt (size : Nat) (hs : 0 < size) (o : Order) (signed : Bool) (v : Int) (d : List Nat)
    (h : Struct.packInt size o signed v = .ok d) : Struct.unpackInt o signed d = v ∧ d.length = size := by
  exact unpackInt_packInt' size hs o signed v d h

/-! ### non-vacuity -/

example : (getuintle (bitsOfBytes [1, 2])).toOption = some 513 ∧ (getuintbe (bitsOfBytes [1, 2])).toOption = some 258 := by
  decide +kernel
example : (getintle (bitsOfBytes [1, 0x80])).toOption = some (-32767) ∧ (getintbe (bitsOfBytes [1, 0x80])).toOption = some 384 := by
  decide +kernel
example : (int2bitstore (-2) 16 true).toOption = some (bitsOfBytes [0xff, 0xfe]) ∧
    (intle2bitstore (-2) 16 true).toOption = some (bitsOfBytes [0xfe, 0xff]) := by decide +kernel
example : (Struct.packInt 2 .little true (-2)).toOption = some [0xfe, 0xff] ∧ (Struct.packInt 1 .big false 256).toOption = none := by
  decide +kernel
example : bytesRev (bitsOfBytes [1, 2, 3]) = bitsOfBytes [3, 2, 1] := by decide +kernel

end BM.C18
