/-
  Props/C10_Interleaved.lean — interleaved exponential-Golomb codes `uie` / `sie` (Dirac).
-/
import BitstringModel.Model.C10
import BitstringModel.Proofs.C10I

namespace BM.C10
open BM

/-- Dirac table: for n ≥ 1, each of the ⌊log₂(n+1)⌋ low bits of n+1 is preceded by a 0 ("follow" bit),
    terminated by a 1; 0 is the single bit 1. -/
theorem uie_length (n : Nat) : (uieEncodeNat n).length = 2 * Nat.log2 (n + 1) + 1 := by
  exact uie_length' n

theorem readUIE_encode (pre post : Bits) (n : Nat) :
    readUIE (pre ++ uieEncodeNat n ++ post) pre.length
      = .ok (n, pre.length + (uieEncodeNat n).length) := by
  rw [readUIE_ok_iff]
  exact ⟨post, by rw [List.append_assoc, List.drop_left' rfl], rfl⟩

theorem readSIE_encode (pre post : Bits) (i : Int) :
    readSIE (pre ++ sieEncode i ++ post) pre.length
      = .ok (i, pre.length + (sieEncode i).length) := by
  rw [readSIE_ok_iff]
  exact ⟨post, by rw [List.append_assoc, List.drop_left' rfl], rfl⟩

theorem readUIE_ok_bounds (b : Bits) (p v p' : Nat) (h : readUIE b p = .ok (v, p')) :
    p < p' ∧ p' ≤ b.length := by
  obtain ⟨rest, h1, h2⟩ := (readUIE_ok_iff _ _ _ _).1 h
  have hl := congrArg List.length h1
  have hpos := uie_length_pos v
  simp only [List.length_drop, List.length_append] at hl
  omega

theorem readSIE_ok_bounds (b : Bits) (p : Nat) (v : Int) (p' : Nat) (h : readSIE b p = .ok (v, p')) :
    p < p' ∧ p' ≤ b.length := by
  obtain ⟨rest, h1, h2⟩ := (readSIE_ok_iff _ _ _ _).1 h
  have hl := congrArg List.length h1
  have hpos := sie_length_pos v
  simp only [List.length_drop, List.length_append] at hl
  omega

theorem readUIE_err (b : Bits) (p : Nat) (e : Err) (h : readUIE b p = .error e) : e = .read := by
  exact readUIE_error b p e h

theorem readSIE_err (b : Bits) (p : Nat) (e : Err) (h : readSIE b p = .error e) : e = .read := by
  exact readSIE_error b p e h

theorem truncated_uie (pre : Bits) (n q : Nat) (hq : q < (uieEncodeNat n).length) :
    readUIE (pre ++ (uieEncodeNat n).take q) pre.length = .error .read := by
  exact readUIE_trunc pre n q hq

theorem truncated_sie (pre : Bits) (i : Int) (q : Nat) (hq : q < (sieEncode i).length) :
    readSIE (pre ++ (sieEncode i).take q) pre.length = .error .read := by
  exact readSIE_trunc pre i q hq

theorem getUIE_exact (b : Bits) (n : Nat) : getUIE b = .ok n ↔ b = uieEncodeNat n := by
  exact getUIE_iff b n

theorem getSIE_exact (b : Bits) (i : Int) : getSIE b = .ok i ↔ b = sieEncode i := by
  exact getSIE_iff b i

theorem uie_negative (i : Int) (h : i < 0) : uieEncode i = .error .value := by
  simp [uieEncode, h]

theorem streamRead_readUIE (b : Bits) (pos : Nat) (h : pos ≤ b.length) :
    streamRead readUIE b pos = readUIE b pos := by
  have _ := h
  exact streamRead_readUIE' b pos

theorem streamRead_readSIE (b : Bits) (pos : Nat) (h : pos ≤ b.length) :
    streamRead readSIE b pos = readSIE b pos := by
  have _ := h
  exact streamRead_readSIE' b pos

theorem stream_roundtrip_uie (pre post : Bits) (ns : List Nat) :
    decodeAll readUIE ns.length (pre ++ ns.flatMap uieEncodeNat ++ post) pre.length
      = .ok (ns, pre.length + (ns.flatMap uieEncodeNat).length) := by
  induction ns generalizing pre with
  | nil => simp [decodeAll]
  | cons n ns ih =>
    simp only [List.length_cons, List.flatMap_cons, decodeAll]
    have h1 := readUIE_encode pre (ns.flatMap uieEncodeNat ++ post) n
    have h2 := ih (pre ++ uieEncodeNat n)
    simp only [List.length_append, List.append_assoc] at h1 h2 ⊢
    rw [h1]
    simp only
    rw [h2]
    simp only [Nat.add_assoc]

theorem stream_roundtrip_sie (pre post : Bits) (is : List Int) :
    decodeAll readSIE is.length (pre ++ is.flatMap sieEncode ++ post) pre.length
      = .ok (is, pre.length + (is.flatMap sieEncode).length) := by
  induction is generalizing pre with
  | nil => simp [decodeAll]
  | cons n ns ih =>
    simp only [List.length_cons, List.flatMap_cons, decodeAll]
    have h1 := readSIE_encode pre (ns.flatMap sieEncode ++ post) n
    have h2 := ih (pre ++ sieEncode n)
    simp only [List.length_append, List.append_assoc] at h1 h2 ⊢
    rw [h1]
    simp only
    rw [h2]
    simp only [Nat.add_assoc]

/-! ### non-vacuity -/
example : uieEncodeNat 4 = [false, false, false, true, true] := by decide
example : sieEncode (-1) = [false, false, true, true] := by decide
example : readSIE ([true] ++ sieEncode (-1) ++ [false]) 1 = .ok (-1, 5) := by decide

end BM.C10
