/-
  Props/C17.lean — property theorems for C17 (byte and file serialisation is lossless and zero-padded).
  Every theorem is ∀-quantified over contents, lengths, windows, chunk sizes; no bound.
-/
import BitstringModel.Model.C17
import BitstringModel.Proofs.C17

namespace BM.C17
open BM

/-! ### tobytes(): the bits, then the 0–7 zero bits needed to reach a byte boundary, and nothing else -/

/-- The padding is the unique number of bits in 0…7 that reaches a byte boundary. -/
theorem padLen_spec (n p : Nat) : (p < 8 ∧ (n + p) % 8 = 0) ↔ p = padLen n := by
  unfold padLen; omega

/-- `tobytes()` has ⌈n/8⌉ bytes … -/
theorem toBytes_length (l : Bits) : (toBytes l).length = (l.length + 7) / 8 := by
  exact toBytes_length' l

/-- … each of them a byte … -/
theorem toBytes_lt_256 (l : Bits) : ∀ b ∈ toBytes l, b < 256 := by
  exact toBytes_lt_256' l

/-- … and their bits are the input followed by `padLen` zero bits and nothing else. -/
theorem toBytes_prefix_and_zero_pad (l : Bits) :
    bytesToBits (toBytes l) = l ++ List.replicate (padLen l.length) false := by
  rw [bytesToBits_toBytes]; rfl

/-- ALG = SPEC: `bitarray.tobytes()` as modelled (byte at a time, last byte zero-filled) is `toBytes`. -/
theorem baToBytes_eq_toBytes (l : Bits) : baToBytes l = toBytes l := by
  exact baToBytes_eq l

/-- `BitStore.tobytes` is `toBytes` of the object's bits — also when `modified_length` limits a mapped buffer. -/
theorem store_tobytes (s : Store) : s.tobytes = toBytes s.bin := by
  exact tobytes_eq s

/-- `len(s)` is the number of bits `s.bin` shows. -/
theorem store_len (s : Store) (h : s.WF) : s.len = s.bin.length := by
  rw [wf_len s h, wf_bin s h]

/-- An in-memory object is its bits. -/
theorem mem_bin (l : Bits) : (Store.mem l).bin = l := by
  exact bin_of_none _ rfl

/-! ### the `bytes` property equals tobytes() for whole-byte lengths and refuses the others -/

theorem bytesProp_iff (s : Store) (h : s.WF) (bs : Bytes) :
    bytesProp s = .ok bs ↔ (s.bin.length % 8 = 0 ∧ bs = toBytes s.bin) := by
  unfold bytesProp
  rw [wf_len s h, ← wf_bin s h, tobytes_eq]
  by_cases h8 : s.bin.length % 8 = 0
  · simp [h8, eq_comm]
  · simp [h8]

theorem bytesProp_err_iff (s : Store) (h : s.WF) :
    (∃ e, bytesProp s = .error e) ↔ s.bin.length % 8 ≠ 0 := by
  unfold bytesProp
  rw [wf_len s h, ← wf_bin s h]
  by_cases h8 : s.bin.length % 8 = 0
  · simp [h8]
  · simp [h8]

/-! ### lossless: bytes → bits → bytes and bits → bytes → bits -/

/-- Any byte string survives `frombytes` then `tobytes`. -/
theorem toBytes_bytesToBits (bs : Bytes) (h : ∀ b ∈ bs, b < 256) : toBytes (bytesToBits bs) = bs := by
  rw [toBytes_of_dvd _ (by simp), chunks8_bytesToBits bs h]

/-- Reading `tobytes()` back with `length = len(l)` recovers `l` — through the `bytes=` keyword … -/
theorem fromBytes_toBytes (cls : Cls) (l : Bits) (off : Option Int) (hoff : off = none ∨ off = some 0) :
    (construct cls .bytes (toBytes l) (some (l.length : Int)) off).map Store.bin = .ok l := by
  have hv : validWindow (8 * (toBytes l).length) off (some (l.length : Int)) = true := by
    rcases hoff with rfl | rfl
    · exact valid_toBytes l
    · have := valid_toBytes l
      rw [validWindow_iff] at this ⊢
      simpa [offD, lenD] using this
  rw [construct_valid_bin cls .bytes _ off _ hv]
  rcases hoff with rfl | rfl
  · rw [readSpec_toBytes]
  · have := readSpec_toBytes l
    rw [readSpec_def] at this ⊢
    simpa [offD, lenD] using this

/-! ### reading back a window: exactly `drop offset` / `take length` of the source bits -/

/-- The selected window has the selected length. -/
theorem readSpec_length (data : Bytes) (off len : Option Int)
    (h : validWindow (8 * data.length) off len = true) :
    ((readSpec data off len).length : Int) = lenD (8 * data.length) off len := by
  rw [validWindow_iff] at h
  obtain ⟨h1, h2, h3⟩ := h
  rw [readSpec_def]
  simp only [List.length_take, List.length_drop, bytesToBits_length]
  omega

/-- `cls(bytes=data, offset=off, length=len)`. -/
theorem window_eq_drop_take_bytes (cls : Cls) (data : Bytes) (off len : Option Int)
    (h : validWindow (8 * data.length) off len = true) :
    (construct cls .bytes data len off).map Store.bin = .ok (readSpec data off len) := by
  exact construct_valid_bin cls .bytes data off len h

/-- `cls(io.BytesIO(data), offset=off, length=len)`: the `divmod(offset, 8)` / `bytelength` arithmetic selects
    a byte range that contains the window, and the final slice is the window. -/
theorem window_eq_drop_take_bytesio (cls : Cls) (data : Bytes) (off len : Option Int)
    (h : validWindow (8 * data.length) off len = true) :
    (construct cls .bytesio data len off).map Store.bin = .ok (readSpec data off len) := by
  exact construct_valid_bin cls .bytesio data off len h

/-- `cls(filename=…, offset=off, length=len)` / `cls(open(…,'rb'), …)`: both `_setfile` branches, every file
    size (the empty file included), and the copy a mutable class takes of the mapped store. -/
theorem window_eq_drop_take_file (cls : Cls) (data : Bytes) (off len : Option Int)
    (h : validWindow (8 * data.length) off len = true) :
    (construct cls .file data len off).map Store.bin = .ok (readSpec data off len) := by
  exact construct_valid_bin cls .file data off len h

/-- Whatever source it was read from (valid window or not), an object is well formed, so the serialisation
    theorems apply to it. -/
theorem construct_wf (cls : Cls) (k : Src) (data : Bytes) (off len : Option Int) (s : Store)
    (h : construct cls k data len off = .ok s) : s.WF := by
  exact construct_wf' cls k data off len s h

/-! ### tofile writes exactly tobytes(), for every length and every whole-byte chunk size -/

/-- Every chunk but the last is whole bytes, so the per-chunk padding never lands inside the data.
    (The loop walks `_absolute_slice`, i.e. msb0 positions, so `options.lsb0` plays no part. Before 14ceb68 it
    iterated `cut()`, whose chunks follow lsb0 numbering: a 17-bit `ff 00 8` with an 8-bit chunk was written as
    `01 fe 80` — finding `tofile-lsb0-chunks`, fixed.) -/
theorem tofile_eq_toBytes (chunk : Nat) (s : Store) (hwf : s.WF) (h8 : 8 ∣ chunk) (hpos : 0 < chunk) :
    tofile chunk s = .ok (toBytes s.bin) := by
  exact tofile_eq chunk s hwf (by omega) hpos

/-- GENERATED obligation: the chunk size in the working tree (re-extracted on every run) is a positive
    multiple of 8. -/
theorem tofile_chunk_whole_bytes : 8 ∣ Gen.tofileChunk ∧ 0 < Gen.tofileChunk := by
  decide

/-- Hence `tofile` as shipped writes `tobytes()`, for every length — below, at and above the chunk size. -/
theorem tofileDefault_eq_toBytes (s : Store) (hwf : s.WF) : tofileDefault s = .ok (toBytes s.bin) :=
  tofile_eq_toBytes _ s hwf tofile_chunk_whole_bytes.1 tofile_chunk_whole_bytes.2

/-- A chunk size of zero is refused (`range()` with a zero step), nothing is written. -/
theorem tofile_zero_chunk (s : Store) : tofile 0 s = .error .value := by
  simp [tofile]

/-- The whole-byte hypothesis is needed: with a chunk that is not a multiple of 8 the padding of an inner chunk
    lands inside the data (this is what a non-multiple chunk constant in the source would do). -/
theorem tofile_non_byte_chunk_witness :
    tofile 4 (Store.mem (List.replicate 8 true)) = .ok [240, 240] ∧ toBytes (List.replicate 8 true) = [255] := by
  decide

/-- Write with `tofile`, read back `length = len(l)` from any kind of source (bytes, BytesIO, file — the
    empty file included), into any class: the original bits. -/
theorem roundtrip (cls : Cls) (k : Src) (chunk : Nat) (l : Bits) (h8 : 8 ∣ chunk) (hpos : 0 < chunk) :
    (tofile chunk (Store.mem l) >>= fun w =>
      (construct cls k w (some (l.length : Int)) none).map Store.bin) = .ok l := by
  exact roundtrip_eq cls k chunk l (by omega) hpos

/-- End to end: an object read from any source through a valid window serialises — `tobytes()`, the `bytes`
    property when it applies, `tofile` with any whole-byte chunk — to `toBytes` of exactly that window. -/
theorem window_then_serialise (cls : Cls) (k : Src) (data : Bytes) (off len : Option Int) (chunk : Nat)
    (h : validWindow (8 * data.length) off len = true) (h8 : 8 ∣ chunk) (hpos : 0 < chunk) :
    ∃ s, construct cls k data len off = .ok s ∧ s.bin = readSpec data off len ∧
      s.tobytes = toBytes (readSpec data off len) ∧
      tofile chunk s = .ok (toBytes (readSpec data off len)) ∧
      ((readSpec data off len).length % 8 = 0 → bytesProp s = .ok (toBytes (readSpec data off len))) := by
  obtain ⟨s, hs, hwf, hb⟩ := construct_valid cls k data off len h
  refine ⟨s, hs, hb, ?_, ?_, ?_⟩
  · rw [tobytes_eq, hb]
  · rw [tofile_eq chunk s hwf (by omega) hpos, hb]
  · intro h0
    rw [bytesProp_iff s hwf]
    rw [hb]
    exact ⟨h0, rfl⟩

/-! ### Array: tobytes / tofile serialise the data (items and trailing bits); fromfile appends whole items -/

theorem arrayTobytes_eq (data : Bits) : arrayTobytes data = toBytes data := by
  exact arrayTobytes_eq' data

/-- `Array.tofile` is `data.tofile`. -/
theorem arrayTofile_eq (chunk : Nat) (data : Bits) (h8 : 8 ∣ chunk) (hpos : 0 < chunk) :
    arrayTofile chunk data = .ok (toBytes data) := by
  exact arrayTofile_eq' chunk data (by omega) hpos

/-- `fromfile(f)` appends every whole item of the file, `fromfile(f, n)` the first `n` — nothing else
    (msb0; an open file goes through `_setfile`, a BytesIO through `frombytes`). -/
theorem arrayFromfile_spec (data : Bits) (isz : Nat) (file : Bytes) (fk : FKind) (n : Option Int)
    (hisz : 0 < isz) (htr : data.length % isz = 0)
    (hn : ∀ k, n = some k → 0 ≤ k ∧ k ≤ ((8 * file.length / isz : Nat) : Int)) :
    arrayFromfile data isz file fk n =
      .ok (false, data ++ (bytesToBits file).take ((match n with
                                              | none => 8 * file.length / isz
                                              | some k => k.toNat) * isz)) := by
  exact arrayFromfile_eq data isz file fk n hisz htr hn

/-- Trailing bits make `fromfile` refuse. -/
theorem arrayFromfile_trailing (data : Bits) (isz : Nat) (file : Bytes) (fk : FKind) (n : Option Int)
    (hisz : 0 < isz) (htr : data.length % isz ≠ 0) :
    arrayFromfile data isz file fk n = .error .value := by
  exact arrayFromfile_trailing' data isz file fk n hisz htr

/-- Asking for more items than the file holds: EOFError is raised, and what the Array holds afterwards is its
    old data followed by every WHOLE item of the file and nothing else — in particular not the left-over partial
    item when the file size is not a multiple of the item size (so the Array has no trailing bits and can still
    be appended to). -/
theorem arrayFromfile_short (data : Bits) (isz : Nat) (file : Bytes) (fk : FKind) (k : Int)
    (hisz : 0 < isz) (htr : data.length % isz = 0) (hk : ((8 * file.length / isz : Nat) : Int) < k) :
    arrayFromfile data isz file fk (some k) =
      .ok (true, data ++ (bytesToBits file).take (8 * file.length / isz * isz)) := by
  exact arrayFromfile_short' data isz file fk k hisz htr hk

/-- Whenever `fromfile` gets as far as appending (with or without EOFError), the Array is left with whole
    items only. -/
theorem arrayFromfile_whole_items (data : Bits) (isz : Nat) (file : Bytes) (fk : FKind) (n : Option Int)
    (hisz : 0 < isz) (hn : ∀ k, n = some k → 0 ≤ k) (eof : Bool) (d : Bits)
    (h : arrayFromfile data isz file fk n = .ok (eof, d)) : d.length % isz = 0 := by
  by_cases htr : data.length % isz = 0
  · have hq : 8 * file.length / isz * isz ≤ 8 * file.length := Nat.div_mul_le_self _ _
    cases n with
    | none =>
      rw [arrayFromfile_eq data isz file fk none hisz htr (by intro k hk; cases hk)] at h
      injection h with h; injection h with _ h; subst h
      simp only [List.length_append, List.length_take, bytesToBits_length]
      rw [Nat.min_eq_left hq, Nat.add_mod, htr, Nat.mul_mod_left]; simp
    | some k =>
      have hk0 := hn k rfl
      by_cases hk : ((8 * file.length / isz : Nat) : Int) < k
      · rw [arrayFromfile_short' data isz file fk k hisz htr hk] at h
        injection h with h; injection h with _ h; subst h
        simp only [List.length_append, List.length_take, bytesToBits_length]
        rw [Nat.min_eq_left hq, Nat.add_mod, htr, Nat.mul_mod_left]; simp
      · rw [arrayFromfile_eq data isz file fk (some k) hisz htr
          (by intro k' hk'; cases hk'; exact ⟨hk0, by omega⟩)] at h
        injection h with h; injection h with _ h; subst h
        have hle : k.toNat * isz ≤ 8 * file.length := by
          have : k.toNat ≤ 8 * file.length / isz := by omega
          exact Nat.le_trans (Nat.mul_le_mul_right _ this) hq
        simp only [List.length_append, List.length_take, bytesToBits_length]
        rw [Nat.min_eq_left hle, Nat.add_mod, htr, Nat.mul_mod_left]; simp
  · rw [arrayFromfile_trailing' data isz file fk n hisz htr] at h
    cases h

/-- Array round trip: what `tofile` wrote reads back as the whole items of the zero-padded data. -/
theorem array_roundtrip (data : Bits) (isz chunk : Nat) (fk : FKind) (h8 : 8 ∣ chunk) (hpos : 0 < chunk)
    (hisz : 0 < isz) :
    (arrayTofile chunk data >>= fun w => arrayFromfile [] isz w fk none) =
      .ok (false, (padded data).take ((padded data).length / isz * isz)) := by
  exact array_roundtrip_eq data isz chunk fk (by omega) hpos hisz

/-- … which is the data itself when it is whole bytes and whole items. -/
theorem array_roundtrip_exact (data : Bits) (isz chunk : Nat) (fk : FKind) (h8 : 8 ∣ chunk) (hpos : 0 < chunk)
    (hisz : 0 < isz) (hb : data.length % 8 = 0) (hi : data.length % isz = 0) :
    (arrayTofile chunk data >>= fun w => arrayFromfile [] isz w fk none) = .ok (false, data) := by
  rw [array_roundtrip_eq data isz chunk fk (by omega) hpos hisz, padded_of_dvd data hb]
  have : data.length / isz * isz = data.length := by
    have := Nat.div_add_mod data.length isz
    rw [hi, Nat.add_zero, Nat.mul_comm] at this
    exact this
  rw [this, List.take_length]

/-! ### non-vacuity: the hypotheses are met by concrete non-trivial values -/

example : toBytes [true, false, true, true, false, false, true, true, true] = [179, 128] := by decide
example : validWindow (8 * ([165, 60, 255] : Bytes).length) (some 3) (some 13) = true := by decide
example : (construct .bitArray .file [165, 60, 255] (some 13) (some 3)).map Store.bin
    = .ok [false, false, true, false, true, false, false, true, true, true, true, false, false] := by decide
example : (construct .bits .bytesio [165, 60, 255] none (some 9)).map Store.bin
    = .ok (readSpec [165, 60, 255] (some 9) none) := by decide
example : tofile 8 (Store.mem [true, false, true, true, false, false, true, true, true]) = .ok [179, 128] := by decide
example : (construct .bits .file [] none none).map Store.bin = .ok [] := by decide
example : (8 ∣ 16) ∧ 0 < 16 ∧ (Store.mem [true]).WF := by
  refine ⟨by decide, by decide, ?_⟩
  intro n h; cases h
example : arrayFromfile [true, false, true] 3 [165, 60] .handle (some 2)
    = .ok (false, [true, false, true, true, false, true, false, false, true]) := by decide
example : arrayFromfile [] 12 [165, 60, 255] .bytesio (some 5)
    = .ok (true, [true, false, true, false, false, true, false, true, false, false, true, true,
                  true, true, false, false, true, true, true, true, true, true, true, true]) := by decide

end BM.C17
