/-
  Props/C12_Search.lean — LSB0 mirror law for find / rfind / findall, including the reverse chunk scan.

  `_find_lsb0` is written with `_rfind_msb0`, `_rfind_lsb0` with `_find_msb0`, and `_findall_lsb0` scans the
  msb0 window in chunks from the right.  The chunk increment (`max(8192, 80·len(bs))` in the code) is a
  PARAMETER of the model: the theorems hold for every value, so the 8192 boundary is covered by proof.
-/
import BitstringModel.Model.C12
import BitstringModel.Proofs.C12Search

namespace BM.C12
open BM

/-! ### the search primitive (`bitarray.search`) -/

/-- `search` returns exactly the positions `a ≤ p`, `p + |t| ≤ b` at which `t` occurs … -/
theorem mem_search_iff (l t : Bits) (a b p : Nat) (ht : t ≠ []) :
    p ∈ search l t a b ↔ a ≤ p ∧ p + t.length ≤ b ∧ matchAt l t p = true :=
  mem_search_iff_s l t a b p ht

/-- … in strictly increasing order. -/
theorem search_sorted (l t : Bits) (a b : Nat) : (search l t a b).Pairwise (· < ·) :=
  search_sorted_s l t a b

/-- An occurrence of `t` at `p` in `l` is an occurrence of `reverse t` at `n - p - |t|` in `reverse l`. -/
theorem matchAt_reverse (l t : Bits) (p : Nat) (h : p + t.length ≤ l.length) :
    matchAt l.reverse t.reverse (l.length - p - t.length) = matchAt l t p :=
  matchAt_reverse_s l t p h

/-- The whole result list of a search in the reversed bits, in terms of a search in the stored bits. -/
theorem search_reverse (l t : Bits) (a b : Nat) (hab : a ≤ b) (hb : b ≤ l.length) (ht : t ≠ []) :
    search l.reverse t.reverse a b
      = ((search l t (l.length - b) (l.length - a)).map fun p => l.length - p - t.length).reverse :=
  search_reverse_s l t a b hab hb ht

/-! ### find / rfind -/

/-- `find` under lsb0 = `find` of the reversed pattern in the reversed bits: same start/end, same result position,
    same errors, with and without `bytealigned` (alignment is a property of the lsb0 position, as in `findall`). -/
theorem find_lsb0_mirror (l t : Bits) (start stop : Option Int) (ba : Bool) :
    findOp .lsb0 l t start stop ba = findOp .msb0 l.reverse t.reverse start stop ba :=
  find_lsb0_mirror_s l t start stop ba

theorem rfind_lsb0_mirror (l t : Bits) (start stop : Option Int) (ba : Bool) :
    rfindOp .lsb0 l t start stop ba = rfindOp .msb0 l.reverse t.reverse start stop ba :=
  rfind_lsb0_mirror_s l t start stop ba

/-- `find(bytealigned=True)` is the first item of `findall(bytealigned=True)` in lsb0 mode as well. -/
theorem find_lsb0_aligned_is_first_of_findall (l t : Bits) (a b : Nat) :
    find_ .lsb0 l t a b true = (findall_ .lsb0 l t a b (some 1) true).map List.head? := by
  unfold find_ findall_
  dsimp only
  simp only [↓reduceIte]
  cases findallLsb0 (chunkIncrement t) l t a b (some 1) true <;> rfl

/-! ### findall: the reverse chunk scan -/

/-- `findall_lsb0_chunks_eq`: for EVERY chunk increment ≥ 1 (the code uses `max(8192, 80·len(bs))`), every data
    length, window, count and alignment flag, the chunked reverse scan yields exactly the mirrored positions of
    all msb0 matches, in increasing lsb0 order, filtered by alignment of the lsb0 position, cut off after `count`
    — i.e. what msb0 `findall` yields on the reversed operands.  The 8192 boundary is covered by proof. -/
theorem findall_lsb0_chunks_eq (inc : Nat) (hinc : 1 ≤ inc) (l t : Bits) (a b : Nat) (count : Option Nat) (ba : Bool)
    (hab : a ≤ b) (hb : b ≤ l.length) (ht : t ≠ []) :
    findallLsb0 inc l t a b count ba = .ok (findallMsb0 l.reverse t.reverse a b count ba) :=
  findall_fixed_chunks_eq_s inc hinc l t a b count ba hab hb ht

/-- The public method with the code's own constant, including which arguments raise (negative count, empty
    pattern, invalid start/end). -/
theorem findall_lsb0_mirror (l t : Bits) (start stop : Option Int) (count : Option Int) (ba : Bool) :
    findallOp .lsb0 l t start stop count ba = findallOp .msb0 l.reverse t.reverse start stop count ba :=
  findall_lsb0_mirror_s l t start stop count ba

/-! ### non-vacuity -/
example : findOp .lsb0 [true, true, false, true, false, false] [true, false] none none false = .ok (some 1) := by decide
example : findOp .lsb0 [false, true] [true] none none true = .ok (some 0) ∧ rfindOp .lsb0 [true, true] [true] none none true = .ok (some 0) := by decide
example : findOp .lsb0 [true, false, false, false, false, false, false, false, false, false] [true] none none true = .ok none ∧
    rfindOp .lsb0 [false, true, false, false, false, false, false, false, false, true] [true] none none true = .ok (some 8) := by decide
example : findallLsb0 8192 [true, true, false, true, false, false] [true, false] 0 6 none false = .ok [1, 3] := by decide
example : findallLsb0 1 [true, false, true, true, false, true] [true] 0 6 (some 3) false = .ok [0, 2, 3] := by decide
example : findallLsb0 1 [false, false, true, false] [true] 0 4 none false = .ok [1] := by decide
example : findallLsb0 8192 [false, false, true, false, false, true, true, false, false] [false] 1 9 (some 2) true = .ok [8] := by decide

end BM.C12
