/-
  Props/C01.lean — every bitstring behaves as the Python sequence of its bits.
  `Py.getSlice` / `Py.getIndex` transcribe CPython's slice/index arithmetic; the theorems pin them to the
  list meaning for *all* (start, stop, step) and all lengths, and show the code's `+` / `*` algorithms
  (copy-the-longer-operand, doubling loop) compute `++` / `replicate`.
-/
import BitstringModel.Model.C01
import BitstringModel.Proofs.C01

namespace BM.C01
open BM

/-! ### slicing = Python list slicing, for every start/stop/step -/

theorem getSlice_step_zero {α} (l : List α) (s e : Option Int) :
    Py.getSlice l s e (some 0) = .error .value := by
  simp [Py.getSlice]

/-- Every index the slice visits is inside the list (so nothing is silently dropped) … -/
theorem sliceIndices_in_range (s e : Option Int) (st : Int) (hst : st ≠ 0) (n : Nat) (k : Nat)
    (hk : k < Py.rangeLen (Py.sliceIndices s e st n).1 (Py.sliceIndices s e st n).2.1 st) :
    0 ≤ (Py.sliceIndices s e st n).1 + (k : Int) * st ∧
    (Py.sliceIndices s e st n).1 + (k : Int) * st < n := by
  exact sliceIndices_bounds s e st hst n k hk

/-- … hence the length of `l[s:e:st]` is `len(range(*slice(s,e,st).indices(len(l))))` … -/
theorem getSlice_length {α} (l : List α) (s e : Option Int) (st : Int) (hst : st ≠ 0) (r : List α)
    (h : Py.getSlice l s e (some st) = .ok r) :
    r.length = Py.rangeLen (Py.sliceIndices s e st l.length).1 (Py.sliceIndices s e st l.length).2.1 st := by
  rw [getSlice_eq l s e st hst] at h
  injection h with h
  subst h
  exact fm_range_length l _ _ (fun k hk => sliceIndices_toNat_lt s e st hst l.length k hk)

/-- … and its k-th element is `l[start' + k*step]`. -/
theorem getSlice_getElem {α} (l : List α) (s e : Option Int) (st : Int) (hst : st ≠ 0) (r : List α)
    (h : Py.getSlice l s e (some st) = .ok r) (k : Nat) (hk : k < r.length) :
    r[k]? = l[((Py.sliceIndices s e st l.length).1 + (k : Int) * st).toNat]? := by
  rw [getSlice_length l s e st hst r h] at hk
  rw [getSlice_eq l s e st hst] at h
  injection h with h
  subst h
  exact fm_range_getElem? l (fun (k : Nat) => ((Py.sliceIndices s e st l.length).1 + (k : Int) * st).toNat) _
    (fun k hk => sliceIndices_toNat_lt s e st hst l.length k hk) k hk

theorem getSlice_all {α} (l : List α) : Py.getSlice l none none none = .ok l := by
  rw [getSlice_step1, sliceIndices_none_none_pos 1 (by omega)]
  simp

theorem getSlice_rev {α} (l : List α) : Py.getSlice l none none (some (-1)) = .ok l.reverse := by
  have hin := sliceIndices_toNat_lt none none (-1) (by omega) l.length
  rw [getSlice_eq l none none (-1) (by omega)]
  rw [sliceIndices_none_none_neg (-1) (by omega)] at hin ⊢
  simp only [rangeLen_neg_one] at hin ⊢
  congr 1
  apply List.ext_getElem?
  intro i
  by_cases hi : i < ((l.length : Int) - 1 - -1).toNat
  · rw [fm_range_getElem? l (fun (k : Nat) => ((l.length : Int) - 1 + (k : Int) * (-1)).toNat) _ hin i hi]
    rw [List.getElem?_reverse (by omega)]
    congr 1
    omega
  · rw [List.getElem?_eq_none (by rw [fm_range_length l (fun (k : Nat) => ((l.length : Int) - 1 + (k : Int) * (-1)).toNat) _ hin]; omega)]
    rw [List.getElem?_eq_none (by simp; omega)]

/-- For in-range bounds a step-1 slice is `drop`/`take` (the bridge used by the other properties). -/
theorem getSlice_take_drop {α} (l : List α) (a b : Nat) (hab : a ≤ b) (hb : b ≤ l.length) :
    Py.getSlice l (some (a : Int)) (some (b : Int)) none = .ok ((l.drop a).take (b - a)) := by
  rw [getSlice_step1]
  have h : Py.sliceIndices (some (a : Int)) (some (b : Int)) 1 l.length = ((a : Int), (b : Int), 1) := by
    have h1 : ¬ ((a : Int) < 0) := by omega
    have h2 : ¬ ((b : Int) < 0) := by omega
    simp only [Py.sliceIndices, h1, h2, if_false]
    have : ¬ ((1 : Int) < 0) := by omega
    simp only [this, if_false]
    congr 1
    · omega
    · congr 1; omega
  rw [h]
  simp only [Int.toNat_natCast]
  congr 2
  omega

/-- `l[:k] + l[k:] == l` for every integer k (negative and out-of-range included). -/
theorem getSlice_split {α} (l : List α) (k : Int) :
    (do let x ← Py.getSlice l none (some k) none
        let y ← Py.getSlice l (some k) none none
        pure (x ++ y)) = .ok l := by
  rw [getSlice_step1, getSlice_step1]
  have hne : ¬ ((1 : Int) < 0) := by omega
  have h1 : Py.sliceIndices none (some k) 1 l.length =
      (0, (if k < 0 then max (k + l.length) 0 else min k l.length), 1) := by
    simp only [Py.sliceIndices, hne, if_false]
  have h2 : Py.sliceIndices (some k) none 1 l.length =
      ((if k < 0 then max (k + l.length) 0 else min k l.length), (l.length : Int), 1) := by
    simp only [Py.sliceIndices, hne, if_false]
  rw [h1, h2]
  generalize hc : (if k < 0 then max (k + (l.length : Int)) 0 else min k l.length) = c
  have hc0 : 0 ≤ c ∧ c ≤ l.length := by split at hc <;> omega
  show Except.ok _ = _
  congr 1
  simp only [Int.toNat_zero, List.drop_zero, Int.sub_zero]
  rw [List.take_of_length_le (i := ((l.length : Int) - c).toNat) (by simp; omega)]
  exact List.take_append_drop _ _

/-- Negative bounds count from the end: `l[a:b] == l[a+len : b+len]` whenever both shifted bounds are ≥ 0. -/
theorem getSlice_negative_bounds {α} (l : List α) (a b : Int) (ha : a < 0) (hb : b < 0)
    (ha' : 0 ≤ a + l.length) (hb' : 0 ≤ b + l.length) :
    Py.getSlice l (some a) (some b) none = Py.getSlice l (some (a + l.length)) (some (b + l.length)) none := by
  rw [getSlice_step1, getSlice_step1]
  have hne : ¬ ((1 : Int) < 0) := by omega
  have h : Py.sliceIndices (some a) (some b) 1 l.length =
      Py.sliceIndices (some (a + l.length)) (some (b + l.length)) 1 l.length := by
    have h1 : ¬ (a + (l.length : Int) < 0) := by omega
    have h2 : ¬ (b + (l.length : Int) < 0) := by omega
    simp only [Py.sliceIndices, hne, if_false, ha, hb, if_true, h1, h2]
    congr 1
    · omega
    · congr 1; omega
  rw [h]

/-! ### indexing -/

theorem getIndex_err_iff {α} (l : List α) (i : Int) :
    Py.getIndex l i = .error .index ↔ (i < -(l.length : Int) ∨ (l.length : Int) ≤ i) := by
  have key : ∀ j : Int, (j = if i < 0 then i + (l.length : Int) else i) →
      ((if j < 0 then (Except.error Err.index : Except Err α) else
        match l[j.toNat]? with
        | some x => .ok x
        | none => .error .index) = .error .index ↔ (i < -(l.length : Int) ∨ (l.length : Int) ≤ i)) := by
    intro j hj
    by_cases hj0 : j < 0
    · simp only [hj0, if_true, true_iff]; split at hj <;> omega
    · simp only [hj0, if_false]
      split
      · rename_i x hx
        have := (List.getElem?_eq_some_iff.mp hx).1
        simp only [reduceCtorEq, false_iff]
        split at hj <;> omega
      · rename_i hx
        have := List.getElem?_eq_none_iff.mp hx
        simp only [true_iff]
        split at hj <;> omega
  exact key _ rfl

theorem getIndex_nonneg {α} (l : List α) (i : Nat) (h : i < l.length) :
    Py.getIndex l (i : Int) = .ok l[i] := by
  have h1 : ¬ ((i : Int) < 0) := by omega
  simp [Py.getIndex, h1, h]

theorem getIndex_neg {α} (l : List α) (i : Nat) (h1 : 0 < i) (h : i ≤ l.length) :
    Py.getIndex l (-(i : Int)) = .ok (l[l.length - i]'(by omega)) := by
  have h2 : (-(i : Int) < 0) := by omega
  have h3 : ¬ (-(i : Int) + (l.length : Int) < 0) := by omega
  have h4 : (-(i : Int) + (l.length : Int)).toNat = l.length - i := by omega
  have h5 : l.length - i < l.length := by omega
  simp only [Py.getIndex, h2, if_true, h3, if_false, h4, List.getElem?_eq_getElem h5]

/-- Iterating a bitstring yields exactly its bits, in order. -/
theorem iter_eq (s : Obj) : iter s = s.bits.map .ok := by
  unfold iter getItem
  apply List.ext_getElem
  · simp
  · intro i h1 h2
    simp only [List.length_map, List.length_range] at h1
    simp only [List.getElem_map, List.getElem_range]
    exact getIndex_nonneg s.bits i h1

theorem truth_iff (s : Obj) : truth s = true ↔ s.bits ≠ [] := by
  simp [truth]

theorem getSliceObj_class (s r : Obj) (a b c : Option Int) (h : getSliceObj s a b c = .ok r) :
    r.cls = s.cls := by
  unfold getSliceObj at h
  split at h
  · cases h
  · injection h with h; subst h; rfl

/-! ### concatenation -/

theorem add_content (a b : Obj) : (add a b).bits = a.bits ++ b.bits := by
  unfold add
  simp only [ite_self, createFrom_bits]

theorem add_class (a b : Obj) : (add a b).cls = a.cls := by
  unfold add
  simp only [ite_self]

theorem radd_content (self : Obj) (x : Bits) : (radd self x).bits = x ++ self.bits := by
  unfold radd; rw [add_content]

theorem radd_class (self : Obj) (x : Bits) : (radd self x).cls = self.cls := by
  unfold radd; rw [add_class]

/-! ### repetition: the doubling loop computes `n` copies -/

theorem imul_eq_replicate (l : Bits) (n : Nat) (hn : 1 ≤ n) :
    imul l n = (List.replicate n l).flatten := by
  have hspec := imulLoop_spec l n l 1 n (by simp) hn
    (by have := Nat.lt_two_pow_self (n := n + 1); omega)
  unfold imul
  generalize imulLoop n l 1 n = r at hspec
  obtain ⟨cur, m⟩ := r
  obtain ⟨h1, h2, h3⟩ := hspec
  simp only at h1 h2 h3 ⊢
  subst h1
  have hm : m = (n - m) + (m - (n - m)) := by omega
  have htake : ((List.replicate m l).flatten).take ((n - m) * l.length) = (List.replicate (n - m) l).flatten := by
    have hrep : (List.replicate m l).flatten =
        (List.replicate (n - m) l).flatten ++ (List.replicate (m - (n - m)) l).flatten := by
      rw [← flatten_replicate_add, ← hm]
    rw [hrep]
    exact List.take_left' (length_flatten_replicate l (n - m))
  rw [htake, ← flatten_replicate_add]
  congr 2
  omega

theorem mul_spec (s : Obj) (n : Int) (hn : 0 ≤ n) :
    mul s n = .ok ⟨s.cls, (List.replicate n.toNat s.bits).flatten⟩ := by
  unfold mul
  have h1 : ¬ n < 0 := by omega
  simp only [h1, if_false]
  split
  · rename_i h0; subst h0; simp
  · rw [imul_eq_replicate _ _ (by omega)]

theorem mul_negative (s : Obj) (n : Int) (hn : n < 0) : mul s n = .error .value := by
  simp [mul, hn]

/-! ### non-vacuity -/
example : Py.getSlice [1, 2, 3, 4, 5, 6, 7] (some (-2)) (some (-9)) (some (-3)) = .ok [6, 3] := by decide
example : imul [true, false] 5 = [true, false, true, false, true, false, true, false, true, false] := by decide
example : Py.getIndex [true, false, false] (-3) = .ok true := by decide

end BM.C01
