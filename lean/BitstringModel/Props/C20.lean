/-
  Props/C20.lean — no public entry point can reach an internal error (`assert` in a private helper,
  division by zero), for ANY argument values; stream positions stay valid.
-/
import BitstringModel.Model.C20
import BitstringModel.Proofs.C20

namespace BM.C20
open BM

/-! ### the asserts are really modelled (non-vacuity of what follows) -/
example : isInternal (insertH [true] [true] 5) = true := by decide
example : isInternal (overwriteH [true, false] [true] 1 true) = true := by decide
example : isInternal (absoluteSlice [true, false] 2 1) = true := by decide
example : isInternal (ilshiftH [true, false] 3) = true := by decide
example : isInternal (reverseBytesH [true, false] 0 3) = true := by decide

/-! ### public entry points never reach them -/

theorem lshift_no_internal (l : Bits) (n : Int) : isInternal (pubLshift l n) = false := by
  unfold pubLshift
  split
  · rfl
  split
  · rfl
  apply isInternal_bind
  · apply absoluteSlice_ni; omega
  · intro a _; rfl

theorem rshift_no_internal (l : Bits) (n : Int) : isInternal (pubRshift l n) = false := by
  unfold pubRshift
  split
  · rfl
  split
  · rfl
  split
  · rfl
  apply isInternal_bind
  · apply absoluteSlice_ni; omega
  · intro a _; rfl

theorem ilshift_no_internal (l : Bits) (n : Int) : isInternal (pubIlshift l n) = false := by
  unfold pubIlshift
  split
  · rfl
  split
  · rfl
  split
  · rfl
  apply ilshiftH_ni
  omega

theorem irshift_no_internal (l : Bits) (n : Int) : isInternal (pubIrshift l n) = false := by
  unfold pubIrshift
  split
  · rfl
  split
  · rfl
  split
  · rfl
  apply irshiftH_ni
  omega

theorem imul_no_internal (l : Bits) (n : Int) : isInternal (pubImul l n) = false := by
  unfold pubImul
  split
  · rfl
  · unfold imulH
    rw [check_of _ (by omega)]
    rfl

theorem insert_no_internal (l b : Bits) (pos : Int) : isInternal (pubInsert l b pos) = false := by
  unfold pubInsert
  dsimp only
  generalize (if pos < 0 then pos + (l.length : Int) else pos) = p
  by_cases h2 : 0 ≤ p ∧ p ≤ l.length
  · rw [if_neg (not_not_intro h2)]
    by_cases h1 : b.length = 0
    · rw [if_pos h1]; rfl
    · rw [if_neg h1]; exact insertH_ni l b p h2
  · rw [if_pos h2]; rfl

/-- including `a.overwrite(a, pos)` with any `pos`. -/
theorem overwrite_no_internal (l b : Bits) (pos : Int) (same : Bool) :
    isInternal (pubOverwrite l b pos same) = false := by
  unfold pubOverwrite
  dsimp only
  generalize (if same = true then l else b) = b'
  generalize (if pos < 0 then pos + (l.length : Int) else pos) = p
  by_cases h2 : p < 0 ∨ p > l.length
  · rw [if_pos h2]; rfl
  · rw [if_neg h2]
    by_cases h1 : b'.length = 0
    · rw [if_pos h1]; rfl
    · rw [if_neg h1]
      unfold overwriteH
      rw [check_of _ (by omega)]
      rfl

/-- including empty ranges `start = end` (no division by zero) and any rotation count. -/
theorem rol_no_internal (l : Bits) (bits : Int) (s e : Option Int) : isInternal (pubRol l bits s e) = false := by
  unfold pubRol
  split
  · rfl
  split
  · rfl
  cases hv : validateSlice l.length s e with
  | error er => rw [validateSlice_err _ _ _ _ hv]; rfl
  | ok p =>
    obtain ⟨s', e'⟩ := p
    have hb := validateSlice_ok _ _ _ _ _ hv
    rw [ok_bind]
    dsimp only
    split
    · rfl
    rename_i hne
    rw [check_of _ (by omega), ok_bind]
    split
    · rfl
    have hk0 := Int.emod_nonneg bits (by omega : e' - s' ≠ 0)
    have hk1 := Int.emod_lt_of_pos bits (by omega : 0 < e' - s')
    rw [deleteH_ok l _ _ (by omega) (by omega), ok_bind]
    apply insertH_ni
    have hl := pySetSlice_length l s' (s' + bits % (e' - s')) [] (by omega) (by omega) (by omega)
    simp only [List.length_nil] at hl
    omega

theorem ror_no_internal (l : Bits) (bits : Int) (s e : Option Int) : isInternal (pubRor l bits s e) = false := by
  unfold pubRor
  split
  · rfl
  split
  · rfl
  cases hv : validateSlice l.length s e with
  | error er => rw [validateSlice_err _ _ _ _ hv]; rfl
  | ok p =>
    obtain ⟨s', e'⟩ := p
    have hb := validateSlice_ok _ _ _ _ _ hv
    rw [ok_bind]
    dsimp only
    split
    · rfl
    rename_i hne
    rw [check_of _ (by omega), ok_bind]
    split
    · rfl
    have hk0 := Int.emod_nonneg bits (by omega : e' - s' ≠ 0)
    have hk1 := Int.emod_lt_of_pos bits (by omega : 0 < e' - s')
    rw [deleteH_ok l _ _ (by omega) (by omega), ok_bind]
    apply insertH_ni
    have hl := pySetSlice_length l (e' - bits % (e' - s')) (e' - bits % (e' - s') + bits % (e' - s')) []
      (by omega) (by omega) (by omega)
    simp only [List.length_nil] at hl
    omega

theorem invert_no_internal (l : Bits) (ps : List Int) : isInternal (pubInvert l ps) = false := by
  unfold pubInvert
  apply foldlM_ni _ (fun acc => acc.length = l.length) ps l rfl
  intro acc hacc p _
  dsimp only
  generalize (if p < 0 then p + (l.length : Int) else p) = q
  by_cases hq : 0 ≤ q ∧ q < l.length
  · rw [if_neg (not_not_intro hq), invertH_ok acc q (by omega)]
    refine ⟨rfl, fun r hr => ?_⟩
    injection hr with hr
    subst hr
    rw [List.length_set]
    exact hacc
  · rw [if_pos hq]
    exact ⟨rfl, fun r hr => by cases hr⟩

theorem byteswap_no_internal (l : Bits) (fmt : Int) (s e : Option Int) (rep : Bool) :
    isInternal (pubByteswap l fmt s e rep) = false := by
  unfold pubByteswap
  cases hv : validateSlice l.length s e with
  | error er => rw [validateSlice_err _ _ _ _ hv]; rfl
  | ok p =>
    obtain ⟨s', e'⟩ := p
    rw [ok_bind]
    dsimp only
    by_cases hf : fmt < 0
    · rw [if_pos hf]; rfl
    rw [if_neg hf]
    generalize (if fmt = 0 then (e' - s') / 8 else fmt) = size
    by_cases ht : 8 * size = 0
    · rw [if_pos ht]; rfl
    rw [if_neg ht]
    apply foldlM_ni _ (fun _ => True) _ _ trivial
    intro acc _ pe _
    refine ⟨?_, fun _ _ => trivial⟩
    apply isInternal_bind
    · apply reverseBytesH_ni
      omega
    · intro a _; rfl

/-! ### the documented errors, exactly -/

theorem lshift_err_iff (l : Bits) (n : Int) :
    pubLshift l n = .error .value ↔ (n < 0 ∨ l = []) := by
  unfold pubLshift
  by_cases h1 : n < 0
  · rw [if_pos h1]; exact ⟨fun _ => Or.inl h1, fun _ => rfl⟩
  · rw [if_neg h1]
    by_cases h2 : l.length = 0
    · rw [if_pos h2]; exact ⟨fun _ => Or.inr (List.length_eq_zero_iff.mp h2), fun _ => rfl⟩
    · rw [if_neg h2]
      obtain ⟨r, hr⟩ := absoluteSlice_ok l (min n l.length) l.length (by omega)
      dsimp only
      rw [hr]
      constructor
      · intro h; cases h
      · intro h
        rcases h with h | h
        · omega
        · exact absurd (by rw [h]; rfl) h2

theorem insert_err_iff (l b : Bits) (pos : Int) :
    pubInsert l b pos = .error .value ↔ (pos < -(l.length : Int) ∨ (l.length : Int) < pos) := by
  unfold pubInsert
  dsimp only
  by_cases h2 : 0 ≤ (if pos < 0 then pos + (l.length : Int) else pos) ∧
      (if pos < 0 then pos + (l.length : Int) else pos) ≤ l.length
  · rw [if_neg (not_not_intro h2)]
    have hr : pos < -(l.length : Int) ∨ (l.length : Int) < pos → False := by
      intro h
      split at h2 <;> omega
    by_cases h1 : b.length = 0
    · rw [if_pos h1]
      exact ⟨fun h => (by cases h), fun h => (hr h).elim⟩
    · rw [if_neg h1, insertH_ok l b _ h2]
      exact ⟨fun h => (by cases h), fun h => (hr h).elim⟩
  · rw [if_pos h2]
    constructor
    · intro _
      split at h2 <;> omega
    · intro _; rfl

theorem validateSlice_ok_iff (len : Nat) (s e : Option Int) :
    (∃ r, validateSlice len s e = .ok r) ↔
      (let s' : Int := match s with | none => 0 | some x => if x < 0 then x + len else x
       let e' : Int := match e with | none => len | some x => if x < 0 then x + len else x
       0 ≤ s' ∧ s' ≤ e' ∧ e' ≤ len) := by
  exact ite_ok_iff _ _ _

/-! ### lengths: operations that are not length-changing by definition keep `len(s) = len(s.bin)` trivially in the
    model (one list); the interesting facts are the stream-position ones -/

theorem setPos_valid (s : Stream) (p : Int) (s' : Stream) (h : setPos s p = .ok s') : s'.Valid ∧ s'.bits = s.bits := by
  obtain ⟨h0, h1, h2⟩ := setPos_ok s p s' h
  subst h2
  exact ⟨⟨h0, h1⟩, rfl⟩

theorem bytealign_valid (s s' : Stream) (k : Int) (hv : s.Valid) (h : bytealign s = .ok (s', k)) :
    s'.Valid ∧ s'.bits = s.bits ∧ s'.pos = s.pos + k ∧ 0 ≤ k ∧ k < 8 ∧ s'.pos % 8 = 0 := by
  unfold bytealign at h
  dsimp only at h
  cases hs : setPos s (s.pos + (8 - s.pos % 8) % 8) with
  | error er => rw [hs] at h; cases h
  | ok s1 =>
    rw [hs] at h
    injection h with h
    injection h with h1 h2
    subst h1 h2
    obtain ⟨h0, h1, h2⟩ := setPos_ok _ _ _ hs
    subst h2
    refine ⟨⟨h0, h1⟩, rfl, rfl, ?_, ?_, ?_⟩
    · omega
    · omega
    · show (s.pos + (8 - s.pos % 8) % 8) % 8 = 0
      omega

/-- `bytealign` fails (ValueError, position unchanged since no new state is returned) exactly when rounding up
    would pass the end: the last partial byte. -/
theorem bytealign_err_iff (s : Stream) (hv : s.Valid) :
    (∃ e, bytealign s = .error e) ↔ s.pos + (8 - s.pos % 8) % 8 > s.bits.length := by
  unfold bytealign
  dsimp only
  have hv' : 0 ≤ s.pos ∧ s.pos ≤ s.bits.length := hv
  rw [← (by
    constructor
    · intro h; rcases h with h | h
      · omega
      · exact h
    · intro h; exact Or.inr h :
    (s.pos + (8 - s.pos % 8) % 8 < 0 ∨ s.pos + (8 - s.pos % 8) % 8 > s.bits.length) ↔
      s.pos + (8 - s.pos % 8) % 8 > s.bits.length), ← setPos_err_iff]
  cases hs : setPos s (s.pos + (8 - s.pos % 8) % 8) with
  | error er => exact ⟨fun _ => ⟨_, rfl⟩, fun _ => ⟨_, rfl⟩⟩
  | ok s1 => exact ⟨fun ⟨e, h⟩ => (by cases h), fun ⟨e, h⟩ => (by cases h)⟩

theorem readInt_valid (s s' : Stream) (n : Int) (b : Bits) (hv : s.Valid) (h : readInt s n = .ok (s', b)) :
    s'.Valid ∧ s'.bits = s.bits ∧ s'.pos = s.pos + n ∧ (b.length : Int) = n := by
  have hv' : 0 ≤ s.pos ∧ s.pos ≤ s.bits.length := hv
  unfold readInt at h
  by_cases h1 : n < 0
  · rw [if_pos h1] at h; cases h
  · rw [if_neg h1] at h
    by_cases h2 : n > s.bits.length - s.pos
    · rw [if_pos h2] at h; cases h
    · rw [if_neg h2] at h
      injection h with h
      injection h with h3 h4
      subst h3 h4
      refine ⟨⟨?_, ?_⟩, rfl, rfl, ?_⟩
      · show 0 ≤ s.pos + n
        omega
      · show s.pos + n ≤ s.bits.length
        omega
      · have := pySlice_length s.bits s.pos (s.pos + n) (by omega) (by omega) (by omega)
        omega

theorem readInt_err (s : Stream) (n : Int) (hv : s.Valid) :
    (readInt s n = .error .value ↔ n < 0) ∧
    (readInt s n = .error .read ↔ (0 ≤ n ∧ n > (s.bits.length : Int) - s.pos)) := by
  unfold readInt
  by_cases h1 : n < 0
  · rw [if_pos h1]
    refine ⟨⟨fun _ => h1, fun _ => rfl⟩, ⟨fun h => (by cases h), fun h => by omega⟩⟩
  · rw [if_neg h1]
    by_cases h2 : n > s.bits.length - s.pos
    · rw [if_pos h2]
      refine ⟨⟨fun h => (by cases h), fun h => by omega⟩, ⟨fun _ => ⟨by omega, h2⟩, fun _ => rfl⟩⟩
    · rw [if_neg h2]
      refine ⟨⟨fun h => (by cases h), fun h => by omega⟩, ⟨fun h => (by cases h), fun h => by omega⟩⟩

end BM.C20
