/-
  Props/C20.lean — no public entry point can reach an internal error (`assert` in a private helper,
  division by zero), for ANY argument values; stream positions stay valid.
-/
import BitstringModel.Model.C20
import BitstringModel.Proofs.C20

namespace BM.C20
open BM

/-! ### the asserts are really modelled (non-vacuity of what follows) -/
example : isInternal (insertH [true] [true] 5) = true := by decide
example : isInternal (overwriteH [true, false] [true] 1 true) = true := by decide
example : isInternal (absoluteSlice [true, false] 2 1) = true := by decide
example : isInternal (ilshiftH [true, false] 3) = true := by decide
example : isInternal (reverseBytesH [true, false] 0 3) = true := by decide

/-! ### public entry points never reach them -/

theorem lshift_no_internal (l : Bits) (n : Int) : isInternal (pubLshift l n) = false := by
  sorry

theorem rshift_no_internal (l : Bits) (n : Int) : isInternal (pubRshift l n) = false := by
  sorry

theorem ilshift_no_internal (l : Bits) (n : Int) : isInternal (pubIlshift l n) = false := by
  sorry

theorem irshift_no_internal (l : Bits) (n : Int) : isInternal (pubIrshift l n) = false := by
  sorry

theorem imul_no_internal (l : Bits) (n : Int) : isInternal (pubImul l n) = false := by
  sorry

theorem insert_no_internal (l b : Bits) (pos : Int) : isInternal (pubInsert l b pos) = false := by
  sorry

/-- including `a.overwrite(a, pos)` with any `pos`. -/
theorem overwrite_no_internal (l b : Bits) (pos : Int) (same : Bool) :
    isInternal (pubOverwrite l b pos same) = false := by
  sorry

/-- including empty ranges `start = end` (no division by zero) and any rotation count. -/
theorem rol_no_internal (l : Bits) (bits : Int) (s e : Option Int) : isInternal (pubRol l bits s e) = false := by
  sorry

theorem ror_no_internal (l : Bits) (bits : Int) (s e : Option Int) : isInternal (pubRor l bits s e) = false := by
  sorry

theorem invert_no_internal (l : Bits) (ps : List Int) : isInternal (pubInvert l ps) = false := by
  sorry

theorem byteswap_no_internal (l : Bits) (fmt : Int) (s e : Option Int) (rep : Bool) :
    isInternal (pubByteswap l fmt s e rep) = false := by
  sorry

/-! ### the documented errors, exactly -/

theorem lshift_err_iff (l : Bits) (n : Int) :
    pubLshift l n = .error .value ↔ (n < 0 ∨ l = []) := by
  sorry

theorem insert_err_iff (l b : Bits) (pos : Int) :
    pubInsert l b pos = .error .value ↔ (b ≠ [] ∧ (pos < -(l.length : Int) ∨ (l.length : Int) < pos)) := by
  sorry

theorem validateSlice_ok_iff (len : Nat) (s e : Option Int) :
    (∃ r, validateSlice len s e = .ok r) ↔
      (let s' : Int := match s with | none => 0 | some x => if x < 0 then x + len else x
       let e' : Int := match e with | none => len | some x => if x < 0 then x + len else x
       0 ≤ s' ∧ s' ≤ e' ∧ e' ≤ len) := by
  sorry

/-! ### lengths: operations that are not length-changing by definition keep `len(s) = len(s.bin)` trivially in the
    model (one list); the interesting facts are the stream-position ones -/

theorem setPos_valid (s : Stream) (p : Int) (s' : Stream) (h : setPos s p = .ok s') : s'.Valid ∧ s'.bits = s.bits := by
  sorry

theorem bytealign_valid (s s' : Stream) (k : Int) (hv : s.Valid) (h : bytealign s = .ok (s', k)) :
    s'.Valid ∧ s'.bits = s.bits ∧ s'.pos = s.pos + k ∧ 0 ≤ k ∧ k < 8 ∧ s'.pos % 8 = 0 := by
  sorry

/-- `bytealign` fails (ValueError, position unchanged since no new state is returned) exactly when rounding up
    would pass the end: the last partial byte. -/
theorem bytealign_err_iff (s : Stream) (hv : s.Valid) :
    (∃ e, bytealign s = .error e) ↔ s.pos + (8 - s.pos % 8) % 8 > s.bits.length := by
  sorry

theorem readInt_valid (s s' : Stream) (n : Int) (b : Bits) (hv : s.Valid) (h : readInt s n = .ok (s', b)) :
    s'.Valid ∧ s'.bits = s.bits ∧ s'.pos = s.pos + n ∧ (b.length : Int) = n := by
  sorry

theorem readInt_err (s : Stream) (n : Int) (hv : s.Valid) :
    (readInt s n = .error .value ↔ n < 0) ∧
    (readInt s n = .error .read ↔ (0 ≤ n ∧ n > (s.bits.length : Int) - s.pos)) := by
  sorry

end BM.C20
