/-
  Props/C11.lean — property theorems for C11 (8-bit, micro-scaling and bfloat codecs decode and round exactly as
  specified).

  The tables `Gen.dec…`, `Gen.enc…`, `Gen.clamp…` are re-extracted from the working tree by harness/extract.py on every
  check (after the library's own zlib decompression), so every theorem below that mentions them is a theorem about
  what the code holds *now*; quantifiers range over the whole domain of the property (every code, every one of the
  65 536 half-precision inputs, every float64 for the encoder entry points), there is no size bound.

  Heavy kernel enumerations live in Proofs/C11_Enc_<T>_<kk>.lean (9 tables × 16 chunks), Proofs/C11_Dec.lean,
  Proofs/C11_Reenc_<T>.lean, Proofs/C11_Bf_<kk>.lean (all 65 536 bfloat codes, see Props/C11_Bfloat.lean); general
  lemmas in Proofs/C11.lean and Proofs/C11_Api.lean.  This file states the property clauses and derives them.
-/
import BitstringModel.Proofs.C11_Api
import BitstringModel.Proofs.C11_Scale
import BitstringModel.Proofs.C11_Reenc_P3
import BitstringModel.Proofs.C11_Reenc_P4
import BitstringModel.Proofs.C11_Reenc_E5M2S
import BitstringModel.Proofs.C11_Reenc_E5M2O
import BitstringModel.Proofs.C11_Reenc_E4M3S
import BitstringModel.Proofs.C11_Reenc_E4M3O
import BitstringModel.Proofs.C11_Reenc_E3M2
import BitstringModel.Proofs.C11_Reenc_E2M3
import BitstringModel.Proofs.C11_Reenc_E2M1

namespace BM.C11
open BM

/-! ## 1. "every code decodes to the value its format defines" -/

/-- The live decode table `t` holds exactly `2^width` floats and entry `c` is the float64 whose exact value is
    `decodeSpec c` (sign, biased exponent, mantissa, subnormals, ±0 or single zero, ±inf, NaN). -/
def DecodeTableOk (f : Fmt) (t : Nat × Nat) : Prop :=
  t.1 = 2 ^ f.width ∧ ∀ c, c < 2 ^ f.width → (decLookup t c).map f64Val = some (decodeSpec f c)

theorem decode_table_ok_P3 : DecodeTableOk Fmt.p3 Gen.decP3 := decTableChk_spec decTableChk_p3
theorem decode_table_ok_P4 : DecodeTableOk Fmt.p4 Gen.decP4 := decTableChk_spec decTableChk_p4
theorem decode_table_ok_E5M2S : DecodeTableOk Fmt.e5m2 Gen.decE5M2S := decTableChk_spec decTableChk_e5m2s
theorem decode_table_ok_E5M2O : DecodeTableOk Fmt.e5m2 Gen.decE5M2O := decTableChk_spec decTableChk_e5m2o
theorem decode_table_ok_E4M3S : DecodeTableOk Fmt.e4m3 Gen.decE4M3S := decTableChk_spec decTableChk_e4m3s
theorem decode_table_ok_E4M3O : DecodeTableOk Fmt.e4m3 Gen.decE4M3O := decTableChk_spec decTableChk_e4m3o
theorem decode_table_ok_E3M2 : DecodeTableOk Fmt.e3m2 Gen.decE3M2 := decTableChk_spec decTableChk_e3m2
theorem decode_table_ok_E2M3 : DecodeTableOk Fmt.e2m3 Gen.decE2M3 := decTableChk_spec decTableChk_e2m3
theorem decode_table_ok_E2M1 : DecodeTableOk Fmt.e2m1 Gen.decE2M1 := decTableChk_spec decTableChk_e2m1

/-- ALG = SPEC for the getters `_getp3binary … _gete2m1mxfp`: every code of every table-driven format
    decodes to the value the format defines (NaN codes to NaN). -/
theorem decode_ok (n : Name) (f : Fmt) (hf : n.fmt? = some f) (c : Nat) (hc : c < 2 ^ f.width) :
    (decode n c).map f64Val = .ok (decodeSpec f c) := by
  have key : ∀ t : Tbl, t.fmt = f → (tblDec t c).map f64Val = .ok (decodeSpec f c) := by
    intro t ht
    have h := (decTableChk_spec (decTableChk_all t)).2 c (ht ▸ hc)
    unfold tblDec
    cases hl : decLookup t.dec c with
    | none => rw [hl] at h; cases h
    | some v => rw [hl] at h; simp only [Option.map_some, Option.some.injEq] at h; simp [Except.map, h, ht]
  cases n <;> simp only [Name.fmt?, Option.some.injEq, reduceCtorEq] at hf
  all_goals subst hf
  · exact key .p3 rfl
  · exact key .p4 rfl
  · exact key .e5m2s rfl
  · exact key .e4m3s rfl
  · exact key .e3m2 rfl
  · exact key .e2m3 rfl
  · exact key .e2m1 rfl

/-- Decoding does not depend on `mxfp_overflow`: the overflow-mode objects carry the same decode tables as the
    saturate-mode ones the getters read. -/
theorem decode_tables_mode_independent : Gen.decE4M3O = Gen.decE4M3S ∧ Gen.decE5M2O = Gen.decE5M2S := by
  decide +kernel

/-- e8m0mxfp: code `c` is `2^(c−127)`, 255 is NaN. -/
theorem e8m0_decode_ok (c : Nat) (hc : c < 256) : (decode .e8m0mxfp c).map f64Val = .ok (e8m0Spec c) :=
  of_decide_eq_true (allBelow_spec e8m0DecChk c hc)

/-- mxint8: code `c` is the two's-complement integer `int8 c` times `2⁻⁶`. -/
theorem mxint_decode_ok (c : Nat) (hc : c < 256) : (decode .mxint c).map f64Val = .ok (mxintDecSpec c) :=
  of_decide_eq_true (allBelow_spec mxintDecChk c hc)

/-- bfloatle is bfloat with the two bytes swapped (`Bits(16) + self` read little-endian). -/
theorem bfloatle_decode (c : Nat) : decode .bfloatle c = decode .bfloat (bswap16 c) := rfl

/-! ## 2. "encoding yields the code of the representable value nearest to the half-precision rounding, ties to even,
          with overflow, infinities and NaN mapped as documented for the format and the mxfp_overflow setting" -/

/-- `codes_strictly_monotone`: on every format the values of the magnitude codes `0 … lim` strictly increase. -/
theorem codes_strictly_monotone (t : Tbl) : StrictMonoTo t.fmt := strictMono_all t

/-- `nearest_of_local`: on a strictly increasing grid, not being beaten by either neighbour (ties only for an even code)
    is being nearest-even among all codes — what lets the kernel check each table entry against two neighbours only. -/
theorem nearest_of_local_lifts (t : Tbl) (x c : Nat) (hc : c ≤ t.fmt.lim) (h : localNE t.fmt x c = true) :
    IsNearestEven t.fmt x c := nearest_of_local (strictMono_all t) x c hc h

/-- The nearest-even code is unique, so `EncodeSpec` pins every table entry to one value. -/
theorem encode_spec_unique (t : Tbl) (mode : Mode) (h c₁ c₂ : Nat) (hn : halfClass h ≠ .nan ∨ t.fmt.kind ≠ .small)
    (h₁ : EncodeSpec t.fmt mode h c₁) (h₂ : EncodeSpec t.fmt mode h c₂) : c₁ = c₂ := by
  unfold EncodeSpec at h₁ h₂
  cases hc : halfClass h with
  | nan =>
    rw [hc] at h₁ h₂
    rcases hn with hn | hn
    · exact absurd hc hn
    · rcases h₁ with h₁ | h₁
      · exact absurd h₁ hn
      · rcases h₂ with h₂ | h₂
        · exact absurd h₂ hn
        · rw [h₁, h₂]
  | inf s => rw [hc] at h₁ h₂; simp only at h₁ h₂; rw [h₁, h₂]
  | fin s x =>
    rw [hc] at h₁ h₂
    obtain ⟨a, ha, ea⟩ := h₁
    obtain ⟨b, hb, eb⟩ := h₂
    have := nearestEven_unique (strictMono_all t) x a b ha hb
    subst this
    rw [ea, eb]

/-- Whole-table theorems: every one of the 65 536 entries of each live float16→code table is the code `EncodeSpec`
    demands (nearest representable value, ties to even; overflow / inf / NaN / sign-of-zero rules of the format and mode). -/
def EncodeTableOk (f : Fmt) (mode : Mode) (t : Array Nat) : Prop :=
  ∀ h, h < 65536 → ∃ code, encLookup t h = some code ∧ EncodeSpec f mode h code

theorem encode_table_ok_P3 : EncodeTableOk Fmt.p3 .saturate Gen.encP3 := encTable_ok .p3
theorem encode_table_ok_P4 : EncodeTableOk Fmt.p4 .saturate Gen.encP4 := encTable_ok .p4
theorem encode_table_ok_E5M2S : EncodeTableOk Fmt.e5m2 .saturate Gen.encE5M2S := encTable_ok .e5m2s
theorem encode_table_ok_E5M2O : EncodeTableOk Fmt.e5m2 .overflow Gen.encE5M2O := encTable_ok .e5m2o
theorem encode_table_ok_E4M3S : EncodeTableOk Fmt.e4m3 .saturate Gen.encE4M3S := encTable_ok .e4m3s
theorem encode_table_ok_E4M3O : EncodeTableOk Fmt.e4m3 .overflow Gen.encE4M3O := encTable_ok .e4m3o
theorem encode_table_ok_E3M2 : EncodeTableOk Fmt.e3m2 .saturate Gen.encE3M2 := encTable_ok .e3m2
theorem encode_table_ok_E2M3 : EncodeTableOk Fmt.e2m3 .saturate Gen.encE2M3 := encTable_ok .e2m3
theorem encode_table_ok_E2M1 : EncodeTableOk Fmt.e2m1 .saturate Gen.encE2M1 := encTable_ok .e2m1

/-- `clamp_path`: when `struct.pack('>e', f)` raises OverflowError the IEEE half-precision rounding of `f` is ±inf, and
    the `pos_clamp_value / neg_clamp_value` of the live object returned by that branch is the format's overflow code
    for that sign — the code `EncodeSpec` demands for ±inf. -/
theorem clamp_path (t : Tbl) (f : Nat) (h : packIEEE 5 10 f = none) :
    ∃ s, halfClass (ieeeNarrow 5 10 f) = .inf s ∧ floatToInt t f = .ok (ovfCode t.fmt t.mode s) := by
  obtain ⟨s, m, e, hv, hm, hn⟩ := pack_none h
  refine ⟨s, by rw [hn]; exact halfClass_infPattern s, ?_⟩
  unfold floatToInt
  rw [h, f64Gt_zero_of_fin hv hm, clamp_all t]
  cases s <;> rfl

/-- `Binary8Format.float_to_int8` / `MXFPFormat.float_to_int`, for EVERY float64 pattern `f` and each of the nine
    objects: the result is the code `EncodeSpec` demands for the IEEE half-precision rounding of `f`
    (`ieeeNarrow 5 10 f`; out of range = ±inf). -/
theorem float_to_int_spec (t : Tbl) (f : Nat) :
    ∃ code, floatToInt t f = .ok code ∧ EncodeSpec t.fmt t.mode (ieeeNarrow 5 10 f) code := floatToInt_ok t f

/-- ALG = SPEC for `p3binary2bitstore … e2m1mxfp2bitstore`, every float64 and both `mxfp_overflow` modes: the object
    selected by the mode is used, its code fits the format's width, and NaN is rejected with ValueError exactly by the
    6/4-bit formats. -/
theorem encoder_spec (n : Name) (mode : Mode) (t : Tbl) (ht : n.tbl? mode = some t) (f : Nat) :
    (t.fmt.kind = .small ∧ isNaN64 f = true ∧ encode n mode f = .error .value) ∨
    (¬ (t.fmt.kind = .small ∧ isNaN64 f = true) ∧
      ∃ code, encode n mode f = .ok code ∧ code < 2 ^ n.bits ∧
        EncodeSpec t.fmt t.mode (ieeeNarrow 5 10 f) code) := encode_ok n mode t ht f

/-- The mode selects the object: saturate → `…_saturate_fmt`, overflow → `…_overflow_fmt`, and the object's own mode
    is the requested one for the two formats that have both. -/
theorem mode_selects_table (mode : Mode) :
    (∃ t, Name.tbl? .e5m2mxfp mode = some t ∧ t.mode = mode ∧ t.fmt = Fmt.e5m2) ∧
    (∃ t, Name.tbl? .e4m3mxfp mode = some t ∧ t.mode = mode ∧ t.fmt = Fmt.e4m3) := by
  cases mode <;> exact ⟨⟨_, rfl, rfl, rfl⟩, ⟨_, rfl, rfl, rfl⟩⟩

/-! ## 3. "decoding then re-encoding any non-NaN code returns that code (except e5m2 infinities under 'saturate')" -/

theorem reencExempt_false {f : Fmt} {mode : Mode} {c : Nat} (hnan : decodeSpec f c ≠ .nan) (hk : f.kind ≠ .e5m2) :
    reencExempt f mode c = false := by
  unfold reencExempt; simp [hnan, hk]

theorem reencode_fixpoint (n : Name) (mode : Mode) (f : Fmt) (hf : n.fmt? = some f) (c : Nat) (hc : c < 2 ^ f.width)
    (hnan : decodeSpec f c ≠ .nan) (hinf : ¬ (f.kind = .e5m2 ∧ mode = .saturate ∧ c % 128 = 0x7c)) :
    (decode n c >>= encode n mode) = .ok c := by
  have hex : reencExempt f mode c = false := by
    unfold reencExempt
    simp only [Bool.or_eq_false_iff, beq_eq_false_iff_ne, ne_eq, Bool.and_eq_false_iff]
    refine ⟨hnan, ?_⟩
    by_cases h1 : f.kind = .e5m2
    · by_cases h2 : mode = .saturate
      · right; intro h3; exact hinf ⟨h1, h2, h3⟩
      · left; right; exact h2
    · left; left; exact h1
  cases n <;> simp only [Name.fmt?, Option.some.injEq, reduceCtorEq] at hf
  all_goals subst hf
  · cases mode
    · exact reencChk_spec rfl reencChk_P3 c hc hex
    · -- p3binary does not read the mode
      exact reencChk_spec (mode := .saturate) rfl reencChk_P3 c hc (reencExempt_false hnan (by decide))
  · cases mode
    · exact reencChk_spec rfl reencChk_P4 c hc hex
    · -- p4binary does not read the mode
      exact reencChk_spec (mode := .saturate) rfl reencChk_P4 c hc (reencExempt_false hnan (by decide))
  · cases mode
    · exact reencChk_spec rfl reencChk_E5M2S c hc hex
    · exact reencChk_spec rfl reencChk_E5M2O c hc hex
  · cases mode
    · exact reencChk_spec rfl reencChk_E4M3S c hc hex
    · exact reencChk_spec rfl reencChk_E4M3O c hc hex
  · cases mode
    · exact reencChk_spec rfl reencChk_E3M2 c hc hex
    · -- e3m2mxfp does not read the mode
      exact reencChk_spec (mode := .saturate) rfl reencChk_E3M2 c hc (reencExempt_false hnan (by decide))
  · cases mode
    · exact reencChk_spec rfl reencChk_E2M3 c hc hex
    · -- e2m3mxfp does not read the mode
      exact reencChk_spec (mode := .saturate) rfl reencChk_E2M3 c hc (reencExempt_false hnan (by decide))
  · cases mode
    · exact reencChk_spec rfl reencChk_E2M1 c hc hex
    · -- e2m1mxfp does not read the mode
      exact reencChk_spec (mode := .saturate) rfl reencChk_E2M1 c hc (reencExempt_false hnan (by decide))

/-- The stated exception is real: under 'saturate' the e5m2 infinities re-encode to the largest finite codes. -/
theorem e5m2_saturate_inf_not_fixpoint :
    (decode .e5m2mxfp 0x7c >>= encode .e5m2mxfp .saturate) = .ok 0x7b ∧
    (decode .e5m2mxfp 0xfc >>= encode .e5m2mxfp .saturate) = .ok 0xfb := by decide +kernel

/-! ## 4. e8m0mxfp: exact powers of two only, else ValueError -/

/-- `e8m0mxfp2bitstore` succeeds exactly on NaN (→ 255) and on the float64 patterns of `2^(c−127)`, `c < 255` (→ `c`);
    `e8m0_decode_ok` says those patterns are the powers of two. -/
theorem e8m0_encode_ok_iff (f c : Nat) :
    encode .e8m0mxfp .saturate f = .ok c ↔
      (isNaN64 f = true ∧ c = 255) ∨ (isNaN64 f = false ∧ c < 255 ∧ f = pow2F64 ((c : Int) - 127)) :=
  e8m0Enc_ok_iff f c

theorem e8m0_encode_error_iff (f : Nat) :
    encode .e8m0mxfp .saturate f = .error .value ↔
      isNaN64 f = false ∧ ∀ c : Nat, c < 255 → f ≠ pow2F64 ((c : Int) - 127) := e8m0Enc_error_iff f

theorem e8m0_roundtrip (c : Nat) (hc : c < 256) : (decode .e8m0mxfp c >>= encode .e8m0mxfp .saturate) = .ok c :=
  of_decide_eq_true (allBelow_spec e8m0ReencChk c hc)

/-! ## 5. mxint8: nearest-even of 64·x with saturation -/

/-- The executable `rneDiv` used by `mxintCodeSpec` is the declarative nearest integer, ties to even. -/
theorem mxint_spec_is_nearest_even (num : Int) (den : Nat) (hd : 0 < den) :
    IsNearestEvenInt num den (rneDiv num den) := rneDiv_nearest num den hd

theorem mxint_roundtrip (c : Nat) (hc : c < 256) : (decode .mxint c >>= encode .mxint .saturate) = .ok c :=
  of_decide_eq_true (allBelow_spec mxintReencChk c hc)

/-- `f64Mul_pow2_exact`: in the float model, multiplying a finite non-zero float64 by a power of two only changes the
    exponent, as long as the result stays between the subnormal limit and the overflow limit (no enumeration: from
    `f64OfDyadic_exact`, exactness of round-to-nearest on representable values, Proofs/C11_Ieee.lean). -/
theorem float_mul_pow2_exact (f p : Nat) (s : Bool) (m : Nat) (e k : Int)
    (hf : f64Val f = .fin s m e) (hm : m ≠ 0) (hp : f64Val p = .fin false 1 k) (hk : -1074 ≤ e + k)
    (hr : (ilog2 m : Int) + (e + k) ≤ 1023) : f64Val (f64Mul f p) = .fin s m (e + k) :=
  f64Mul_pow2_exact f p s m e k hf hm hp hk hr

/-- `f64Round_spec`: `round(g)` is the declarative nearest integer (ties to even) of the exact value of `g`. -/
theorem f64Round_spec (g : Nat) (s : Bool) (m : Nat) (e : Int) (hg : f64Val g = .fin s m e) :
    IsNearestEvenInt (sgnMant s (dyadicNum m e)) (dyadicDen e) (f64Round g) := by
  unfold f64Round; rw [hg]
  exact rneDiv_nearest _ _ (dyadicDen_pos e)

/-- `mxint_rne`, for EVERY float64 pattern and without enumeration: `mxint2bitstore` returns the nearest-even code of
    the exact rational `64·x` clipped to [−128, 127] (`mxintCodeSpec`), ±inf saturate to 0x7f / 0x80, NaN → ValueError.
    (`f * 64` is exact or overflows to ±inf — then the exact value is ≥ 2^1024 and the specification saturates too;
    `round()` is `rneDiv` on the exact value; the two saturation tests compare the exact value with 127 and −128.) -/
theorem mxint_rne (mode : Mode) (f : Nat) : encode .mxint mode f = mxintSpecOf (f64Val f) := mxintEnc_spec f

/-- On the exactly representable inputs the nearest-even code is the code itself: for every code `c`, `mxint2bitstore`
    applied to the float `int8(c)·2⁻⁶` returns `c` (kernel enumeration over the 256 codes; kept as an independent check
    of `mxint_rne`). -/
theorem mxint_rne_partial (c : Nat) (hc : c < 256) :
    mxintEnc (mxintDec c) = .ok (match mxintDecSpec c with | .fin s m e => mxintCodeSpec s m e | _ => 0) ∧
    (match mxintDecSpec c with | .fin s m e => mxintCodeSpec s m e | _ => 0) = c :=
  of_decide_eq_true (allBelow_spec mxintRneChk c hc)


/-- The two inputs just above a tie, `64·|f| = ½ + 2⁻⁵³` (fixed finding `mxint-half-ulp-above-tie`: the earlier
    `f += 0.5` rounded to 1.0 and was then taken for a tie): the encoder returns the nearest code ±1, as the
    specification demands. -/
theorem mxint_above_tie :
    mxintEnc 0x3f80000000000001 = .ok 1 ∧
    (match f64Val 0x3f80000000000001 with | .fin s m e => mxintCodeSpec s m e | _ => 0) = 1 ∧
    mxintEnc 0xbf80000000000001 = .ok 0xff ∧
    (match f64Val 0xbf80000000000001 with | .fin s m e => mxintCodeSpec s m e | _ => 0) = 0xff := by
  decide +kernel

/-! ## 6. bfloat: truncated float32 -/

/-- `bfloat2bitstore(f, True)` = the upper 16 bits of the IEEE binary32 conversion of `f`, for every float64
    (a finite value beyond the float32 range goes to ±inf through the OverflowError branch, as IEEE conversion does). -/
theorem bfloat_is_truncated_float32 (f : Nat) : encode .bfloat .saturate f = .ok (ieeeNarrow 8 23 f / 65536) := by
  simp only [encode, bfloatEnc_be]

theorem bfloatle_is_byteswapped_bfloat (f : Nat) :
    encode .bfloatle .saturate f = (encode .bfloat .saturate f).map bswap16 := by
  simp only [encode, bfloatEnc_le, Except.map]

/-! ## 7. "a Dtype scale multiplies decoded values and divides values before encoding" -/

/-- `Dtype(name, scale=s)`: a zero scale (int 0, 0.0 or −0.0) is rejected with ValueError by both directions. -/
theorem scale_zero_rejected (n : Name) (mode : Mode) (s : Scale) (hz : s.isZero = true) (c f : Nat) :
    scaledDecode n s c = .error .value ∧ scaledEncode n mode s f = .error .value := by
  simp [scaledDecode, scaledEncode, hz]

/-- With a non-zero scale the getter is the float64 product of the unscaled decoded value and the scale. -/
theorem scaled_decode_multiplies (n : Name) (s : Scale) (hz : s.isZero = false) (c v : Nat)
    (hv : decode n c = .ok v) : scaledDecode n s c = .ok (f64Mul v s.toF64) := by
  simp [scaledDecode, hz, hv, Except.map]

/-- With a non-zero scale the setter encodes the float64 quotient `value / scale` with the unscaled encoder. -/
theorem scaled_encode_divides (n : Name) (mode : Mode) (s : Scale) (hz : s.isZero = false) (f q : Nat)
    (hq : f64Div f s.toF64 = some q) : scaledEncode n mode s f = encode n mode q := by
  simp [scaledEncode, hz, hq]

/-- `2.0 ** k` is exactly `2^k` for every normal exponent (the scale values the documentation recommends). -/
theorem pow2_scale_value (k : Int) (hlo : -1022 ≤ k) (hhi : k ≤ 1023) : f64Val (pow2F64 k) = .fin false 1 k :=
  pow2F64_val k hlo hhi

/-- `scaled_pow2_exact`, decode: with a scale equal to `2^k` (float or int), every code of every format whose value is
    the finite non-zero `(−1)^s·m·2^e` is parsed as exactly `(−1)^s·m·2^(e+k)`, provided that is a float64 (no
    enumeration; multiplication by a power of two is exact in the float model). -/
theorem scaled_pow2_decode_exact (n : Name) (sc : Scale) (k : Int) (hk : f64Val sc.toF64 = .fin false 1 k)
    (c v : Nat) (hv : decode n c = .ok v) (s : Bool) (m : Nat) (e : Int) (hval : f64Val v = .fin s m e) (hm : m ≠ 0)
    (hlo : -1074 ≤ e + k) (hhi : (ilog2 m : Int) + (e + k) ≤ 1023) :
    ∃ w, scaledDecode n sc c = .ok w ∧ f64Val w = .fin s m (e + k) :=
  scaledDecode_pow2_exact n sc k hk c v hv s m e hval hm hlo hhi

/-- `scaled_pow2_exact`, encode: `Dtype(name, scale=2^k).build(x)` encodes exactly `x·2^(−k)` with the unscaled encoder. -/
theorem scaled_pow2_encode_exact (n : Name) (mode : Mode) (sc : Scale) (k : Int)
    (hk : f64Val sc.toF64 = .fin false 1 k) (f : Nat) (s : Bool) (m : Nat) (e : Int)
    (hval : f64Val f = .fin s m e) (hm : m ≠ 0) (hlo : -1074 ≤ e - k) (hhi : (ilog2 m : Int) + (e - k) ≤ 1023) :
    ∃ q, f64Val q = .fin s m (e - k) ∧ scaledEncode n mode sc f = encode n mode q :=
  scaledEncode_pow2_exact n mode sc k hk f s m e hval hm hlo hhi

/-! ## Non-vacuity: the hypotheses above are satisfiable by concrete, non-trivial values -/

example : Name.fmt? .e4m3mxfp = some Fmt.e4m3 ∧ (0x7e : Nat) < 2 ^ Fmt.e4m3.width ∧ decodeSpec Fmt.e4m3 0x7e ≠ .nan ∧
    ¬ (Fmt.e4m3.kind = .e5m2 ∧ Mode.overflow = .saturate ∧ 0x7e % 128 = 0x7c) := by decide
example : decodeSpec Fmt.e4m3 0x7e = .fin false 7 6 := by decide +kernel          -- 448 = 7·2⁶
example : decodeSpec Fmt.p3 0x01 = .fin false 1 (-17) := by decide +kernel         -- smallest p3binary subnormal
example : decodeSpec Fmt.e5m2 0xfc = .inf true ∧ decodeSpec Fmt.p4 0x80 = .nan := by decide +kernel
example : Name.tbl? .e5m2mxfp .overflow = some .e5m2o := rfl
example : packIEEE 5 10 0x40effe0000000000 = none := by decide +kernel            -- 65520.0 raises OverflowError
example : packIEEE 5 10 0x40effdffffffffff = some 0x7bff := by decide +kernel     -- just below: rounds to 65504
/-- 2.5 lies exactly between 2.0 (code 4) and 3.0 (code 5) of e2m1: the even code wins. -/
example : IsNearestEven Fmt.e2m1 (5 * 2 ^ 23) 4 :=
  nearest_of_local (strictMono_all .e2m1) _ _ (by decide) (by decide +kernel)
example : Scale.isZero (.flt 0x8000000000000000) = true ∧ Scale.isZero (.int 1024) = false := by decide +kernel
example : f64Div 0x40b8000000000000 (Scale.toF64 (.int 1024)) = some 0x4018000000000000 := by decide +kernel  -- 6144/1024 = 6
example : f64Val (Scale.toF64 (.int 1024)) = .fin false 1 10 ∧ f64Val (Scale.toF64 (.flt (pow2F64 (-7)))) = .fin false 1 (-7) := by
  decide +kernel
example : mxintSpecOf (f64Val 0x3f80000000000001) = .ok 1 ∧ mxintSpecOf (f64Val 0x7ff0000000000000) = .ok 0x7f ∧
    mxintSpecOf (f64Val 0xc000000000000000) = .ok 0x80 := by decide +kernel

end BM.C11
