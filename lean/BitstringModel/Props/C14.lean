/-
  Props/C14.lean — Array = list of fixed-width items over one bit buffer: layout and the single-item operations.

  Standing hypotheses of the refinement theorems:
    `hu : c.mult = 1`   the dtype's unit is one bit (every registered dtype except `bytes`; see `bytes_dtype_witness`)
    `hL : 0 < c.L`      a non-degenerate item width
    `hwf : c.WF`        `|enc v| = w` and `dec (enc v) = v` for the values the dtype accepts
  so every statement holds for EVERY fixed-length dtype with these properties, not for a list of dtypes.
  (Slices: Props/C14_Slices.lean, operators and promotion: Props/C14_Ops.lean, whole histories: Props/C14_Sim.lean.)
-/
import BitstringModel.Model.C14
import BitstringModel.Proofs.C14
import BitstringModel.Proofs.C14Items

namespace BM.C14
open BM

variable {V : Type}

/-! ### layout: data = items' bits back to back, then the trailing bits -/

/-- "its data is always the concatenation of the items' encodings (item i occupies bits [i*w, (i+1)*w))
    followed by any trailing bits" — bit level, for every buffer and every width. -/
theorem data_layout (w : Nat) (hw : 0 < w) (d : Bits) :
    d = (chunks w d).flatten ++ trailing w d := by
  exact layout w d

theorem chunks_length (w : Nat) (hw : 0 < w) (d : Bits) : ∀ b ∈ chunks w d, b.length = w := by
  exact chunks_mem_length w hw d

theorem trailing_length_lt (w : Nat) (hw : 0 < w) (d : Bits) : (trailing w d).length < w := by
  exact trailing_lt w hw d

/-- The decomposition is unique: whatever list of `w`-bit blocks plus fewer than `w` bits makes up the data is
    the item view. -/
theorem layout_unique (w : Nat) (hw : 0 < w) (bs : List Bits) (t d : Bits)
    (hbs : ∀ b ∈ bs, b.length = w) (ht : t.length < w) (hd : d = bs.flatten ++ t) :
    chunks w d = bs ∧ trailing w d = t := by
  subst hd
  exact ⟨chunks_of_blocks w hw bs t hbs ht, trailing_of_blocks w hw bs t hbs ht⟩

/-- For a canonical codec the layout reads literally: `data = (items a).flatMap enc ++ trailing a`. -/
theorem data_layout_enc (c : Codec V) (hw : 0 < c.w) (hcanon : c.Canonical) (d : Bits) :
    ∃ bs, (items c d).mapM c.enc = .ok bs ∧ d = bs.flatten ++ trailing c.w d := by
  sorry

/-- Construction from an iterable: the data is the encodings back to back, then `trailing_bits`; the items are the
    values given (for any codec, canonical or not). -/
theorem init_list_layout (c : Codec V) (hu : c.mult = 1) (hL : 0 < c.L) (hwf : c.WF)
    (vals : List V) (t : Option Bits) (d : Bits) (h : init c (.list vals) t = .ok d) :
    ∃ bs, vals.mapM c.enc = .ok bs ∧ d = bs.flatten ++ t.getD [] ∧
      ((t.getD []).length < c.w → items c d = vals ∧ trailing c.w d = t.getD []) := by
  sorry

/-- Construction fails iff some value does not fit. -/
theorem init_list_error_iff (c : Codec V) (hu : c.mult = 1) (hwf : c.WF) (vals : List V) (t : Option Bits) :
    (∃ e, init c (.list vals) t = .error e) ↔ ∃ v ∈ vals, fits c v = false := by
  sorry

/-- The code's `trailing_bits` (`len % bitlength`, `data[-n:]`) is the SPEC trailing. -/
theorem trailingBits_eq (c : Codec V) (hw : 0 < c.w) (d : Bits) : trailingBits c d = trailing c.w d := by
  unfold trailingBits trailing
  have hdm := Nat.div_add_mod d.length c.w
  have hml := Nat.mod_lt d.length hw
  simp only
  split
  · rename_i h0
    have : c.w * (d.length / c.w) = d.length := by omega
    rw [this]; simp
  · rename_i h0
    unfold bslice Py.sliceIndices
    have h1 : (-((d.length % c.w : Nat) : Int) < 0) := by omega
    have h2 : ¬ ((1 : Int) < 0) := by omega
    simp only [h1, h2, if_true, if_false]
    have h3 : (max (-((d.length % c.w : Nat) : Int) + (d.length : Int)) 0).toNat = c.w * (d.length / c.w) := by omega
    rw [h3]
    apply List.take_of_length_le
    simp only [List.length_drop]
    omega

theorem len_eq (c : Codec V) (hu : c.mult = 1) (d : Bits) : len c d = (items c d).length := by
  simp [len, items, chunks_len, w_eq_L c hu]

/-- `tolist()`: the `range(0, len(data) - L + 1, L)` loop reads exactly the items. -/
theorem tolist_eq_items (c : Codec V) (hu : c.mult = 1) (hL : 0 < c.L) (d : Bits) :
    tolist c d = .ok (items c d) := by
  obtain ⟨bs, t, hbs, ht, rfl, hch, htr, hlen, hit⟩ := blocks_view c hu hL d
  unfold tolist Py.rangeList
  have hl : (bs.flatten ++ t).length = bs.length * c.L + t.length := by
    rw [List.length_append, blocks_flatten_length c.L bs hbs]
  rw [hl, rangeLen_tolist bs.length c.L t.length hL ht, hit]
  rw [mapM_except_ok _ (fun s => c.dec ((bs.flatten ++ t).drop s.toNat |>.take c.L))]
  · congr 1
    apply List.ext_getElem
    · simp
    · intro i h1 h2
      simp only [List.length_map, List.length_range] at h1 h2
      simp only [List.getElem_map, List.getElem_range]
      rw [toNat_zero_add_mul, block_at c.L bs t hbs i h2]
  · intro s hs
    simp only [List.mem_map, List.mem_range] at hs
    obtain ⟨k, hk, rfl⟩ := hs
    rw [toNat_zero_add_mul, Nat.mul_comm k c.L, readAt_block c hu bs t hbs k hk]
    rw [Nat.mul_comm c.L k, block_at c.L bs t hbs k hk]

/-- Iteration (`start += L` generator) yields exactly the items. -/
theorem iter_eq_items (c : Codec V) (hu : c.mult = 1) (hL : 0 < c.L) (d : Bits) :
    iter c d = .ok (items c d) := by
  obtain ⟨bs, t, hbs, ht, rfl, hch, htr, hlen, hit⟩ := blocks_view c hu hL d
  unfold iter
  have h := iterLoop_blocks c hu bs t hbs bs.length 0 (by omega)
  rw [Nat.mul_zero] at h
  rw [hlen, h, hit]
  simp only [List.drop_zero, List.take_length]
  have : (bs.map fun b => (Except.ok (c.dec b) : Except Err V)) = (bs.map c.dec).map (fun x => Except.ok x) := by
    simp
  rw [this, mapM_id_ok]

/-! ### a[i], a[i] = v, del a[i] -/

/-- Indexing = Python list indexing (negative from the end, IndexError outside). -/
theorem getItem_refines (c : Codec V) (hu : c.mult = 1) (hL : 0 < c.L) (d : Bits) (i : Int) :
    getItem c d i = Py.getIndex (items c d) i := by
  obtain ⟨bs, t, hbs, ht, rfl, hch, htr, hlen, hit⟩ := blocks_view c hu hL d
  unfold getItem
  rw [hit, hlen]
  cases hn : normIndex bs.length i with
  | error e =>
    obtain ⟨rfl, hr⟩ := normIndex_err _ _ _ hn
    simp only
    unfold Py.getIndex
    simp only [List.length_map]
    generalize (if i < 0 then i + (bs.length : Int) else i) = j at hr ⊢
    by_cases hj : j < 0
    · simp [hj]
    · have : (List.map c.dec bs)[j.toNat]? = none := by
        apply List.getElem?_eq_none; simp; omega
      simp [hj, this]
  | ok k =>
    obtain ⟨hk, hkj⟩ := normIndex_ok _ _ _ hn
    simp only
    rw [readAt_block c hu bs t hbs k hk]
    unfold Py.getIndex
    simp only [List.length_map]
    generalize (if i < 0 then i + (bs.length : Int) else i) = j at hkj ⊢
    have hj : ¬ j < 0 := by omega
    have hjk : j.toNat = k := by omega
    simp [hj, hjk, hk]

/-- Item assignment = list item assignment, for a value that fits. -/
theorem setItem_refines (c : Codec V) (hu : c.mult = 1) (hL : 0 < c.L) (hwf : c.WF) (d : Bits) (i : Int) (v : V)
    (hv : fits c v = true) :
    (setItem c d i v).view c = (PyL.setIndex (items c d) i v).map fun l => ((), l) := by
  obtain ⟨bs, t, hbs, ht, rfl, hch, htr, hlen, hit⟩ := blocks_view c hu hL d
  obtain ⟨b, hb⟩ := (fits_iff c v).mp hv
  obtain ⟨hce, hbl, hdec⟩ := createElement_ok c hu hwf v b hb
  rw [hit]
  cases hn : normIndex bs.length i with
  | error e =>
    obtain ⟨rfl, hr⟩ := normIndex_err _ _ _ hn
    have hs : setItem c (bs.flatten ++ t) i v = ⟨bs.flatten ++ t, .error .index⟩ := by
      unfold setItem; rw [hlen, hn]
    rw [hs]
    unfold PyL.setIndex Step.view
    simp only [List.length_map]
    generalize (if i < 0 then i + (bs.length : Int) else i) = j at hr ⊢
    have : j < 0 ∨ (bs.length : Int) ≤ j := by omega
    simp [this, Except.map]
  | ok k =>
    obtain ⟨hk, hkj⟩ := normIndex_ok _ _ _ hn
    rw [setItem_blocks c hu hL hwf bs t hbs ht i v b hb k hn]
    unfold PyL.setIndex Step.view
    simp only [List.length_map]
    rw [(view_of_blocks c hu hL (bs.set k b) t (set_blocks_length c.L bs b hbs hbl k) ht).1]
    generalize (if i < 0 then i + (bs.length : Int) else i) = j at hkj ⊢
    have h1 : ¬ (j < 0 ∨ (bs.length : Int) ≤ j) := by omega
    have h2 : j.toNat = k := by omega
    simp [h1, h2, Except.map, List.map_set, hdec]

/-- … and the trailing bits are untouched (whatever the index and the value). -/
theorem setItem_trailing (c : Codec V) (hu : c.mult = 1) (hL : 0 < c.L) (hwf : c.WF) (d : Bits) (i : Int) (v : V) :
    trailing c.w (setItem c d i v).data = trailing c.w d := by
  obtain ⟨bs, t, hbs, ht, rfl, hch, htr, hlen, hit⟩ := blocks_view c hu hL d
  unfold setItem
  rw [hlen]
  cases hn : normIndex bs.length i with
  | error e => rfl
  | ok k =>
    obtain ⟨hk, _⟩ := normIndex_ok _ _ _ hn
    simp only
    cases hce : createElement c v with
    | error e => rfl
    | ok b =>
      obtain ⟨_, hbl⟩ := createElement_ok_inv c v b hce
      simp only
      rw [overwrite_block c.L hL bs t b hbs hbl k hk]
      simp only
      rw [htr]
      exact (view_of_blocks c hu hL (bs.set k b) t (set_blocks_length c.L bs b hbs hbl k) ht).2.1

/-- A rejected assignment (bad index or a value that does not fit) changes nothing. -/
theorem setItem_error_unchanged (c : Codec V) (d : Bits) (i : Int) (v : V) (e : Err)
    (h : (setItem c d i v).res = .error e) : (setItem c d i v).data = d := by
  revert h
  unfold setItem
  split
  · intro _; rfl
  · split
    · intro _; rfl
    · split
      · intro _; rfl
      · intro h; cases h

theorem setItem_rejects (c : Codec V) (d : Bits) (i : Int) (v : V) (hv : fits c v = false) :
    ∃ e, (setItem c d i v).res = .error e := by
  obtain ⟨e, he⟩ := (fits_false_iff c v).mp hv
  unfold setItem
  cases hn : normIndex (len c d) i with
  | error e' => exact ⟨e', rfl⟩
  | ok k =>
    simp only [createElement_err c v e he]
    exact ⟨e, rfl⟩

theorem delItem_refines (c : Codec V) (hu : c.mult = 1) (hL : 0 < c.L) (d : Bits) (i : Int) :
    (delItem c d i).view c = (PyL.delIndex (items c d) i).map fun l => ((), l) := by
  sorry

theorem delItem_trailing (c : Codec V) (hu : c.mult = 1) (hL : 0 < c.L) (d : Bits) (i : Int) :
    trailing c.w (delItem c d i).data = trailing c.w d := by
  sorry

theorem delItem_error_unchanged (c : Codec V) (d : Bits) (i : Int) (e : Err)
    (h : (delItem c d i).res = .error e) : (delItem c d i).data = d := by
  sorry

/-! ### append, extend -/

theorem append_refines (c : Codec V) (hu : c.mult = 1) (hL : 0 < c.L) (hwf : c.WF) (d : Bits) (v : V)
    (hv : fits c v = true) (ht : trailing c.w d = []) :
    (append c d v).view c = .ok ((), items c d ++ [v]) ∧ trailing c.w (append c d v).data = [] := by
  sorry

/-- With trailing bits, or with a value that does not fit, `append` raises and changes nothing. -/
theorem append_rejects (c : Codec V) (hu : c.mult = 1) (hL : 0 < c.L) (d : Bits) (v : V)
    (h : trailing c.w d ≠ [] ∨ fits c v = false) :
    (∃ e, (append c d v).res = .error e) ∧ (append c d v).data = d := by
  sorry

theorem extendIter_refines (c : Codec V) (hu : c.mult = 1) (hL : 0 < c.L) (hwf : c.WF) (d : Bits) (vals : List V)
    (hv : vals.all (fits c) = true) (ht : trailing c.w d = []) :
    (extendIter c d vals).view c = .ok ((), items c d ++ vals) ∧ trailing c.w (extendIter c d vals).data = [] := by
  sorry

theorem extendIter_trailing_rejects (c : Codec V) (hu : c.mult = 1) (hL : 0 < c.L) (d : Bits) (vals : List V)
    (ht : trailing c.w d ≠ []) :
    (extendIter c d vals).res = .error .value ∧ (extendIter c d vals).data = d := by
  sorry

/-- `extend(other_Array)` of the same dtype: the other's items are appended, and its trailing bits become ours. -/
theorem extendArr_refines (c c2 : Codec V) (hu : c.mult = 1) (hL : 0 < c.L) (d d2 : Bits)
    (hsame : c.name = c2.name ∧ c.L = c2.L) (ht : trailing c.w d = []) :
    (extendArr c d c2 d2).view c = .ok ((), items c d ++ items c d2) ∧
    trailing c.w (extendArr c d c2 d2).data = trailing c.w d2 := by
  sorry

theorem extendArr_rejects (c c2 : Codec V) (hu : c.mult = 1) (hL : 0 < c.L) (d d2 : Bits)
    (h : trailing c.w d ≠ [] ∨ c.name ≠ c2.name ∨ c.L ≠ c2.L) :
    (∃ e, (extendArr c d c2 d2).res = .error e) ∧ (extendArr c d c2 d2).data = d := by
  sorry

/-- `extend(array.array)`: when the dtype of the typecode matches ours and its standard size is the array's native
    item size (outside the region `extend_array_itemsize`), the array's items — `raw` read at our width — are appended. -/
theorem extendBuf_refines_partial (c : Codec V) (hu : c.mult = 1) (hL : 0 < c.L) (d raw : Bits) (name2 : String) (L2 native : Nat)
    (hreg : extend_array_itemsize (some (name2, L2)) native = false)
    (hsame : c.name = name2 ∧ c.L = L2) (ht : trailing c.w d = []) :
    native = c.w ∧
    (extendBuf c d (some (name2, L2)) native raw).view c = .ok ((), items c d ++ items c raw) := by
  sorry

/-- Known finding `extend-array-itemsize`: `array.array('l', [1])` holds one 16-bit item on a platform where the standard
    size of `'l'` is 8 bits (scaled down from 64 / 32): an `intle8` Array accepts it and reads two items `[1, 0]`. -/
theorem extend_array_itemsize_witness :
    let c := mkCodec .ile "intle" 8 1 .int true
    let raw := [false, false, false, false, false, false, false, true, false, false, false, false, false, false, false, false]
    extend_array_itemsize (some ("intle", 8)) 16 = true ∧
    items c (extendBuf c [] (some ("intle", 8)) 16 raw).data = [.int 1, .int 0] ∧
    (chunks 16 raw).length = 1 := by
  decide

/-! ### insert, pop -/

/-- `insert(i, x)` = `list.insert(i, x)` with the trailing bits untouched — outside the region `insert_negative`
    (negative index with trailing bits present, or below `-len`).  Full statement (no `hreg`) fails on the pinned
    tree: see `insert_negative_witness`. -/
theorem insert_refines_partial (c : Codec V) (hu : c.mult = 1) (hL : 0 < c.L) (hwf : c.WF) (d : Bits) (i : Int) (v : V)
    (hv : fits c v = true) (hreg : insert_negative c d i = false) :
    (insert c d i v).view c = .ok ((), PyL.insert (items c d) i v) ∧
    trailing c.w (insert c d i v).data = trailing c.w d := by
  sorry

theorem insert_rejects (c : Codec V) (d : Bits) (i : Int) (v : V) (hv : fits c v = false) :
    (∃ e, (insert c d i v).res = .error e) ∧ (insert c d i v).data = d := by
  sorry

/-- Known finding `insert-negative`: on `Array('uint2', [1, 0], trailing_bits='0b1')`, `insert(-1, 3)` lands inside
    item 1 (list model: `[1, 3, 0]`; code: `[1, 1, 2]`), and `Array('uint2', [1]).insert(-2, 3)` raises where the list
    model inserts at position 0. -/
theorem insert_negative_witness :
    let c := mkCodec .u "uint" 2 1 .int false
    insert_negative c [false, true, false, false, true] (-1) = true ∧
    items c (insert c [false, true, false, false, true] (-1) (.int 3)).data = [.int 1, .int 1, .int 2] ∧
    PyL.insert (items c [false, true, false, false, true]) (-1) (.int 3) = [.int 1, .int 3, .int 0] ∧
    insert_negative c [false, true] (-2) = true ∧
    (insert c [false, true] (-2) (.int 3)).res = .error .value ∧
    PyL.insert (items c [false, true]) (-2) (.int 3) = [.int 3, .int 1] := by
  decide

theorem pop_refines (c : Codec V) (hu : c.mult = 1) (hL : 0 < c.L) (d : Bits) (i : Int) :
    (pop c d i).view c = PyL.pop (items c d) i := by
  sorry

theorem pop_trailing (c : Codec V) (hu : c.mult = 1) (hL : 0 < c.L) (d : Bits) (i : Int) :
    trailing c.w (pop c d i).data = trailing c.w d := by
  sorry

theorem pop_error_unchanged (c : Codec V) (d : Bits) (i : Int) (e : Err)
    (h : (pop c d i).res = .error e) : (pop c d i).data = d := by
  sorry

/-! ### count, equals, copy, dtype change -/

/-- `count(value)` = `list.count(value)` for a value `math.isnan` accepts and that is not NaN — outside the region
    `count_nonnumeric`. -/
theorem count_refines_partial (c : Codec V) (vo : ValOps V) (hu : c.mult = 1) (hL : 0 < c.L) (d : Bits) (value : V)
    (hnan : vo.isnan value = .ok false) :
    count c vo d value = .ok ((items c d).countP fun i => vo.eq i value) := by
  sorry

/-- `count(nan)` counts the NaN items (documented). -/
theorem count_nan (c : Codec V) (vo : ValOps V) (hu : c.mult = 1) (hL : 0 < c.L) (d : Bits) (value : V)
    (hnan : vo.isnan value = .ok true) :
    count c vo d value = .ok ((items c d).countP fun i => match vo.isnan i with | .ok b => b | .error _ => false) := by
  sorry

/-- Known finding `count-nonnumeric`: `Array('hex4', ['e']).count('e')` raises TypeError, `['e'].count('e')` is 1. -/
theorem count_nonnumeric_witness :
    let c := mkCodec .raw "hex" 4 1 .other false
    let v := Val.raw [true, true, true, false]
    count_nonnumeric (valOps c) v = true ∧
    count c (valOps c) [true, true, true, false] v = .error .type ∧
    (items c [true, true, true, false]).countP (fun i => (valOps c).eq i v) = 1 := by
  decide

/-- `equals`: same dtype and same data; for a canonical codec that is "same items and same trailing bits". -/
theorem equals_iff (c c2 : Codec V) (d d2 : Bits) :
    equals c d c2 d2 = true ↔ (c.L = c2.L ∧ c.name = c2.name ∧ d = d2) := by
  sorry

theorem equals_iff_items (c : Codec V) (hw : 0 < c.w) (hcanon : c.Canonical) (d d2 : Bits) :
    equals c d c d2 = true ↔ (items c d = items c d2 ∧ trailing c.w d = trailing c.w d2) := by
  sorry

/-- "changing dtype re-reads the same data without altering it": the data is the same object content, the new
    item view is the chunking of that same data at the new width, and changing back restores the Array. -/
theorem dtype_change_keeps_data (a : Arr V) (c2 : Codec V) (hw : 0 < c2.w) :
    (a.setDtype c2).d = a.d ∧
    a.d = (chunks c2.w a.d).flatten ++ trailing c2.w a.d ∧
    items c2 (a.setDtype c2).d = (chunks c2.w a.d).map c2.dec ∧
    (a.setDtype c2).setDtype a.c = a := by
  sorry

/-! ### the `bytes` dtypes: `dtype.length` counts bytes, the code uses it as a bit count -/

/-- Known finding `bytes-length-vs-bitlength`: with `mult = 8` no element can be created
    (`Array('bytes3', [b'ABC'])` raises although the value fits) and `len` counts `L`-bit units. -/
theorem bytes_dtype_witness :
    let c := mkCodec .raw "bytes" 1 8 .other false
    let v := Val.raw [false, true, false, false, false, false, false, true]
    bytes_dtype c = true ∧ fits c v = true ∧
    init c (.list [v]) none = .error .value ∧
    len c [false, true, false, false, false, false, false, true] = 8 ∧
    (items c [false, true, false, false, false, false, false, true]).length = 1 := by
  decide

/-- In that region every value that fits is rejected by `_create_element` (a non-empty item is never `L` bits long
    when `L < L * mult`). -/
theorem bytes_dtype_rejects_all (c : Codec V) (hwf : c.WF) (hL : 0 < c.L) (hm : 1 < c.mult) (v : V) :
    ∃ e, createElement c v = .error e := by
  sorry

/-! ### non-vacuity -/
example : (mkCodec .u "uint" 3 1 .int false).WF := by
  constructor <;> sorry
example : (mkCodec .i "int" 4 1 .int true).WF := by
  constructor <;> sorry
example : items (mkCodec .u "uint" 3 1 .int false) [true, false, true, false, true, true, true] = [.int 5, .int 3] := by decide
example : trailing 3 [true, false, true, false, true, true, true] = [true] := by decide
example : (setItem (mkCodec .i "int" 4 1 .int true) [true, false, true, false, true, true, true, true, false] (-1) (.int (-8))).data
    = [true, false, true, false, true, false, false, false, false] := by decide
example : fits (mkCodec .u "uint" 3 1 .int false) (.int 8) = false ∧ fits (mkCodec .u "uint" 3 1 .int false) (.int 7) = true := by decide

end BM.C14
