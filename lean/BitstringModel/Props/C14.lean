/-
  Props/C14.lean — Array = list of fixed-width items over one bit buffer: layout and the single-item operations.

  Standing hypotheses of the refinement theorems:
    `hL : 0 < c.w`      a non-degenerate item width (`w = L * mult` bits: every multiplier, so `bytesN` too)
    `hwf : c.WF`        `|enc v| = w` and `dec (enc v) = v` for the values the dtype accepts
  so every statement holds for EVERY fixed-length dtype with these properties, not for a list of dtypes.
  (Slices: Props/C14_Slices.lean, operators and promotion: Props/C14_Ops.lean, whole histories: Props/C14_Sim.lean.)
-/
import BitstringModel.Model.C14
import BitstringModel.Proofs.C14
import BitstringModel.Proofs.C14Items

namespace BM.C14
open BM

variable {V : Type}

/-! ### layout: data = items' bits back to back, then the trailing bits -/

/-- "its data is always the concatenation of the items' encodings (item i occupies bits [i*w, (i+1)*w))
    followed by any trailing bits" — bit level, for every buffer and every width. -/
theorem data_layout (w : Nat) (hw : 0 < w) (d : Bits) :
    d = (chunks w d).flatten ++ trailing w d := by
  exact layout w d

theorem chunks_length (w : Nat) (hw : 0 < w) (d : Bits) : ∀ b ∈ chunks w d, b.length = w := by
  exact chunks_mem_length w hw d

theorem trailing_length_lt (w : Nat) (hw : 0 < w) (d : Bits) : (trailing w d).length < w := by
  exact trailing_lt w hw d

/-- The decomposition is unique: whatever list of `w`-bit blocks plus fewer than `w` bits makes up the data is
    the item view. -/
theorem layout_unique (w : Nat) (hw : 0 < w) (bs : List Bits) (t d : Bits)
    (hbs : ∀ b ∈ bs, b.length = w) (ht : t.length < w) (hd : d = bs.flatten ++ t) :
    chunks w d = bs ∧ trailing w d = t := by
  subst hd
  exact ⟨chunks_of_blocks w hw bs t hbs ht, trailing_of_blocks w hw bs t hbs ht⟩

/-- For a canonical codec the layout reads literally: `data = (items a).flatMap enc ++ trailing a`. -/
theorem data_layout_enc (c : Codec V) (hw : 0 < c.w) (hcanon : c.Canonical) (d : Bits) :
    ∃ bs, (items c d).mapM c.enc = .ok bs ∧ d = bs.flatten ++ trailing c.w d := by
  refine ⟨chunks c.w d, ?_, layout c.w d⟩
  exact mapM_enc_dec c hcanon _ (chunks_mem_length c.w hw d)

/-- Construction from an iterable: the data is the encodings back to back, then `trailing_bits`; the items are the
    values given (for any codec, canonical or not). -/
theorem init_list_layout (c : Codec V) (hL : 0 < c.w) (hwf : c.WF)
    (vals : List V) (t : Option Bits) (d : Bits) (h : init c (.list vals) t = .ok d) :
    ∃ bs, vals.mapM c.enc = .ok bs ∧ d = bs.flatten ++ t.getD [] ∧
      ((t.getD []).length < c.w → items c d = vals ∧ trailing c.w d = t.getD []) := by
  unfold init at h
  simp only at h
  have h0 : ([] : Bits).length % c.w = 0 := by simp
  cases hall : vals.all (fits c) with
  | false =>
    obtain ⟨e, he⟩ := extendLoop_err c hwf vals [] hall
    have : (extendIter c [] vals).res = .error e := by
      unfold extendIter; rw [if_neg (not_not.mpr h0)]; exact he
    rw [this] at h
    cases t <;> simp at h
  | true =>
    obtain ⟨bl, hf, hbl, hdec, hm, _⟩ := encs_of_fits c hwf vals hall
    have hs : extendIter c [] vals = ⟨bl.flatten, .ok ()⟩ := by
      unfold extendIter; rw [if_neg (not_not.mpr h0), extendLoop_blocks c hwf vals bl hf]; simp
    rw [hs] at h
    refine ⟨bl, hm, ?_, ?_⟩
    · cases t with
      | none => simp at h; simp [← h]
      | some t => simp at h; simp [← h]
    · intro ht
      have hd : d = bl.flatten ++ t.getD [] := by
        cases t with
        | none => simp at h; simp [← h]
        | some t => simp at h; simp [← h]
      rw [hd]
      have hv' := view_of_blocks c hL bl (t.getD []) hbl ht
      exact ⟨by rw [hv'.1, hdec], hv'.2.1⟩

/-- Construction fails iff some value does not fit. -/
theorem init_list_error_iff (c : Codec V) (hwf : c.WF) (vals : List V) (t : Option Bits) :
    (∃ e, init c (.list vals) t = .error e) ↔ ∃ v ∈ vals, fits c v = false := by
  have h0 : ([] : Bits).length % c.w = 0 := by simp
  constructor
  · rintro ⟨e, he⟩
    by_contra hne
    have hall : vals.all (fits c) = true := by
      rw [List.all_eq_true]
      intro v hv
      by_contra hv'
      exact hne ⟨v, hv, by simpa using hv'⟩
    obtain ⟨bl, hf, _, _, _, _⟩ := encs_of_fits c hwf vals hall
    have hs : extendIter c [] vals = ⟨bl.flatten, .ok ()⟩ := by
      unfold extendIter; rw [if_neg (not_not.mpr h0), extendLoop_blocks c hwf vals bl hf]; simp
    unfold init at he
    simp only [hs] at he
    cases t <;> simp at he
  · rintro ⟨v, hv, hfv⟩
    have hall : vals.all (fits c) = false := by
      rw [List.all_eq_false]
      exact ⟨v, hv, by simp [hfv]⟩
    obtain ⟨e, he⟩ := extendLoop_err c hwf vals [] hall
    have : (extendIter c [] vals).res = .error e := by
      unfold extendIter; rw [if_neg (not_not.mpr h0)]; exact he
    unfold init
    simp only [this]
    cases t <;> exact ⟨e, rfl⟩

/-- The code's `trailing_bits` (`len % bitlength`, `data[-n:]`) is the SPEC trailing. -/
theorem trailingBits_eq (c : Codec V) (hw : 0 < c.w) (d : Bits) : trailingBits c d = trailing c.w d := by
  unfold trailingBits trailing
  have hdm := Nat.div_add_mod d.length c.w
  have hml := Nat.mod_lt d.length hw
  simp only
  split
  · rename_i h0
    have : c.w * (d.length / c.w) = d.length := by omega
    rw [this]; simp
  · rename_i h0
    unfold bslice Py.sliceIndices
    have h1 : (-((d.length % c.w : Nat) : Int) < 0) := by omega
    have h2 : ¬ ((1 : Int) < 0) := by omega
    simp only [h1, h2, if_true, if_false]
    have h3 : (max (-((d.length % c.w : Nat) : Int) + (d.length : Int)) 0).toNat = c.w * (d.length / c.w) := by omega
    rw [h3]
    apply List.take_of_length_le
    simp only [List.length_drop]
    omega

theorem len_eq (c : Codec V) (d : Bits) : len c d = (items c d).length := by
  simp [len, items, chunks_len]

/-- `tolist()`: the `range(0, len(data) - L + 1, L)` loop reads exactly the items. -/
theorem tolist_eq_items (c : Codec V) (hL : 0 < c.w) (d : Bits) :
    tolist c d = .ok (items c d) := by
  obtain ⟨bs, t, hbs, ht, rfl, hch, htr, hlen, hit⟩ := blocks_view c hL d
  unfold tolist Py.rangeList
  have hl : (bs.flatten ++ t).length = bs.length * c.w + t.length := by
    rw [List.length_append, blocks_flatten_length c.w bs hbs]
  rw [hl, rangeLen_tolist bs.length c.w t.length hL ht, hit]
  rw [mapM_except_ok _ (fun s => c.dec ((bs.flatten ++ t).drop s.toNat |>.take c.w))]
  · congr 1
    apply List.ext_getElem
    · simp
    · intro i h1 h2
      simp only [List.length_map, List.length_range] at h1 h2
      simp only [List.getElem_map, List.getElem_range]
      rw [toNat_zero_add_mul, block_at c.w bs t hbs i h2]
  · intro s hs
    simp only [List.mem_map, List.mem_range] at hs
    obtain ⟨k, hk, rfl⟩ := hs
    rw [toNat_zero_add_mul, Nat.mul_comm k c.w, readAt_block c bs t hbs k hk]
    rw [Nat.mul_comm c.w k, block_at c.w bs t hbs k hk]

/-- Iteration (`start += L` generator) yields exactly the items. -/
theorem iter_eq_items (c : Codec V) (hL : 0 < c.w) (d : Bits) :
    iter c d = .ok (items c d) := by
  obtain ⟨bs, t, hbs, ht, rfl, hch, htr, hlen, hit⟩ := blocks_view c hL d
  unfold iter
  have h := iterLoop_blocks c bs t hbs bs.length 0 (by omega)
  rw [Nat.mul_zero] at h
  rw [hlen, h, hit]
  simp only [List.drop_zero, List.take_length]
  have : (bs.map fun b => (Except.ok (c.dec b) : Except Err V)) = (bs.map c.dec).map (fun x => Except.ok x) := by
    simp
  rw [this, mapM_id_ok]

/-! ### a[i], a[i] = v, del a[i] -/

/-- Indexing = Python list indexing (negative from the end, IndexError outside). -/
theorem getItem_refines (c : Codec V) (hL : 0 < c.w) (d : Bits) (i : Int) :
    getItem c d i = Py.getIndex (items c d) i := by
  obtain ⟨bs, t, hbs, ht, rfl, hch, htr, hlen, hit⟩ := blocks_view c hL d
  unfold getItem
  rw [hit, hlen]
  cases hn : normIndex bs.length i with
  | error e =>
    obtain ⟨rfl, hr⟩ := normIndex_err _ _ _ hn
    simp only
    unfold Py.getIndex
    simp only [List.length_map]
    generalize (if i < 0 then i + (bs.length : Int) else i) = j at hr ⊢
    by_cases hj : j < 0
    · simp [hj]
    · have : (List.map c.dec bs)[j.toNat]? = none := by
        apply List.getElem?_eq_none; simp; omega
      simp [hj, this]
  | ok k =>
    obtain ⟨hk, hkj⟩ := normIndex_ok _ _ _ hn
    simp only
    rw [readAt_block c bs t hbs k hk]
    unfold Py.getIndex
    simp only [List.length_map]
    generalize (if i < 0 then i + (bs.length : Int) else i) = j at hkj ⊢
    have hj : ¬ j < 0 := by omega
    have hjk : j.toNat = k := by omega
    simp [hj, hjk, hk]

/-- Item assignment = list item assignment, for a value that fits. -/
theorem setItem_refines (c : Codec V) (hL : 0 < c.w) (hwf : c.WF) (d : Bits) (i : Int) (v : V)
    (hv : fits c v = true) :
    (setItem c d i v).view c = (PyL.setIndex (items c d) i v).map fun l => ((), l) := by
  obtain ⟨bs, t, hbs, ht, rfl, hch, htr, hlen, hit⟩ := blocks_view c hL d
  obtain ⟨b, hb⟩ := (fits_iff c v).mp hv
  obtain ⟨hce, hbl, hdec⟩ := createElement_ok c hwf v b hb
  rw [hit]
  cases hn : normIndex bs.length i with
  | error e =>
    obtain ⟨rfl, hr⟩ := normIndex_err _ _ _ hn
    have hs : setItem c (bs.flatten ++ t) i v = ⟨bs.flatten ++ t, .error .index⟩ := by
      unfold setItem; rw [hlen, hn]
    rw [hs]
    unfold PyL.setIndex Step.view
    simp only [List.length_map]
    generalize (if i < 0 then i + (bs.length : Int) else i) = j at hr ⊢
    have : j < 0 ∨ (bs.length : Int) ≤ j := by omega
    simp [this, Except.map]
  | ok k =>
    obtain ⟨hk, hkj⟩ := normIndex_ok _ _ _ hn
    rw [setItem_blocks c hL hwf bs t hbs ht i v b hb k hn]
    unfold PyL.setIndex Step.view
    simp only [List.length_map]
    rw [(view_of_blocks c hL (bs.set k b) t (set_blocks_length c.w bs b hbs hbl k) ht).1]
    generalize (if i < 0 then i + (bs.length : Int) else i) = j at hkj ⊢
    have h1 : ¬ (j < 0 ∨ (bs.length : Int) ≤ j) := by omega
    have h2 : j.toNat = k := by omega
    simp [h1, h2, Except.map, List.map_set, hdec]

/-- … and the trailing bits are untouched (whatever the index and the value). -/
theorem setItem_trailing (c : Codec V) (hL : 0 < c.w) (hwf : c.WF) (d : Bits) (i : Int) (v : V) :
    trailing c.w (setItem c d i v).data = trailing c.w d := by
  obtain ⟨bs, t, hbs, ht, rfl, hch, htr, hlen, hit⟩ := blocks_view c hL d
  unfold setItem
  rw [hlen]
  cases hn : normIndex bs.length i with
  | error e => rfl
  | ok k =>
    obtain ⟨hk, _⟩ := normIndex_ok _ _ _ hn
    simp only
    cases hce : createElement c v with
    | error e => rfl
    | ok b =>
      obtain ⟨_, hbl⟩ := createElement_ok_inv c v b hce
      simp only
      rw [overwrite_block c.w hL bs t b hbs hbl k hk]
      simp only
      rw [htr]
      exact (view_of_blocks c hL (bs.set k b) t (set_blocks_length c.w bs b hbs hbl k) ht).2.1

/-- A rejected assignment (bad index or a value that does not fit) changes nothing. -/
theorem setItem_error_unchanged (c : Codec V) (d : Bits) (i : Int) (v : V) (e : Err)
    (h : (setItem c d i v).res = .error e) : (setItem c d i v).data = d := by
  revert h
  unfold setItem
  split
  · intro _; rfl
  · split
    · intro _; rfl
    · split
      · intro _; rfl
      · intro h; cases h

theorem setItem_rejects (c : Codec V) (d : Bits) (i : Int) (v : V) (hv : fits c v = false) :
    ∃ e, (setItem c d i v).res = .error e := by
  obtain ⟨e, he⟩ := (fits_false_iff c v).mp hv
  unfold setItem
  cases hn : normIndex (len c d) i with
  | error e' => exact ⟨e', rfl⟩
  | ok k =>
    simp only [createElement_err c v e he]
    exact ⟨e, rfl⟩

theorem delItem_refines (c : Codec V) (hL : 0 < c.w) (d : Bits) (i : Int) :
    (delItem c d i).view c = (PyL.delIndex (items c d) i).map fun l => ((), l) := by
  obtain ⟨bs, t, hbs, ht, rfl, hch, htr, hlen, hit⟩ := blocks_view c hL d
  rw [hit]
  cases hn : normIndex bs.length i with
  | error e =>
    obtain ⟨rfl, hr⟩ := normIndex_err _ _ _ hn
    have hs : delItem c (bs.flatten ++ t) i = ⟨bs.flatten ++ t, .error .index⟩ := by
      unfold delItem; rw [hlen, hn]
    rw [hs]
    unfold PyL.delIndex Step.view
    simp only [List.length_map]
    generalize (if i < 0 then i + (bs.length : Int) else i) = j at hr ⊢
    have : j < 0 ∨ (bs.length : Int) ≤ j := by omega
    simp [this, Except.map]
  | ok k =>
    obtain ⟨hk, hkj⟩ := normIndex_ok _ _ _ hn
    rw [delItem_blocks c hL bs t hbs ht i k hn]
    unfold PyL.delIndex Step.view
    simp only [List.length_map]
    rw [(view_of_blocks c hL (bs.eraseIdx k) t (erase_blocks_length c.w bs hbs k) ht).1]
    generalize (if i < 0 then i + (bs.length : Int) else i) = j at hkj ⊢
    have h1 : ¬ (j < 0 ∨ (bs.length : Int) ≤ j) := by omega
    have h2 : j.toNat = k := by omega
    simp [h1, h2, Except.map, map_eraseIdx']

theorem delItem_trailing (c : Codec V) (hL : 0 < c.w) (d : Bits) (i : Int) :
    trailing c.w (delItem c d i).data = trailing c.w d := by
  obtain ⟨bs, t, hbs, ht, rfl, hch, htr, hlen, hit⟩ := blocks_view c hL d
  cases hn : normIndex bs.length i with
  | error e =>
    have hs : delItem c (bs.flatten ++ t) i = ⟨bs.flatten ++ t, .error e⟩ := by
      unfold delItem; rw [hlen, hn]
    rw [hs]
  | ok k =>
    rw [delItem_blocks c hL bs t hbs ht i k hn, htr]
    exact (view_of_blocks c hL (bs.eraseIdx k) t (erase_blocks_length c.w bs hbs k) ht).2.1

theorem delItem_error_unchanged (c : Codec V) (d : Bits) (i : Int) (e : Err)
    (h : (delItem c d i).res = .error e) : (delItem c d i).data = d := by
  revert h
  unfold delItem
  split
  · intro _; rfl
  · intro h; cases h

/-! ### append, extend -/

theorem append_refines (c : Codec V) (hL : 0 < c.w) (hwf : c.WF) (d : Bits) (v : V)
    (hv : fits c v = true) (ht : trailing c.w d = []) :
    (append c d v).view c = .ok ((), items c d ++ [v]) ∧ trailing c.w (append c d v).data = [] := by
  obtain ⟨bs, t, hbs, ht', rfl, hch, htr, hlen, hit⟩ := blocks_view c hL d
  rw [htr] at ht
  subst ht
  obtain ⟨b, hb⟩ := (fits_iff c v).mp hv
  obtain ⟨hce, hbl, hdec⟩ := createElement_ok c hwf v b hb
  have hm : (bs.flatten ++ ([] : Bits)).length % c.w = 0 := by
    rw [List.append_nil, blocks_flatten_length c.w bs hbs]; exact Nat.mul_mod_left _ _
  have hs : append c (bs.flatten ++ []) v = ⟨(bs ++ [b]).flatten ++ [], .ok ()⟩ := by
    unfold append
    rw [if_neg (not_not.mpr hm)]
    simp only [hce]
    simp
  have hbs' := append_blocks_length c.w bs [b] hbs (by simpa using hbl)
  have hv' := view_of_blocks c hL (bs ++ [b]) [] hbs' ht'
  rw [hs, hit]
  refine ⟨?_, hv'.2.1⟩
  unfold Step.view
  simp only [hv'.1, List.map_append, List.map_cons, List.map_nil, hdec]

/-- With trailing bits, or with a value that does not fit, `append` raises and changes nothing. -/
theorem append_rejects (c : Codec V) (hL : 0 < c.w) (d : Bits) (v : V)
    (h : trailing c.w d ≠ [] ∨ fits c v = false) :
    (∃ e, (append c d v).res = .error e) ∧ (append c d v).data = d := by
  rcases h with h | h
  · have hm : d.length % c.w ≠ 0 := by
      exact fun h0 => h ((trailing_nil_iff c.w d).mpr h0)
    unfold append
    rw [if_pos hm]
    exact ⟨⟨_, rfl⟩, rfl⟩
  · obtain ⟨e, he⟩ := (fits_false_iff c v).mp h
    unfold append
    split
    · exact ⟨⟨_, rfl⟩, rfl⟩
    · rw [createElement_err c v e he]
      exact ⟨⟨_, rfl⟩, rfl⟩

theorem extendIter_refines (c : Codec V) (hL : 0 < c.w) (hwf : c.WF) (d : Bits) (vals : List V)
    (hv : vals.all (fits c) = true) (ht : trailing c.w d = []) :
    (extendIter c d vals).view c = .ok ((), items c d ++ vals) ∧ trailing c.w (extendIter c d vals).data = [] := by
  obtain ⟨bs, t, hbs, ht', rfl, hch, htr, hlen, hit⟩ := blocks_view c hL d
  rw [htr] at ht
  subst ht
  obtain ⟨bl, hf, hbl, hdec, _, _⟩ := encs_of_fits c hwf vals hv
  have hm : (bs.flatten ++ ([] : Bits)).length % c.w = 0 := by
    rw [List.append_nil, blocks_flatten_length c.w bs hbs]; exact Nat.mul_mod_left _ _
  have hs : extendIter c (bs.flatten ++ []) vals = ⟨(bs ++ bl).flatten ++ [], .ok ()⟩ := by
    unfold extendIter
    rw [if_neg (not_not.mpr hm), extendLoop_blocks c hwf vals bl hf]
    simp
  have hbs' := append_blocks_length c.w bs bl hbs hbl
  have hv' := view_of_blocks c hL (bs ++ bl) [] hbs' ht'
  rw [hs, hit]
  refine ⟨?_, hv'.2.1⟩
  unfold Step.view
  simp only [hv'.1, List.map_append, hdec]

theorem extendIter_trailing_rejects (c : Codec V) (hL : 0 < c.w) (d : Bits) (vals : List V)
    (ht : trailing c.w d ≠ []) :
    (extendIter c d vals).res = .error .value ∧ (extendIter c d vals).data = d := by
  have hm : d.length % c.w ≠ 0 := by
    exact fun h0 => ht ((trailing_nil_iff c.w d).mpr h0)
  unfold extendIter
  rw [if_pos hm]
  exact ⟨rfl, rfl⟩

/-- `extend(other_Array)` of the same dtype: the other's items are appended, and its trailing bits become ours. -/
theorem extendArr_refines (c c2 : Codec V) (hL : 0 < c.w) (d d2 : Bits)
    (hsame : c.name = c2.name ∧ c.L = c2.L) (ht : trailing c.w d = []) :
    (extendArr c d c2 d2).view c = .ok ((), items c d ++ items c d2) ∧
    trailing c.w (extendArr c d c2 d2).data = trailing c.w d2 := by
  obtain ⟨bs, t, hbs, ht', rfl, hch, htr, hlen, hit⟩ := blocks_view c hL d
  rw [htr] at ht
  subst ht
  obtain ⟨bs2, t2, hbs2, ht2, rfl, hch2, htr2, hlen2, hit2⟩ := blocks_view c hL d2
  have hm : (bs.flatten ++ ([] : Bits)).length % c.w = 0 := by
    rw [List.append_nil, blocks_flatten_length c.w bs hbs]; exact Nat.mul_mod_left _ _
  have hs : extendArr c (bs.flatten ++ []) c2 (bs2.flatten ++ t2) = ⟨(bs ++ bs2).flatten ++ t2, .ok ()⟩ := by
    unfold extendArr
    rw [if_neg (not_not.mpr hm)]
    have : ¬ (c.name ≠ c2.name ∨ c.L ≠ c2.L) := by
      intro h; rcases h with h | h
      · exact h hsame.1
      · exact h hsame.2
    rw [if_neg this]
    simp
  have hbs' := append_blocks_length c.w bs bs2 hbs hbs2
  have hv' := view_of_blocks c hL (bs ++ bs2) t2 hbs' ht2
  rw [hs, hit, hit2, htr2]
  refine ⟨?_, hv'.2.1⟩
  unfold Step.view
  simp only [hv'.1, List.map_append]

theorem extendArr_rejects (c c2 : Codec V) (hL : 0 < c.w) (d d2 : Bits)
    (h : trailing c.w d ≠ [] ∨ c.name ≠ c2.name ∨ c.L ≠ c2.L) :
    (∃ e, (extendArr c d c2 d2).res = .error e) ∧ (extendArr c d c2 d2).data = d := by
  unfold extendArr
  rcases h with h | h
  · have hm : d.length % c.w ≠ 0 := by
      exact fun h0 => h ((trailing_nil_iff c.w d).mpr h0)
    rw [if_pos hm]
    exact ⟨⟨_, rfl⟩, rfl⟩
  · split
    · exact ⟨⟨_, rfl⟩, rfl⟩
    · exact ⟨⟨_, rfl⟩, rfl⟩

/-- `extend(array.array)`: accepted exactly when the kind given by the typecode and the array's own item size are
    our dtype's name and length; then the array's bytes — `raw`, read at our width — are appended as items. -/
theorem extendBuf_refines (c : Codec V) (hL : 0 < c.w) (d raw : Bits) (name2 : String) (native : Nat)
    (hsame : c.name = name2 ∧ c.L = native) (ht : trailing c.w d = []) :
    (extendBuf c d (some name2) native raw).view c = .ok ((), items c d ++ items c raw) := by
  obtain ⟨bs, t, hbs, ht', rfl, hch, htr, hlen, hit⟩ := blocks_view c hL d
  rw [htr] at ht
  subst ht
  obtain ⟨bs2, t2, hbs2, ht2, rfl, hch2, htr2, hlen2, hit2⟩ := blocks_view c hL raw
  have hm : (bs.flatten ++ ([] : Bits)).length % c.w = 0 := by
    rw [List.append_nil, blocks_flatten_length c.w bs hbs]; exact Nat.mul_mod_left _ _
  have hs : extendBuf c (bs.flatten ++ []) (some name2) native (bs2.flatten ++ t2) = ⟨(bs ++ bs2).flatten ++ t2, .ok ()⟩ := by
    unfold extendBuf
    rw [if_neg (not_not.mpr hm)]
    have : ¬ (c.name ≠ name2 ∨ c.L ≠ native) := by
      intro h; rcases h with h | h
      · exact h hsame.1
      · exact h hsame.2
    simp only
    rw [if_neg this]
    simp
  have hbs' := append_blocks_length c.w bs bs2 hbs hbs2
  have hv' := view_of_blocks c hL (bs ++ bs2) t2 hbs' ht2
  rw [hs, hit, hit2]
  unfold Step.view
  simp only [hv'.1, List.map_append]

theorem extendBuf_rejects (c : Codec V) (d raw : Bits) (kind : Option String) (native : Nat)
    (h : ∀ name2, kind = some name2 → (c.name ≠ name2 ∨ c.L ≠ native)) :
    (∃ e, (extendBuf c d kind native raw).res = .error e) ∧ (extendBuf c d kind native raw).data = d := by
  unfold extendBuf
  split
  · exact ⟨⟨_, rfl⟩, rfl⟩
  · cases kind with
    | none => exact ⟨⟨_, rfl⟩, rfl⟩
    | some name2 =>
      simp only
      rw [if_pos (h name2 rfl)]
      exact ⟨⟨_, rfl⟩, rfl⟩

/-! ### insert, pop -/

/-- `insert(i, x)` = `list.insert(i, x)` (negative positions from the end of the *items*, clamped to `[0, len]`)
    with the trailing bits untouched. -/
theorem insert_refines (c : Codec V) (hL : 0 < c.w) (hwf : c.WF) (d : Bits) (i : Int) (v : V)
    (hv : fits c v = true) :
    (insert c d i v).view c = .ok ((), PyL.insert (items c d) i v) ∧
    trailing c.w (insert c d i v).data = trailing c.w d := by
  obtain ⟨bs, t, hbs, ht, rfl, hch, htr, hlen, hit⟩ := blocks_view c hL d
  obtain ⟨b, hb⟩ := (fits_iff c v).mp hv
  obtain ⟨hce, hbl, hdec⟩ := createElement_ok c hwf v b hb
  have hdl : (bs.flatten ++ t).length = bs.length * c.w + t.length := by
    rw [List.length_append, blocks_flatten_length c.w bs hbs]
  -- the item position the code computes
  obtain ⟨k, hk, hkj, hpos⟩ : ∃ k : Nat, k ≤ bs.length ∧
      (k : Int) = (if i < 0 then max (i + (bs.length : Int)) 0 else min i (bs.length : Int)) ∧
      min (if i < 0 then max (i + ((len c (bs.flatten ++ t) : Nat) : Int)) 0 else i) ((len c (bs.flatten ++ t) : Nat) : Int)
        * (c.w : Int) = ((k * c.w : Nat) : Int) := by
    rw [hlen]
    by_cases hi : i < 0
    · refine ⟨(max (i + (bs.length : Int)) 0).toNat, by omega, ?_, ?_⟩
      · simp only [hi, if_true]; omega
      · simp only [hi, if_true]
        have hm : min (max (i + (bs.length : Int)) 0) (bs.length : Int) = max (i + (bs.length : Int)) 0 := by omega
        rw [hm]
        have : ((max (i + (bs.length : Int)) 0).toNat : Int) = max (i + (bs.length : Int)) 0 := by omega
        push_cast
        rw [this]
    · refine ⟨(min i (bs.length : Int)).toNat, by omega, ?_, ?_⟩
      · simp only [hi, if_false]; omega
      · simp only [hi, if_false]
        have : ((min i (bs.length : Int)).toNat : Int) = min i (bs.length : Int) := by omega
        push_cast
        rw [this]
  have hkl : k * c.w ≤ (bs.flatten ++ t).length := by
    rw [hdl]
    have := Nat.mul_le_mul_right c.w hk
    omega
  have hs : insert c (bs.flatten ++ t) i v = ⟨(bs.take k ++ b :: bs.drop k).flatten ++ t, .ok ()⟩ := by
    unfold insert
    simp only [hce]
    rw [hpos, bInsert_of _ b _ (k * c.w) (by omega) hkl (by
      have : ¬ (((k * c.w : Nat) : Int) < 0) := by omega
      rw [if_neg this]), insert_block c.w bs t b hbs k hk]
  have hbs' := insert_blocks_length c.w bs b hbs hbl k
  have hv' := view_of_blocks c hL _ t hbs' ht
  rw [hs, hit, htr]
  refine ⟨?_, hv'.2.1⟩
  unfold Step.view PyL.insert
  simp only [hv'.1, List.length_map, ← hkj, Int.toNat_natCast]
  simp [List.map_take, List.map_drop, hdec]

theorem insert_rejects (c : Codec V) (d : Bits) (i : Int) (v : V) (hv : fits c v = false) :
    (∃ e, (insert c d i v).res = .error e) ∧ (insert c d i v).data = d := by
  obtain ⟨e, he⟩ := (fits_false_iff c v).mp hv
  unfold insert
  simp [createElement_err c v e he]

theorem pop_refines (c : Codec V) (hL : 0 < c.w) (d : Bits) (i : Int) :
    (pop c d i).view c = PyL.pop (items c d) i := by
  have hg := getItem_refines c hL d i
  have hd := delItem_refines c hL d i
  unfold pop PyL.pop
  by_cases h0 : len c d = 0
  · rw [if_pos h0]
    have : items c d = [] := by
      apply List.eq_nil_of_length_eq_zero
      rw [← len_eq c d]; exact h0
    rw [this]
    have : Py.getIndex ([] : List V) i = .error .index := by
      unfold Py.getIndex
      simp only [List.length_nil]
      split <;> simp
    simp [Step.view, this]
  · rw [if_neg h0, hg]
    cases hx : Py.getIndex (items c d) i with
    | error e => simp [Step.view]
    | ok x =>
      simp only
      unfold Step.view at hd ⊢
      cases hr : (delItem c d i).res with
      | error e =>
        rw [hr] at hd
        cases hdl : PyL.delIndex (items c d) i with
        | error e' =>
          rw [hdl] at hd
          simp only [Except.map] at hd
          injection hd with hd
          simp [hd]
        | ok l' => rw [hdl] at hd; simp [Except.map] at hd
      | ok u =>
        rw [hr] at hd
        cases hdl : PyL.delIndex (items c d) i with
        | error e' => rw [hdl] at hd; simp [Except.map] at hd
        | ok l' =>
          rw [hdl] at hd
          simp only [Except.map] at hd
          injection hd with hd
          injection hd with _ hd
          simp [hd]

theorem pop_trailing (c : Codec V) (hL : 0 < c.w) (d : Bits) (i : Int) :
    trailing c.w (pop c d i).data = trailing c.w d := by
  unfold pop
  split
  · rfl
  · split
    · rfl
    · exact delItem_trailing c hL d i

theorem pop_error_unchanged (c : Codec V) (d : Bits) (i : Int) (e : Err)
    (h : (pop c d i).res = .error e) : (pop c d i).data = d := by
  revert h
  unfold pop
  split
  · intro _; rfl
  · split
    · intro _; rfl
    · intro h
      simp only at h ⊢
      cases hr : (delItem c d i).res with
      | ok u => rw [hr] at h; simp at h
      | error e' => exact delItem_error_unchanged c d i e' hr

/-! ### count, equals, copy, dtype change -/

/-- `count(value)` = `list.count(value)` for every value that is not NaN — numbers, and the str / bytes / Bits
    values `math.isnan` cannot take. -/
theorem count_refines (c : Codec V) (vo : ValOps V) (hL : 0 < c.w) (d : Bits) (value : V)
    (hnan : vo.isnan value ≠ .ok true) :
    count c vo d value = .ok ((items c d).countP fun i => vo.eq i value) := by
  unfold count
  simp only [iter_eq_items c hL d]
  cases h : vo.isnan value with
  | error e => rfl
  | ok b =>
    cases b with
    | false => rfl
    | true => exact absurd h hnan

/-- `count(nan)` counts the NaN items (documented), on every dtype: an item `math.isnan` cannot take is not NaN. -/
theorem count_nan (c : Codec V) (vo : ValOps V) (hL : 0 < c.w) (d : Bits) (value : V)
    (hnan : vo.isnan value = .ok true) :
    count c vo d value = .ok ((items c d).countP fun i => match vo.isnan i with | .ok b => b | .error _ => false) := by
  unfold count
  simp only [hnan, iter_eq_items c hL d]
  rfl

/-- `equals`: same dtype and same data; for a canonical codec that is "same items and same trailing bits". -/
theorem equals_iff (c c2 : Codec V) (d d2 : Bits) :
    equals c d c2 d2 = true ↔ (c.L = c2.L ∧ c.name = c2.name ∧ d = d2) := by
  unfold equals
  constructor
  · intro h
    split at h
    · cases h
    · split at h
      · cases h
      · split at h
        · cases h
        · rename_i h1 h2 h3
          exact ⟨not_not.mp h1, not_not.mp h2, not_not.mp h3⟩
  · rintro ⟨h1, h2, h3⟩
    simp [h1, h2, h3]

theorem equals_iff_items (c : Codec V) (hw : 0 < c.w) (hcanon : c.Canonical) (d d2 : Bits) :
    equals c d c d2 = true ↔ (items c d = items c d2 ∧ trailing c.w d = trailing c.w d2) := by
  rw [equals_iff]
  constructor
  · rintro ⟨_, _, rfl⟩
    exact ⟨rfl, rfl⟩
  · rintro ⟨h1, h2⟩
    refine ⟨rfl, rfl, ?_⟩
    have e1 := layout c.w d
    have e2 := layout c.w d2
    have hc : chunks c.w d = chunks c.w d2 :=
      map_dec_inj c hcanon _ _ (chunks_mem_length c.w hw d) (chunks_mem_length c.w hw d2) h1
    rw [e1, e2, hc, h2]

/-- "changing dtype re-reads the same data without altering it": the data is the same object content, the new
    item view is the chunking of that same data at the new width, and changing back restores the Array. -/
theorem dtype_change_keeps_data (a : Arr V) (c2 : Codec V) (hw : 0 < c2.w) :
    (a.setDtype c2).d = a.d ∧
    a.d = (chunks c2.w a.d).flatten ++ trailing c2.w a.d ∧
    items c2 (a.setDtype c2).d = (chunks c2.w a.d).map c2.dec ∧
    (a.setDtype c2).setDtype a.c = a := by
  refine ⟨rfl, layout c2.w a.d, rfl, ?_⟩
  cases a; rfl

/-! ### non-vacuity -/
example : (mkCodec .u "uint" 3 1 .int false).WF := mkCodec_u_WF "uint" 3 .int false
example : (mkCodec .i "int" 4 1 .int true).WF := mkCodec_i4_WF
example : items (mkCodec .u "uint" 3 1 .int false) [true, false, true, false, true, true, true] = [.int 5, .int 3] := by decide
example : trailing 3 [true, false, true, false, true, true, true] = [true] := by decide
example : (setItem (mkCodec .i "int" 4 1 .int true) [true, false, true, false, true, true, true, true, false] (-1) (.int (-8))).data
    = [true, false, true, false, true, false, false, false, false] := by decide
example : fits (mkCodec .u "uint" 3 1 .int false) (.int 8) = false ∧ fits (mkCodec .u "uint" 3 1 .int false) (.int 7) = true := by decide
-- a `bytes1` Array (unit of 8 bits): `Array('bytes1', [b'A'])`, then `insert(-1, b'B')` with a trailing bit
example :
    let c := mkCodec .raw "bytes" 1 8 .other false
    let a := Val.raw [false, true, false, false, false, false, false, true]
    let b := Val.raw [false, true, false, false, false, false, true, false]
    c.w = 8 ∧ init c (.list [a]) (some [true]) = .ok [false, true, false, false, false, false, false, true, true] ∧
    items c (insert c [false, true, false, false, false, false, false, true, true] (-1) b).data = [b, a] ∧
    trailing c.w (insert c [false, true, false, false, false, false, false, true, true] (-1) b).data = [true] := by
  decide

end BM.C14
