/-
  Props/C16_Src.lean — tie between C16's hand-written ALG transcriptions and the CURRENT source text.

  `Gen/Src.lean` is regenerated on every run by harness/translate.py from /repo's working tree: the guards and the
  index arithmetic of each listed Python function are translated statement by statement, and every effect on an
  object (a call, an assignment of an object) is recorded as a `Py.Act` (source text with the integer
  sub-expressions replaced by `_`, plus their values).  Below, `…Meaning` gives each recorded effect the meaning the
  C16 model gives to the primitive it names (`_absolute_slice`, `Bits(n)`, `_addright`, `_ilshift`, …), and the
  theorems state that, for EVERY input, the translated function under that meaning IS the ALG function the
  property theorems of Props/C16.lean are about.  A change of the source changes `Gen/Src.lean`; the theorem then
  no longer checks.
-/
import BitstringModel.Model.C16
import BitstringModel.Gen.Src
namespace BM.C16.Src
open BM BM.C16

/-- `self._absolute_slice(p, q)` on the bits `a` (bits.py: empty when `p = q`, else `bits[p:q]`). -/
def absSlice (a : Bits) (p q : Int) : Bits :=
  if p = q then [] else (a.drop p.toNat).take (q.toNat - p.toNat)

/-- Meaning of the effects recorded for `Bits.__lshift__`. -/
def shlMeaning (a : Bits) : List Py.Act → Option Bits
  | [⟨"L1 = self._absolute_slice(_, _)", [some p, some q]⟩, ⟨"L1._addright(Bits(_))", [some k]⟩, ⟨"return L1", []⟩] =>
      some (absSlice a p q ++ List.replicate k.toNat false)
  | _ => none

/-- Meaning of the effects recorded for `Bits.__rshift__`. -/
def shrMeaning (a : Bits) : List Py.Act → Option Bits
  | [⟨"return self._copy()", []⟩] => some a
  | [⟨"L1 = self.__class__(length=_)", [some k]⟩, ⟨"L1._addright(self._absolute_slice(_, _))", [some p, some q]⟩,
     ⟨"return L1", []⟩] => some (List.replicate k.toNat false ++ absSlice a p q)
  | _ => none

/-- Meaning of the effects recorded for `BitArray.__ilshift__`: `_ilshift(k)` = `_addright(Bits(k))` then
    `_truncateleft(k)`. -/
def ishlMeaning (a : Bits) : List Py.Act → Option Bits
  | [⟨"return self", []⟩] => some a
  | [⟨"return self._ilshift(_)", [some k]⟩] => some ((a ++ List.replicate k.toNat false).drop k.toNat)
  | _ => none

/-- Meaning of the effects recorded for `BitArray.__irshift__`: `_irshift(k)` = `_addleft(Bits(k))` then
    `_truncateright(k)`. -/
def ishrMeaning (a : Bits) : List Py.Act → Option Bits
  | [⟨"return self", []⟩] => some a
  | [⟨"return self._irshift(_)", [some k]⟩] =>
      some ((List.replicate k.toNat false ++ a).take ((List.replicate k.toNat false ++ a).length - k.toNat))
  | _ => none

/-- Meaning of the effects recorded for `Bits.__invert__`. -/
def invertMeaning (a : Bits) : List Py.Act → Option Bits
  | [⟨"L1 = self._copy()", []⟩, ⟨"L1._invert_all()", []⟩, ⟨"return L1", []⟩] => some (a.map (!·))
  | _ => none

/-- `Bits.__lshift__` as the source has it now = `C16.shl`, for every content and every shift count. -/
theorem lshift_eq (a : Bits) (n : Int) :
    (Gen.Src.lshift (a.length : Int) n).map (shlMeaning a) = (shl a n).map some := by
  unfold Gen.Src.lshift shl
  by_cases hn : n < 0
  · simp [hn, Except.map]
  by_cases hl : a.length = 0
  · simp [hn, hl, Except.map]
  have hk : (min n (a.length : Int)).toNat = min n.toNat a.length := by omega
  have hc : (min n (a.length : Int) = (a.length : Int)) ↔ (min n.toNat a.length = a.length) := by omega
  simp [hn, hl, Except.map, shlMeaning, absSlice, hk, hc]

/-- `Bits.__rshift__` as the source has it now = `C16.shr`. -/
theorem rshift_eq (a : Bits) (n : Int) :
    (Gen.Src.rshift (a.length : Int) n).map (shrMeaning a) = (shr a n).map some := by
  unfold Gen.Src.rshift shr
  by_cases hn : n < 0
  · simp [hn, Except.map]
  by_cases hl : a.length = 0
  · simp [hn, hl, Except.map]
  by_cases h0 : n = 0
  · simp [hl, h0, Except.map, shrMeaning]
  have hk : (min n (a.length : Int)).toNat = min n.toNat a.length := by omega
  have hq : ((a.length : Int) - min n (a.length : Int)).toNat = a.length - min n.toNat a.length := by omega
  have hc : ((0 : Int) = (a.length : Int) - min n (a.length : Int)) ↔ (a.length - min n.toNat a.length = 0) := by omega
  simp [hn, hl, h0, Except.map, shrMeaning, absSlice, hk, hq, hc]

/-- `BitArray.__ilshift__` as the source has it now = `C16.ishl`. -/
theorem ilshift_eq (a : Bits) (n : Int) :
    (Gen.Src.ilshift (a.length : Int) n).map (ishlMeaning a) = (ishl a n).map some := by
  unfold Gen.Src.ilshift ishl
  by_cases hn : n < 0
  · simp [hn, Except.map]
  by_cases hl : a.length = 0
  · simp [hn, hl, Except.map]
  by_cases h0 : n = 0
  · simp [hl, h0, Except.map, ishlMeaning]
  have hk : (min n (a.length : Int)).toNat = min n.toNat a.length := by omega
  simp [hn, hl, h0, Except.map, ishlMeaning, hk]

/-- `BitArray.__irshift__` as the source has it now = `C16.ishr`. -/
theorem irshift_eq (a : Bits) (n : Int) :
    (Gen.Src.irshift (a.length : Int) n).map (ishrMeaning a) = (ishr a n).map some := by
  unfold Gen.Src.irshift ishr
  by_cases hn : n < 0
  · simp [hn, Except.map]
  by_cases hl : a.length = 0
  · simp [hn, hl, Except.map]
  by_cases h0 : n = 0
  · simp [hl, h0, Except.map, ishrMeaning]
  have hk : (min n (a.length : Int)).toNat = min n.toNat a.length := by omega
  simp [hn, hl, h0, Except.map, ishrMeaning, hk]

/-- `Bits.__invert__` as the source has it now = `C16.bnot` (`bitstring.Error` for the empty bitstring). -/
theorem invert_eq (a : Bits) :
    (Gen.Src.invert (a.length : Int)).map (invertMeaning a) = (bnot a).map some := by
  unfold Gen.Src.invert bnot
  by_cases hl : a.length = 0
  · simp [hl, Except.map]
  simp [hl, Except.map, invertMeaning]

/-- Non-vacuity: on a concrete input the translated function really produces the three-effect trace. -/
example : (Gen.Src.lshift 4 1).map (shlMeaning [true, false, true, true]) = .ok (some [false, true, true, false]) := by
  rfl

end BM.C16.Src
