/-
  Props/C11_Bfloat.lean — C11, the 65 536-code formats: every bfloat code decodes to the value of the zero-padded float32
  pattern; every half-precision pattern is widened exactly by `struct.unpack('>e')` and means what `EncodeSpec` reads.
  (Kernel enumeration over all 65 536 patterns in Proofs/C11_Bf_<kk>.lean.)
-/
import BitstringModel.Proofs.C11_NumAll
import BitstringModel.Proofs.C11_BfReenc

namespace BM.C11
open BM

/-- "every code decodes to the value its format defines", bfloat: for every one of the 65 536 codes the float returned
    by `_getbfloatbe` has exactly the value of the IEEE binary32 pattern `code · 2^16` (zero-padded), including ±0,
    subnormals, ±inf and NaN. -/
theorem bfloat_decode_ok (c : Nat) (hc : c < 65536) :
    (decode .bfloat c).map f64Val = .ok (f32Val (c * 65536)) := by
  have := (bfChk_spec (bfChk_all c hc)).1
  simp [decode, Except.map, this]

/-- The little-endian variant reads the byte-swapped code (`bswap16` keeps the two low bytes, so no bound on `c` is needed). -/
theorem bfloatle_decode_ok (c : Nat) :
    (decode .bfloatle c).map f64Val = .ok (f32Val (bswap16 c * 65536)) := by
  have hb : bswap16 c < 65536 := by unfold bswap16; omega
  have := (bfChk_spec (bfChk_all (bswap16 c) hb)).1
  simp only [decode, Except.map, bfloatDec] at this ⊢
  simpa using this

/-- The harness feeds half-precision inputs as `struct.unpack('>e', pattern)`: that float64 has exactly the value of the
    binary16 pattern, for every pattern. -/
theorem half_unpack_exact (h : Nat) (hh : h < 65536) : f64Val (unpackIEEE 5 10 h) = halfVal h :=
  (bfChk_spec (bfChk_all h hh)).2.2

/-- `halfClass` (sign and |value|·2^24, used by `EncodeSpec`) is the IEEE-754 binary16 meaning of the pattern. -/
theorem halfClass_is_ieee (h : Nat) (hh : h < 65536) : halfVal h = (halfClass h).toFVal :=
  (bfChk_spec (bfChk_all h hh)).2.1

/-- "decoding then re-encoding any non-NaN code returns that code", bfloat, all 65 536 codes and without a further
    enumeration: the decoded float has exactly the value of the zero-padded float32 pattern (`bfloat_decode_ok`),
    `struct.pack('>f')` of a float32-representable value reproduces that very pattern (`roundBits 8 23` is exact on
    representable values, Proofs/C11_BfReenc.lean), and dropping a zero low half is the identity. -/
theorem bfloat_reencode_fixpoint (mode : Mode) (c : Nat) (hc : c < 65536) (hnn : ¬ bfCodeIsNaN c) :
    (decode .bfloat c >>= encode .bfloat mode) = .ok c := by
  simp only [decode, encode, bind, Except.bind, bfloat_reencode_be c hc hnn]

/-- The little-endian variant; the NaN test reads the byte-swapped code. -/
theorem bfloatle_reencode_fixpoint (mode : Mode) (c : Nat) (hc : c < 65536) (hnn : ¬ bfCodeIsNaN (bswap16 c)) :
    (decode .bfloatle c >>= encode .bfloatle mode) = .ok c := by
  simp only [decode, encode, bind, Except.bind, bfloat_reencode_le c hc hnn]

example : ¬ bfCodeIsNaN 0x7f80 ∧ bfCodeIsNaN 0x7fc0 ∧ ¬ bfCodeIsNaN 0x0001 := by
  unfold bfCodeIsNaN; decide
example : (decode .bfloat 0x3fc0).map f64Val = .ok (.fin false 3 (-1)) := by decide +kernel   -- 0x3fc0 = 1.5
example : halfVal 0x3c00 = .fin false 1 0 ∧ halfClass 0x3c00 = .fin false (2 ^ 24) := by decide +kernel

end BM.C11
