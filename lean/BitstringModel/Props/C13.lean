/-
  Props/C13.lean — equality and hashing form a consistent contract across classes and routes.

  `eqAlg`/`neAlg`/`hashAlg`/`inSet` transcribe `Bits.__eq__`, `__ne__`, `__hash__` and set/dict lookup on top of
  `BitStore` (raw bitarray + `modified_length`).  Every theorem is for ALL thresholds `T A B` (the code's literals
  are 2000/800/800 and are re-read from the source by the harness on every run), all lengths, classes, positions
  and both bit-numbering modes.  `Store.wf` is the invariant every constructor establishes (`frombuffer_wf`,
  `promote_wf`): `modified_length`, when present, equals the buffer length.
-/
import BitstringModel.Model.C13
import BitstringModel.Proofs.C13

namespace BM.C13
open BM

/-! ### the tie of the model's slice to CPython's slice, and the constructor invariant -/

/-- The step-1 slice the model computes with `drop`/`take` is `PySlice_AdjustIndices` + element selection
    (`Py.getSlice`, proved to be Python list slicing in Props/C01). -/
theorem rawSlice_is_python_slice (l : Bits) (s e : Option Int) :
    Py.getSlice l s e none = .ok (rawSlice l s e) :=
  rawSlice_eq_getSlice l s e

/-- `BitStore.frombuffer`: errors exactly for a negative or too large length … -/
theorem frombuffer_error_iff (buf : Bits) (m : Int) :
    (∃ e, Store.frombuffer buf (some m) = .error e) ↔ (m < 0 ∨ (buf.length : Int) < m) := by
  unfold Store.frombuffer
  by_cases h1 : m < 0
  · simp [h1]
  · by_cases h2 : m > (buf.length : Int)
    · simp [h1, h2]
    · by_cases h3 : m < (buf.length : Int)
      · simp [h1, h2, h3]
      · simp [h1, h2, h3]

theorem frombuffer_none (buf : Bits) : Store.frombuffer buf none = .ok { raw := buf } := rfl

/-- … and otherwise yields a well-formed store holding exactly the first `m` bits of the buffer (a shorter
    length is read into memory). -/
theorem frombuffer_some (buf : Bits) (m : Nat) (hm : m ≤ buf.length) :
    ∃ st, Store.frombuffer buf (some (m : Int)) = .ok st ∧ st.wf ∧ st.bits = buf.take m := by
  unfold Store.frombuffer
  have h1 : ¬ ((m : Int) < 0) := by omega
  have h2 : ¬ ((m : Int) > (buf.length : Int)) := by omega
  by_cases h3 : (m : Int) < (buf.length : Int)
  · refine ⟨{ raw := rawSlice buf none (some (m : Int)) }, by simp [h1, h2, h3], ?_, ?_⟩
    · intro k hk; cases hk
    · rw [wf_bits _ (by intro k hk; cases hk)]
      exact rawSlice_prefix buf m
  · have hml : m = buf.length := by omega
    refine ⟨{ raw := buf }, by simp [h1, h2, h3], ?_, ?_⟩
    · intro k hk; cases hk
    · rw [wf_bits _ (by intro k hk; cases hk)]
      show buf = buf.take m
      rw [List.take_of_length_le (by omega)]

/-- Whatever `frombuffer` returns satisfies the constructor invariant. -/
theorem frombuffer_wf (buf : Bits) (length : Option Int) (st : Store)
    (h : Store.frombuffer buf length = .ok st) : st.wf := by
  cases length with
  | none => rw [frombuffer_none] at h; injection h with h; subst h; intro k hk; cases hk
  | some m =>
    by_cases hr : m < 0 ∨ (buf.length : Int) < m
    · obtain ⟨e, he⟩ := (frombuffer_error_iff buf m).mpr hr
      rw [he] at h; cases h
    · obtain ⟨st', h1, h2, _⟩ := frombuffer_some buf m.toNat (by omega)
      rw [show ((m.toNat : Nat) : Int) = m by omega] at h1
      rw [h1] at h; injection h with h; subst h; exact h2

/-- No constructor leaves a `modified_length` behind (the code that honours it stays modelled and proved). -/
theorem frombuffer_modLen_none (buf : Bits) (length : Option Int) (st : Store)
    (h : Store.frombuffer buf length = .ok st) : st.modLen = none := by
  unfold Store.frombuffer at h
  cases length with
  | none => injection h with h; subst h; rfl
  | some m =>
    simp only at h
    split at h
    · cases h
    · split at h
      · cases h
      · split at h <;> (injection h with h; subst h; rfl)

/-- Promotion of any right-hand operand yields a well-formed store (given that a bitstring operand has one). -/
theorem promote_wf (x : Operand) (st : Store) (h : promote x = .ok st)
    (hx : ∀ o, x = .bitstring o → o.store.wf) : st.wf := by
  have plain : ∀ r : Bits, ({ raw := r } : Store).wf := by intro r m hm; cases hm
  cases x with
  | bitstring o => injection h with h; subst h; exact hx o rfl
  | str s =>
    simp only [promote] at h
    cases hs : strToBits s with
    | error e => rw [hs] at h; cases h
    | ok b => rw [hs] at h; injection h with h; subst h; exact plain _
  | bytes b => injection h with h; subst h; exact plain _
  | bytesIO b => injection h with h; subst h; exact plain _
  | fileObj c =>
    simp only [promote] at h
    split at h
    · cases h
    · exact frombuffer_wf _ _ _ h
  | bitarray l b => injection h with h; subst h; exact plain _
  | array b => injection h with h; subst h; exact plain _
  | iterable xs => injection h with h; subst h; exact plain _
  | integral => cases h
  | other => cases h

/-! ### `==` is equality of the bits -/

/-- **`==` between two bitstrings is true exactly when lengths and all bits agree** — for objects of any of the
    four classes, any `pos`, any store layout a constructor can produce. -/
theorem eq_iff_bits (a b : Obj) (ha : a.store.wf) (hb : b.store.wf) :
    eqAlg a (.bitstring b) = .ok (decide (a.bits = b.bits)) := by
  simp only [eqAlg, promote, Store.eq, Obj.bits, wf_bits _ ha, wf_bits _ hb]

theorem eq_true_iff_bits (a b : Obj) (ha : a.store.wf) (hb : b.store.wf) :
    eqAlg a (.bitstring b) = .ok true ↔ a.bits = b.bits := by
  rw [eq_iff_bits a b ha hb]
  constructor
  · intro h; injection h with h; exact of_decide_eq_true h
  · intro h; rw [decide_eq_true h]

/-- Equal objects have equal lengths (`len()` is `Store.len`). -/
theorem eq_implies_len_eq (a b : Obj) (ha : a.store.wf) (hb : b.store.wf)
    (h : eqAlg a (.bitstring b) = .ok true) : a.store.len = b.store.len := by
  have := (eq_true_iff_bits a b ha hb).mp h
  simp only [Obj.bits, wf_bits _ ha, wf_bits _ hb] at this
  rw [wf_len _ ha, wf_len _ hb, this]

/-- Reflexive, symmetric, transitive — for every store whatsoever (the raw comparison is an equivalence). -/
theorem eq_refl (a : Obj) : eqAlg a (.bitstring a) = .ok true := by
  simp [eqAlg, promote, Store.eq]

theorem eq_symm (a b : Obj) : eqAlg a (.bitstring b) = eqAlg b (.bitstring a) := by
  simp only [eqAlg, promote, Store.eq]
  congr 1
  exact decide_eq_decide.mpr eq_comm

theorem eq_trans (a b c : Obj) (h1 : eqAlg a (.bitstring b) = .ok true) (h2 : eqAlg b (.bitstring c) = .ok true) :
    eqAlg a (.bitstring c) = .ok true := by
  simp only [eqAlg, promote, Store.eq] at *
  injection h1 with h1; injection h2 with h2
  have e1 := of_decide_eq_true h1
  have e2 := of_decide_eq_true h2
  rw [e1, e2]; simp

/-- The result does not depend on the class or the stream position of either side … -/
theorem eq_class_pos_independent (st : Store) (c1 c2 : Cls) (p1 p2 : Nat) (x : Operand) :
    eqAlg ⟨c1, st, p1⟩ x = eqAlg ⟨c2, st, p2⟩ x := rfl

theorem eq_class_pos_independent_right (a : Obj) (st : Store) (c1 c2 : Cls) (p1 p2 : Nat) :
    eqAlg a (.bitstring ⟨c1, st, p1⟩) = eqAlg a (.bitstring ⟨c2, st, p2⟩) := rfl

/-- … nor on how either side was built: whatever promotable operand `x` is, `a == x` is true exactly when the bits
    of `a` are the bits `x` promotes to. -/
theorem eq_route_independent (a : Obj) (x : Operand) (st : Store) (ha : a.store.wf)
    (hx : ∀ o, x = .bitstring o → o.store.wf) (h : promote x = .ok st) :
    eqAlg a x = .ok (decide (a.bits = st.bits)) := by
  have hw := promote_wf x st h hx
  simp only [eqAlg, h, Store.eq, Obj.bits, wf_bits _ ha, wf_bits _ hw]

/-- The promotable kinds, one by one: bytes-likes are their big-endian bits, a bitarray of either bit-endianness
    its bits by index, an iterable the truthiness of its items. -/
theorem eq_bytes (a : Obj) (ha : a.store.wf) (b : List Nat) :
    eqAlg a (.bytes b) = .ok (decide (a.bits = bytesToBits b)) ∧
    eqAlg a (.bytesIO b) = .ok (decide (a.bits = bytesToBits b)) ∧
    eqAlg a (.array b) = .ok (decide (a.bits = bytesToBits b)) := by
  simp only [eqAlg, promote, Store.frombytes, Store.eq, Obj.bits, wf_bits _ ha, and_self]

theorem eq_bitarray (a : Obj) (ha : a.store.wf) (little : Bool) (b : Bits) :
    eqAlg a (.bitarray little b) = .ok (decide (a.bits = b)) := by
  simp only [eqAlg, promote, Store.eq, Obj.bits, wf_bits _ ha]

theorem eq_iterable (a : Obj) (ha : a.store.wf) (xs : List Elem) :
    eqAlg a (.iterable xs) = .ok (decide (a.bits = xs.map Elem.truthy)) := by
  simp only [eqAlg, promote, Store.eq, Obj.bits, wf_bits _ ha]

/-- The empty string is the empty bitstring. -/
theorem eq_empty_string (a : Obj) (ha : a.store.wf) :
    eqAlg a (.str []) = .ok (decide (a.bits = [])) := by
  simp only [eqAlg, promote, Store.eq, Obj.bits, wf_bits _ ha]
  rfl

/-- A binary literal `'0b' + digits` is the bits its digits spell. -/
theorem eq_bin_literal (a : Obj) (ha : a.store.wf) (b : Bits) (hb : b ≠ []) :
    eqAlg a (.str ('0' :: 'b' :: b.map fun x => if x then '1' else '0')) = .ok (decide (a.bits = b)) := by
  rw [eq_route_independent a _ { raw := b } ha (by intro o h; cases h)]
  · rw [wf_bits _ (by intro m hm; cases hm)]
  · have h : strToBits ('0' :: 'b' :: b.map fun x => if x then '1' else '0') = .ok b := strToBits_bin_literal b hb
    simp only [promote, h]; rfl

/-- A hexadecimal literal `'0x' + digits` is four bits per digit (digits given by their values `< 16`). -/
theorem eq_hex_literal (a : Obj) (ha : a.store.wf) (d : List Nat) (hd : d ≠ []) (h16 : ∀ v ∈ d, v < 16) :
    eqAlg a (.str ('0' :: 'x' :: d.map hexDigit)) = .ok (decide (a.bits = d.flatMap (natToBits 4))) := by
  rw [eq_route_independent a _ { raw := d.flatMap (natToBits 4) } ha (by intro o h; cases h)]
  · rw [wf_bits _ (by intro m hm; cases hm)]
  · simp only [promote, strToBits_hex_literal d hd h16]; rfl

/-- **`!=` is the negation of `==`** (and raises exactly when `==` raises). -/
theorem ne_is_not_eq (a : Obj) (x : Operand) :
    neAlg a x = (match eqAlg a x with | .ok r => .ok (!r) | .error e => .error e) := rfl

theorem ne_true_iff_eq_false (a : Obj) (x : Operand) :
    neAlg a x = .ok true ↔ eqAlg a x = .ok false := by
  unfold neAlg
  cases eqAlg a x with
  | error e => simp
  | ok r => cases r <;> simp

/-- **Comparison with a non-promotable type is False rather than an error**, and `!=` is True. -/
theorem eq_nonpromotable_false (a : Obj) :
    eqAlg a .integral = .ok false ∧ eqAlg a .other = .ok false ∧
    neAlg a .integral = .ok true ∧ neAlg a .other = .ok true := by
  simp [eqAlg, neAlg, promote]

/-- `==` never raises TypeError, whatever the right-hand operand. -/
theorem eq_never_typeerror (a : Obj) (x : Operand) : eqAlg a x ≠ .error .type := by
  unfold eqAlg
  cases hp : promote x with
  | ok st => simp
  | error e => cases e <;> simp

/-! ### the hash key is a function of the bits -/

/-- **ALG = SPEC for `__hash__`**, for all thresholds, both option settings, every length: what the code hashes —
    `(self.tobytes(), len(self))`, or beyond `T` bits
    `((self._absolute_slice(0, A) + self._absolute_slice(len - B, len)).tobytes(), len(self))` computed through
    `getslice_msb0`'s `modified_length` normalisation, CPython's index clamping and the copy-the-longer-operand `+`
    — is `hashKey` of the object's bit list; in particular the `assert` in `_absolute_slice` never fires.
    Class, `pos`, store layout and the lsb0 option do not enter. -/
theorem hashAlg_eq_hashKey (T A B : Nat) (lsb0 : Bool) (o : Obj) (hw : o.store.wf)
    (hc : o.cls.isMutable = false) :
    hashAlg T A B lsb0 o = .ok (hashKey T A B o.bits) := by
  simp only [hashAlg, hc, hashKey, Obj.bits, wf_bits _ hw, wf_len _ hw, wf_tobytes _ hw]
  simp only [Bool.false_eq_true, if_false]
  by_cases hT : o.store.raw.length ≤ T
  · simp only [hT, if_true]
  · simp only [hT, if_false, absoluteSlice_prefix _ hw, absoluteSlice_suffix _ hw, add_plain, sample]
    rfl

/-- **The hash is identical in both bit-numbering modes** (C12's clause): the value of `options.lsb0` while
    `hash()` runs does not enter the key.  In the transcription this is immediate — since fix 42091e9 no function
    on the path dispatches on the option (`_absolute_slice` always uses `getslice_msb0`) — so the content of the
    claim is carried by the correspondence: the harness captures the key under both settings, in both orders. -/
theorem hashKey_mode_independent (T A B : Nat) (o : Obj) :
    hashAlg T A B true o = hashAlg T A B false o := rfl

/-- **Equal bits ⇒ equal hash key, for every length** (below, at and beyond the sampling threshold), whatever
    the classes (both hashable), positions and layouts of the two objects, and whichever mode is on for either
    evaluation. -/
theorem hashKey_congr (T A B : Nat) (l1 l2 : Bool) (a b : Obj) (ha : a.store.wf) (hb : b.store.wf)
    (hca : a.cls.isMutable = false) (hcb : b.cls.isMutable = false) (h : a.bits = b.bits) :
    hashAlg T A B l1 a = hashAlg T A B l2 b := by
  rw [hashAlg_eq_hashKey T A B l1 a ha hca, hashAlg_eq_hashKey T A B l2 b hb hcb, h]

/-- The key never depends on `pos`, on which hashable class the object has, or on the store layout
    (in-memory store vs. a whole-buffer store carrying `modified_length`). -/
theorem hashKey_sampling_sound (T A B : Nat) (l1 l2 : Bool) (s : Bits) (c1 c2 : Cls) (p1 p2 : Nat)
    (h1 : c1.isMutable = false) (h2 : c2.isMutable = false) :
    hashAlg T A B l1 ⟨c1, { raw := s }, p1⟩ = hashAlg T A B l2 ⟨c2, { raw := s, modLen := some s.length }, p2⟩ := by
  apply hashKey_congr T A B l1 l2 _ _ _ _ h1 h2
  · have w1 : ({ raw := s } : Store).wf := by intro m hm; cases hm
    have w2 : ({ raw := s, modLen := some s.length } : Store).wf := by intro m hm; cases hm; rfl
    simp only [Obj.bits, wf_bits _ w1, wf_bits _ w2]
  · intro m hm; cases hm
  · intro m hm; cases hm; rfl

/-- **The contract: objects that are `==` have equal hashes** (Bits / ConstBitStream, every length, either mode). -/
theorem eq_implies_hash_eq (T A B : Nat) (l1 l2 : Bool) (a b : Obj) (ha : a.store.wf) (hb : b.store.wf)
    (hca : a.cls.isMutable = false) (hcb : b.cls.isMutable = false)
    (h : eqAlg a (.bitstring b) = .ok true) :
    hashAlg T A B l1 a = hashAlg T A B l2 b :=
  hashKey_congr T A B l1 l2 a b ha hb hca hcb ((eq_true_iff_bits a b ha hb).mp h)

/-- The key always carries the length, so objects of different lengths never share a key. -/
theorem hashKey_length (T A B : Nat) (s : Bits) : (hashKey T A B s).2 = s.length := by
  unfold hashKey; split <;> rfl

/-- Up to the threshold the key determines the bits (no collisions among short bitstrings): `tobytes` is
    injective once the length is known. -/
theorem hashKey_injective_below_threshold (T A B : Nat) (s t : Bits)
    (hs : s.length ≤ T) (ht : t.length ≤ T) (h : hashKey T A B s = hashKey T A B t) : s = t := by
  simp only [hashKey, hs, ht, if_true] at h
  injection h with hb hl
  exact toBytes_injective s t hl hb

/-- Beyond the threshold only the ends are read: two bitstrings of the same length that agree on the first `A`
    and the last `B` bits have the same key (collisions are allowed there, inequality of `==` objects is not). -/
theorem hashKey_reads_only_ends (T A B : Nat) (s t : Bits) (hl : s.length = t.length)
    (hT : T < s.length) (hB : 0 < B) (hBl : B ≤ s.length) (h1 : s.take A = t.take A)
    (h2 : s.drop (s.length - B) = t.drop (t.length - B)) :
    hashKey T A B s = hashKey T A B t := by
  have hs : ¬ s.length ≤ T := by omega
  have ht : ¬ t.length ≤ T := by omega
  rw [hl] at h2
  simp only [hashKey, hs, ht, if_false, sample, absSuffix_eq_drop B s hB hBl,
    absSuffix_eq_drop B t hB (by omega), h1, hl, h2]

/-- With the sample sizes not above the object's length (always so in the code: `len > 2000 ≥ 800`), the sampled
    bits are exactly the first `A` and the last `B` bits. -/
theorem sample_first_last (A B : Nat) (s : Bits) (hB : 0 < B) (hBl : B ≤ s.length) :
    sample A B s = s.take A ++ s.drop (s.length - B) := by
  simp only [sample, absSuffix_eq_drop B s hB hBl]

/-- **BitArray and BitStream are unhashable**; Bits and ConstBitStream always hash. -/
theorem mutable_unhashable (T A B : Nat) (lsb0 : Bool) (o : Obj) (h : o.cls.isMutable = true) :
    hashAlg T A B lsb0 o = .error .type := by
  simp [hashAlg, h]

/-- (for every store, well-formed or not: the `assert` of `_absolute_slice` cannot fire on this path) -/
theorem immutable_hashable (T A B : Nat) (lsb0 : Bool) (o : Obj) (h : o.cls.isMutable = false) :
    ∃ k, hashAlg T A B lsb0 o = .ok k := by
  have h1 : ∃ x, absoluteSlice o.store 0 (A : Int) = .ok x := by
    unfold absoluteSlice
    split
    · exact ⟨_, rfl⟩
    · split
      · omega
      · exact ⟨_, rfl⟩
  have h2 : ∃ y, absoluteSlice o.store ((o.store.len : Int) - (B : Int)) (o.store.len : Int) = .ok y := by
    unfold absoluteSlice
    split
    · exact ⟨_, rfl⟩
    · split
      · omega
      · exact ⟨_, rfl⟩
  obtain ⟨x, hx⟩ := h1
  obtain ⟨y, hy⟩ := h2
  unfold hashAlg
  simp only [h, Bool.false_eq_true, if_false]
  split
  · exact ⟨_, rfl⟩
  · rw [hx, hy]; exact ⟨_, rfl⟩

theorem mutable_classes : Cls.isMutable .bitArray = true ∧ Cls.isMutable .bitStream = true ∧
    Cls.isMutable .bits = false ∧ Cls.isMutable .constBitStream = false := by decide

/-- **Interchangeable as dict keys and set members**: `b in {a}` (equal hash and `==`) is true exactly when the
    bits agree, for hashable objects of any class/pos/layout and every length; with a mutable operand it raises. -/
theorem inSet_iff_bits (T A B : Nat) (lsb0 : Bool) (a b : Obj) (ha : a.store.wf) (hb : b.store.wf)
    (hca : a.cls.isMutable = false) (hcb : b.cls.isMutable = false) :
    inSet T A B lsb0 a b = .ok (decide (a.bits = b.bits)) := by
  unfold inSet
  rw [hashAlg_eq_hashKey T A B lsb0 a ha hca, hashAlg_eq_hashKey T A B lsb0 b hb hcb]
  simp only [eqObj, Store.eq]
  have hbits : (a.store.raw = b.store.raw) ↔ (a.bits = b.bits) := by
    simp only [Obj.bits, wf_bits _ ha, wf_bits _ hb]
  by_cases h : a.bits = b.bits
  · rw [h]; simp [hbits.mpr h, h]
  · have h' : ¬ a.store.raw = b.store.raw := fun hh => h (hbits.mp hh)
    simp [h, h']

theorem inSet_mutable_error (T A B : Nat) (lsb0 : Bool) (a b : Obj)
    (h : a.cls.isMutable = true ∨ b.cls.isMutable = true) :
    inSet T A B lsb0 a b = .error .type := by
  unfold inSet
  cases hma : a.cls.isMutable with
  | true => rw [mutable_unhashable T A B lsb0 a hma]
  | false =>
    have hb' : b.cls.isMutable = true := by
      rcases h with h | h
      · rw [hma] at h; cases h
      · exact h
    obtain ⟨k, hk⟩ := immutable_hashable T A B lsb0 a hma
    rw [hk, mutable_unhashable T A B lsb0 b hb']

/-! ### `tobytes` -/

theorem toBytes_len (s : Bits) : (toBytes s).length = (s.length + 7) / 8 := toBytes_length s

theorem toBytes_byte_range (s : Bits) : ∀ v ∈ toBytes s, v < 256 := toBytes_lt s

/-- `tobytes` determines the bits once the length is known (which is why the length is part of the key) … -/
theorem toBytes_inj_given_length (a b : Bits) (hl : a.length = b.length) (h : toBytes a = toBytes b) : a = b :=
  toBytes_injective a b hl h

/-- … but not without it: zero padding is invisible in the bytes. -/
theorem toBytes_not_injective : toBytes [true] = toBytes [true, false] ∧ ([true] : Bits) ≠ [true, false] := by
  decide

/-- `Bits(bytes=b).tobytes() == b`. -/
theorem toBytes_frombytes (b : List Nat) (h : ∀ v ∈ b, v < 256) : (Store.frombytes b).tobytes = b := by
  simp only [Store.frombytes, Store.tobytes]
  exact toBytes_bytesToBits b h

/-! ### for the record: the sampling expression before fix 42091e9 was mode-dependent -/

/-- Documentation witness about the OLD expression `self[:A] + self[-B:]` (`sampleOld`/`hashKeyOld`, kept in the
    model only for this): beyond the threshold its key differed between msb0 and lsb0 … -/
theorem old_sampling_mode_dependent_witness :
    hashKeyOld 2 1 1 false [true, false, false] ≠ hashKeyOld 2 1 1 true [true, false, false] := by decide

/-- … while the current key is the old msb0 key (the fix changed no msb0 hash value). -/
theorem hashKey_eq_old_msb0 (T A B : Nat) (s : Bits) (hB : 0 < B) (hBl : B ≤ s.length) :
    hashKey T A B s = hashKeyOld T A B false s := by
  have : B ≠ 0 := by omega
  simp only [hashKey, hashKeyOld, sample, sampleOld, pySuffix, absSuffix_eq_drop B s hB hBl, this,
    Bool.false_eq_true, if_false]

/-! ### non-vacuity -/

/-- A store that still carries `modified_length` (whole-file length given explicitly) is well formed and compares
    equal to a plain store with the same bits; the two hash alike beyond a (small) threshold in both modes. -/
example :
    let a : Obj := ⟨.bits, { raw := [true, false, true, true, false], modLen := some 5 }, 0⟩
    let b : Obj := ⟨.constBitStream, { raw := [true, false, true, true, false] }, 3⟩
    a.store.wf ∧ b.store.wf ∧ eqAlg a (.bitstring b) = .ok true ∧
    hashAlg 4 2 2 false a = hashAlg 4 2 2 false b ∧ hashAlg 4 2 2 true a = hashAlg 4 2 2 true b ∧
    hashAlg 4 2 2 false a = .ok ([0b10100000], 5) ∧ hashAlg 4 2 2 true a = .ok ([0b10100000], 5) ∧
    inSet 4 2 2 false a b = .ok true := by
  decide

example : Store.frombuffer [true, false, true, true, false, false, false, true] (some 5)
    = .ok { raw := [true, false, true, true, false] } := by decide

example : hashKey 4 2 1 [true, true, false, false, false, true] = ([0b11100000], 6) ∧
    hashKeyOld 4 2 1 true [true, true, false, false, false, true] = ([0b01100000], 6) := by decide

example : eqAlg ⟨.bitArray, { raw := [true, false, false, false, true, true, true, true] }, 0⟩
    (.str "0b1000, 0xF".toList) = .ok true := by decide

example : eqAlg ⟨.bits, { raw := [true] }, 0⟩ (.iterable [.int 5]) = .ok true ∧
    eqAlg ⟨.bits, { raw := [true] }, 0⟩ .integral = .ok false := by decide

end BM.C13
