/-
  Props/C07.lean — search results equal the brute-force definition (msb0).

  SPEC is `occ data pat s e aligned` (Model/C07.lean): the increasing list of all p with
  `data[p:p+|pat|] = pat`, `s ≤ p`, `p + |pat| ≤ e` and, when aligned, `8 ∣ p`.
  This file: the list programs standing for the bitarray/bytes primitives mean what their documentation says;
  both code paths of `findall_msb0` (byte fast path, general path with the `p % 8` filter) and the reverse
  path yield exactly `occ`; find = lowest, rfind = highest, findall = the first `count`; `in`, startswith,
  endswith, count; ValueError exactly for an empty pattern (where the property says so) or an invalid range.
  split / replace / cut are in Props/C07_Split.lean.
-/
import BitstringModel.Model.C07
import BitstringModel.Proofs.C07

namespace BM.C07
open BM

/-! ### the brute-force definition says what the property says -/

/-- "pattern occurs at p iff data[p:p+len(pattern)] equals it wholly inside [start, end) and, when byte-aligned,
    p is a multiple of 8". -/
theorem occ_mem_iff (data pat : Bits) (s e : Nat) (al : Bool) (p : Nat) :
    p ∈ occ data pat s e al ↔
      s ≤ p ∧ p + pat.length ≤ e ∧ (data.drop p).take pat.length = pat ∧ (al = true → p % 8 = 0) := by
  sorry

/-- "in increasing order": each position once, strictly increasing. -/
theorem occ_sorted (data pat : Bits) (s e : Nat) (al : Bool) :
    (occ data pat s e al).Pairwise (· < ·) := by
  sorry

/-! ### primitives: the executable list programs equal their list meaning -/

/-- The suffix scan standing for `bitarray.search` / `bytes.find` finds all and only the occurrences in the window. -/
theorem scan_eq_occG {α} [DecidableEq α] (data pat : List α) (s e : Nat) (he : e ≤ data.length) :
    scan pat e (data.drop s) s = occG data pat s e := by
  sorry

/-- `list(a.search(sub, start, end))` = all occurrences, increasing. -/
theorem baSearch_eq_occ (data pat : Bits) (s e : Nat) (he : e ≤ data.length) :
    baSearch data pat s e = occ data pat s e false := by
  sorry

/-- `b.find(sub, k)` = the lowest occurrence at or after `k`. -/
theorem bytesFind_spec (b sub : List Nat) (k : Nat) :
    bytesFind b sub k = (occG b sub k b.length).head? := by
  sorry

/-- `tobytes()` of a whole number of bytes: byte j is the value of bits `[8j, 8j+8)`. -/
theorem toBytes_whole (l : Bits) (k : Nat) (h : l.length = 8 * k) :
    toBytes l = (List.range k).map fun j => bitsToNat (slice l (8 * j) (8 * j + 8)) := by
  sorry

/-- A byte-sequence match at byte index j ⇔ a bit match at bit 8j (both operands whole bytes). -/
theorem chunk8_match_iff (w pat : Bits) (j : Nat) (hw : 8 ∣ w.length) (hp : 8 ∣ pat.length) :
    matchAt (toBytes w) (toBytes pat) j = matchAt w pat (8 * j) := by
  sorry

/-- Ceil/floor window: a byte-aligned occurrence of a whole-byte pattern lies inside `[start, end)` iff it lies
    inside the window the fast path searches, `[8*ceil(start/8), 8*floor(end/8))`. -/
theorem window_lemma (s e p m : Nat) (hp : 8 ∣ p) (hm : 8 ∣ m) :
    (s ≤ p ∧ p + m ≤ e) ↔ (8 * ((s + 7) / 8) ≤ p ∧ p + m ≤ 8 * (e / 8)) := by
  sorry

/-! ### both paths of `BitStore.findall_msb0`, and the reverse path -/

/-- KEY: the byte fast path (taken when `bytealigned is True and len(bs) % 8 == 0`) yields exactly the aligned
    occurrences, for every data, non-empty whole-byte pattern and validated window. -/
theorem fastpath_eq_occ (data pat : Bits) (s e : Nat) (hne : pat ≠ []) (h8 : 8 ∣ pat.length)
    (he : e ≤ data.length) :
    findallFast data pat s e = occ data pat s e true := by
  sorry

/-- The general path (not aligned, or pattern not a whole number of bytes), any pattern. -/
theorem general_eq_occ (data pat : Bits) (s e : Nat) (al : Bool) (he : e ≤ data.length)
    (hgen : al = false ∨ pat.length % 8 ≠ 0) :
    findallMsb0 data pat s e al = occ data pat s e al := by
  sorry

/-- `findall_msb0` as a whole. -/
theorem findallMsb0_eq_occ (data pat : Bits) (s e : Nat) (al : Bool) (hne : pat ≠ []) (he : e ≤ data.length) :
    findallMsb0 data pat s e al = occ data pat s e al := by
  sorry

/-- `rfindall_msb0`: the same positions, highest first. -/
theorem rfindallMsb0_eq_occ (data pat : Bits) (s e : Nat) (al : Bool) (he : e ≤ data.length) :
    rfindallMsb0 data pat s e al = (occ data pat s e al).reverse := by
  sorry

/-! ### find = lowest, rfind = highest -/

theorem storeFind_eq (data pat : Bits) (s e : Nat) (al : Bool) (hne : pat ≠ []) (he : e ≤ data.length) :
    storeFind data pat s e al = specFind data pat s e al := by
  sorry

theorem storeRfind_eq (data pat : Bits) (s e : Nat) (al : Bool) (he : e ≤ data.length) :
    storeRfind data pat s e al = specRfind data pat s e al := by
  sorry

/-- "find returns the lowest such p". -/
theorem find_lowest (data pat : Bits) (s e : Nat) (al : Bool) (hne : pat ≠ []) (he : e ≤ data.length) (p : Nat) :
    storeFind data pat s e al = some p ↔ (p ∈ occ data pat s e al ∧ ∀ q ∈ occ data pat s e al, p ≤ q) := by
  sorry

theorem find_none_iff (data pat : Bits) (s e : Nat) (al : Bool) (hne : pat ≠ []) (he : e ≤ data.length) :
    storeFind data pat s e al = none ↔ occ data pat s e al = [] := by
  sorry

/-- "rfind the highest". -/
theorem rfind_highest (data pat : Bits) (s e : Nat) (al : Bool) (he : e ≤ data.length) (p : Nat) :
    storeRfind data pat s e al = some p ↔ (p ∈ occ data pat s e al ∧ ∀ q ∈ occ data pat s e al, q ≤ p) := by
  sorry

theorem rfind_none_iff (data pat : Bits) (s e : Nat) (al : Bool) (he : e ≤ data.length) :
    storeRfind data pat s e al = none ↔ occ data pat s e al = [] := by
  sorry

/-! ### `_validate_slice` -/

/-- `_validate_slice` accepts exactly the valid ranges and returns the normalised window; every rejection is a
    ValueError. -/
theorem validate_slice_spec (len : Nat) (start stop : Option Int) :
    validateSlice len start stop =
      match specWindow len start stop with
      | none => .error .value
      | some w => .ok w := by
  sorry

/-- A validated window is inside the data. -/
theorem validate_slice_bounds (len : Nat) (start stop : Option Int) (s e : Nat)
    (h : validateSlice len start stop = .ok (s, e)) : s ≤ e ∧ e ≤ len := by
  sorry

/-- The validated window `[s, e)` is the window Python's own `data[start:end]` denotes. -/
theorem validate_slice_window {α} (l : List α) (start stop : Option Int) (s e : Nat)
    (h : validateSlice l.length start stop = .ok (s, e)) :
    Py.getSlice l start stop none = .ok (slice l s e) := by
  sorry

theorem defaultBA_eq (ba : Option Bool) (o : Bool) : defaultBA ba o = specAligned ba o := by
  sorry

/-! ### the public entry points on their whole domain -/

theorem find_eq_spec (data pat : Bits) (start stop : Option Int) (ba : Option Bool) (optBA : Bool) :
    find data pat start stop ba optBA =
      specGuard true data.length pat start stop fun s e => specFind data pat s e (specAligned ba optBA) := by
  sorry

theorem rfind_eq_spec (data pat : Bits) (start stop : Option Int) (ba : Option Bool) (optBA : Bool) :
    rfind data pat start stop ba optBA =
      specGuard true data.length pat start stop fun s e => specRfind data pat s e (specAligned ba optBA) := by
  sorry

/-- The counting loop of `_findall_msb0` = "up to count". -/
theorem findallCount_eq_take (count : Option Nat) (l : List Nat) :
    findallCount count l 0 = match count with
      | none => l
      | some n => l.take n := by
  sorry

/-- "findall all of them in increasing order including overlapping ones up to count".
    Full statement (no `hreg`) fails on the pinned tree: see `findall_empty_witness`.
    `hc`: the property's count domain is `None, 0, 1, 2, …`. -/
theorem findall_sorted_complete_partial (data pat : Bits) (start stop : Option Int) (count : Option Int)
    (ba : Option Bool) (optBA : Bool) (hreg : findall_empty_pattern pat = false)
    (hc : ∀ c, count = some c → 0 ≤ c) :
    findall data pat start stop count ba optBA =
      specGuard true data.length pat start stop fun s e =>
        specFindall data pat s e (specAligned ba optBA) (countNat count) := by
  sorry

/-- Known finding `findall-empty`: `list(Bits('0b101').findall(''))` is `[0, 1, 2, 3]`, the property demands
    ValueError. -/
theorem findall_empty_witness :
    findall_empty_pattern [] = true ∧
    findall [true, false, true] [] none none none none false = .ok [0, 1, 2, 3] ∧
    (specGuard true 3 [] none none fun s e => specFindall [true, false, true] [] s e false none) = .error .value := by
  decide

/-- What the code does in that region: every position of the window on the general path … -/
theorem findall_empty_general (data : Bits) (s e : Nat) (he : e ≤ data.length) :
    findallMsb0 data [] s e false = (List.range (e + 1)).filter fun p => decide (s ≤ p) := by
  sorry

/-- `in`: found at any bit position, whatever `options.bytealigned` says (doc/bits.rst `Bits.__contains__`:
    "True if bs can be found in the bitstring"; the code passes `bytealigned=False` explicitly). -/
theorem contains_eq_spec (data pat : Bits) (optBA : Bool) :
    contains data pat optBA = if pat.isEmpty then .error .value else .ok (specContains data pat) := by
  sorry

theorem startswith_eq_spec (data pre : Bits) (start stop : Option Int) :
    startswith data pre start stop =
      specGuard false data.length pre start stop fun s e => specStartswith data pre s e := by
  sorry

theorem endswith_eq_spec (data suf : Bits) (start stop : Option Int) :
    endswith data suf start stop =
      specGuard false data.length suf start stop fun s e => specEndswith data suf s e := by
  sorry

theorem count_eq_spec (data : Bits) (v : Bool) : count data v = specCount data v := by
  sorry

/-! ### "an empty pattern (for find, rfind, in …) or an invalid range raises ValueError" -/

theorem empty_pattern_error_find (data : Bits) (start stop : Option Int) (ba : Option Bool) (o : Bool) :
    find data [] start stop ba o = .error .value := by
  sorry

theorem empty_pattern_error_rfind (data : Bits) (start stop : Option Int) (ba : Option Bool) (o : Bool) :
    rfind data [] start stop ba o = .error .value := by
  sorry

theorem empty_pattern_error_in (data : Bits) (o : Bool) : contains data [] o = .error .value := by
  sorry

/-- An invalid range is a ValueError for every entry point that takes a range (empty pattern or not). -/
theorem invalid_range_error (data pat : Bits) (start stop : Option Int) (count : Option Int) (ba : Option Bool) (o : Bool)
    (hw : specWindow data.length start stop = none) (hc : ∀ c, count = some c → 0 ≤ c) :
    find data pat start stop ba o = .error .value ∧ rfind data pat start stop ba o = .error .value ∧
    findall data pat start stop count ba o = .error .value ∧
    startswith data pat start stop = .error .value ∧ endswith data pat start stop = .error .value := by
  sorry

/-! ### non-vacuity -/
example : occ [false,false,false,false,true,false,true,true, false,false,false,false,true,false,true,true]
    [true,false,true,true] 0 16 false = [4, 12] := by decide
example : findallFast (List.replicate 40 false) (List.replicate 16 false) 3 40 = [8, 16, 24] := by decide
example : occ (List.replicate 40 false) (List.replicate 16 false) 3 40 true = [8, 16, 24] := by decide
example : find [true, true, false, true, true] [true, true] (some (-4)) none none false = .ok (some 3) := by decide
example : specWindow 5 (some (-4)) none = some (1, 5) := by decide

end BM.C07
