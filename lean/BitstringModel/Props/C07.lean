/-
  Props/C07.lean — search results equal the brute-force definition (msb0).

  SPEC is `occ data pat s e aligned` (Model/C07.lean): the increasing list of all p with
  `data[p:p+|pat|] = pat`, `s ≤ p`, `p + |pat| ≤ e` and, when aligned, `8 ∣ p`.
  This file: the list programs standing for the bitarray/bytes primitives mean what their documentation says;
  both code paths of `findall_msb0` (byte fast path, general path with the `p % 8` filter) and the reverse
  path yield exactly `occ`; find = lowest, rfind = highest, findall = the first `count`; `in`, startswith,
  endswith, count; ValueError exactly for an empty pattern (where the property says so) or an invalid range.
  split / replace / cut are in Props/C07_Split.lean.
-/
import BitstringModel.Model.C07
import BitstringModel.Proofs.C07

namespace BM.C07
open BM

/-! ### the brute-force definition says what the property says -/

/-- "pattern occurs at p iff data[p:p+len(pattern)] equals it wholly inside [start, end) and, when byte-aligned,
    p is a multiple of 8". -/
theorem occ_mem_iff (data pat : Bits) (s e : Nat) (al : Bool) (p : Nat) :
    p ∈ occ data pat s e al ↔
      s ≤ p ∧ p + pat.length ≤ e ∧ (data.drop p).take pat.length = pat ∧ (al = true → p % 8 = 0) := by
  exact mem_occ data pat s e al p

/-- "in increasing order": each position once, strictly increasing. -/
theorem occ_sorted (data pat : Bits) (s e : Nat) (al : Bool) :
    (occ data pat s e al).Pairwise (· < ·) := by
  exact occ_sorted' data pat s e al

/-! ### primitives: the executable list programs equal their list meaning -/

/-- The suffix scan standing for `bitarray.search` / `bytes.find` finds all and only the occurrences in the window. -/
theorem scan_eq_occG {α} [DecidableEq α] (data pat : List α) (s e : Nat) (he : e ≤ data.length) :
    scan pat e (data.drop s) s = occG data pat s e := by
  exact scan_eq_occG' data pat s e he

/-- `list(a.search(sub, start, end))` = all occurrences, increasing. -/
theorem baSearch_eq_occ (data pat : Bits) (s e : Nat) (he : e ≤ data.length) :
    baSearch data pat s e = occ data pat s e false := by
  exact baSearch_eq_occ' data pat s e he

/-- `b.find(sub, k)` = the lowest occurrence at or after `k`. -/
theorem bytesFind_spec (b sub : List Nat) (k : Nat) :
    bytesFind b sub k = (occG b sub k b.length).head? := by
  exact bytesFind_spec' b sub k

/-- `tobytes()` of a whole number of bytes: byte j is the value of bits `[8j, 8j+8)`. -/
theorem toBytes_whole (l : Bits) (k : Nat) (h : l.length = 8 * k) :
    toBytes l = (List.range k).map fun j => bitsToNat (slice l (8 * j) (8 * j + 8)) := by
  exact toBytes_whole' k l h

/-- A byte-sequence match at byte index j ⇔ a bit match at bit 8j (both operands whole bytes). -/
theorem chunk8_match_iff (w pat : Bits) (j : Nat) (hw : 8 ∣ w.length) (hp : 8 ∣ pat.length) :
    matchAt (toBytes w) (toBytes pat) j = matchAt w pat (8 * j) := by
  exact chunk8_match_iff' w pat j hw hp

/-- Ceil/floor window: a byte-aligned occurrence of a whole-byte pattern lies inside `[start, end)` iff it lies
    inside the window the fast path searches, `[8*ceil(start/8), 8*floor(end/8))`. -/
theorem window_lemma (s e p m : Nat) (hp : 8 ∣ p) (hm : 8 ∣ m) :
    (s ≤ p ∧ p + m ≤ e) ↔ (8 * ((s + 7) / 8) ≤ p ∧ p + m ≤ 8 * (e / 8)) := by
  omega

/-! ### both paths of `BitStore.findall_msb0`, and the reverse path -/

/-- KEY: the byte fast path (taken when `bytealigned is True and len(bs) % 8 == 0`) yields exactly the aligned
    occurrences, for every data, non-empty whole-byte pattern and validated window. -/
theorem fastpath_eq_occ (data pat : Bits) (s e : Nat) (hne : pat ≠ []) (h8 : 8 ∣ pat.length)
    (he : e ≤ data.length) :
    findallFast data pat s e = occ data pat s e true := by
  exact fastpath_eq_occ' data pat s e hne h8 he

/-- The general path (not aligned, or pattern not a whole number of bytes), any pattern. -/
theorem general_eq_occ (data pat : Bits) (s e : Nat) (al : Bool) (he : e ≤ data.length)
    (hgen : al = false ∨ pat.length % 8 ≠ 0) :
    findallMsb0 data pat s e al = occ data pat s e al := by
  exact general_eq_occ' data pat s e al he hgen

/-- `findall_msb0` as a whole. -/
theorem findallMsb0_eq_occ (data pat : Bits) (s e : Nat) (al : Bool) (hne : pat ≠ []) (he : e ≤ data.length) :
    findallMsb0 data pat s e al = occ data pat s e al := by
  exact findallMsb0_eq_occ' data pat s e al hne he

/-- `rfindall_msb0`: the same positions, highest first. -/
theorem rfindallMsb0_eq_occ (data pat : Bits) (s e : Nat) (al : Bool) (he : e ≤ data.length) :
    rfindallMsb0 data pat s e al = (occ data pat s e al).reverse := by
  exact rfindallMsb0_eq_occ' data pat s e al he

/-! ### find = lowest, rfind = highest -/

theorem storeFind_eq (data pat : Bits) (s e : Nat) (al : Bool) (hne : pat ≠ []) (he : e ≤ data.length) :
    storeFind data pat s e al = specFind data pat s e al := by
  exact storeFind_eq' data pat s e al hne he

theorem storeRfind_eq (data pat : Bits) (s e : Nat) (al : Bool) (he : e ≤ data.length) :
    storeRfind data pat s e al = specRfind data pat s e al := by
  exact storeRfind_eq' data pat s e al he

/-- "find returns the lowest such p". -/
theorem find_lowest (data pat : Bits) (s e : Nat) (al : Bool) (hne : pat ≠ []) (he : e ≤ data.length) (p : Nat) :
    storeFind data pat s e al = some p ↔ (p ∈ occ data pat s e al ∧ ∀ q ∈ occ data pat s e al, p ≤ q) := by
  rw [storeFind_eq' data pat s e al hne he]
  exact head?_some_iff_sorted _ (occ_sorted' data pat s e al) p

theorem find_none_iff (data pat : Bits) (s e : Nat) (al : Bool) (hne : pat ≠ []) (he : e ≤ data.length) :
    storeFind data pat s e al = none ↔ occ data pat s e al = [] := by
  rw [storeFind_eq' data pat s e al hne he]
  exact List.head?_eq_none_iff

/-- "rfind the highest". -/
theorem rfind_highest (data pat : Bits) (s e : Nat) (al : Bool) (he : e ≤ data.length) (p : Nat) :
    storeRfind data pat s e al = some p ↔ (p ∈ occ data pat s e al ∧ ∀ q ∈ occ data pat s e al, q ≤ p) := by
  rw [storeRfind_eq' data pat s e al he]
  exact getLast?_some_iff_sorted _ (occ_sorted' data pat s e al) p

theorem rfind_none_iff (data pat : Bits) (s e : Nat) (al : Bool) (he : e ≤ data.length) :
    storeRfind data pat s e al = none ↔ occ data pat s e al = [] := by
  rw [storeRfind_eq' data pat s e al he]
  exact List.getLast?_eq_none_iff

/-! ### `_validate_slice` -/

/-- `_validate_slice` accepts exactly the valid ranges and returns the normalised window; every rejection is a
    ValueError. -/
theorem validate_slice_spec (len : Nat) (start stop : Option Int) :
    validateSlice len start stop =
      match specWindow len start stop with
      | none => .error .value
      | some w => .ok w := by
  exact validate_slice_spec' len start stop

/-- A validated window is inside the data. -/
theorem validate_slice_bounds (len : Nat) (start stop : Option Int) (s e : Nat)
    (h : validateSlice len start stop = .ok (s, e)) : s ≤ e ∧ e ≤ len := by
  exact validate_slice_bounds' len start stop s e h

/-- The validated window `[s, e)` is the window Python's own `data[start:end]` denotes. -/
theorem validate_slice_window {α} (l : List α) (start stop : Option Int) (s e : Nat)
    (h : validateSlice l.length start stop = .ok (s, e)) :
    Py.getSlice l start stop none = .ok (slice l s e) := by
  exact validate_slice_window' l start stop s e h

theorem defaultBA_eq (ba : Option Bool) (o : Bool) : defaultBA ba o = specAligned ba o := by
  exact defaultBA_eq' ba o

/-! ### the public entry points on their whole domain -/

theorem find_eq_spec (data pat : Bits) (start stop : Option Int) (ba : Option Bool) (optBA : Bool) :
    find data pat start stop ba optBA =
      specGuard true data.length pat start stop fun s e => specFind data pat s e (specAligned ba optBA) := by
  unfold find specGuard
  by_cases hp : pat = []
  · subst hp; simp
  · have hl : pat.length ≠ 0 := by intro h; exact hp (List.length_eq_zero_iff.mp h)
    have hi : pat.isEmpty = false := by cases pat <;> simp_all
    simp only [hl, if_false, hi, Bool.and_false, Bool.false_eq_true]
    rw [validate_slice_spec']
    cases hw : specWindow data.length start stop with
    | none => rfl
    | some w =>
      obtain ⟨s, e⟩ := w
      have hb := specWindow_some _ _ _ _ _ hw
      simp only [defaultBA_eq']
      rw [storeFind_eq' data pat s e _ hp hb.2.2.2]

theorem rfind_eq_spec (data pat : Bits) (start stop : Option Int) (ba : Option Bool) (optBA : Bool) :
    rfind data pat start stop ba optBA =
      specGuard true data.length pat start stop fun s e => specRfind data pat s e (specAligned ba optBA) := by
  unfold rfind specGuard
  rw [validate_slice_spec']
  by_cases hp : pat = []
  · subst hp
    cases hw : specWindow data.length start stop with
    | none => simp
    | some w => simp
  · have hl : pat.length ≠ 0 := by intro h; exact hp (List.length_eq_zero_iff.mp h)
    have hi : pat.isEmpty = false := by cases pat <;> simp_all
    simp only [hl, if_false, hi, Bool.and_false, Bool.false_eq_true]
    cases hw : specWindow data.length start stop with
    | none => rfl
    | some w =>
      obtain ⟨s, e⟩ := w
      have hb := specWindow_some _ _ _ _ _ hw
      simp only [defaultBA_eq']
      rw [storeRfind_eq' data pat s e _ hb.2.2.2]

/-- The counting loop of `_findall_msb0` = "up to count". -/
theorem findallCount_eq_take (count : Option Nat) (l : List Nat) :
    findallCount count l 0 = match count with
      | none => l
      | some n => l.take n := by
  rw [findallCount_take count l 0]
  cases count <;> simp

/-- "findall all of them in increasing order including overlapping ones up to count"; ValueError for an empty
    pattern or an invalid range.  `hc`: the property's count domain is `None, 0, 1, 2, …`. -/
theorem findall_sorted_complete (data pat : Bits) (start stop : Option Int) (count : Option Int)
    (ba : Option Bool) (optBA : Bool) (hc : ∀ c, count = some c → 0 ≤ c) :
    findall data pat start stop count ba optBA =
      specGuard true data.length pat start stop fun s e =>
        specFindall data pat s e (specAligned ba optBA) (countNat count) := by
  rw [findall_unfold data pat start stop count ba optBA hc]
  unfold specGuard
  by_cases hp : pat = []
  · subst hp; simp
  · have hl : pat.length ≠ 0 := by intro h; exact hp (List.length_eq_zero_iff.mp h)
    have hi : pat.isEmpty = false := by cases pat <;> simp_all
    simp only [hl, Bool.false_eq_true, if_false, hi, Bool.and_false]
    rw [validate_slice_spec']
    cases hw : specWindow data.length start stop with
    | none => rfl
    | some w =>
      obtain ⟨s, e⟩ := w
      have hb := specWindow_some _ _ _ _ _ hw
      simp only [defaultBA_eq']
      rw [findallMsb0_eq_occ' data pat s e _ hp hb.2.2.2, findallCount_take]
      unfold specFindall
      cases countNat count <;> simp

/-- The store-level generator itself is still defined on the empty pattern (every position of the window on the
    general path); the public `findall` no longer reaches it. -/
theorem findall_empty_general (data : Bits) (s e : Nat) (he : e ≤ data.length) :
    findallMsb0 data [] s e false = (List.range (e + 1)).filter fun p => decide (s ≤ p) := by
  rw [general_eq_occ' data [] s e false he (Or.inl rfl), occ_false]
  unfold occG matchAt
  apply List.filter_congr
  intro p hp
  rw [List.mem_range] at hp
  simp
  omega

/-- `in`: found at any bit position, whatever `options.bytealigned` says (doc/bits.rst `Bits.__contains__`:
    "True if bs can be found in the bitstring"; the code passes `bytealigned=False` explicitly). -/
theorem contains_eq_spec (data pat : Bits) (optBA : Bool) :
    contains data pat optBA = if pat.isEmpty then .error .value else .ok (specContains data pat) := by
  unfold contains
  rw [find_eq_spec]
  unfold specGuard
  by_cases hp : pat = []
  · subst hp; simp
  · have hi : pat.isEmpty = false := by cases pat <;> simp_all
    have hw : specWindow data.length none none = some (0, data.length) := by
      simp [specWindow, normIdx]
    simp only [hi, Bool.and_false, Bool.false_eq_true, if_false, hw]
    unfold specFind specContains specAligned
    simp only [Option.getD_some]
    cases occ data pat 0 data.length false <;> simp

theorem startswith_eq_spec (data pre : Bits) (start stop : Option Int) :
    startswith data pre start stop =
      specGuard false data.length pre start stop fun s e => specStartswith data pre s e := by
  unfold startswith specGuard
  rw [validate_slice_spec']
  simp only [Bool.false_and, Bool.false_eq_true, if_false]
  cases hw : specWindow data.length start stop with
  | none => rfl
  | some w =>
    obtain ⟨s, e⟩ := w
    simp only
    congr 1
    unfold specStartswith slice
    have hm := mem_occ data pre s e false s
    have hsub : s + pre.length - s = pre.length := by omega
    rw [hsub]
    by_cases h : s + pre.length ≤ e
    · simp only [h, if_true]
      rw [decide_eq_decide, hm]
      constructor
      · intro h3; exact ⟨Nat.le_refl _, h, h3, by simp⟩
      · intro h3; exact h3.2.2.1
    · simp only [h, if_false]
      symm; rw [decide_eq_false_iff_not, hm]
      intro h3; exact h h3.2.1

theorem endswith_eq_spec (data suf : Bits) (start stop : Option Int) :
    endswith data suf start stop =
      specGuard false data.length suf start stop fun s e => specEndswith data suf s e := by
  unfold endswith specGuard
  rw [validate_slice_spec']
  simp only [Bool.false_and, Bool.false_eq_true, if_false]
  cases hw : specWindow data.length start stop with
  | none => rfl
  | some w =>
    obtain ⟨s, e⟩ := w
    simp only
    congr 1
    unfold specEndswith slice
    have hm := mem_occ data suf s e false (e - suf.length)
    by_cases h : s + suf.length ≤ e
    · have h1 : e - (e - suf.length) = suf.length := by omega
      simp only [h, if_true, h1]
      rw [decide_eq_decide, hm]
      constructor
      · intro h3; exact ⟨by omega, by omega, by omega, h3, by simp⟩
      · intro h3; exact h3.2.2.2.1
    · simp only [h, if_false]
      symm; rw [decide_eq_false_iff_not, hm]
      rintro ⟨h1, h2, _⟩; omega

theorem count_eq_spec (data : Bits) (v : Bool) : count data v = specCount data v := by
  unfold count specCount
  simp only [baCountOnes_eq]
  have := count_split data
  cases v
  · simp only [Bool.false_eq_true, if_false]; omega
  · simp

/-! ### "an empty pattern (for find, rfind, in …) or an invalid range raises ValueError" -/

theorem empty_pattern_error_find (data : Bits) (start stop : Option Int) (ba : Option Bool) (o : Bool) :
    find data [] start stop ba o = .error .value := by
  simp [find]

theorem empty_pattern_error_rfind (data : Bits) (start stop : Option Int) (ba : Option Bool) (o : Bool) :
    rfind data [] start stop ba o = .error .value := by
  rw [rfind_eq_spec]
  simp [specGuard]

theorem empty_pattern_error_in (data : Bits) (o : Bool) : contains data [] o = .error .value := by
  simp [contains, find]

theorem empty_pattern_error_findall (data : Bits) (start stop : Option Int) (count : Option Int) (ba : Option Bool)
    (o : Bool) (hc : ∀ c, count = some c → 0 ≤ c) :
    findall data [] start stop count ba o = .error .value := by
  rw [findall_sorted_complete data [] start stop count ba o hc]
  simp [specGuard]

/-- An invalid range is a ValueError for every entry point that takes a range (empty pattern or not). -/
theorem invalid_range_error (data pat : Bits) (start stop : Option Int) (count : Option Int) (ba : Option Bool) (o : Bool)
    (hw : specWindow data.length start stop = none) (hc : ∀ c, count = some c → 0 ≤ c) :
    find data pat start stop ba o = .error .value ∧ rfind data pat start stop ba o = .error .value ∧
    findall data pat start stop count ba o = .error .value ∧
    startswith data pat start stop = .error .value ∧ endswith data pat start stop = .error .value := by
  have hv : validateSlice data.length start stop = .error .value := by
    rw [validate_slice_spec', hw]
  refine ⟨?_, ?_, ?_, ?_, ?_⟩
  · unfold find; rw [hv]; split <;> rfl
  · unfold rfind; rw [hv]
  · rw [findall_unfold data pat start stop count ba o hc, hv]; split <;> rfl
  · unfold startswith; rw [hv]
  · unfold endswith; rw [hv]

/-! ### non-vacuity -/
example : occ [false,false,false,false,true,false,true,true, false,false,false,false,true,false,true,true]
    [true,false,true,true] 0 16 false = [4, 12] := by decide
example : findallFast (List.replicate 40 false) (List.replicate 16 false) 3 40 = [8, 16, 24] := by decide
example : occ (List.replicate 40 false) (List.replicate 16 false) 3 40 true = [8, 16, 24] := by decide
example : find [true, true, false, true, true] [true, true] (some (-4)) none none false = .ok (some 3) := by decide
example : specWindow 5 (some (-4)) none = some (1, 5) := by decide

end BM.C07
