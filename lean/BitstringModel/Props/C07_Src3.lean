/-
  Props/C07_Src3.lean — tie between C07's hand-written ALG transcriptions of `Bits.startswith` / `Bits.endswith` and the
  CURRENT source text (third batch; `_validate_slice` is tied in Props/C07_Src.lean, `find` / `rfind` in C07_Src2).

  `Gen.Src.startswith` / `Gen.Src.endswith` are regenerated from /repo on every run by harness/translate.py (trace mode):
  the range validation (the translated `_validate_slice` is called) and the integer arithmetic of the window test and of
  the two slice bounds are translated; the comparison itself is recorded as ONE effect
  `return self._slice(_, _) == prefix if _b else False` whose holes are, in evaluation order, the Boolean window test
  (1 / 0) and the two bounds of the slice.  `startsMeaning` / `endsMeaning` give that effect the meaning the C07 model
  gives it — `decide (slice data a b = pat)` when the test holds, `false` otherwise — and the theorems state that for
  EVERY data, prefix / suffix and pair of Optional bounds the translated function under that meaning IS
  `C07.startswith` / `C07.endswith`, error cases included.  So a change of the window test (`>=` into `>`, the wrong
  end of the window, `len(prefix)` dropped), of a slice bound, or of the validation breaks the theorem.
  Parameters of the translation: `self_len = data.length`, `len_prefix = pat.length`.
-/
import BitstringModel.Model.C07
import BitstringModel.Gen.Src
namespace BM.C07.Src3
open BM BM.C07

/-- A recorded Boolean hole `_b`: 1 = True, 0 = False, anything else is not a Boolean. -/
def holeBool : Int → Option Bool
  | 1 => some true
  | 0 => some false
  | _ => none

/-- Meaning of the effects recorded for `Bits.startswith`: the conversion of the argument (the prefix is already a bit
    list here) and the conditional comparison of the slice with it. -/
def startsMeaning (data pat : Bits) : List Py.Act → Option Bool
  | [⟨"prefix = self._create_from_bitstype(prefix)", []⟩,
     ⟨"return self._slice(_, _) == prefix if _b else False", [some c, some a, some b]⟩] =>
      (holeBool c).map fun t => if t then decide (slice data a.toNat b.toNat = pat) else false
  | _ => none

/-- Meaning of the effects recorded for `Bits.endswith`. -/
def endsMeaning (data pat : Bits) : List Py.Act → Option Bool
  | [⟨"suffix = self._create_from_bitstype(suffix)", []⟩,
     ⟨"return self._slice(_, _) == suffix if _b else False", [some c, some a, some b]⟩] =>
      (holeBool c).map fun t => if t then decide (slice data a.toNat b.toNat = pat) else false
  | _ => none

/-- Shape-agnostic closing tactic (the same script must survive harmless rewrites of the Python source). -/
macro "src_auto" : tactic => `(tactic| (
  try simp only [Int.min_def, Nat.min_def, Int.max_def, Nat.max_def]
  try simp only [decide_eq_true_eq, decide_eq_false_iff_not, Bool.not_eq_true', Bool.not_eq_false', Bool.and_eq_true,
    Bool.or_eq_true, Bool.and_eq_false_imp, Bool.or_eq_false_iff, ne_eq, Decidable.not_not]
  repeat' split
  all_goals (first
    | omega
    | (simp_all [Except.map, Except.bind, startsMeaning, endsMeaning, holeBool] <;> first | omega | grind)
    | grind [Except.map, Except.bind, startsMeaning, endsMeaning, holeBool])))

/-- `Bits.startswith` as the source has it now = `C07.startswith`, for every data, prefix and Optional bounds. -/
theorem startswith_eq (data pat : Bits) (start stop : Option Int) :
    (Gen.Src.startswith (data.length : Int) start stop (pat.length : Int)).map (startsMeaning data pat)
      = (startswith data pat start stop).map some := by
  unfold Gen.Src.startswith Gen.Src.validate_slice startswith validateSlice
  cases start <;> cases stop <;> src_auto

/-- `Bits.endswith` as the source has it now = `C07.endswith`. -/
theorem endswith_eq (data pat : Bits) (start stop : Option Int) :
    (Gen.Src.endswith (data.length : Int) start stop (pat.length : Int)).map (endsMeaning data pat)
      = (endswith data pat start stop).map some := by
  unfold Gen.Src.endswith Gen.Src.validate_slice endswith validateSlice
  cases start <;> cases stop <;> src_auto

/-- Non-vacuity: a prefix test inside a window really reaches the comparison, a window that is too short is False
    without one, and a reversed window is the ValueError. -/
example : (Gen.Src.startswith 8 (some 2) none 3).map
      (startsMeaning [false, false, true, false, true, true, false, false] [true, false, true]) = .ok (some true) := by rfl
example : (Gen.Src.endswith 8 none (some (-2)) 3).map
      (endsMeaning [false, false, true, false, true, true, false, false] [false, true, true]) = .ok (some true) := by rfl
example : (Gen.Src.startswith 8 (some 6) none 3).map
      (startsMeaning [false, false, true, false, true, true, false, false] [true, false, true]) = .ok (some false) := by rfl
example : Gen.Src.endswith 8 (some 5) (some 2) 1 = .error .value := by rfl

end BM.C07.Src3
