/-
  Props/C06.lean — stream reads consume exactly what they return; the position is always valid.

  All statements are about `step : Stream → Op → Stream × Res` (Model/C06.lean), the transcription of
  ConstBitStream / BitStream, for every stream state, every token, every operand; no size bound.
  Four behaviours of the tree this check was built on contradicted the property (negative count in readlist,
  property assignment that shrinks below pos, short read of a single-length dtype, `s & s` on a ConstBitStream); they
  were fixed in /repo (known_findings.d/C06.json, status fixed).  `step` transcribes the fixed code, every theorem is
  stated at full strength, and the four witnesses are kept as regression `example`s at the end.
-/
import BitstringModel.Model.C06
import BitstringModel.Proofs.C06

namespace BM.C06
open BM

/-! ## "0 ≤ pos ≤ len holds after every operation" -/

/-- Every modelled operation keeps the position valid. -/
theorem inv_step (s : Stream) (op : Op) (hi : Inv s) : Inv (step s op).1 :=
  BM.C06.inv_step_all s op hi

/-- A newly constructed stream starts at a valid position (a negative `pos=` counts from the end), or the
    constructor raises. -/
theorem init_inv (mutable : Bool) (bits : Bits) (p q : Int) (h : initPos bits.length p = .ok q) :
    Inv ⟨mutable, bits, q⟩ ∧ (q = p ∨ q = p + bits.length) := by
  unfold initPos at h
  by_cases hp : p < 0
  · have e : (if p < 0 then p + (bits.length : Int) else p) = p + bits.length := if_pos hp
    simp only [e] at h
    by_cases hq : p + (bits.length : Int) < 0 ∨ p + (bits.length : Int) > bits.length
    · rw [if_pos hq] at h; cases h
    · rw [if_neg hq] at h; cases h
      exact ⟨⟨by simp only; omega, by simp only; omega⟩, Or.inr rfl⟩
  · have e : (if p < 0 then p + (bits.length : Int) else p) = p := if_neg hp
    simp only [e] at h
    by_cases hq : p < 0 ∨ p > bits.length
    · rw [if_pos hq] at h; cases h
    · rw [if_neg hq] at h; cases h
      exact ⟨⟨by simp only; omega, by simp only; omega⟩, Or.inl rfl⟩

/-- Induction over histories: from a valid (content, pos), every state of every history is valid, and the run never
    stops early (`run` would stop at the first invalid state). -/
theorem inv_run (s : Stream) (ops : List Op) (hi : Inv s) :
    (∀ o ∈ run s ops, Inv o.1) ∧ (run s ops).length = ops.length :=
  inv_run' s ops hi

/-! ## reads -/

/-- A successful read returns the interpretation of exactly the `k` bits starting at the old position,
    advances pos by `k` (never past the end) and changes nothing else; `k` is the length the token asks for
    whenever the token fixes one (count, `name:len`, or "all that is left"). -/
theorem read_ok (s s' : Stream) (t : Tok) (v : Val) (hi : Inv s) (h : step s (.read t) = (s', .val v)) :
    ∃ k : Nat, s.pos + k ≤ s.len ∧ s' = { s with pos := s.pos + k }
      ∧ specDecode t ((s.bits.drop s.pos.toNat).take k) = .ok v
      ∧ (∀ n, t.need (s.len - s.pos) = some n → n = k) := by
  rw [step_eq_core s _ (by intro h; cases h)] at h
  simp only [stepCore] at h
  cases hr : readTok s t with
  | error e => rw [hr] at h; cases h
  | ok r =>
    obtain ⟨v', np⟩ := r
    rw [hr] at h
    simp only [Prod.mk.injEq, Res.val.injEq] at h
    obtain ⟨h1, h2⟩ := h
    subst h2
    obtain ⟨k, hk1, hk2, hk3, hk4⟩ := readTok_ok s t v' np hi hr
    exact ⟨k, hk2, by rw [← h1, hk1], hk3, hk4⟩

/-- A self-delimiting code consumes at least one bit. -/
theorem read_var_progress (s s' : Stream) (vk : VKind) (v : Val) (hi : Inv s)
    (h : step s (.read (.var vk)) = (s', .val v)) : s.pos < s'.pos := by
  rw [step_eq_core s _ (by intro h; cases h)] at h
  simp only [stepCore] at h
  cases hr : readTok s (.var vk) with
  | error e => rw [hr] at h; cases h
  | ok r =>
    obtain ⟨v', np⟩ := r
    rw [hr] at h
    simp only [Prod.mk.injEq] at h
    rw [← h.1]
    simp only [readTok, Tok.toDT, resolve, readRDT] at hr
    cases hv : readVar s.bits s.pos vk with
    | error e => rw [hv] at hr; cases hr
    | ok x =>
      obtain ⟨v2, np2⟩ := x
      rw [hv] at hr
      simp only at hr
      split at hr
      · cases hr
      · cases hr
        obtain ⟨k, hk0, hk1, _, _⟩ := readVar_ok s.bits s.pos vk v' np hi.1 hi.2 hv
        simp only; omega

/-- A read that raises leaves the whole state (position included) as it was. -/
theorem read_fail_pos (s s' : Stream) (t : Tok) (e : Err) (h : step s (.read t) = (s', .err e)) : s' = s := by
  rw [step_eq_core s _ (by intro h; cases h)] at h
  simp only [stepCore] at h
  cases hr : readTok s t with
  | error e' => rw [hr] at h; cases h; rfl
  | ok r => rw [hr] at h; cases h

/-- An integer count larger than what is left: ReadError. -/
theorem read_count_short (s : Stream) (n : Int) (hn : 0 ≤ n) (hs : n > s.len - s.pos) :
    step s (.read (.count n)) = (s, .err .read) := by
  rw [step_eq_core s _ (by intro h; cases h)]
  simp only [stepCore, readTok_count_short s n hn hs]

/-- A well-formed fixed-length token (any kind, `bool` included) needing more bits than remain: ReadError. -/
theorem read_fixed_short (s : Stream) (k : Kind) (n : Nat) (ha : allowed k n = true)
    (hs : (n : Int) * k.mult > s.len - s.pos) :
    step s (.read (.fixed k n)) = (s, .err .read) := by
  rw [step_eq_core s _ (by intro h; cases h)]
  simp only [stepCore, readTok_fixed_short s k n ha hs]

/-- The only way reading a self-delimiting code fails is ReadError (truncated code, C10 `truncated_*`). -/
theorem read_var_fail (s s' : Stream) (vk : VKind) (e : Err) (h : step s (.read (.var vk)) = (s', .err e)) :
    e = .read := by
  rw [step_eq_core s _ (by intro h; cases h)] at h
  simp only [stepCore] at h
  cases hr : readTok s (.var vk) with
  | error e' => rw [hr] at h; cases h; exact readTok_var_err s vk _ hr
  | ok r => rw [hr] at h; cases h

/-- `peek` = `read` with the position put back. -/
theorem peek_eq_read_restore (s : Stream) (t : Tok) :
    step s (.peek t) = ({ (step s (.read t)).1 with pos := s.pos }, (step s (.read t)).2) := by
  rw [step_eq_core s _ (by intro h; cases h), step_eq_core s _ (by intro h; cases h)]
  simp only [stepCore]
  cases readTok s t with
  | error e => rfl
  | ok r => rfl

/-- `peeklist` = `readlist` with the position put back. -/
theorem peeklist_eq_readlist_restore (s : Stream) (ts : List Tok) :
    step s (.peeklist ts) = ({ (step s (.readlist ts)).1 with pos := s.pos }, (step s (.readlist ts)).2) := by
  rw [step_eq_core s _ (by intro h; cases h), step_eq_core s _ (by intro h; cases h)]
  simp only [stepCore]
  cases readList s.bits s.pos ts with
  | error e => rfl
  | ok r => rfl

/-- A successful `readlist` only moves the position, forwards, never past the end. -/
theorem readlist_ok (s s' : Stream) (ts : List Tok) (vs : List Val) (hi : Inv s)
    (h : step s (.readlist ts) = (s', .vals vs)) :
    ∃ k : Nat, s.pos + k ≤ s.len ∧ s' = { s with pos := s.pos + k } := by
  rw [step_eq_core s _ (by intro h; cases h)] at h
  simp only [stepCore] at h
  cases hr : readList s.bits s.pos ts with
  | error e => rw [hr] at h; cases h
  | ok r =>
    obtain ⟨vs', np⟩ := r
    rw [hr] at h
    simp only [Prod.mk.injEq] at h
    have := readList_ok s.bits s.pos ts vs' np hi.1 hi.2 hr
    refine ⟨(np - s.pos).toNat, by unfold Stream.len; omega, ?_⟩
    rw [← h.1]
    congr 1; omega

/-- A negative count anywhere in the list is rejected (ValueError), nothing moves. -/
theorem readlist_negative_count (s : Stream) (ts : List Tok) (n : Int) (hn : n < 0) (hm : Tok.count n ∈ ts) :
    step s (.readlist ts) = (s, .err .value) :=
  readlist_neg s ts n hn hm

/-- A `readlist` that raises leaves the state as it was. -/
theorem readlist_fail_pos (s s' : Stream) (ts : List Tok) (e : Err) (h : step s (.readlist ts) = (s', .err e)) :
    s' = s := by
  rw [step_eq_core s _ (by intro h; cases h)] at h
  simp only [stepCore] at h
  cases hr : readList s.bits s.pos ts with
  | error e' => rw [hr] at h; cases h; rfl
  | ok r => rw [hr] at h; cases h

/-- `readlist` without a stretchy token succeeds exactly when the successive single reads succeed, with the same
    values (pad dropped) and the same final position. -/
theorem readlist_eq_reads (s : Stream) (ts : List Tok) (hi : Inv s)
    (ho : ∀ t ∈ ts, t.isOpen = false) (vs : List Val) (p : Int) :
    step s (.readlist ts) = ({ s with pos := p }, .vals vs) ↔ readSeq s ts = .ok (vs, p) :=
  readlist_eq_reads' s ts hi ho vs p

/-- `readlist` with exactly one stretchy (length-less) token `k` at any place — `pre` without a stretchy token before
    it, fixed-length tokens `post` (`afterBits post` bits in all) after it — succeeds exactly when the successive single
    reads succeed in which the stretchy token is read as `k:items` with
    `items * bits_per_item = max(remaining_at_that_point - afterBits post, 0)`; same values (pad dropped), same final
    position.  This is the two-pass arithmetic of `_read_dtype_list` (`bits_after_stretchy_token`, `divmod`). -/
theorem readlist_eq_reads_stretchy (s : Stream) (pre post : List Tok) (k : Kind) (hi : Inv s)
    (hpre : ∀ t ∈ pre, t.isOpen = false) (hk : (Tok.stretchy k).isOpen = true)
    (hpost : ∀ t ∈ post, t.isFixedLen = true) (vs : List Val) (p : Int) :
    step s (.readlist (pre ++ .stretchy k :: post)) = ({ s with pos := p }, .vals vs)
      ↔ readSeqStretchy s pre k post = .ok (vs, p) := by
  rw [step_eq_core s _ (by intro h; cases h), readlist_step_iff]
  exact readlist_stretchy_iff s pre post k hi hpre hk hpost vs p

/-- …and such a list, when it succeeds, consumes everything up to the end of the stream: pos advances by
    (bits of `pre`) + max(remaining − after, 0) + after = all that was left. -/
theorem readlist_stretchy_consumes_all (s : Stream) (pre post : List Tok) (k : Kind) (hi : Inv s)
    (hpre : ∀ t ∈ pre, t.isOpen = false) (hk : (Tok.stretchy k).isOpen = true)
    (hpost : ∀ t ∈ post, t.isFixedLen = true) (vs : List Val) (p : Int)
    (h : step s (.readlist (pre ++ .stretchy k :: post)) = ({ s with pos := p }, .vals vs)) : p = s.len :=
  readSeqStretchy_consumes_all s pre post k hi hpre hpost vs p
    ((readlist_eq_reads_stretchy s pre post k hi hpre hk hpost vs p).1 h)

/-- The bits left for the stretchy token are not a whole number of items (`bytes`): ValueError, nothing moves
    (provided the tokens before it read and the tokens after it are well-formed dtypes — otherwise those errors come first). -/
theorem readlist_stretchy_remainder (s : Stream) (pre post : List Tok) (k : Kind) (hi : Inv s)
    (hpre : ∀ t ∈ pre, t.isOpen = false) (hk : (Tok.stretchy k).isOpen = true)
    (hpost : ∀ t ∈ post, t.isFixedLen = true) (vs1 : List Val) (p1 : Int)
    (h : readSeq s pre = .ok (vs1, p1)) (hc : ∃ dpost, toDTs post = .ok dpost)
    (hrem : (max (s.len - p1 - afterBits post) 0) % k.mult ≠ 0) :
    step s (.readlist (pre ++ .stretchy k :: post)) = (s, .err .value) := by
  rw [step_eq_core s _ (by intro h; cases h)]
  simp only [stepCore, readlist_stretchy_rem s pre post k hi hpre hk hpost vs1 p1 h hc hrem]

/-- A token that is not a valid dtype (e.g. `hex:6`, a negative count) anywhere in the list: its ValueError comes
    before anything is read or counted. -/
theorem readlist_bad_token (s : Stream) (ts : List Tok) (e : Err) (h : toDTs ts = .error e) :
    step s (.readlist ts) = (s, .err e) := by
  rw [step_eq_core s _ (by intro h; cases h)]
  simp only [stepCore, readList, h]

/-- Two stretchy tokens (all tokens being valid dtypes): `bitstring.Error`, nothing moves, wherever they stand. -/
theorem readlist_two_stretchy (s : Stream) (a b c : List Tok) (k1 k2 : Kind)
    (h1 : (Tok.stretchy k1).isOpen = true) (h2 : (Tok.stretchy k2).isOpen = true)
    (hc : ∃ ds, toDTs (a ++ .stretchy k1 :: (b ++ .stretchy k2 :: c)) = .ok ds) :
    step s (.readlist (a ++ .stretchy k1 :: (b ++ .stretchy k2 :: c))) = (s, .err .bitstring) := by
  rw [step_eq_core s _ (by intro h; cases h)]
  simp only [stepCore, readList_block_after_stretchy s.bits s.pos a k1 b _ c h1 (Or.inl h2) hc]

/-- A self-delimiting token anywhere after a stretchy one (all tokens being valid dtypes): `bitstring.Error`. -/
theorem readlist_var_after_stretchy (s : Stream) (a b c : List Tok) (k : Kind) (v : VKind)
    (h1 : (Tok.stretchy k).isOpen = true)
    (hc : ∃ ds, toDTs (a ++ .stretchy k :: (b ++ .var v :: c)) = .ok ds) :
    step s (.readlist (a ++ .stretchy k :: (b ++ .var v :: c))) = (s, .err .bitstring) := by
  rw [step_eq_core s _ (by intro h; cases h)]
  simp only [stepCore, readList_block_after_stretchy s.bits s.pos a k b _ c h1 (Or.inr rfl) hc]

/-- `readto`: on success the position is just after the first occurrence at or after the old position, and the
    returned stream (its own pos 0) is everything from the old position to there. -/
theorem readto_ok (s s' : Stream) (pat : Bits) (al : Bool) (v : Val) (hi : Inv s)
    (h : step s (.readto pat al) = (s', .val v)) :
    ∃ p : Nat, (occ s.bits pat s.pos.toNat s.bits.length al).head? = some p
      ∧ s' = { s with pos := (p : Int) + pat.length }
      ∧ v = .stream ((s.bits.drop s.pos.toNat).take (p + pat.length - s.pos.toNat)) 0 :=
  readto_ok' s s' pat al v hi h

/-- `readto` that raises (pattern absent → ReadError, empty pattern → ValueError) leaves the state as it was;
    an absent non-empty pattern is ReadError. -/
theorem readto_fail_pos (s s' : Stream) (pat : Bits) (al : Bool) (e : Err)
    (h : step s (.readto pat al) = (s', .err e)) : s' = s :=
  readto_fail' s s' pat al e h

theorem readto_absent (s : Stream) (pat : Bits) (al : Bool) (hi : Inv s) (hp : pat ≠ [])
    (h : occ s.bits pat s.pos.toNat s.bits.length al = []) :
    step s (.readto pat al) = (s, .err .read) :=
  readto_absent' s pat al hi hp h

/-! ## "other operations move pos only as documented" -/

theorem append_pos_end (s : Stream) (b : Bits) (hm : s.mutable = true) :
    (step s (.append b)).1.bits = s.bits ++ b ∧ (step s (.append b)).1.pos = (s.bits ++ b).length := by
  rw [step_eq_core s _ (fun _ => hm)]; simp [stepCore]

theorem iadd_pos_end (s : Stream) (b : Bits) (hm : s.mutable = true) :
    (step s (.iadd b)).1.bits = s.bits ++ b ∧ (step s (.iadd b)).1.pos = (s.bits ++ b).length := by
  rw [step_eq_core s _ (fun _ => hm)]; simp [stepCore]

theorem prepend_pos_zero (s : Stream) (b : Bits) (hm : s.mutable = true) :
    (step s (.prepend b)).1.bits = b ++ s.bits ∧ (step s (.prepend b)).1.pos = 0 := by
  rw [step_eq_core s _ (fun _ => hm)]; simp [stepCore]

theorem clear_pos_zero (s : Stream) (hm : s.mutable = true) :
    (step s .clear).1.bits = [] ∧ (step s .clear).1.pos = 0 := by
  rw [step_eq_core s _ (fun _ => hm)]; simp [stepCore]

/-- Deleting (index, or slice with any step): pos = 0 if the length changed, otherwise pos stays. -/
theorem del_len_change_pos_zero (s : Stream) (hm : s.mutable = true) :
    (∀ a b c, lenRule s (step s (.delSlice a b c))) ∧ (∀ i, lenRule s (step s (.delIdx i))) :=
  lenRule_del s hm

/-- Slice / item assignment: pos = 0 if the length changed, otherwise pos stays. -/
theorem setitem_len_change_pos_zero (s : Stream) (hm : s.mutable = true) :
    (∀ a b v, lenRule s (step s (.setSlice a b v))) ∧ (∀ i v, lenRule s (step s (.setIdxBits i v)))
      ∧ (∀ i v, lenRule s (step s (.setIdxInt i v))) :=
  lenRule_set s hm

/-- `replace` (also with the stream itself as the replacement): pos = 0 if the length changed, otherwise pos stays. -/
theorem replace_len_change_pos_zero (s : Stream) (hm : s.mutable = true) :
    (∀ o n a b c al, lenRule s (step s (.replace o n a b c al)))
      ∧ (∀ o a b c al, lenRule s (step s (.replaceSelf o a b c al))) :=
  lenRule_replace s hm

/-- `insert` of a non-empty `b` at a valid (possibly negative, possibly defaulted-to-pos) position `q`:
    the bits are in place at `q` and pos is just after them. -/
theorem insert_pos_after (s : Stream) (b : Bits) (p : Option Int) (hm : s.mutable = true) (hb : b ≠ [])
    (q : Int) (hq : q = (let x := p.getD s.pos; if x < 0 then x + s.len else x)) (h0 : 0 ≤ q) (h1 : q ≤ s.len) :
    (step s (.insert b p)).1 = { s with bits := s.bits.take q.toNat ++ b ++ s.bits.drop q.toNat, pos := q + b.length } := by
  rw [step_eq_core s _ (fun _ => hm)]
  simp only [stepCore, insertAt]
  have : b.isEmpty = false := by cases b <;> simp_all
  simp only [this, Bool.false_eq_true, if_false]
  simp only at hq
  rw [← hq, if_pos ⟨h0, h1⟩]

/-- `overwrite` likewise (the bitstring grows when the written bits run past the end). -/
theorem overwrite_pos_after (s : Stream) (b : Bits) (p : Option Int) (hm : s.mutable = true) (hb : b ≠ [])
    (q : Int) (hq : q = (let x := p.getD s.pos; if x < 0 then x + s.len else x)) (h0 : 0 ≤ q) (h1 : q ≤ s.len) :
    (step s (.overwrite b p)).1
      = { s with bits := s.bits.take q.toNat ++ b ++ s.bits.drop (q.toNat + b.length), pos := q + b.length } := by
  rw [step_eq_core s _ (fun _ => hm)]
  simp only [stepCore, overwriteAt]
  have : b.isEmpty = false := by cases b <;> simp_all
  simp only [this, Bool.false_eq_true, if_false]
  simp only at hq
  rw [← hq, if_neg (by omega)]

/-- `find`: found → pos is that (first) occurrence, which really is one inside the searched range;
    otherwise nothing moves. -/
theorem find_pos_match (s : Stream) (pat : Bits) (a b : Option Int) (al : Bool) :
    (∃ x y p, validateSlice s.bits.length a b = .ok (x, y) ∧ (occ s.bits pat x y al).head? = some p
        ∧ step s (.find pat a b al) = ({ s with pos := p }, .found (some p))
        ∧ x ≤ p ∧ p + pat.length ≤ y ∧ (s.bits.drop p).take pat.length = pat ∧ (al = true → p % 8 = 0))
    ∨ ((step s (.find pat a b al)).1 = s ∧ ∀ p, (step s (.find pat a b al)).2 ≠ .found (some p)) := by
  rw [step_eq_core s _ (by intro h; cases h)]
  simp only [stepCore]
  rcases findCommon_cases s pat a b al false with h | ⟨x, y, p, hv, hp, h⟩
  · right; exact h
  · left
    have hm := pick_mem _ _ _ hp
    rw [mem_occ] at hm
    exact ⟨x, y, p, hv, by simpa [pick] using hp, h, hm.1, hm.2.1, hm.2.2.2.2, hm.2.2.2.1⟩

/-- `rfind`: the same with the last occurrence. -/
theorem rfind_pos_match (s : Stream) (pat : Bits) (a b : Option Int) (al : Bool) :
    (∃ x y p, validateSlice s.bits.length a b = .ok (x, y) ∧ (occ s.bits pat x y al).getLast? = some p
        ∧ step s (.rfind pat a b al) = ({ s with pos := p }, .found (some p))
        ∧ x ≤ p ∧ p + pat.length ≤ y ∧ (s.bits.drop p).take pat.length = pat ∧ (al = true → p % 8 = 0))
    ∨ ((step s (.rfind pat a b al)).1 = s ∧ ∀ p, (step s (.rfind pat a b al)).2 ≠ .found (some p)) := by
  rw [step_eq_core s _ (by intro h; cases h)]
  simp only [stepCore]
  rcases findCommon_cases s pat a b al true with h | ⟨x, y, p, hv, hp, h⟩
  · right; exact h
  · left
    have hm := pick_mem _ _ _ hp
    rw [mem_occ] at hm
    exact ⟨x, y, p, hv, by simpa [pick] using hp, h, hm.1, hm.2.1, hm.2.2.2.2, hm.2.2.2.1⟩

/-- The non-length-changing mutators (reverse, invert, set, ror, rol, byteswap, <<=, >>=, &=, |=, ^=) keep the length
    and do not touch pos. -/
theorem mutate_keeps_pos (s : Stream) (m : Mut) :
    (step s (.mutate m)).1.pos = s.pos ∧ (step s (.mutate m)).1.bits.length = s.bits.length := by
  unfold step
  split
  · exact ⟨rfl, rfl⟩
  · simp only [stepCore]
    cases hm : applyMut s.bits m with
    | error e => exact ⟨rfl, rfl⟩
    | ok r =>
      obtain ⟨nb, ro⟩ := r
      have := applyMut_length s.bits m nb ro hm
      cases ro <;> exact ⟨rfl, this⟩

/-- Seeking: `pos = n` takes effect exactly for 0 ≤ n ≤ len and is refused (state unchanged) otherwise;
    `bytealign` goes to the next multiple of 8 or is refused when that is past the end. -/
theorem setpos_spec (s : Stream) (n : Int) :
    step s (.setPos n) = if 0 ≤ n ∧ n ≤ s.len then ({ s with pos := n }, .unit) else (s, .err .value) := by
  rw [step_eq_core s _ (by intro h; cases h)]
  simp only [stepCore, setBitPos]
  by_cases h1 : n < 0
  · rw [if_pos h1, if_neg (by omega)]
  · rw [if_neg h1]
    by_cases h2 : n > s.len
    · rw [if_pos h2, if_neg (by omega)]
    · rw [if_neg h2, if_pos (by omega)]

theorem bytealign_spec (s : Stream) (hi : Inv s) :
    let k := (8 - s.pos % 8) % 8
    (s.pos + k) % 8 = 0 ∧ 0 ≤ k ∧ k < 8 ∧
    step s .bytealign = if s.pos + k ≤ s.len then ({ s with pos := s.pos + k }, .val (.int k)) else (s, .err .value) := by
  have := hi.1
  refine ⟨by omega, by omega, by omega, ?_⟩
  rw [step_eq_core s _ (by intro h; cases h)]
  simp only [stepCore, setBitPos]
  rw [if_neg (by omega)]
  by_cases h2 : s.pos + (8 - s.pos % 8) % 8 > s.len
  · rw [if_pos h2, if_neg (by omega)]
  · rw [if_neg h2, if_pos (by omega)]

/-- Operations that are not mutators never change the contents. -/
theorem nonmutator_frame (s : Stream) (op : Op) (h : op.isMutator = false) : (step s op).1.bits = s.bits :=
  nonmutator_bits s op h

/-! ## "every new stream object a call returns starts at 0" -/

/-- Whatever operation returns a new stream object, that object's position is 0. -/
theorem new_stream_pos_zero (s s' : Stream) (op : Op) (p : Int) (h : step s op = (s', .ret (.new p))) : p = 0 :=
  new_pos_zero s s' op p h

/-- Streams among the values returned by `read`, `peek`, `readlist`, `peeklist`, `readto` start at 0. -/
theorem read_values_pos_zero (s s' : Stream) (op : Op) :
    (∀ v, step s op = (s', .val v) → v.posZero) ∧ (∀ vs, step s op = (s', .vals vs) → ∀ v ∈ vs, v.posZero) :=
  values_pos_zero s s' op

/-- An operation that returns a stream object (copy, `copy.copy`, slice, +, *, ~, <<, >>, &, |, ^, also with the
    stream itself as operand) leaves the receiver exactly as it was. -/
theorem returned_object_frame (s s' : Stream) (op : Op) (r : Ret) (h : step s op = (s', .ret r)) : s' = s :=
  ret_frame s s' op r h

/-- Property assignment (`s.hex = …`, `s.uint8 = …`): pos = 0 if the length changed, otherwise pos stays. -/
theorem property_assignment_len_change_pos_zero (s : Stream) (hm : s.mutable = true) (nb : Option Bits) :
    lenRule s (step s (.setProp nb)) := by
  rw [step_eq_core s _ (fun _ => hm)]
  cases nb with
  | none => simp only [stepCore]; exact lenRule_self ..
  | some b => simp only [stepCore]; exact lenRule_after ..

/-! ## "pos never affects ==, hash or any non-stream result" -/

/-- `==`, the hash key, `len`, `in`, `count`, whole-value `uint` of a stream do not depend on its position,
    and asking does not move it. -/
theorem pos_irrelevant (s : Stream) (q : Query) (p : Int) :
    (step { s with pos := p } (.query q)).2 = (step s (.query q)).2 ∧ (step s (.query q)).1 = s := by
  rw [step_eq_core _ _ (by intro h; cases h), step_eq_core _ _ (by intro h; cases h)]
  simp only [stepCore]
  cases q <;> simp [runQuery]

/-! ## non-vacuity -/

example : Inv ⟨true, [false, true, false, true, true, false, false, true, true, true], 3⟩ := by decide
example : (run ⟨true, [false, true, false, true, true, false, false, true, true, true], 3⟩
    [.read (.fixed .uint 3), .readlist [.count 2, .var .ue], .append [true], .setPos 2, .insert [true, true] none,
     .delSlice (some 0) (some 1) none, .peek (.stretchy .bin), .andSelf]).map (fun o => o.1.pos)
    = [6, 9, 11, 2, 4, 0, 0, 0] := by decide
example : step ⟨false, [false, true, false, true, true, false, false, true, true, true], 3⟩ (.read (.fixed .uint 3))
    = (⟨false, [false, true, false, true, true, false, false, true, true, true], 6⟩, .val (.int 6)) := by decide
example : step ⟨false, [false, false, true, false], 0⟩ (.readlist [.var .ue]) = (⟨false, [false, false, true, false], 0⟩, .err .read) := by
  decide
example : readSeq ⟨false, [true, false, true, false, true, true], 0⟩ [.fixed .bool 1, .var .ue, .fixed .pad 1]
    = .ok ([.bool true, .int 1], 5) := by decide
example : ∀ t ∈ [Tok.fixed .bool 1, .var .ue, .fixed .pad 1], t.isOpen = false := by decide
example : allowed .hex 8 = true ∧ ((8 : Nat) : Int) * Kind.hex.mult > (Stream.len ⟨false, [true], 0⟩) - 0 := by
  decide
example : step ⟨true, [true, false, true], 1⟩ (.insert [false, false] none)
    = (⟨true, [true, false, false, false, true], 3⟩, .unit) := by decide
example : step ⟨false, [true, false, true, true], 0⟩ (.readto [true, true] false)
    = (⟨false, [true, false, true, true], 4⟩, .val (.stream [true, false, true, true] 0)) := by decide

example : readSeqStretchy ⟨false, [true, false, true, true, false, false, true, true, true, false, false, false], 1⟩
    [.fixed .uint 2] .bytes [.count 1] = .ok ([.int 1, .bytes [true, false, false, true, true, true, false, false], .stream [false] 0], 12) := by
  decide
example : step ⟨false, [true, false, true, true, false, false, true, true, true, false, false, false], 1⟩
    (.readlist ([.fixed .uint 2] ++ .stretchy .bytes :: [.count 1]))
    = (⟨false, [true, false, true, true, false, false, true, true, true, false, false, false], 12⟩,
       .vals [.int 1, .bytes [true, false, false, true, true, true, false, false], .stream [false] 0]) := by decide
example : step ⟨false, [true, false, true, true], 0⟩ (.readlist ([] ++ .stretchy .bytes :: [.count 1]))
    = (⟨false, [true, false, true, true], 0⟩, .err .value) := by decide
example : step ⟨false, [true, false, true, true], 0⟩ (.readlist ([] ++ .stretchy .bin :: ([.count 1] ++ .stretchy .hex :: [])))
    = (⟨false, [true, false, true, true], 0⟩, .err .bitstring) := by decide
example : step ⟨false, [true, false, true, true], 0⟩ (.readlist ([] ++ .stretchy .bin :: ([] ++ .var .ue :: [])))
    = (⟨false, [true, false, true, true], 0⟩, .err .bitstring) := by decide

/-! ## regression: the four fixed findings (witness lines of known_findings.d/C06.json) -/
example : step ⟨false, List.replicate 16 true, 0⟩ (.readlist [.count (-1)])
    = (⟨false, List.replicate 16 true, 0⟩, .err .value) := by decide
example : step ⟨true, List.replicate 16 true, 12⟩ (.setProp (some [false, false, false, false, false, false, true, true]))
    = (⟨true, [false, false, false, false, false, false, true, true], 0⟩, .unit) := by decide
example : step ⟨false, [true], 1⟩ (.read (.fixed .bool 1)) = (⟨false, [true], 1⟩, .err .read) := by decide
example : step ⟨false, List.replicate 8 true, 3⟩ .andSelf = (⟨false, List.replicate 8 true, 3⟩, .ret (.new 0)) := by decide

end BM.C06
