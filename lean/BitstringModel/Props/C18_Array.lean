/-
  Props/C18_Array.lean — "Array(code, values).tobytes() equals the corresponding struct / array.array output, and
  Array accepts array.array input only when the item kind and width match, reading it back to the same values";
  `Array.byteswap`; and the two places where the unchanged tree departs from `struct` / `array`.
-/
import BitstringModel.Model.C18
import BitstringModel.Proofs.C18
import BitstringModel.Proofs.C18Swap
import BitstringModel.Proofs.C18Array

namespace BM.C18
open BM

/-- `Array(e + c)` has the dtype the table names for `(e, c)`; its item length is the standard size. -/
theorem array_dtype_of_code (e c : Char) (he : e ∈ specEndians) (hc : c ∈ specCodes) :
    ∃ d s, setDtype (String.ofList [e, c]) = .ok d ∧ structSpec e c = some s ∧ d.length = 8 * s.size ∧
      d.meaning.same s = true := by
  exact array_dtype_of_code' e c he hc

/-- "Array(code, values).tobytes() equals the corresponding struct output": the data built item by item is
    `struct.pack(e + n·c, *values)`, for every prefix, code and value list (same failures). -/
theorem array_tobytes_eq_struct (e c : Char) (he : e ∈ specEndians) (hc : c ∈ specCodes) (d : DType)
    (hd : setDtype (String.ofList [e, c]) = .ok d) (vals : List Val) :
    ((arrayBuild d vals).map toBytes).toOption
      = (Struct.pack e (List.replicate vals.length c) vals).toOption := by
  exact array_tobytes_eq_struct' e c he hc d hd vals

/-- `Array.byteswap` reverses the bytes of every item and leaves trailing bits alone. -/
theorem array_byteswap_items (d : DType) (hd : d.length % 8 = 0) (hpos : 0 < d.length) (items : List Bits)
    (hitems : ∀ x ∈ items, x.length = d.length) (trail : Bits) (htrail : trail.length < d.length) :
    arrayByteswap d (items.flatten ++ trail) = .ok ((items.map bytesRev).flatten ++ trail) := by
  exact array_byteswap_items' d hd hpos items hitems trail htrail

/-- … so it converts an Array of big-endian items into the Array of the same values in little-endian items and
    back, and twice is the identity. -/
theorem array_byteswap_converts (size : Nat) (hs : 0 < size) (signed : Bool) (vals : List Val) (be : Bits)
    (h : arrayBuild ⟨if signed then .intbe else .uintbe, 8 * size⟩ vals = .ok be) :
    ∃ le, arrayBuild ⟨if signed then .intle else .uintle, 8 * size⟩ vals = .ok le ∧
      arrayByteswap ⟨if signed then .intbe else .uintbe, 8 * size⟩ be = .ok le ∧
      arrayByteswap ⟨if signed then .intle else .uintle, 8 * size⟩ le = .ok be := by
  exact array_byteswap_converts' size hs signed vals be h

theorem array_byteswap_twice (d : DType) (hd : d.length % 8 = 0) (hpos : 0 < d.length) (data data' : Bits)
    (h : arrayByteswap d data = .ok data') : arrayByteswap d data' = .ok data := by
  exact array_byteswap_twice' d hd hpos data data' h

/-- `Array.byteswap` depends on the dtype only through its bit length (= `itemsize`), whatever the family
    (`bytesN`, `hexN`, `uintN`, `floatN`, …): the driver feeds it `itemBits`. -/
theorem array_byteswap_bitlength_only (d d' : DType) (h : d.length = d'.length) (data : Bits) :
    arrayByteswap d data = arrayByteswap d' data := by
  unfold arrayByteswap
  rw [h]

/-- `Array.byteswap` raises exactly for items that are not a whole number of bytes. -/
theorem array_byteswap_error_iff (d : DType) (data : Bits) :
    (arrayByteswap d data).toOption = none ↔ d.length % 8 ≠ 0 := by
  exact array_byteswap_error_iff' d data

/-- The acceptance test of `Array.extend(array.array)` — the code's comparison of definition name and length after
    `parse_single_struct_token('=' + typecode)` and `get_dtype(name, itemsize * 8)` — accepts a typecode iff it is one
    of the thirteen struct codes and the Array's dtype is the bitstring dtype of that code's native layout with the
    array's own item size (kind, width and byte order), for every item size C allows for the typecode. -/
theorem array_accept_iff (d : DType) (tc : Char) (itemsize : Nat) (hok : itemsizeOK tc itemsize = true) :
    arrayAccepts d tc itemsize = true ↔
      ∃ k n, structKindSize tc = some (k, n) ∧ d = nativeDtype ⟨k, itemsize, nativeOrder⟩ := by
  exact array_accept_iff' d tc itemsize hok

/-- "accepts array.array input only when the item kind and width match". -/
theorem array_accept_only_when_match (d : DType) (tc : Char) (itemsize : Nat) (hok : itemsizeOK tc itemsize = true)
    (h : arrayAccepts d tc itemsize = true) :
    ∃ k n, structKindSize tc = some (k, n) ∧ d.length = 8 * itemsize ∧
      d.meaning.same ⟨k, itemsize, nativeOrder⟩ = true := by
  exact array_accept_only_when_match' d tc itemsize hok h

/-- "reading it back to the same values": after an accepted `extend` onto whole items, `tolist` is the old list
    followed by the array.array's values (NaN-free), whatever the platform's item size for the typecode. -/
theorem array_extend_reads_back (d : DType) (tc : Char) (itemsize : Nat) (data data' : Bits)
    (old vals : List Val) (hok : itemsizeOK tc itemsize = true)
    (hold : arrayToList d data = .ok old)
    (hfin : ∀ v ∈ vals, ∀ p, v = .flt p → Struct.isNaN itemsize p = false)
    (h : arrayExtend d data tc itemsize vals = .ok data') :
    arrayToList d data' = .ok (old ++ vals) := by
  exact array_extend_reads_back' d tc itemsize data data' old vals hok hold hfin h

/-- `extend` appends exactly `array.array.tobytes()` and touches nothing else (any item size). -/
theorem array_extend_appends (d : DType) (tc : Char) (itemsize : Nat) (data data' : Bits) (vals : List Val)
    (h : arrayExtend d data tc itemsize vals = .ok data') :
    ∃ bytes, arrayArrayTobytes tc itemsize vals = .ok bytes ∧ data' = data ++ bitsOfBytes bytes := by
  exact array_extend_appends' d tc itemsize data data' vals h

/-! ### Known deviation of the unchanged tree (witness; region as in the harness), and a fixed one -/

/-- Fixed in 763a007 (was finding `array-extend-ignores-itemsize`): with 8-byte `array.array('l')` items the 32-bit
    Array refuses the array and the 64-bit one takes it and reads the same values back. -/
theorem array_long_itemsize_checked :
    arrayAccepts ⟨.intle, 32⟩ 'l' 8 = false ∧ arrayAccepts ⟨.intbe, 32⟩ 'l' 8 = false ∧
    arrayAccepts (nativeDtype ⟨.sint, 8, nativeOrder⟩) 'l' 8 = true ∧
    ((arrayExtend (nativeDtype ⟨.sint, 8, nativeOrder⟩) [] 'l' 8 [.int 1, .int (-2)]).toOption.map
        fun b => (arrayToList (nativeDtype ⟨.sint, 8, nativeOrder⟩) b).toOption)
      = some (some [.int 1, .int (-2)]) := by
  decide +kernel

/-- KNOWN FINDING `at-prefix-standard-sizes`: `'@'` is treated as `'='` (bitstring documents them as equivalent), so
    `pack('@l', 1)` has 4 bytes and `pack('@bi', 1, 2)` 5 bytes where `struct.calcsize` is 8 on an LP64 platform. -/
theorem at_prefix_witness :
    native_at_prefix_platform_sizes "@l" = true ∧ native_at_prefix_platform_sizes "@bi" = true ∧
    ((pack "@l" [.int 1]).toOption.map List.length) = some 32 ∧ nativeCalcsize ['l'] 0 = 8 ∧
    ((pack "@bi" [.int 1, .int 2]).toOption.map List.length) = some 40 ∧ nativeCalcsize ['b', 'i'] 0 = 8 := by
  decide +kernel

/-- `'@'` and `'='` are the same to the code for every format (what bitstring's documentation promises). -/
theorem at_eq_equals (codes : List Char) (vals : List Val) (b : Bits) :
    (structparser '@' codes).bind (packTokens · vals) = (structparser '=' codes).bind (packTokens · vals) ∧
    (structparser '@' codes).bind (readTokens · b 0) = (structparser '=' codes).bind (readTokens · b 0) := by
  exact at_eq_equals' codes vals b

/-- Outside the region `native_at_prefix_platform_sizes` (no `l`/`L`, no padding) the native layout of the platform's
    `struct` has the standard size, i.e. `pack('@…')` has exactly `struct.calcsize('@…')` bytes. -/
theorem at_prefix_size_partial (fmt : String) (codes : List Char) (hc : ∀ c ∈ codes, c ∈ specCodes)
    (hm : matchStructFmt fmt = some ('@', codes)) (hreg : native_at_prefix_platform_sizes fmt = false)
    (vals : List Val) (bits : Bits) (h : pack fmt vals = .ok bits) :
    bits.length = 8 * nativeCalcsize codes 0 := by
  exact at_prefix_size_partial' fmt codes hc hm hreg vals bits h

/-! ### non-vacuity -/

example : (setDtype "<h").toOption = some ⟨.intle, 16⟩ ∧ (setDtype "floatne32").toOption.isSome = true ∧
    (setDtype "<hh").toOption = none := by decide +kernel
example : ((arrayBuild ⟨.intle, 16⟩ [.int 1, .int 2, .int (-3)]).map toBytes).toOption
    = some [1, 0, 2, 0, 0xfd, 0xff] := by decide +kernel
example : arrayAccepts ⟨.int, 8⟩ 'b' 1 = true ∧ arrayAccepts ⟨.int, 16⟩ 'h' 2 = false ∧ arrayAccepts ⟨.uint, 8⟩ 'u' 4 = false ∧
    arrayAccepts ⟨.uint, 16⟩ 'h' 2 = false ∧ itemsizeOK 'l' 8 = true ∧ itemsizeOK 'b' 2 = false := by
  decide +kernel
example : (arrayExtend ⟨.int, 8⟩ (bitsOfBytes [7]) 'b' 1 [.int (-1)]).toOption = some (bitsOfBytes [7, 255]) := by
  decide +kernel

end BM.C18
