/-
  Props/C18_Pack.lean — "pack(code, *values).bytes equals struct.pack(code, *values) and unpack inverts it":
  the code's `structparser` + `pack` loop and `unpack` (`_read_dtype_list`) against `Struct.pack` / `Struct.unpack`
  (SPEC: standard sizes, `int.to_bytes` digits), for every prefix, every expanded code list and every value list.
-/
import BitstringModel.Model.C18
import BitstringModel.Proofs.C18
import BitstringModel.Props.C18
import BitstringModel.Proofs.C18Pack

namespace BM.C18
open BM

/-! ### `pack` = `struct.pack`, `unpack` = `struct.unpack`, `unpack ∘ pack = id` -/

/-- One token: building a value with the dtype the table names for `(e, c)` gives the bytes of `struct.pack`'s item
    (and fails exactly when `struct.pack` fails), for every value of the right Python type. -/
theorem build_eq_struct (e c : Char) (he : e ∈ specEndians) (hc : c ∈ specCodes) (v : Val) :
    ∃ name len d s, (replacements e).lookup c = some (name, len) ∧ mkDtype name len = .ok d ∧
      structSpec e c = some s ∧ len = 8 * s.size ∧
      (build d v).toOption = ((Struct.pack1 s v).map bitsOfBytes).toOption := by
  exact build_eq_struct' e c he hc v

/-- "pack(code, *values).bytes equals struct.pack(code, *values)": for every prefix, every expanded code list of
    any length and every value list, the code's `structparser` + `pack` loop succeeds exactly when `struct.pack`
    (standard sizes) does, and produces the same bytes. -/
theorem pack_struct_eq (e : Char) (he : e ∈ specEndians) (codes : List Char) (hc : ∀ c ∈ codes, c ∈ specCodes)
    (vals : List Val) :
    ((structparser e codes).bind (packTokens · vals)).toOption
      = ((Struct.pack e codes vals).map bitsOfBytes).toOption := by
  exact pack_struct_eq' e he codes hc vals

/-- The same through the format string: count expansion (`2h` = `hh`) then the above. -/
theorem pack_fmt_eq (fmt : String) (e : Char) (codes : List Char) (vals : List Val)
    (hm : matchStructFmt fmt = some (e, codes)) :
    pack fmt vals = (structparser e codes).bind (packTokens · vals) := by
  exact pack_fmt_eq' fmt e codes vals hm

/-- Count expansion: a run of decimal digits before a code repeats the code that many times. -/
theorem expandCodes_count (ds : List Char) (hds : ∀ d ∈ ds, d.isDigit = true) (hne : ds ≠ []) (c : Char)
    (hc : isCode c = true) (hnd : c.isDigit = false) (cs : List Char) :
    expandCodes (ds ++ c :: cs) none =
      (expandCodes cs none).map
        (List.replicate (ds.foldl (fun acc d => acc * 10 + (d.toNat - '0'.toNat)) 0) c ++ ·) := by
  exact expandCodes_count' ds hds hne c hc hnd cs

theorem expandCodes_single (c : Char) (hc : isCode c = true) (hnd : c.isDigit = false) (cs : List Char) :
    expandCodes (c :: cs) none = (expandCodes cs none).map (c :: ·) := by
  exact expandCodes_single' c hc hnd cs

/-- A packed struct format is always a whole number of bytes: the standard `struct.calcsize`. -/
theorem pack_length (e : Char) (he : e ∈ specEndians) (codes : List Char) (hc : ∀ c ∈ codes, c ∈ specCodes)
    (vals : List Val) (bits : Bits) (h : (structparser e codes).bind (packTokens · vals) = .ok bits) :
    bits.length = 8 * standardCalcsize codes := by
  exact pack_length' e he codes hc vals bits h

/-- `Bits.unpack` on whole-byte contents reads what `struct.unpack_from` reads (and fails exactly when the buffer
    is too short). -/
theorem unpack_struct_eq (e : Char) (he : e ∈ specEndians) (codes : List Char) (hc : ∀ c ∈ codes, c ∈ specCodes)
    (b : Bits) (h8 : b.length % 8 = 0) :
    ((structparser e codes).bind (readTokens · b 0)).toOption = (Struct.unpack e codes (toBytes b)).toOption := by
  exact unpack_struct_eq' e he codes hc b h8

/-- "and unpack inverts it": whatever `pack` produced (followed by any further bits) unpacks to the packed values
    (NaN-free, as the property's quantifier says). -/
theorem unpack_inverts (e : Char) (he : e ∈ specEndians) (codes : List Char) (hc : ∀ c ∈ codes, c ∈ specCodes)
    (vals : List Val) (hfin : valsFinite codes vals = true) (bits rest : Bits)
    (h : (structparser e codes).bind (packTokens · vals) = .ok bits) :
    (structparser e codes).bind (readTokens · (bits ++ rest) 0) = .ok vals := by
  exact unpack_inverts' e he codes hc vals hfin bits rest h

/-- SPEC sanity: `struct.unpack(struct.pack(…)) = values`. -/
theorem struct_unpack_pack (e : Char) (codes : List Char) (vals : List Val) (hfin : valsFinite codes vals = true)
    (d rest : List Nat) (h : Struct.pack e codes vals = .ok d) :
    Struct.unpack e codes (d ++ rest) = .ok vals := by
  exact struct_unpack_pack' e codes vals hfin d rest h

/-! ### non-vacuity -/

example : (pack "<2hq" [.int 1, .int (-2), .int 3]).toOption
    = some (bitsOfBytes [1, 0, 0xfe, 0xff, 3, 0, 0, 0, 0, 0, 0, 0]) := by
  decide +kernel
example : matchStructFmt "<2hq" = some ('<', ['h', 'h', 'q']) := by decide +kernel
example : (Struct.pack '>' ['e', 'B'] [.flt 0x3c00, .int 255]).toOption = some [0x3c, 0x00, 0xff] := by decide +kernel
example : (unpack ">hb" (bitsOfBytes [0xff, 0x01, 0x80])).toOption = some [.int (-255), .int (-128)] := by decide +kernel
example : valsFinite ['e'] [.flt 0x7c00] = true ∧ valsFinite ['e'] [.flt 0x7c01] = false := by decide +kernel

end BM.C18
