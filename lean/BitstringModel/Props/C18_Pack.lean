/-
  Props/C18_Pack.lean — "pack(code, *values).bytes equals struct.pack(code, *values) and unpack inverts it":
  the code's `structparser` + `pack` loop and `unpack` (`_read_dtype_list`) against `Struct.pack` / `Struct.unpack`
  (SPEC: standard sizes, `int.to_bytes` digits), for every prefix, every expanded code list and every value list.
-/
import BitstringModel.Model.C18
import BitstringModel.Proofs.C18
import BitstringModel.Props.C18
import BitstringModel.Proofs.C18Pack

namespace BM.C18
open BM

/-! ### `pack` = `struct.pack`, `unpack` = `struct.unpack`, `unpack ∘ pack = id` -/

/-- One token: building a value with the dtype the table names for `(e, c)` gives the bytes of `struct.pack`'s item
    (and fails exactly when `struct.pack` fails), for every value of the right Python type. -/
theorem build_eq_struct (e c : Char) (he : e ∈ specEndians) (hc : c ∈ specCodes) (v : Val) :
    ∃ name len d s, (replacements e).lookup c = some (name, len) ∧ mkDtype name len = .ok d ∧
      structSpec e c = some s ∧ len = 8 * s.size ∧
      (build d v).toOption = ((Struct.pack1 s v).map bitsOfBytes).toOption := by
  exact build_eq_struct' e c he hc v

/-- "pack(code, *values).bytes equals struct.pack(code, *values)": for every prefix, every expanded code list of
    any length and every value list, the code's `structparser` + `pack` loop succeeds exactly when `struct.pack`
    (standard sizes) does, and produces the same bytes. -/
theorem pack_struct_eq (e : Char) (he : e ∈ specEndians) (codes : List Char) (hc : ∀ c ∈ codes, c ∈ specCodes)
    (vals : List Val) :
    ((structparser e codes).bind (packTokens · vals)).toOption
      = ((Struct.pack e codes vals).map bitsOfBytes).toOption := by
  exact pack_struct_eq' e he codes hc vals

/-- The same through the format string: count expansion (`2h` = `hh`) then the above. -/
theorem pack_fmt_eq (fmt : String) (e : Char) (codes : List Char) (vals : List Val)
    (hm : matchStructFmt fmt = some (e, codes)) :
    pack fmt vals = (structparser e codes).bind (packTokens · vals) := by
  exact pack_fmt_eq' fmt e codes vals hm

/-- Count expansion: a run of decimal digits before a code repeats the code that many times. -/
theorem expandCodes_count (ds : List Char) (hds : ∀ d ∈ ds, d.isDigit = true) (hne : ds ≠ []) (c : Char)
    (hc : isCode c = true) (hnd : c.isDigit = false) (cs : List Char) :
    expandCodes (ds ++ c :: cs) none =
      (expandCodes cs none).map
        (List.replicate (ds.foldl (fun acc d => acc * 10 + (d.toNat - '0'.toNat)) 0) c ++ ·) := by
  exact expandCodes_count' ds hds hne c hc hnd cs

theorem expandCodes_single (c : Char) (hc : isCode c = true) (hnd : c.isDigit = false) (cs : List Char) :
    expandCodes (c :: cs) none = (expandCodes cs none).map (c :: ·) := by
  exact expandCodes_single' c hc hnd cs

/-- A packed struct format is always a whole number of bytes: the standard `struct.calcsize`. -/
theorem pack_length (e : Char) (he : e ∈ specEndians) (codes : List Char) (hc : ∀ c ∈ codes, c ∈ specCodes)
    (vals : List Val) (bits : Bits) (h : (structparser e codes).bind (packTokens · vals) = .ok bits) :
    bits.length = 8 * standardCalcsize codes := by
  exact pack_length' e he codes hc vals bits h

/-- `Bits.unpack` on whole-byte contents reads what `struct.unpack_from` reads (and fails exactly when the buffer
    is too short). -/
theorem unpack_struct_eq (e : Char) (he : e ∈ specEndians) (codes : List Char) (hc : ∀ c ∈ codes, c ∈ specCodes)
    (b : Bits) (h8 : b.length % 8 = 0) :
    ((structparser e codes).bind (readTokens · b 0)).toOption = (Struct.unpack e codes (toBytes b)).toOption := by
  exact unpack_struct_eq' e he codes hc b h8

/-- "and unpack inverts it": whatever `pack` produced (followed by any further bits) unpacks to the packed values
    (NaN-free, as the property's quantifier says). -/
theorem unpack_inverts (e : Char) (he : e ∈ specEndians) (codes : List Char) (hc : ∀ c ∈ codes, c ∈ specCodes)
    (vals : List Val) (hfin : valsFinite codes vals = true) (bits rest : Bits)
    (h : (structparser e codes).bind (packTokens · vals) = .ok bits) :
    (structparser e codes).bind (readTokens · (bits ++ rest) 0) = .ok vals := by
  exact unpack_inverts' e he codes hc vals hfin bits rest h

/-- SPEC sanity: `struct.unpack(struct.pack(…)) = values`. -/
theorem struct_unpack_pack (e : Char) (codes : List Char) (vals : List Val) (hfin : valsFinite codes vals = true)
    (d rest : List Nat) (h : Struct.pack e codes vals = .ok d) :
    Struct.unpack e codes (d ++ rest) = .ok vals := by
  exact struct_unpack_pack' e codes vals hfin d rest h

/-! ### The list form `pack([f1, f2, …], *values)` -/

/-- The code joins the token lists of the format strings and runs one loop (`tokens.extend`); that is the
    concatenation of packing each token list with its own values. -/
theorem packTokens_append (t1 t2 : List (String × Nat)) (v1 v2 : List Val) (h : v1.length = t1.length) :
    packTokens (t1 ++ t2) (v1 ++ v2) =
      (match packTokens t1 v1 with
       | .error e => .error e
       | .ok b1 =>
         match packTokens t2 v2 with
         | .error e => .error e
         | .ok b2 => .ok (b1 ++ b2)) := by
  exact packTokens_append' t1 t2 v1 v2 h

/-- `pack([f, …rest], *v1, *v2)` = `pack(f, *v1)` followed by `pack([…rest], *v2)` (hence, with `pack_struct_eq`, the
    concatenation of `struct.pack` of every part), and it fails exactly when one of them fails. -/
theorem pack_list_eq_concat (f : String) (fs : List String) (e : Char) (codes : List Char)
    (hm : matchStructFmt f = some (e, codes)) (he : e ∈ specEndians) (hc : ∀ c ∈ codes, c ∈ specCodes)
    (v1 v2 : List Val) (hlen : v1.length = codes.length) :
    (packList (f :: fs) (v1 ++ v2)).toOption =
      (match pack f v1, packList fs v2 with
       | .ok b1, .ok b2 => some (b1 ++ b2)
       | _, _ => none) := by
  exact pack_list_eq_concat' f fs e codes hm he hc v1 v2 hlen

/-! ### Multipliers in front of struct-style tokens (`2*<hB`, `2*(<hB,>q)`) -/

/-- `N*tok` expands to the token `N` times in order — the code lists repeat as hBhB, not hhBB — so by
    `pack_list_eq_concat` / `pack_struct_eq` the result is `struct.pack` of the format written out `N` times. -/
theorem expandFmtAux_factor (fuel : Nat) (ds tok : List Char) (hds : ∀ d ∈ ds, d.isDigit = true) (hne : ds ≠ [])
    (htok : tok ≠ []) (hplain : ∀ c ∈ tok, c ≠ ',' ∧ c ≠ '(' ∧ c ≠ ')') :
    expandFmtAux (fuel + 1) (ds ++ '*' :: tok)
      = some (List.replicate (ds.foldl (fun acc d => acc * 10 + (d.toNat - '0'.toNat)) 0) (String.ofList tok)) := by
  exact expandFmtAux_factor' fuel ds tok hds hne htok hplain

example : expandFmt "2*<hB" = some ["<hB", "<hB"] ∧ expandFmt " 3 * >bHq" = some [">bHq", ">bHq", ">bHq"] ∧
    expandFmt "2*(<hB)" = some ["<hB", "<hB"] ∧ expandFmt "2*(<h,>B)" = some ["<h", ">B", "<h", ">B"] ∧
    expandFmt "<b,2*<2hB" = some ["<b", "<2hB", "<2hB"] ∧ expandFmt "<b,0*(<hB)" = some ["<b"] ∧
    expandFmt "2*(<b,2*>hB)" = some ["<b", ">hB", ">hB", "<b", ">hB", ">hB"] ∧ expandFmt "*<h" = none := by
  decide +kernel
example : (packM "2*<hB" [.int 1, .int 2, .int 3, .int 4]).toOption = some (bitsOfBytes [1, 0, 2, 3, 0, 4]) := by
  decide +kernel

/-! ### Python floats that are not representable in the target format

`float2bitstore` hands the float to `struct.pack`, which rounds to nearest-even and raises `OverflowError` only when
the rounded value would be infinite; the code then stores ±inf.  `roundF64` is the model of that primitive
(trusted, tied to CPython by the correspondence run on ties, near-ties, the subnormal boundary and the band above the
largest finite value); what is proved here is that the code's two branches are `storedPattern`, and that a pattern
`storedPattern` yields is packed like any representable value (so `pack_struct_eq` applies to it). -/

/-- `try: struct.pack(fmt, f) except OverflowError: struct.pack(fmt, ±inf)` stores exactly `storedPattern`. -/
theorem float2bitstoreD_eq (p64 len : Nat) (big : Bool) :
    float2bitstoreD p64 len big = float2bitstore (storedPattern len p64) len big := by
  unfold float2bitstoreD storedPattern
  cases roundF64 len p64 <;> rfl

/-- A value `struct.pack` accepts is stored as `struct.pack` rounds it (no spurious ±inf below the threshold). -/
theorem storedPattern_of_accepted (p64 len p : Nat) (h : roundF64 len p64 = some p) : storedPattern len p64 = p := by
  simp [storedPattern, h]

/-- Sanity of the primitive's model at the places where a wrong threshold or rounding direction would show
    (values computed with CPython's `struct.pack`): the band between the largest finite value and the overflow
    threshold rounds DOWN, the threshold itself overflows, ties go to even, half the smallest subnormal goes to 0. -/
example :
    roundF64 16 0x40effde000000000 = some 0x7bff ∧
    roundF64 16 0x40effdffffffffff = some 0x7bff ∧
    roundF64 16 0x40effe0000000000 = none ∧
    roundF64 16 0xc0effdffae147ae1 = some 0xfbff ∧
    roundF64 16 0x3ff0020000000000 = some 0x3c00 ∧
    roundF64 16 0x3ff0060000000000 = some 0x3c02 ∧
    roundF64 16 0x3ff0020000000001 = some 0x3c01 ∧
    roundF64 16 0x3e60000000000000 = some 0x0 ∧
    roundF64 16 0x3e60000000000001 = some 0x1 ∧
    roundF64 16 0x3e78000000000000 = some 0x2 ∧
    roundF64 16 0x8000000000000000 = some 0x8000 ∧
    roundF64 16 0x3fb999999999999a = some 0x2e66 ∧
    roundF64 32 0x47efffffefffffff = some 0x7f7fffff ∧
    roundF64 32 0x47effffff0000000 = none ∧
    roundF64 32 0x47efffffe0000001 = some 0x7f7fffff ∧
    roundF64 32 0x3ff0000010000000 = some 0x3f800000 ∧
    roundF64 32 0x3ff0000030000000 = some 0x3f800002 ∧
    roundF64 32 0x3690000000000000 = some 0x0 ∧
    roundF64 32 0x3690000000000001 = some 0x1 ∧
    roundF64 32 0x3fb999999999999a = some 0x3dcccccd ∧
    roundF64 32 0xb7a16c262777579c = some 0x800116c2 ∧
    roundF64 64 0x3fb999999999999a = some 0x3fb999999999999a ∧
    roundF64 64 0x1 = some 0x1 ∧
    roundF64 64 0xffefffffffffffff = some 0xffefffffffffffff := by decide +kernel
example : storedPattern 16 0x40effe0000000000 = 0x7c00 ∧ storedPattern 32 0xc7effffff0000000 = 0xff800000 := by
  decide +kernel

/-! ### non-vacuity -/

example : (pack "<2hq" [.int 1, .int (-2), .int 3]).toOption
    = some (bitsOfBytes [1, 0, 0xfe, 0xff, 3, 0, 0, 0, 0, 0, 0, 0]) := by
  decide +kernel
example : matchStructFmt "<2hq" = some ('<', ['h', 'h', 'q']) := by decide +kernel
example : (Struct.pack '>' ['e', 'B'] [.flt 0x3c00, .int 255]).toOption = some [0x3c, 0x00, 0xff] := by decide +kernel
example : (unpack ">hb" (bitsOfBytes [0xff, 0x01, 0x80])).toOption = some [.int (-255), .int (-128)] := by decide +kernel
example : (packList ["<hI", ">H"] [.int (-2), .int 0xdeadbeef, .int 3]).toOption
    = some (bitsOfBytes [0xfe, 0xff, 0xef, 0xbe, 0xad, 0xde, 0, 3]) := by decide +kernel
example : valsFinite ['e'] [.flt 0x7c00] = true ∧ valsFinite ['e'] [.flt 0x7c01] = false := by decide +kernel

end BM.C18
