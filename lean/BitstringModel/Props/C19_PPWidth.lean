/-
  Props/C19_PPWidth.lean — property theorems for C19, part 3: line width, colour, and that `pp` fails only with
  `ValueError`.
-/
import BitstringModel.Model.C19
import BitstringModel.Proofs.C19PPWidth

namespace BM.C19
open BM

/-- `pp_width`: every printed line is at most `width` characters wide (as a terminal shows it), unless it holds a
    single group — for an ungrouped single format: a single character; for two ungrouped formats: at most one
    24-bit unit (the quantum `_pp` works in). -/
theorem pp_width (a : PPArgs) (lay : Layout) (bpg : Nat) (hasLen : Bool)
    (ht : processTokens a.t1 a.t2 = .ok (bpg, hasLen)) (h : pp a = .ok lay) :
    ∀ ln ∈ lay.lines, ln.visible.length ≤ a.width ∨
      (if bpg ≠ 0 then ln.groups1.length = 1
       else match a.t2 with
         | none => ∃ c, ln.groups1 = [[c]]
         | some _ => ln.groups1.length = 1 ∧ ln.groups1.flatten.length * a.t1.fmt.bpc ≤ 24) := by
  sorry

/-- All lines of one printout have the same visible length (the final line is padded). -/
theorem pp_lines_same_length (a : PPArgs) (lay : Layout) (h : pp a = .ok lay) :
    ∀ l1 ∈ lay.lines, ∀ l2 ∈ lay.lines, l1.visible.length = l2.visible.length := by
  sorry

/-- `pp_group_atomic`, textual form: the text of a line contains its groups whole, each in a field of
    `chars_per_group` characters, joined by the separator. -/
theorem pp_line_text (a : PPArgs) (lay : Layout) (bpg : Nat) (hasLen : Bool)
    (ht : processTokens a.t1 a.t2 = .ok (bpg, hasLen)) (h : pp a = .ok lay) (hb : bpg ≠ 0) :
    ∀ ln ∈ lay.lines, ∃ pre post,
      ln.visible = pre ++ joinSep a.sep (ln.groups1.map
        (if a.lsb0 then padLeft (a.t1.fmt.b2c bpg) else padRight (a.t1.fmt.b2c bpg))) ++ post := by
  sorry

/-- `pp_no_escape_when_no_color`: with colour off nothing but the visible text is written, and it contains no
    escape character (unless the caller's own separator does). -/
theorem pp_no_escape_when_no_color (a : PPArgs) (lay : Layout) (h : pp a = .ok lay) (hc : a.colour = false)
    (hsep : '\x1b' ∉ a.sep) :
    (∀ ln ∈ lay.lines, ln.emitted = ln.visible ∧ '\x1b' ∉ ln.emitted) ∧
    (∀ s, lay.trailing = some s → '\x1b' ∉ s) := by
  sorry

/-- With colour on, the escape sequences are the only difference: what a terminal shows does not depend on colour. -/
theorem pp_visible_colour_independent (a : PPArgs) :
    (pp a).map (fun lay => (lay.lines.map (·.visible), lay.lines.map (·.groups1), lay.lines.map (·.groups2), lay.trailing))
    = (pp { a with colour := false }).map
        (fun lay => (lay.lines.map (·.visible), lay.lines.map (·.groups1), lay.lines.map (·.groups2), lay.trailing)) := by
  sorry

/-- The internal `assert`s and divisions of `_pp` are unreachable: `pp` fails only with `ValueError`
    (an invalid format, or a value the format cannot represent). -/
theorem pp_fails_only_with_value_error (a : PPArgs) (e : Err) (h : pp a = .error e) : e = .value := by
  sorry

/-- `pp` succeeds whenever the tokens are valid, each format can represent the data, and an explicit group is a
    whole number of digits of each format. -/
theorem pp_succeeds (a : PPArgs) (bpg : Nat) (hasLen : Bool)
    (ht : processTokens a.t1 a.t2 = .ok (bpg, hasLen))
    (h1 : (ppData a.lsb0 a.l (trailingLen a.l.length bpg hasLen)).length % a.t1.fmt.bpc = 0 ∧ bpg % a.t1.fmt.bpc = 0)
    (h2 : ∀ t2, a.t2 = some t2 →
      (ppData a.lsb0 a.l (trailingLen a.l.length bpg hasLen)).length % t2.fmt.bpc = 0 ∧ bpg % t2.fmt.bpc = 0) :
    ∃ lay, pp a = .ok lay := by
  sorry

/-! ### non-vacuity -/

example : ((pp ⟨List.replicate 40 true, ⟨.hex, none⟩, none, 10, [' '], true, false, true⟩).map
    (fun lay => lay.lines.map (fun ln => (ln.visible.length, ln.groups1.length)))) = .ok [(9, 2), (9, 2), (9, 1)] := by
  decide
example : ((pp ⟨List.replicate 16 true, ⟨.hex, none⟩, none, 0, [' '], true, false, true⟩).map
    (fun lay => lay.lines.map (fun ln => (ln.visible.length, ln.groups1.length)))) = .ok [(6, 1), (6, 1)] := by
  decide

end BM.C19
