/-
  Props/C19_PPWidth.lean — property theorems for C19, part 3: line width, colour, and that `pp` fails only with
  `ValueError`.
-/
import BitstringModel.Model.C19
import BitstringModel.Proofs.C19PPWidth

namespace BM.C19
open BM

/-- `pp_width`: every printed line is at most `width` characters wide (as a terminal shows it), unless it holds a
    single group — for an ungrouped single format: a single character; for two ungrouped formats: at most one
    24-bit unit (the quantum `_pp` works in). -/
theorem pp_width (a : PPArgs) (lay : Layout) (bpg : Nat) (hasLen : Bool)
    (ht : processTokens a.t1 a.t2 = .ok (bpg, hasLen)) (h : pp a = .ok lay) :
    ∀ ln ∈ lay.lines, ln.visible.length ≤ a.width ∨
      (if bpg ≠ 0 then ln.groups1.length = 1
       else match a.t2 with
         | none => ∃ c, ln.groups1 = [[c]]
         | some _ => ln.groups1.length = 1 ∧ ln.groups1.flatten.length * a.t1.fmt.bpc ≤ 24) := by
  obtain ⟨hl, -⟩ := W_pp_ok ht h
  intro ln hln
  have hw := W_width hl ln hln
  simp only [cfgOf] at hw
  cases ht2 : a.t2 <;> simp only [ht2, Option.map] at hw ⊢ <;> exact hw

/-- All lines of one printout have the same visible length (the final line is padded). -/
theorem pp_lines_same_length (a : PPArgs) (lay : Layout) (h : pp a = .ok lay) :
    ∀ l1 ∈ lay.lines, ∀ l2 ∈ lay.lines, l1.visible.length = l2.visible.length := by
  cases ht : processTokens a.t1 a.t2 with
  | error e => simp [pp, ht] at h
  | ok r =>
    obtain ⟨bpg, hasLen⟩ := r
    obtain ⟨hl, -⟩ := W_pp_ok ht h
    obtain ⟨m, -, -, hlines⟩ := W_ppLines_lines hl
    intro l1 h1 l2 h2
    obtain ⟨-, -, -, -, -, -, -, hv1, -⟩ := hlines l1 h1
    obtain ⟨-, -, -, -, -, -, -, hv2, -⟩ := hlines l2 h2
    rw [hv1, hv2]

/-- `pp_group_atomic`, textual form: the text of a line contains its groups whole, each in a field of
    `chars_per_group` characters, joined by the separator. -/
theorem pp_line_text (a : PPArgs) (lay : Layout) (bpg : Nat) (hasLen : Bool)
    (ht : processTokens a.t1 a.t2 = .ok (bpg, hasLen)) (h : pp a = .ok lay) (hb : bpg ≠ 0) :
    ∀ ln ∈ lay.lines, ∃ pre post,
      ln.visible = pre ++ joinSep a.sep (ln.groups1.map
        (if a.lsb0 then padLeft (a.t1.fmt.b2c bpg) else padRight (a.t1.fmt.b2c bpg))) ++ post := by
  obtain ⟨hl, -⟩ := W_pp_ok ht h
  obtain ⟨m, -, -, hlines⟩ := W_ppLines_lines hl
  intro ln hln
  obtain ⟨b, -, fb1, h1, hg1, -, -, -, p, pad1, W2, hsegs⟩ := hlines ln hln
  obtain ⟨-, hx, -, -⟩ := W_formatBits_pos (show (cfgOf a bpg).bpg ≠ 0 from hb) h1
  obtain ⟨pre, post, hv⟩ := W_segs_vis_text (cfgOf a bpg) (offsetWidth (cfgOf a bpg) (W_data a bpg hasLen)) p fb1.x pad1
    (W_sec (cfgOf a bpg) W2 b)
  refine ⟨pre, post, ?_⟩
  rw [W_visible_eq, hsegs, hv, hg1]
  conv_lhs => rw [hx]
  rfl

/-- `pp_no_escape_when_no_color`: with colour off nothing but the visible text is written, and it contains no
    escape character (unless the caller's own separator does). -/
theorem pp_no_escape_when_no_color (a : PPArgs) (lay : Layout) (h : pp a = .ok lay) (hc : a.colour = false)
    (hsep : '\x1b' ∉ a.sep) :
    (∀ ln ∈ lay.lines, ln.emitted = ln.visible ∧ '\x1b' ∉ ln.emitted) ∧
    (∀ s, lay.trailing = some s → '\x1b' ∉ s) := by
  cases ht : processTokens a.t1 a.t2 with
  | error e => simp [pp, ht] at h
  | ok r =>
    obtain ⟨bpg, hasLen⟩ := r
    obtain ⟨hl, htr⟩ := W_pp_ok ht h
    obtain ⟨m, -, -, hlines⟩ := W_ppLines_lines hl
    constructor
    · intro ln hln
      obtain ⟨b, -, fb1, h1, hg1, -, -, -, p, pad1, W2, hsegs⟩ := hlines ln hln
      have hem : ln.emitted = ln.visible := by
        rw [W_emitted_eq, W_visible_eq, hsegs]
        exact W_segs_emit_nocolour _ hc _ _ _ _ _
      refine ⟨hem, ?_⟩
      rw [hem, W_visible_eq, hsegs]
      intro hmem
      rcases W_segs_vis_mem _ _ _ _ _ _ _ hmem with h' | h' | h' | h' | ⟨x2, pad2, hsec, h'⟩
      · exact absurd h' (by decide)
      · exact absurd h' (by decide)
      · exact W_esc_natDec _ h'
      · exact W_esc_formatBits h1 hsep h'
      · obtain ⟨f2, fb2, -, h2, rfl⟩ := W_sec_some hsec
        exact W_esc_formatBits h2 hsep h'
    · intro s hs
      rw [htr] at hs
      split at hs
      · simp only [Option.some.injEq] at hs
        rw [← hs]; exact W_esc_strFormAlg _ _
      · simp at hs

/-- With colour on, the escape sequences are the only difference: what a terminal shows does not depend on colour. -/
theorem pp_visible_colour_independent (a : PPArgs) :
    (pp a).map (fun lay => (lay.lines.map (·.visible), lay.lines.map (·.groups1), lay.lines.map (·.groups2), lay.trailing))
    = (pp { a with colour := false }).map
        (fun lay => (lay.lines.map (·.visible), lay.lines.map (·.groups1), lay.lines.map (·.groups2), lay.trailing)) := by
  simp only [pp]
  cases processTokens a.t1 a.t2 with
  | error e => rfl
  | ok r =>
    obtain ⟨bpg, hasLen⟩ := r
    simp only
    have hc := W_ppLines_colour (cfgOf a bpg)
      (if trailingLen a.l.length bpg hasLen = 0 then a.l else dataPart a.lsb0 a.l (trailingLen a.l.length bpg hasLen))
    have e : cfgOf { a with colour := false } bpg = { cfgOf a bpg with colour := false } := rfl
    rw [e]
    generalize ppLines (cfgOf a bpg) _ = A at hc ⊢
    generalize ppLines { cfgOf a bpg with colour := false } _ = B at hc ⊢
    cases A <;> cases B <;> simp only [Except.map, Except.error.injEq, Except.ok.injEq, reduceCtorEq] at hc ⊢
    · exact hc
    · rename_i l1 l2
      have h1 := congrArg (List.map (·.1)) hc
      have h2 := congrArg (List.map (·.2.1)) hc
      have h3 := congrArg (List.map (·.2.2)) hc
      simp only [List.map_map] at h1 h2 h3
      exact Prod.ext h1 (Prod.ext h2 (Prod.ext h3 rfl))

/-- The internal `assert`s and divisions of `_pp` are unreachable: `pp` fails only with `ValueError`
    (an invalid format, or a value the format cannot represent). -/
theorem pp_fails_only_with_value_error (a : PPArgs) (e : Err) (h : pp a = .error e) : e = .value := by
  cases ht : processTokens a.t1 a.t2 with
  | error e' =>
    simp only [pp, ht, Except.error.injEq] at h
    subst h; exact W_processTokens_error ht
  | ok r =>
    obtain ⟨bpg, hasLen⟩ := r
    obtain ⟨m, hm, hm0, -⟩ := W_maxBits_ok ht (offsetWidth (cfgOf a bpg) (W_data a bpg hasLen))
    cases hl : ppLines (cfgOf a bpg) (W_data a bpg hasLen) with
    | error e' =>
      have : pp a = .error e' := by
        unfold W_data at hl
        simp only [pp, ht, hl]
      rw [this] at h
      simp only [Except.error.injEq] at h
      subst h
      exact W_ppLines_error hm hm0 hl
    | ok lines =>
      unfold W_data at hl
      simp only [pp, ht, hl] at h
      simp at h

/-- `pp` succeeds whenever the tokens are valid, each format can represent the data, and an explicit group is a
    whole number of digits of each format. -/
theorem pp_succeeds (a : PPArgs) (bpg : Nat) (hasLen : Bool)
    (ht : processTokens a.t1 a.t2 = .ok (bpg, hasLen))
    (h1 : (ppData a.lsb0 a.l (trailingLen a.l.length bpg hasLen)).length % a.t1.fmt.bpc = 0 ∧ bpg % a.t1.fmt.bpc = 0)
    (h2 : ∀ t2, a.t2 = some t2 →
      (ppData a.lsb0 a.l (trailingLen a.l.length bpg hasLen)).length % t2.fmt.bpc = 0 ∧ bpg % t2.fmt.bpc = 0) :
    ∃ lay, pp a = .ok lay := by
  obtain ⟨m, hm, hm0, hg, hu⟩ := W_maxBits_ok ht (offsetWidth (cfgOf a bpg) (W_data a bpg hasLen))
  rw [← (W_data_length a bpg hasLen).2] at h1
  have hlines : ∃ lines, ppLines (cfgOf a bpg) (W_data a bpg hasLen) = .ok lines := by
    apply W_ppLines_succeeds hm hm0
    · exact W_chunk_formats _ _ _ _ _ _ hm0 h1.1 h1.2 hg (fun h0 => (hu h0).1)
    · intro f2 hf2
      simp only [cfgOf] at hf2
      rcases ht2 : a.t2 with _ | t2
      · rw [ht2] at hf2; simp at hf2
      · rw [ht2] at hf2
        simp only [Option.map, Option.some.injEq] at hf2
        subst hf2
        have h2' := h2 t2 ht2
        rw [← (W_data_length a bpg hasLen).2] at h2'
        exact W_chunk_formats _ _ _ _ _ _ hm0 h2'.1 h2'.2 hg (fun h0 => (hu h0).2 t2 ht2)
  obtain ⟨lines, hl⟩ := hlines
  unfold W_data at hl
  simp only [pp, ht, hl]
  exact ⟨_, rfl⟩

/-! ### non-vacuity -/

example : ((pp ⟨List.replicate 40 true, ⟨.hex, none⟩, none, 10, [' '], true, false, true⟩).map
    (fun lay => lay.lines.map (fun ln => (ln.visible.length, ln.groups1.length)))) = .ok [(9, 2), (9, 2), (9, 1)] := by
  decide
example : ((pp ⟨List.replicate 16 true, ⟨.hex, none⟩, none, 0, [' '], true, false, true⟩).map
    (fun lay => lay.lines.map (fun ln => (ln.visible.length, ln.groups1.length)))) = .ok [(6, 1), (6, 1)] := by
  decide

end BM.C19
