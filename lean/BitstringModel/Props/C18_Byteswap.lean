/-
  Props/C18_Byteswap.lean — "byteswap (BitArray or Array) converts between the two encodings, and applying it twice
  is the identity".

  `byteswap` (ALG) is the code's double loop over `_reversebytes` (slice read, `tobytes()[::-1]`, slice assignment);
  `swapSpec` (SPEC) says: inside `[start, start + k·total)` every group of the pattern is byte-reversed, nothing else
  changes, `k` = number of times the pattern fits (once at most without `repeat`).
  Valid region: `repeat = True`, or the pattern fits into `[start, end)` (the other case is C03's known deviation).
-/
import BitstringModel.Model.C18
import BitstringModel.Proofs.C18
import BitstringModel.Props.C18
import BitstringModel.Proofs.C18Swap

namespace BM.C18
open BM

/-- The code's loops compute the byte-group reversal, for every bit string, every pattern list (from an int, a
    list or a struct string), every window and both repeat settings in the valid region; the returned count is the
    number of times the pattern was applied. -/
theorem byteswap_eq_spec (l : Bits) (f : Fmt) (s e : Option Int) (rep : Bool) (a z : Nat) (sizes : List Nat)
    (hv : validateSlice l.length s e = .ok (a, z)) (hf : fmtSizes f a z = .ok sizes)
    (hvalid : rep = true ∨ a + 8 * sizes.sum ≤ z) :
    byteswap l f s e rep = .ok (swapSpec l sizes a z rep) := by
  sorry

/-- `byteswap` raises exactly when the window or the format is rejected (no other failure in the valid region). -/
theorem byteswap_error_iff (l : Bits) (f : Fmt) (s e : Option Int) (rep : Bool) :
    (byteswap l f s e rep).toOption = none ↔
      ((validateSlice l.length s e).toOption = none ∨
       ∃ a z, validateSlice l.length s e = .ok (a, z) ∧ (fmtSizes f a z).toOption = none) := by
  sorry

/-- One pattern application is an involution on a segment of exactly the pattern's length. -/
theorem swapGroups_involutive (sizes : List Nat) (b : Bits) (hlen : b.length = 8 * sizes.sum) :
    swapGroups sizes (swapGroups sizes b) = b ∧ (swapGroups sizes b).length = b.length := by
  sorry

/-- The length never changes and nothing outside the swapped groups changes (valid region). -/
theorem byteswap_frame (l : Bits) (f : Fmt) (s e : Option Int) (rep : Bool) (a z : Nat) (sizes : List Nat)
    (hv : validateSlice l.length s e = .ok (a, z)) (hf : fmtSizes f a z = .ok sizes)
    (hvalid : rep = true ∨ a + 8 * sizes.sum ≤ z) (k : Nat) (l' : Bits)
    (h : byteswap l f s e rep = .ok (k, l')) :
    l'.length = l.length ∧ l'.take a = l.take a ∧
    l'.drop (a + k * (8 * sizes.sum)) = l.drop (a + k * (8 * sizes.sum)) ∧ a + k * (8 * sizes.sum) ≤ z := by
  sorry

/-- "applying it twice is the identity": for every byte-pattern format, window and repeat setting (valid region), a
    second identical call restores the original bits and reports the same count. -/
theorem byteswap_twice_id (l : Bits) (f : Fmt) (s e : Option Int) (rep : Bool) (a z : Nat) (sizes : List Nat)
    (hv : validateSlice l.length s e = .ok (a, z)) (hf : fmtSizes f a z = .ok sizes)
    (hvalid : rep = true ∨ a + 8 * sizes.sum ≤ z) (k : Nat) (l' : Bits)
    (h : byteswap l f s e rep = .ok (k, l')) :
    byteswap l' f s e rep = .ok (k, l) := by
  sorry

/-- The default call on a whole-byte bit string reverses all its bytes (one application). -/
theorem byteswap_whole (b : Bits) (h8 : b.length % 8 = 0) (hne : b ≠ []) :
    byteswap b .none none none true = .ok (1, bytesRev b) := by
  sorry

/-- "byteswap converts between the two encodings" (readings): after `byteswap()` the big-endian readings are the
    little-endian readings of the original and vice versa. -/
theorem byteswap_converts (b b' : Bits) (h8 : b.length % 8 = 0) (hne : b ≠ []) (k : Nat)
    (h : byteswap b .none none none true = .ok (k, b')) :
    getuintbe b' = getuintle b ∧ getintbe b' = getintle b ∧ getuintle b' = getuintbe b ∧ getintle b' = getintbe b ∧
    getfloat true b' = getfloat false b ∧ getfloat false b' = getfloat true b := by
  sorry

/-- … (encodings): byte-swapping the big-endian encoding of a value gives its little-endian encoding, for every
    size, signedness and value in range. -/
theorem byteswap_converts_encoding (size : Nat) (hs : 0 < size) (signed : Bool) (v : Int) (be : Bits)
    (h : int2bitstore v (8 * size) signed = .ok be) :
    ∃ le, intle2bitstore v (8 * size) signed = .ok le ∧
      byteswap be .none none none true = .ok (1, le) ∧ byteswap le .none none none true = .ok (1, be) := by
  sorry

/-! ### non-vacuity -/

example : (byteswap (bitsOfBytes [1, 2, 3, 4, 5]) (.str "<hb") none none true).toOption
    = some (1, bitsOfBytes [2, 1, 3, 4, 5]) := by decide +kernel
example : (byteswap (bitsOfBytes [1, 2, 3, 4, 5] ++ [true, false, true]) (.int 2) none none true).toOption
    = some (2, bitsOfBytes [2, 1, 4, 3, 5] ++ [true, false, true]) := by decide +kernel
example : validateSlice 40 (some 8) (some (-8)) = .ok (8, 32) := by decide +kernel
example : (fmtSizes (.str "2hb") 0 40).toOption = some [2, 2, 1] := by decide +kernel
example : swapSpec (bitsOfBytes [1, 2, 3, 4, 5]) [1, 2] 8 40 false = (1, bitsOfBytes [1, 2, 4, 3, 5]) := by decide +kernel

end BM.C18
