/-
  Props/C18_Byteswap.lean — "byteswap (BitArray or Array) converts between the two encodings, and applying it twice
  is the identity".

  `byteswap` (ALG) is the code's double loop over `_reversebytes` (slice read, `tobytes()[::-1]`, slice assignment);
  `swapSpec` (SPEC) says: inside `[start, start + k·total)` every group of the pattern is byte-reversed, nothing else
  changes, `k` = number of times the pattern fits (once at most without `repeat`).
  Without `repeat` the pattern is applied once if it fits into `[start, end)` and not at all otherwise
  (`finalbit = min(start + total, end)` since fix 9ec0c93); the theorems hold for every window and both settings.
-/
import BitstringModel.Model.C18
import BitstringModel.Proofs.C18
import BitstringModel.Props.C18
import BitstringModel.Proofs.C18Swap

namespace BM.C18
open BM

/-- The code's loops compute the byte-group reversal, for every bit string, every pattern list (from an int, a
    list or a struct string), every window and both repeat settings; the returned count is the
    number of times the pattern was applied. -/
theorem byteswap_eq_spec (l : Bits) (f : Fmt) (s e : Option Int) (rep : Bool) (a z : Nat) (sizes : List Nat)
    (hv : validateSlice l.length s e = .ok (a, z)) (hf : fmtSizes f a z = .ok sizes) :
    byteswap l f s e rep = .ok (swapSpec l sizes a z rep) :=
  Swap.byteswap_eq_spec' l f s e rep a z sizes hv hf

/-- `byteswap` raises exactly when the window or the format is rejected (no other failure). -/
theorem byteswap_error_iff (l : Bits) (f : Fmt) (s e : Option Int) (rep : Bool) :
    (byteswap l f s e rep).toOption = none ↔
      ((validateSlice l.length s e).toOption = none ∨
       ∃ a z, validateSlice l.length s e = .ok (a, z) ∧ (fmtSizes f a z).toOption = none) := by
  cases hv : validateSlice l.length s e with
  | error err => simp [byteswap, hv, Except.toOption]
  | ok p =>
    obtain ⟨a, z⟩ := p
    cases hf : fmtSizes f a z with
    | error err =>
      have hb : byteswap l f s e rep = .error err := by simp only [byteswap, hv, hf]
      rw [hb]
      constructor
      · intro _; exact Or.inr ⟨a, z, rfl, by rw [hf]; rfl⟩
      · intro _; rfl
    | ok sizes =>
      have hb : ∃ r, byteswap l f s e rep = .ok r := by
        simp only [byteswap, hv, hf]; split <;> exact ⟨_, rfl⟩
      obtain ⟨r, hr⟩ := hb
      rw [hr]
      constructor
      · intro h; simp [Except.toOption] at h
      · rintro (h | ⟨a', z', h1, h2⟩)
        · simp [Except.toOption] at h
        · cases h1; rw [hf] at h2; simp [Except.toOption] at h2

/-- One pattern application is an involution on a segment of exactly the pattern's length. -/
theorem swapGroups_involutive (sizes : List Nat) (b : Bits) (hlen : b.length = 8 * sizes.sum) :
    swapGroups sizes (swapGroups sizes b) = b ∧ (swapGroups sizes b).length = b.length :=
  ⟨Swap.swapGroups_swapGroups sizes b hlen, Swap.swapGroups_length sizes b hlen⟩

/-- The length never changes and nothing outside the swapped groups changes. -/
theorem byteswap_frame (l : Bits) (f : Fmt) (s e : Option Int) (rep : Bool) (a z : Nat) (sizes : List Nat)
    (hv : validateSlice l.length s e = .ok (a, z)) (hf : fmtSizes f a z = .ok sizes)
    (k : Nat) (l' : Bits)
    (h : byteswap l f s e rep = .ok (k, l')) :
    l'.length = l.length ∧ l'.take a = l.take a ∧
    l'.drop (a + k * (8 * sizes.sum)) = l.drop (a + k * (8 * sizes.sum)) ∧ a + k * (8 * sizes.sum) ≤ z := by
  obtain ⟨haz, hzl⟩ := Swap.validateSlice_bounds _ _ _ _ _ hv
  by_cases htot : 8 * sizes.sum = 0
  · rw [byteswap_eq_spec l f s e rep a z sizes hv hf] at h
    simp only [swapSpec, htot, if_true, Except.ok.injEq, Prod.mk.injEq] at h
    obtain ⟨rfl, rfl⟩ := h
    simp [htot, haz]
  · obtain ⟨hk, hl'⟩ := Swap.byteswap_struct l f s e rep a z sizes hv hf htot k l' h
    subst hk
    have hkb := Swap.swapCount_bound sizes a z rep haz
    have hpre : (l.take a).length = a := by simp; omega
    have hmid : ((l.drop a).take (Swap.swapCount sizes a z rep * (8 * sizes.sum))).length
        = Swap.swapCount sizes a z rep * (8 * sizes.sum) := by simp; omega
    have hmid' := Swap.swapRepeat_length (Swap.swapCount sizes a z rep) (8 * sizes.sum) sizes rfl _ hmid
    refine ⟨?_, ?_, ?_, hkb⟩
    · have := congrArg List.length (Swap.split3 l a (Swap.swapCount sizes a z rep * (8 * sizes.sum)))
      rw [hl']
      simp only [List.length_append] at this ⊢
      rw [hmid', this]
    · rw [hl', List.append_assoc, List.take_left' hpre]
    · rw [hl', List.drop_left' (by rw [List.length_append, hmid', hmid, hpre])]

/-- "applying it twice is the identity": for every byte-pattern format, window and repeat setting, a
    second identical call restores the original bits and reports the same count. -/
theorem byteswap_twice_id (l : Bits) (f : Fmt) (s e : Option Int) (rep : Bool) (a z : Nat) (sizes : List Nat)
    (hv : validateSlice l.length s e = .ok (a, z)) (hf : fmtSizes f a z = .ok sizes)
    (k : Nat) (l' : Bits)
    (h : byteswap l f s e rep = .ok (k, l')) :
    byteswap l' f s e rep = .ok (k, l) :=
  Swap.byteswap_twice' l f s e rep a z sizes hv hf k l' h

/-- The default call on a whole-byte bit string reverses all its bytes (one application). -/
theorem byteswap_whole (b : Bits) (h8 : b.length % 8 = 0) (hne : b ≠ []) :
    byteswap b .none none none true = .ok (1, bytesRev b) := by
  have hpos : 0 < b.length := List.length_pos_iff.mpr hne
  have hv : validateSlice b.length none none = .ok (0, b.length) := by
    simp [validateSlice]
  have hf : fmtSizes .none 0 b.length = .ok [b.length / 8] := rfl
  rw [byteswap_eq_spec b .none none none true 0 b.length [b.length / 8] hv hf]
  have hsum : 8 * [b.length / 8].sum = b.length := by simp; omega
  unfold swapSpec
  simp only [hsum, if_true, Nat.sub_zero]
  rw [if_neg (by omega), Nat.div_self hpos]
  simp only [swapRepeat, swapGroups, Nat.one_mul, Nat.zero_add, List.take_zero, List.drop_zero, List.nil_append]
  have h8' : 8 * (b.length / 8) = b.length := by omega
  rw [h8']
  simp

/-- "byteswap converts between the two encodings" (readings): after `byteswap()` the big-endian readings are the
    little-endian readings of the original and vice versa. -/
theorem byteswap_converts (b b' : Bits) (h8 : b.length % 8 = 0) (hne : b ≠ []) (k : Nat)
    (h : byteswap b .none none none true = .ok (k, b')) :
    getuintbe b' = getuintle b ∧ getintbe b' = getintle b ∧ getuintle b' = getuintbe b ∧ getintle b' = getintbe b ∧
    getfloat true b' = getfloat false b ∧ getfloat false b' = getfloat true b := by
  rw [byteswap_whole b h8 hne] at h
  simp only [Except.ok.injEq, Prod.mk.injEq] at h
  obtain ⟨rfl, rfl⟩ := h
  obtain ⟨h1, h2, h3⟩ := le_eq_be_bytesRev b h8
  obtain ⟨h4, h5, h6⟩ := be_eq_le_bytesRev b h8
  exact ⟨h1.symm, h2.symm, h4.symm, h5.symm, h3.symm, h6.symm⟩

/-- … (encodings): byte-swapping the big-endian encoding of a value gives its little-endian encoding, for every
    size, signedness and value in range. -/
theorem byteswap_converts_encoding (size : Nat) (hs : 0 < size) (signed : Bool) (v : Int) (be : Bits)
    (h : int2bitstore v (8 * size) signed = .ok be) :
    ∃ le, intle2bitstore v (8 * size) signed = .ok le ∧
      byteswap be .none none none true = .ok (1, le) ∧ byteswap le .none none none true = .ok (1, be) := by
  have hlen : be.length = 8 * size := Swap.int2bitstore_length v (8 * size) signed be h
  have h8 : be.length % 8 = 0 := by omega
  have hne : be ≠ [] := by intro h0; rw [h0] at hlen; simp at hlen; omega
  have hr8 : (bytesRev be).length % 8 = 0 := by rw [bytesRev_length' be h8]; exact h8
  have hrne : bytesRev be ≠ [] := by
    intro h0
    have := bytesRev_length' be h8
    rw [h0] at this; simp at this; omega
  refine ⟨bytesRev be, ?_, byteswap_whole be h8 hne, ?_⟩
  · unfold intle2bitstore; rw [h]
  · rw [byteswap_whole _ hr8 hrne, bytesRev_bytesRev' be h8]

/-! ### non-vacuity -/

example : (byteswap (bitsOfBytes [1, 2, 3, 4, 5]) (.str "<hb") none none true).toOption
    = some (1, bitsOfBytes [2, 1, 3, 4, 5]) := by decide +kernel
example : (byteswap (bitsOfBytes [1, 2, 3, 4, 5] ++ [true, false, true]) (.int 2) none none true).toOption
    = some (2, bitsOfBytes [2, 1, 4, 3, 5] ++ [true, false, true]) := by decide +kernel
example : validateSlice 40 (some 8) (some (-8)) = .ok (8, 32) := by decide +kernel
example : (fmtSizes (.str "2hb") 0 40).toOption = some [2, 2, 1] := by decide +kernel
example : swapSpec (bitsOfBytes [1, 2, 3, 4, 5]) [1, 2] 8 40 false = (1, bitsOfBytes [1, 2, 4, 3, 5]) := by decide +kernel

end BM.C18
