/-
  Props/C16.lean — property theorems for C16 (bit-wise operators and shifts).
  Every theorem is ∀-quantified over contents, lengths and shift counts; no bound.
-/
import BitstringModel.Model.C16
import BitstringModel.Proofs.Basic

namespace BM.C16
open BM

/-! ### errors are exactly the documented ones -/

theorem zipOp_ok_iff (f : Bool → Bool → Bool) (a b : Bits) :
    (∃ r, zipOp f a b = .ok r) ↔ a.length = b.length := by
  unfold zipOp; split <;> simp_all

theorem zipOp_err (f : Bool → Bool → Bool) (a b : Bits) (h : a.length ≠ b.length) :
    zipOp f a b = .error .value := by
  unfold zipOp; simp [h]

theorem zipOp_length (f : Bool → Bool → Bool) (a b r : Bits) (h : zipOp f a b = .ok r) :
    r.length = a.length := by
  unfold zipOp at h; split at h
  · cases h
  · rename_i hl; cases h; simp_all

/-- Per-bit meaning: bit `i` of the result is `f a[i] b[i]`. -/
theorem zipOp_getElem (f : Bool → Bool → Bool) (a b r : Bits) (h : zipOp f a b = .ok r)
    (i : Nat) (hi : i < r.length) (ha : i < a.length) (hb : i < b.length) :
    r[i] = f a[i] b[i] := by
  unfold zipOp at h; split at h
  · cases h
  · cases h; simp

theorem bnot_empty : bnot [] = .error .bitstring := rfl

theorem bnot_ok (a : Bits) (h : a ≠ []) : bnot a = .ok (a.map (!·)) := by
  unfold bnot; cases a <;> simp_all

/-! ### algebraic laws -/

theorem not_not (a : Bits) : (a.map (!·)).map (!·) = a := by
  induction a with
  | nil => rfl
  | cons x xs ih => simp only [List.map_cons, Bool.not_not, ih]

theorem bnot_bnot (a : Bits) (h : a ≠ []) : (bnot a >>= bnot) = .ok a := by
  rw [bnot_ok a h]
  have : a.map (!·) ≠ [] := by cases a <;> simp_all
  show bnot (a.map (!·)) = .ok a
  rw [bnot_ok _ this, not_not]

theorem xor_self_zero (a : Bits) : bxor a a = .ok (List.replicate a.length false) := by
  unfold bxor zipOp; simp
  induction a with
  | nil => rfl
  | cons x xs ih => simp [List.replicate_succ, ih]

theorem and_self (a : Bits) : band a a = .ok a := by
  unfold band zipOp; simp

theorem or_self (a : Bits) : bor a a = .ok a := by
  unfold bor zipOp; simp

/-- The `bs is self` shortcut of `__and__`/`__or__` returns what the operator would. -/
theorem andAlg_self (a : Bits) : andAlg a a true = band a a := by rw [and_self]; rfl
theorem orAlg_self (a : Bits) : orAlg a a true = bor a a := by rw [or_self]; rfl

theorem band_comm (a b : Bits) : band a b = band b a := by
  unfold band zipOp
  by_cases h : a.length = b.length
  · simp [h]
    induction a generalizing b with
    | nil => cases b <;> simp_all
    | cons x xs ih => cases b with
      | nil => simp at h
      | cons y ys => simp at h; simp [Bool.and_comm, ih ys h]
  · have h' : b.length ≠ a.length := fun e => h e.symm
    simp [h, h']

theorem bor_comm (a b : Bits) : bor a b = bor b a := by
  unfold bor zipOp
  by_cases h : a.length = b.length
  · simp [h]
    induction a generalizing b with
    | nil => cases b <;> simp_all
    | cons x xs ih => cases b with
      | nil => simp at h
      | cons y ys => simp at h; simp [Bool.or_comm, ih ys h]
  · have h' : b.length ≠ a.length := fun e => h e.symm
    simp [h, h']

theorem bxor_comm (a b : Bits) : bxor a b = bxor b a := by
  unfold bxor zipOp
  by_cases h : a.length = b.length
  · simp [h]
    induction a generalizing b with
    | nil => cases b <;> simp_all
    | cons x xs ih => cases b with
      | nil => simp at h
      | cons y ys => simp at h; simp [ih ys h]; exact bne_comm
  · have h' : b.length ≠ a.length := fun e => h e.symm
    simp [h, h']

theorem zipWith_map_not_and (a b : Bits) :
    (List.zipWith (· && ·) a b).map (!·) = List.zipWith (· || ·) (a.map (!·)) (b.map (!·)) := by
  induction a generalizing b with
  | nil => simp
  | cons x xs ih => cases b with
    | nil => simp
    | cons y ys => simp [ih ys]

theorem zipWith_map_not_or (a b : Bits) :
    (List.zipWith (· || ·) a b).map (!·) = List.zipWith (· && ·) (a.map (!·)) (b.map (!·)) := by
  induction a generalizing b with
  | nil => simp
  | cons x xs ih => cases b with
    | nil => simp
    | cons y ys => simp [ih ys]

/-- De Morgan: `~(a & b) == ~a | ~b` for equal, non-zero lengths. -/
theorem de_morgan_and (a b : Bits) (h : a.length = b.length) (hne : a ≠ []) :
    (band a b >>= bnot) = (do let x ← bnot a; let y ← bnot b; bor x y) := by
  have hb : b ≠ [] := by intro e; subst e; cases a <;> simp_all
  have hz : List.zipWith (· && ·) a b ≠ [] := by
    cases a <;> cases b <;> simp_all
  rw [bnot_ok a hne, bnot_ok b hb]
  have e1 : band a b = .ok (List.zipWith (· && ·) a b) := by unfold band zipOp; simp [h]
  have e2 : bor (a.map (!·)) (b.map (!·))
      = .ok (List.zipWith (· || ·) (a.map (!·)) (b.map (!·))) := by unfold bor zipOp; simp [h]
  show (band a b >>= bnot) = bor (a.map (!·)) (b.map (!·))
  rw [e1, e2]
  show bnot (List.zipWith (· && ·) a b) = _
  rw [bnot_ok _ hz, zipWith_map_not_and]

theorem de_morgan_or (a b : Bits) (h : a.length = b.length) (hne : a ≠ []) :
    (bor a b >>= bnot) = (do let x ← bnot a; let y ← bnot b; band x y) := by
  have hb : b ≠ [] := by intro e; subst e; cases a <;> simp_all
  have hz : List.zipWith (· || ·) a b ≠ [] := by
    cases a <;> cases b <;> simp_all
  rw [bnot_ok a hne, bnot_ok b hb]
  have e1 : bor a b = .ok (List.zipWith (· || ·) a b) := by unfold bor zipOp; simp [h]
  have e2 : band (a.map (!·)) (b.map (!·))
      = .ok (List.zipWith (· && ·) (a.map (!·)) (b.map (!·))) := by unfold band zipOp; simp [h]
  show (bor a b >>= bnot) = band (a.map (!·)) (b.map (!·))
  rw [e1, e2]
  show bnot (List.zipWith (· || ·) a b) = _
  rw [bnot_ok _ hz, zipWith_map_not_or]

/-! ### shifts: ALG = SPEC, fixed length, zero fill -/

theorem shl_eq_spec (a : Bits) (n : Int) (hn : 0 ≤ n) (ha : a ≠ []) :
    shl a n = .ok (shlSpec a n.toNat) := by
  have hl : a.length ≠ 0 := by cases a <;> simp_all
  unfold shl shlSpec
  have : ¬ n < 0 := by omega
  simp only [this, hl, if_false]
  congr 1
  by_cases hk : n.toNat ≤ a.length
  · have hm : min n.toNat a.length = n.toNat := Nat.min_eq_left hk
    rw [hm]
    by_cases he : n.toNat = a.length
    · simp [he]
    · simp [he, List.take_of_length_le]
  · have hk' : a.length ≤ n.toNat := by omega
    have hm : min n.toNat a.length = a.length := Nat.min_eq_right hk'
    rw [hm]
    simp [List.drop_eq_nil_of_le hk']

theorem shr_eq_spec (a : Bits) (n : Int) (hn : 0 ≤ n) (ha : a ≠ []) :
    shr a n = .ok (shrSpec a n.toNat) := by
  have hl : a.length ≠ 0 := by cases a <;> simp_all
  unfold shr shrSpec
  have : ¬ n < 0 := by omega
  simp only [this, hl, if_false]
  by_cases h0 : n = 0
  · subst h0; simp
  · simp only [h0, if_false]
    congr 1
    by_cases hk : n.toNat ≤ a.length
    · have hm : min n.toNat a.length = n.toNat := Nat.min_eq_left hk
      rw [hm]
      by_cases he : a.length - n.toNat = 0
      · simp [he]
      · simp [he]
    · have hk' : a.length ≤ n.toNat := by omega
      have hm : min n.toNat a.length = a.length := Nat.min_eq_right hk'
      rw [hm]; simp; left; omega

/-- The in-place forms compute the same bits as the pure forms. -/
theorem ishl_eq_shl (a : Bits) (n : Int) : ishl a n = shl a n := by
  unfold ishl shl
  by_cases h1 : n < 0
  · simp [h1]
  by_cases h2 : a.length = 0
  · simp [h2]
  simp only [h1, h2, if_false]
  by_cases h0 : n = 0
  · subst h0; simp; cases a <;> simp_all
  simp only [h0, if_false]
  congr 1
  have hk : min n.toNat a.length ≤ a.length := Nat.min_le_right _ _
  generalize min n.toNat a.length = k at hk
  rw [List.drop_append_of_le_length hk]
  by_cases he : k = a.length
  · subst he; simp
  · simp [he, List.take_of_length_le]

theorem ishr_eq_shr (a : Bits) (n : Int) : ishr a n = shr a n := by
  unfold ishr shr
  by_cases h1 : n < 0
  · simp [h1]
  by_cases h2 : a.length = 0
  · simp [h2]
  simp only [h1, h2, if_false]
  by_cases h0 : n = 0
  · simp [h0]
  simp only [h0, if_false]
  congr 1
  have hk : min n.toNat a.length ≤ a.length := Nat.min_le_right _ _
  generalize min n.toNat a.length = k at hk
  have : (List.replicate k false ++ a).length - k = a.length := by simp
  rw [this]
  by_cases he : a.length - k = 0
  · have : k = a.length := by omega
    subst this; simp [List.take_append_of_le_length]
  · simp only [he, if_false]
    rw [List.take_append]
    simp
    have : a.length - k ≤ a.length := by omega
    omega

theorem shlSpec_length (l : Bits) (n : Nat) : (shlSpec l n).length = l.length := by
  unfold shlSpec; simp; omega

theorem shrSpec_length (l : Bits) (n : Nat) : (shrSpec l n).length = l.length := by
  unfold shrSpec; simp; omega

theorem shl_ge_len_zero (l : Bits) (n : Nat) (h : l.length ≤ n) :
    shlSpec l n = List.replicate l.length false := by
  unfold shlSpec; simp [List.drop_eq_nil_of_le h, Nat.min_eq_right h]

theorem shr_ge_len_zero (l : Bits) (n : Nat) (h : l.length ≤ n) :
    shrSpec l n = List.replicate l.length false := by
  unfold shrSpec
  have : l.length - n = 0 := by omega
  simp [this, Nat.min_eq_right h]

theorem shift_negative (a : Bits) (n : Int) (h : n < 0) :
    shl a n = .error .value ∧ shr a n = .error .value ∧
    ishl a n = .error .value ∧ ishr a n = .error .value := by
  simp [shl, shr, ishl, ishr, h]

theorem shift_empty (n : Int) :
    shl [] n = .error .value ∧ shr [] n = .error .value ∧
    ishl [] n = .error .value ∧ ishr [] n = .error .value := by
  simp [shl, shr, ishl, ishr]

/-! ### agreement with unsigned-integer arithmetic masked to `len` bits -/

/-- `(s << n).uint = (s.uint * 2^n) mod 2^len`. -/
theorem shl_uint (l : Bits) (n : Nat) :
    bitsToNat (shlSpec l n) = (bitsToNat l * 2 ^ n) % 2 ^ l.length := by
  unfold shlSpec
  by_cases h : n ≤ l.length
  · rw [Nat.min_eq_left h, bitsToNat_append, bitsToNat_replicate_false]
    simp only [List.length_replicate, Nat.add_zero]
    have hsplit := bitsToNat_take_drop l n
    -- bitsToNat l = take * 2^(len-n) + drop
    rw [hsplit, Nat.add_mul, Nat.mul_assoc, ← Nat.pow_add]
    have : l.length - n + n = l.length := by omega
    rw [this, Nat.add_comm, Nat.add_mul_mod_self_right]
    have hd : bitsToNat (l.drop n) < 2 ^ (l.length - n) := by
      have := bitsToNat_lt (l.drop n); simpa using this
    have : bitsToNat (l.drop n) * 2 ^ n < 2 ^ l.length := by
      calc bitsToNat (l.drop n) * 2 ^ n < 2 ^ (l.length - n) * 2 ^ n :=
            Nat.mul_lt_mul_of_pos_right hd (Nat.pow_pos (by decide))
        _ = 2 ^ l.length := by rw [← Nat.pow_add]; congr 1
    exact (Nat.mod_eq_of_lt this).symm
  · have h' : l.length ≤ n := by omega
    rw [Nat.min_eq_right h', List.drop_eq_nil_of_le h']
    simp only [List.nil_append, bitsToNat_replicate_false]
    have : 2 ^ n = 2 ^ l.length * 2 ^ (n - l.length) := by
      rw [← Nat.pow_add]; congr 1; omega
    rw [this, ← Nat.mul_assoc, Nat.mul_comm (bitsToNat l), Nat.mul_assoc, Nat.mul_mod_right]

/-- `(s >> n).uint = s.uint // 2^n`. -/
theorem shr_uint (l : Bits) (n : Nat) :
    bitsToNat (shrSpec l n) = bitsToNat l / 2 ^ n := by
  unfold shrSpec
  rw [bitsToNat_append, bitsToNat_replicate_false]
  simp only [Nat.zero_mul, Nat.zero_add]
  by_cases h : n ≤ l.length
  · have hsplit := bitsToNat_take_drop l (l.length - n)
    have e : l.length - (l.length - n) = n := by omega
    rw [e] at hsplit
    rw [hsplit]
    have hd : bitsToNat (l.drop (l.length - n)) < 2 ^ n := by
      have := bitsToNat_lt (l.drop (l.length - n))
      simp only [List.length_drop, e] at this; exact this
    rw [Nat.mul_comm, Nat.mul_add_div (Nat.pow_pos (by decide)), Nat.div_eq_of_lt hd]; simp
  · have h' : l.length - n = 0 := by omega
    rw [h']; simp [bitsToNat]
    have hl := bitsToNat_lt l
    have : 2 ^ l.length ≤ 2 ^ n := Nat.pow_le_pow_right (by decide) (by omega)
    exact (Nat.div_eq_of_lt (Nat.lt_of_lt_of_le hl this)).symm

/-- `(~s).uint = 2^len - 1 - s.uint`. -/
theorem bnot_uint (l : Bits) : bitsToNat (l.map (!·)) + bitsToNat l + 1 = 2 ^ l.length := by
  induction l using List.reverseRecOn with
  | nil => rfl
  | append_singleton xs x ih =>
    simp only [List.map_append, List.map_cons, List.map_nil, bitsToNat_append_singleton,
      List.length_append, List.length_cons, List.length_nil, Nat.pow_succ]
    cases x <;> simp <;> omega

/-- `&`, `|`, `^` agree with the integer operators on the unsigned values. -/
theorem band_uint (a b : Bits) (h : a.length = b.length) :
    bitsToNat (List.zipWith (· && ·) a b) = bitsToNat a &&& bitsToNat b :=
  zipWith_uint (· && ·) (· &&& ·) (fun x y p q => step_and x y p q) (by decide) a b h

theorem bor_uint (a b : Bits) (h : a.length = b.length) :
    bitsToNat (List.zipWith (· || ·) a b) = bitsToNat a ||| bitsToNat b :=
  zipWith_uint (· || ·) (· ||| ·) (fun x y p q => step_or x y p q) (by decide) a b h

theorem bxor_uint (a b : Bits) (h : a.length = b.length) :
    bitsToNat (List.zipWith (fun x y => x != y) a b) = bitsToNat a ^^^ bitsToNat b :=
  zipWith_uint (fun x y => x != y) (· ^^^ ·) (fun x y p q => step_xor x y p q) (by decide) a b h

/-! ### non-vacuity: the hypotheses are met by concrete non-trivial values -/

example : band [true, false, true, true] [false, true, true, false] = .ok [false, false, true, false] := by decide
example : shl [true, false, true, true] 2 = .ok [true, true, false, false] := by decide
example : shr [true, false, true, true] 9 = .ok [false, false, false, false] := by decide
example : ([true, false] : Bits).length = ([false, true] : Bits).length ∧ ([true, false] : Bits) ≠ [] := by decide

end BM.C16
