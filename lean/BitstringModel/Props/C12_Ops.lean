/-
  Props/C12_Ops.lean — LSB0 mirror law for the operations written with the mode-dependent primitives
  (startswith, endswith, cut, replace, insert, overwrite, append, prepend, ranged reverse, byteswap, rol/ror,
  read / readlist / unpack / pack), mode-independence of shifts and whole-value interpretations, and the
  method tables of `Options.set_lsb0`.
-/
import BitstringModel.Model.C12
import BitstringModel.Proofs.C12Ops
import BitstringModel.Proofs.C12Ops2

namespace BM.C12
open BM

/-! ### startswith / endswith / cut -/

theorem startswith_lsb0_mirror (l t : Bits) (start stop : Option Int) :
    startswithOp .lsb0 l t start stop = startswithOp .msb0 l.reverse t.reverse start stop := by
  exact startswith_mirror l t start stop

theorem endswith_lsb0_mirror (l t : Bits) (start stop : Option Int) :
    endswithOp .lsb0 l t start stop = endswithOp .msb0 l.reverse t.reverse start stop := by
  exact endswith_mirror l t start stop

/-- The chunks of `cut` come in the same order; each is the reversed chunk of the reversed bits. -/
theorem cut_lsb0_mirror (l : Bits) (bits : Int) (start stop : Option Int) (count : Option Int) :
    cutOp .lsb0 l bits start stop count = (cutOp .msb0 l.reverse bits start stop count).map (List.map List.reverse) := by
  exact cut_mirror l bits start stop count

/-! ### replace (written with findall and getslice) -/

/-- `replace` for every data length, window, count and alignment flag: the same number of replacements, the
    mirrored result. -/
theorem replace_lsb0_mirror (l old new : Bits) (start stop : Option Int) (count : Option Int) (ba : Bool) :
    replaceOp .lsb0 l old new start stop count ba
      = (replaceOp .msb0 l.reverse old.reverse new.reverse start stop count ba).map fun r => (r.1, r.2.reverse) := by
  exact replaceOp_mirror l old new start stop count ba

/-! ### insert / overwrite / append / prepend / reverse -/

theorem insert_lsb0_mirror (l v : Bits) (pos : Int) :
    insertOp .lsb0 l v pos = (insertOp .msb0 l.reverse v.reverse pos).map List.reverse := by
  exact insertOp_mirror l v pos

theorem overwrite_lsb0_mirror (l v : Bits) (pos : Int) :
    overwriteOp .lsb0 l v pos = (overwriteOp .msb0 l.reverse v.reverse pos).map List.reverse := by
  exact overwriteOp_mirror l v pos

theorem append_lsb0_mirror (l v : Bits) : appendOp .lsb0 l v = (appendOp .msb0 l.reverse v.reverse).reverse := by
  simp [appendOp, appendMsb0, appendLsb0]

theorem prepend_lsb0_mirror (l v : Bits) : prependOp .lsb0 l v = (prependOp .msb0 l.reverse v.reverse).reverse := by
  simp [prependOp, appendMsb0, appendLsb0]

theorem reverse_lsb0_mirror (l : Bits) (start stop : Option Int) :
    reverseOp .lsb0 l start stop = (reverseOp .msb0 l.reverse start stop).map List.reverse := by
  exact reverseOp_mirror l start stop

/-! ### byteswap -/

/-- `byteswap` (fmt None / an int / a list of ints, with and without `repeat`) mirrors for every start, end and
    length: every swapped pattern lies inside `[start, end)`, whole bytes are reversed as whole bytes. -/
theorem byteswap_lsb0_mirror (l : Bits) (fmt : Option (List Int)) (start stop : Option Int) (repeat_ : Bool) :
    byteswapOp .lsb0 l fmt start stop repeat_
      = (byteswapOp .msb0 l.reverse fmt start stop repeat_).map fun r => (r.1, r.2.reverse) := by
  exact byteswapOp_mirror l fmt start stop repeat_

/-! ### rotations and shifts: the direction is kept relative to the most significant end -/

/-- `rol` under lsb0 is the mirror image of msb0 `ror` (and vice versa): the start/end range is mirrored, the
    stored bits still move towards the most significant end. -/
theorem rol_ror_range_mirrored (l : Bits) (bits : Int) (start stop : Option Int) :
    rolOp .lsb0 l bits start stop = (rorOp .msb0 l.reverse bits start stop).map List.reverse ∧
    rorOp .lsb0 l bits start stop = (rolOp .msb0 l.reverse bits start stop).map List.reverse := by
  exact rol_ror_mirror l bits start stop

/-- whole-string rotation: the stored bits are rotated to the left by `rol` in both modes. -/
theorem rol_whole_mode_independent (l : Bits) (bits : Nat) (h : l ≠ []) :
    rolOp .lsb0 l bits none none = .ok (l.rotateLeft bits) ∧ rolOp .msb0 l bits none none = .ok (l.rotateLeft bits) := by
  exact rol_whole l bits h

/-- `<<`, `>>`, `<<=`, `>>=` do not depend on the mode (they are written with `_absolute_slice`): the stored bits
    move towards the most significant end for `<<` in both modes … -/
theorem shift_direction_kept (m : Mode) (l : Bits) (n : Int) (hn : 0 ≤ n) (hl : l ≠ []) :
    shlOp m l n = .ok (l.drop (min n.toNat l.length) ++ List.replicate (min n.toNat l.length) false) ∧
    shrOp m l n = .ok (List.replicate (min n.toNat l.length) false ++ l.take (l.length - min n.toNat l.length)) ∧
    ishlOp m l n = shlOp m l n ∧ ishrOp m l n = shrOp m l n := by
  exact shift_closed m l n hn hl

/-- … so, in mirror terms, lsb0 `<<` is the image of msb0 `>>`. -/
theorem shift_lsb0_is_mirror_of_opposite (l : Bits) (n : Int) :
    shlOp .lsb0 l n = (shrOp .msb0 l.reverse n).map List.reverse ∧
    shrOp .lsb0 l n = (shlOp .msb0 l.reverse n).map List.reverse := by
  exact shift_opposite l n

/-! ### reading, unpacking, packing -/

theorem read_lsb0_mirror (l : Bits) (pos : Nat) (tk : Tok) (k : Nat) :
    readOp .lsb0 l pos tk k = (readOp .msb0 l.reverse pos tk k).map fun r => (r.1.reverse, r.2) := by
  exact readOp_mirror l pos tk k

/-- `readlist` / `unpack`: the tokens are read in the same order, from the least significant end. -/
theorem readlist_lsb0_mirror (l : Bits) (pos : Nat) (toks : List (Tok × Nat)) :
    readList .lsb0 l pos toks
      = (readList .msb0 l.reverse pos toks).map fun r => (r.1.map (fun x => (x.1, x.2.reverse)), r.2) := by
  exact readList_mirror l toks pos

/-- `pack`: the first token ends up at the least significant end. -/
theorem pack_lsb0_mirror (toks : List Bits) :
    packOp .lsb0 toks = (packOp .msb0 (toks.map List.reverse)).reverse := by
  exact pack_mirror toks

/-! ### whole-value interpretations read the stored order in both modes -/

theorem whole_value_mode_independent (m : Mode) (l : Bits) :
    wholeBits m l = .ok l ∧ uintOf m l = .ok (bitsToNat l) ∧ intOf m l = .ok (bitsToInt l) := by
  exact whole_value m l

/-! ### the method tables: switching the option restores every rebound attribute -/

/-- Both tables rebind exactly the same (class, attribute) pairs. -/
theorem tables_same_keys :
    lsb0Table.map (fun b => (b.1, b.2.1)) = msb0Table.map (fun b => (b.1, b.2.1)) := by
  decide

/-- After `set_lsb0(v)` an attribute named in the tables is bound to that table's function, any other attribute
    is untouched. -/
theorem setLsb0_lookup (env : Attrs) (v : Bool) (c a : String) :
    lookupAttr (setLsb0 env v) c a =
      match ((if v then lsb0Table else msb0Table).map fun b => ((b.1, b.2.1), (b.2.2.1, b.2.2.2))).lookup (c, a) with
      | some f => some f
      | none => lookupAttr env c a := by
  exact setLsb0_lookup' env v c a

/-- `toggle_restores`: whatever the option was set to before (any history), setting it to `v` gives the same
    bindings as setting it to `v` in the first place — in particular switching lsb0 off restores msb0 exactly. -/
theorem toggle_restores (env : Attrs) (hist : List Bool) (v : Bool) (c a : String) :
    lookupAttr (setLsb0 (hist.foldl setLsb0 env) v) c a = lookupAttr (setLsb0 env v) c a := by
  exact toggle_restores' env hist v c a

/-! ### non-vacuity -/
example : rolOp .lsb0 [true, false, false, false, false] 1 (some 0) (some 3) = .ok [true, false, false, false, false] := by decide
example : rolOp .lsb0 [false, false, true, false, false] 1 (some 0) (some 3) = .ok [false, false, false, false, true] := by decide
example : cutOp .lsb0 [true, true, false, true, false] 2 none none none = .ok [[true, false], [true, false], [true]] := by decide
example : replaceOp .lsb0 [true, true, false, true, false] [true, false] [true, true, true] none none none false
    = .ok (2, [true, true, true, true, true, true, true]) := by decide
example : lookupAttr (setLsb0 (setLsb0 [] true) false) "BitArray" "_rol" = some ("BitArray", "_rol_msb0") ∧
    lookupAttr (setLsb0 [] true) "BitArray" "_rol" = some ("BitArray", "_ror_msb0") := by decide

end BM.C12
