/-
  Props/C03_Range.lean — in-place mutations, part 2: operations on a `[start, end)` range or on positions that keep
  the length: `reverse`, `rol`, `ror`, `set`, `invert`.

  For each: the code path equals the list expression (`…_eq_spec`), the length is unchanged, bits outside the range /
  away from the positions are unchanged (frame), inverses / involutions, and the partial-prefix behaviour of
  `set` / `invert` over an iterable with a bad position.
-/
import BitstringModel.Model.C03
import BitstringModel.Proofs.C03
import BitstringModel.Proofs.C03Range

namespace BM.C03
open BM Range

/-! ### reverse -/

/-- Both branches of `reverse` (whole-store `bitarray.reverse()`; slice, reverse, assign back) compute
    `l[:a] + reversed(l[a:z]) + l[z:]`, and the range is validated first. -/
theorem reverse_eq_spec (l : Bits) (s e : Option Int) : Alg.reverse l s e = Spec.reverse l s e :=
  alg_reverse_eq l s e

theorem reverse_length (l r : Bits) (s e : Option Int) (h : Spec.reverse l s e = .ok r) : r.length = l.length := by
  rcases validateSlice_cases l.length s e with ⟨a, z, hv, haz, hz⟩ | hv
  · rw [spec_reverse_ok l s e a z hv] at h
    injection h with h
    subst h
    exact sw_length l _ a z haz hz (by rw [List.length_reverse, slc_length_of_le l a z hz])
  · rw [spec_reverse_err l s e hv] at h; cases h

/-- Frame: bits outside `[a, z)` are unchanged. -/
theorem reverse_frame (l r : Bits) (s e : Option Int) (a z : Nat) (h : Spec.reverse l s e = .ok r)
    (hv : validateSlice l.length s e = .ok (a, z)) (i : Nat) (hi : i < a ∨ z ≤ i) : r[i]? = l[i]? := by
  obtain ⟨haz, hz⟩ := validateSlice_ok hv
  rw [spec_reverse_ok l s e a z hv] at h
  injection h with h
  subst h
  exact sw_outside l _ a z haz hz (by rw [List.length_reverse, slc_length_of_le l a z hz]) i hi

/-- Inside the range, bit `i` comes from the mirrored position. -/
theorem reverse_getElem (l r : Bits) (s e : Option Int) (a z : Nat) (h : Spec.reverse l s e = .ok r)
    (hv : validateSlice l.length s e = .ok (a, z)) (i : Nat) (h1 : a ≤ i) (h2 : i < z) :
    r[i]? = l[a + z - 1 - i]? := by
  obtain ⟨haz, hz⟩ := validateSlice_ok hv
  rw [spec_reverse_ok l s e a z hv] at h
  injection h with h
  subst h
  have hm : (slc l a z).length = z - a := slc_length_of_le l a z hz
  rw [sw_inside l _ a z haz hz (by rw [List.length_reverse, hm]) i h1 h2,
    List.getElem?_reverse (by omega), hm, slc_getElem? l a z _ (by omega)]
  congr 1
  omega

theorem reverse_whole (l : Bits) : Spec.reverse l none none = .ok l.reverse := by
  rw [spec_reverse_ok l none none 0 l.length (validateSlice_none _)]
  simp [slc]

theorem reverse_involutive (l r : Bits) (s e : Option Int) (h : Spec.reverse l s e = .ok r) :
    Spec.reverse r s e = .ok l := by
  have hlen := reverse_length l r s e h
  rcases validateSlice_cases l.length s e with ⟨a, z, hv, haz, hz⟩ | hv
  · rw [spec_reverse_ok l s e a z hv] at h
    injection h with h
    have hm : (slc l a z).reverse.length = z - a := by rw [List.length_reverse, slc_length_of_le l a z hz]
    rw [spec_reverse_ok r s e a z (by rw [hlen]; exact hv)]
    subst h
    rw [sw_take l _ a z haz hz, sw_drop l _ a z haz hz hm, sw_slc l _ a z haz hz hm, List.reverse_reverse,
      take_slc_drop l a z haz]
  · rw [spec_reverse_err l s e hv] at h; cases h

theorem reverse_err_iff (l : Bits) (s e : Option Int) :
    (∃ err, Spec.reverse l s e = .error err) ↔ validateSlice l.length s e = .error .value := by
  rcases validateSlice_cases l.length s e with ⟨a, z, hv, haz, hz⟩ | hv
  · rw [spec_reverse_ok l s e a z hv, hv]
    simp
  · rw [spec_reverse_err l s e hv, hv]
    simp

/-! ### rol / ror -/

/-- `_rol_msb0`: (empty range: nothing to do) slice the first `r` bits of the range, `_delete` them, `_insert` them at
    `end - r` — this is the left rotation of `l[a:z]` by `bits mod (z - a)`. -/
theorem rol_eq_spec (l : Bits) (k : Int) (s e : Option Int) :
    Alg.rol l k s e = Spec.rol l k s e := alg_rol_eq l k s e

/-- `_ror_msb0`: slice the last `r` bits of the range, `_delete` them, `_insert` them at `start`. -/
theorem ror_eq_spec (l : Bits) (k : Int) (s e : Option Int) :
    Alg.ror l k s e = Spec.ror l k s e := alg_ror_eq l k s e

/-- An empty range of a non-empty bitstring is a valid range and nothing moves (no `bits %= 0`). -/
theorem rot_empty_range (l : Bits) (k : Int) (a : Nat) (hl : l ≠ []) (hk : 0 ≤ k) (ha : a ≤ l.length) :
    Alg.rol l k (some (a : Int)) (some (a : Int)) = .ok l ∧ Alg.ror l k (some (a : Int)) (some (a : Int)) = .ok l := by
  have hv := validateSlice_nonneg l.length a a (le_refl _) ha
  rw [alg_rol_eq, alg_ror_eq, spec_rol_ok l k _ _ a a hl hk hv, spec_ror_ok l k _ _ a a hl hk hv]
  simp [slc_self]

theorem rol_length (l r : Bits) (k : Int) (s e : Option Int) (h : Spec.rol l k s e = .ok r) : r.length = l.length := by
  obtain ⟨hl, hk, a, z, hv, haz, hz⟩ := spec_rol_inv h
  rw [spec_rol_ok l k s e a z hl hk hv] at h
  injection h with h
  subst h
  exact sw_length l _ a z haz hz (by rw [rotl_length, slc_length_of_le l a z hz])

theorem ror_length (l r : Bits) (k : Int) (s e : Option Int) (h : Spec.ror l k s e = .ok r) : r.length = l.length := by
  obtain ⟨hl, hk, a, z, hv, haz, hz⟩ := spec_ror_inv h
  rw [spec_ror_ok l k s e a z hl hk hv] at h
  injection h with h
  subst h
  exact sw_length l _ a z haz hz (by rw [rotl_length, slc_length_of_le l a z hz])

/-- Frame: bits outside `[a, z)` are unchanged by a rotation of the range. -/
theorem rol_frame (l r : Bits) (k : Int) (s e : Option Int) (a z : Nat) (h : Spec.rol l k s e = .ok r)
    (hv : validateSlice l.length s e = .ok (a, z)) (i : Nat) (hi : i < a ∨ z ≤ i) : r[i]? = l[i]? := by
  obtain ⟨hl, hk, _⟩ := spec_rol_inv h
  obtain ⟨haz, hz⟩ := validateSlice_ok hv
  rw [spec_rol_ok l k s e a z hl hk hv] at h
  injection h with h
  subst h
  exact sw_outside l _ a z haz hz (by rw [rotl_length, slc_length_of_le l a z hz]) i hi

theorem ror_frame (l r : Bits) (k : Int) (s e : Option Int) (a z : Nat) (h : Spec.ror l k s e = .ok r)
    (hv : validateSlice l.length s e = .ok (a, z)) (i : Nat) (hi : i < a ∨ z ≤ i) : r[i]? = l[i]? := by
  obtain ⟨hl, hk, _⟩ := spec_ror_inv h
  obtain ⟨haz, hz⟩ := validateSlice_ok hv
  rw [spec_ror_ok l k s e a z hl hk hv] at h
  injection h with h
  subst h
  exact sw_outside l _ a z haz hz (by rw [rotl_length, slc_length_of_le l a z hz]) i hi

/-- Inside the range, after `rol k` position `i` holds the bit that was `k` places to its right (cyclically). -/
theorem rol_getElem (l r : Bits) (k : Int) (s e : Option Int) (a z : Nat) (h : Spec.rol l k s e = .ok r)
    (hv : validateSlice l.length s e = .ok (a, z)) (i : Nat) (h1 : a ≤ i) (h2 : i < z) :
    r[i]? = l[a + (i - a + k.toNat) % (z - a)]? := by
  obtain ⟨hl, hk, _⟩ := spec_rol_inv h
  obtain ⟨haz, hz⟩ := validateSlice_ok hv
  rw [spec_rol_ok l k s e a z hl hk hv] at h
  injection h with h
  subst h
  have hm : (slc l a z).length = z - a := slc_length_of_le l a z hz
  have hr : k.toNat % (z - a) < z - a := Nat.mod_lt _ (by omega)
  rw [sw_inside l _ a z haz hz (by rw [rotl_length, hm]) i h1 h2,
    rotl_getElem? _ _ (by omega) _ (by omega), hm, ← add_mod_toNat,
    slc_getElem? l a z _ (Nat.mod_lt _ (by omega))]

/-- After `ror k` the bit of position `i` is found `k` places to the right (cyclically). -/
theorem ror_getElem (l r : Bits) (k : Int) (s e : Option Int) (a z : Nat) (h : Spec.ror l k s e = .ok r)
    (hv : validateSlice l.length s e = .ok (a, z)) (i : Nat) (h1 : a ≤ i) (h2 : i < z) :
    r[a + (i - a + k.toNat) % (z - a)]? = l[i]? := by
  obtain ⟨hl, hk, _⟩ := spec_ror_inv h
  obtain ⟨haz, hz⟩ := validateSlice_ok hv
  rw [spec_ror_ok l k s e a z hl hk hv] at h
  injection h with h
  subst h
  have hm : (slc l a z).length = z - a := slc_length_of_le l a z hz
  have hr : k.toNat % (z - a) < z - a := Nat.mod_lt _ (by omega)
  have hlt : (i - a + k.toNat) % (z - a) < z - a := Nat.mod_lt _ (by omega)
  rw [sw_inside l _ a z haz hz (by rw [rotl_length, hm]) _ (by omega) (by omega), Nat.add_sub_cancel_left,
    add_mod_toNat]
  have := rotr_getElem? (slc l a z) (k.toNat % (z - a)) (by omega) (i - a) (by omega)
  rw [hm] at this
  rw [this, slc_getElem? l a z _ (by omega)]
  congr 1
  omega

theorem rol_ror_inverse (l r : Bits) (k : Int) (s e : Option Int) (h : Spec.rol l k s e = .ok r) :
    Spec.ror r k s e = .ok l := by
  have hlen := rol_length l r k s e h
  obtain ⟨hl, hk, a, z, hv, haz, hz⟩ := spec_rol_inv h
  rw [spec_rol_ok l k s e a z hl hk hv] at h
  injection h with h
  have hm : (slc l a z).length = z - a := slc_length_of_le l a z hz
  have hr : r ≠ [] := by intro h0; rw [h0] at hlen; apply hl; exact List.length_eq_zero_iff.mp hlen.symm
  rw [spec_ror_ok r k s e a z hr hk (by rw [hlen]; exact hv)]
  subst h
  rw [sw_take l _ a z haz hz, sw_drop l _ a z haz hz (by rw [rotl_length, hm]),
    sw_slc l _ a z haz hz (by rw [rotl_length, hm])]
  have := rotl_rotr (slc l a z) (k.toNat % (z - a))
  rw [hm] at this
  rw [this, take_slc_drop l a z haz]

theorem ror_rol_inverse (l r : Bits) (k : Int) (s e : Option Int) (h : Spec.ror l k s e = .ok r) :
    Spec.rol r k s e = .ok l := by
  have hlen := ror_length l r k s e h
  obtain ⟨hl, hk, a, z, hv, haz, hz⟩ := spec_ror_inv h
  rw [spec_ror_ok l k s e a z hl hk hv] at h
  injection h with h
  have hm : (slc l a z).length = z - a := slc_length_of_le l a z hz
  have hr : r ≠ [] := by intro h0; rw [h0] at hlen; apply hl; exact List.length_eq_zero_iff.mp hlen.symm
  rw [spec_rol_ok r k s e a z hr hk (by rw [hlen]; exact hv)]
  subst h
  rw [sw_take l _ a z haz hz, sw_drop l _ a z haz hz (by rw [rotl_length, hm]),
    sw_slc l _ a z haz hz (by rw [rotl_length, hm])]
  by_cases h0 : z - a = 0
  · have : slc l a z = [] := List.length_eq_zero_iff.mp (by omega)
    have t := take_slc_drop l a z haz
    rw [this] at t ⊢
    simp only [List.drop_nil, List.take_nil, List.append_nil] at t ⊢
    rw [t]
  · have hr : k.toNat % (z - a) < z - a := Nat.mod_lt _ (by omega)
    have := rotr_rotl (slc l a z) (k.toNat % (z - a)) (by omega)
    rw [hm] at this
    rw [this, take_slc_drop l a z haz]

/-- Rotating by the range length (or any multiple) is the identity. -/
theorem rol_full_turn (l : Bits) (m : Nat) (s e : Option Int) (a z : Nat) (hl : l ≠ [])
    (hv : validateSlice l.length s e = .ok (a, z)) : Spec.rol l ((m * (z - a) : Nat) : Int) s e = .ok l := by
  obtain ⟨haz, hz⟩ := validateSlice_ok hv
  rw [spec_rol_ok l _ s e a z hl (by omega) hv, Int.toNat_natCast, Nat.mul_mod_left]
  simp only [List.drop_zero, List.take_zero, List.append_nil]
  rw [take_slc_drop l a z haz]

theorem rot_errors (l : Bits) (k : Int) (s e : Option Int) :
    (l = [] → Spec.rol l k s e = .error .bitstring ∧ Spec.ror l k s e = .error .bitstring) ∧
    (l ≠ [] → k < 0 → Spec.rol l k s e = .error .value ∧ Spec.ror l k s e = .error .value) ∧
    (l ≠ [] → 0 ≤ k → validateSlice l.length s e = .error .value →
      Spec.rol l k s e = .error .value ∧ Spec.ror l k s e = .error .value) := by
  refine ⟨?_, ?_, ?_⟩
  · intro h
    subst h
    exact ⟨rfl, rfl⟩
  · intro hl hk
    have : ¬ l.length = 0 := by simpa using hl
    unfold Spec.rol Spec.ror
    simp only [if_neg this, if_pos hk, and_self]
  · intro hl hk hv
    have : ¬ l.length = 0 := by simpa using hl
    have hk' : ¬ k < 0 := by omega
    unfold Spec.rol Spec.ror
    simp only [if_neg this, if_neg hk', hv, and_self]

/-! ### set -/

/-- `set(v)` = `_setint(-1 | 0)` (skipped for an empty bitstring) writes the all-ones / all-zeros word of the current
    length: every bit is `v`. -/
theorem set_all_eq_spec (l : Bits) (v : Bool) : Alg.set l v .all = Spec.set l v .all := by
  show (if l.length = 0 then (⟨.ok .none, l⟩ : Outcome) else ⟨.ok .none, intToBits l.length (if v then -1 else 0)⟩) =
    ⟨.ok .none, List.replicate l.length v⟩
  by_cases h0 : l.length = 0
  · rw [if_pos h0, h0]
    have : l = [] := List.eq_nil_of_length_eq_zero h0
    subst this
    rfl
  · rw [if_neg h0]
    cases v
    · simp only [Bool.false_eq_true, if_false]; rw [intToBits_zero]
    · simp only [if_true]; rw [intToBits_neg_one]

/-- The per-position loop of `set` (`self._bitstore[p] = v` for each p) = "apply the longest valid prefix of the
    positions, then raise IndexError iff a position was invalid". -/
theorem set_many_eq_spec (l : Bits) (v : Bool) (ps : List Int) : Alg.set l v (.many ps) = Spec.set l v (.many ps) := by
  show Alg.setLoop v l ps = Spec.applyPrefix (fun acc j => acc.set j v) l ps
  rw [applyPrefix_eq, setLoop_eq v l.length ps l rfl]

theorem set_one_eq_spec (l : Bits) (v : Bool) (i : Int) : Alg.set l v (.one i) = Spec.set l v (.one i) := by
  show Alg.setLoop v l [i] = Spec.applyPrefix (fun acc j => acc.set j v) l [i]
  rw [applyPrefix_eq, setLoop_eq v l.length [i] l rfl]

/-- `set(v, range(a, b, c))`: the slice fast path (taken when the range is non-empty and its first and last elements
    are valid non-negative indices: one slice from the first to the last element) and the per-position loop (all other
    ranges) both have the per-position meaning — every position of the range in order, IndexError at the first
    invalid one. -/
theorem set_range_eq_spec (l : Bits) (v : Bool) (a b c : Int) :
    Alg.set l v (.range a b c) = Spec.set l v (.range a b c) :=
  set_range_eq l v a b c

/-- All four kinds of `pos` argument. -/
theorem set_eq_spec (l : Bits) (v : Bool) (p : PosArg) : Alg.set l v p = Spec.set l v p := by
  cases p with
  | all => exact set_all_eq_spec l v
  | one i => exact set_one_eq_spec l v i
  | many ps => exact set_many_eq_spec l v ps
  | range a b c => exact set_range_eq_spec l v a b c

/-- Ranges the pinned tree got wrong (descending to index 0, crossing zero, running past the end). -/
theorem set_range_examples :
    Alg.set (List.replicate 6 false) true (.range 5 (-1) (-1)) = ⟨.ok .none, List.replicate 6 true⟩ ∧
    Alg.set (List.replicate 6 false) true (.range (-3) 0 1) = ⟨.ok .none, [false, false, false, true, true, true]⟩ ∧
    Alg.set (List.replicate 6 false) true (.range 0 9 2) = ⟨.error .index, [true, false, true, false, true, false]⟩ := by
  decide

/-- `s[a:b:c] = int` (`_setitem_slice`): for |step| = 1 the integer, as wide as the number of selected positions, is
    assigned through the slice; for other steps 0 / 1 is written to every selected position (through
    `set(v, range(*key.indices(len)))`); other integers and step 0 are rejected. -/
theorem setSliceInt_eq_spec (l : Bits) (a b c : Option Int) (v : Int) :
    Alg.setSliceInt l a b c v = Spec.setSliceInt l a b c v := by
  by_cases hc : c = none ∨ c = some 1 ∨ c = some (-1)
  · rw [Core.alg_setSliceInt_unit l a b c v hc,
      Core.spec_setSliceInt_unit l a b c v (by rcases hc with h | h | h <;> simp [h])]
  · cases c with
    | none => exact absurd (Or.inl rfl) hc
    | some st =>
      have hst1 : st ≠ 1 := fun h => hc (Or.inr (Or.inl (by rw [h])))
      have hstm : st ≠ -1 := fun h => hc (Or.inr (Or.inr (by rw [h])))
      unfold Alg.setSliceInt
      rw [if_pos ⟨by simp, by simpa using hstm, by simpa using hst1⟩]
      by_cases hst0 : st = 0
      · subst hst0
        simp [Spec.setSliceInt]
      · rw [Core.spec_setSliceInt_ext l a b st v hst0 hst1 hstm]
        by_cases hv : v = 0 ∨ v = 1
        · rw [if_pos hv, if_pos hv]
          simp only [Option.getD_some, if_neg hst0]
          rw [alg_set_slice_range l _ a b st hst0]
        · rw [if_neg hv, if_neg hv]

/-- Partial prefix: if position number `j` is the first invalid one, exactly the first `j` positions were applied and
    IndexError is raised. -/
theorem set_partial_prefix (l : Bits) (v : Bool) (ps : List Int) (j : Nat) (hj : j < ps.length)
    (hvalid : ∀ k (hk : k < j), PyL.normIdx l.length (ps[k]'(by omega)) ≠ none)
    (hbad : PyL.normIdx l.length ps[j] = none) :
    Spec.set l v (.many ps) = ⟨.error .index, (Spec.set l v (.many (ps.take j))).bits⟩ ∧
    (Spec.set l v (.many (ps.take j))).ret = .ok .none := by
  show Spec.applyPrefix (fun acc j => acc.set j v) l ps =
      ⟨.error .index, (Spec.applyPrefix (fun acc j => acc.set j v) l (ps.take j)).bits⟩ ∧
    (Spec.applyPrefix (fun acc j => acc.set j v) l (ps.take j)).ret = .ok .none
  rw [applyPrefix_eq, applyPrefix_eq]
  exact prefixOutcome_partial l.length _ l ps j hj hvalid hbad

theorem set_many_ok_iff (l : Bits) (v : Bool) (ps : List Int) :
    (Spec.set l v (.many ps)).ret = .ok .none ↔ ∀ p ∈ ps, PyL.normIdx l.length p ≠ none := by
  show (Spec.applyPrefix (fun acc j => acc.set j v) l ps).ret = .ok .none ↔ _
  rw [applyPrefix_eq]
  exact prefixOutcome_ret_ok_iff l.length _ l ps

theorem set_length (l : Bits) (v : Bool) (p : PosArg) : (Spec.set l v p).bits.length = l.length := by
  have key : ∀ ps, (Spec.applyPrefix (fun acc j => acc.set j v) l ps).bits.length = l.length := by
    intro ps
    rw [applyPrefix_eq]
    exact prefixOutcome_length l.length _ (fun acc j => List.length_set) l ps
  cases p with
  | all => simp [Spec.set, Spec.positions]
  | one i => exact key [i]
  | many ps => exact key ps
  | range a b c =>
    by_cases hc : c = 0
    · simp [Spec.set, Spec.positions, hc]
    · have : Spec.set l v (.range a b c) = Spec.applyPrefix (fun acc j => acc.set j v) l (Py.rangeList a b c) := by
        simp [Spec.set, Spec.positions, hc]
      rw [this]
      exact key _

/-- With all positions valid: a listed position holds `v`, every other bit is unchanged (frame). -/
theorem set_many_getElem (l : Bits) (v : Bool) (ps : List Int) (hall : ∀ p ∈ ps, PyL.normIdx l.length p ≠ none)
    (i : Nat) (hi : i < l.length) :
    (Spec.set l v (.many ps)).bits[i]? = if i ∈ ps.filterMap (PyL.normIdx l.length) then some v else l[i]? := by
  show (Spec.applyPrefix (fun acc j => acc.set j v) l ps).bits[i]? = _
  rw [applyPrefix_eq, prefixOutcome_valid l.length _ l ps hall]
  exact foldl_set_getElem? _ v l i hi

/-- Frame in general (also after an error): a position that is not listed keeps its bit. -/
theorem set_many_frame (l : Bits) (v : Bool) (ps : List Int) (i : Nat)
    (hi : i ∉ ps.filterMap (PyL.normIdx l.length)) : (Spec.set l v (.many ps)).bits[i]? = l[i]? := by
  show (Spec.applyPrefix (fun acc j => acc.set j v) l ps).bits[i]? = _
  rw [applyPrefix_eq]
  exact prefixOutcome_frame l.length _ (fun acc j i h => List.getElem?_set_ne (Ne.symm h)) l ps i hi

theorem set_all_value (l : Bits) (v : Bool) : (Spec.set l v .all).bits = List.replicate l.length v := rfl

/-! ### invert -/

/-- The loop of `invert` (own bounds check, `_invert(p)`) = apply-the-valid-prefix semantics; a `range` is just an iterable here. -/
theorem invert_many_eq_spec (l : Bits) (ps : List Int) : Alg.invert l (.many ps) = Spec.invert l (.many ps) := by
  show Alg.invertLoop l.length l ps = Spec.applyPrefix (fun acc j => acc.modify j (!·)) l ps
  rw [applyPrefix_eq, invertLoop_eq]

theorem invert_eq_spec (l : Bits) (p : PosArg) : Alg.invert l p = Spec.invert l p := by
  cases p with
  | all => rfl
  | one i =>
    show Alg.invertLoop l.length l [i] = Spec.applyPrefix (fun acc j => acc.modify j (!·)) l [i]
    rw [applyPrefix_eq, invertLoop_eq]
  | many ps => exact invert_many_eq_spec l ps
  | range a b c =>
    unfold Alg.invert Spec.invert Spec.positions
    simp only
    split
    · rfl
    · show Alg.invertLoop l.length l _ = Spec.applyPrefix (fun acc j => acc.modify j (!·)) l _
      rw [applyPrefix_eq, invertLoop_eq]

theorem invert_partial_prefix (l : Bits) (ps : List Int) (j : Nat) (hj : j < ps.length)
    (hvalid : ∀ k (hk : k < j), PyL.normIdx l.length (ps[k]'(by omega)) ≠ none)
    (hbad : PyL.normIdx l.length ps[j] = none) :
    Spec.invert l (.many ps) = ⟨.error .index, (Spec.invert l (.many (ps.take j))).bits⟩ ∧
    (Spec.invert l (.many (ps.take j))).ret = .ok .none := by
  show Spec.applyPrefix (fun acc j => acc.modify j (!·)) l ps =
      ⟨.error .index, (Spec.applyPrefix (fun acc j => acc.modify j (!·)) l (ps.take j)).bits⟩ ∧
    (Spec.applyPrefix (fun acc j => acc.modify j (!·)) l (ps.take j)).ret = .ok .none
  rw [applyPrefix_eq, applyPrefix_eq]
  exact prefixOutcome_partial l.length _ l ps j hj hvalid hbad

theorem invert_length (l : Bits) (p : PosArg) : (Spec.invert l p).bits.length = l.length := by
  have key : ∀ ps, (Spec.applyPrefix (fun acc j => acc.modify j (!·)) l ps).bits.length = l.length := by
    intro ps
    rw [applyPrefix_eq]
    exact prefixOutcome_length l.length _ (fun acc j => List.length_modify _ _ _) l ps
  cases p with
  | all => simp [Spec.invert, Spec.positions]
  | one i => exact key [i]
  | many ps => exact key ps
  | range a b c =>
    by_cases hc : c = 0
    · simp [Spec.invert, Spec.positions, hc]
    · have : Spec.invert l (.range a b c) =
          Spec.applyPrefix (fun acc j => acc.modify j (!·)) l (Py.rangeList a b c) := by
        simp [Spec.invert, Spec.positions, hc]
      rw [this]
      exact key _

theorem invert_many_frame (l : Bits) (ps : List Int) (i : Nat)
    (hi : i ∉ ps.filterMap (PyL.normIdx l.length)) : (Spec.invert l (.many ps)).bits[i]? = l[i]? := by
  show (Spec.applyPrefix (fun acc j => acc.modify j (!·)) l ps).bits[i]? = _
  rw [applyPrefix_eq]
  refine prefixOutcome_frame l.length _ (fun acc j i h => ?_) l ps i hi
  have hji : ¬ j = i := Ne.symm h
  rw [List.getElem?_modify]
  simp only [hji, if_false]
  cases acc[i]? <;> rfl

/-- A bit is flipped once per time its position is listed. -/
theorem invert_many_getElem (l : Bits) (ps : List Int) (hall : ∀ p ∈ ps, PyL.normIdx l.length p ≠ none)
    (i : Nat) (hi : i < l.length) :
    (Spec.invert l (.many ps)).bits[i]? =
      some (if (ps.filterMap (PyL.normIdx l.length)).count i % 2 = 1 then !l[i] else l[i]) := by
  show (Spec.applyPrefix (fun acc j => acc.modify j (!·)) l ps).bits[i]? = _
  rw [applyPrefix_eq, prefixOutcome_valid l.length _ l ps hall]
  simp only
  rw [foldl_modify_not_getElem?, List.getElem?_eq_getElem hi]
  split <;> rfl

theorem invert_many_involutive (l : Bits) (ps : List Int) (hall : ∀ p ∈ ps, PyL.normIdx l.length p ≠ none) :
    (Spec.invert (Spec.invert l (.many ps)).bits (.many ps)).bits = l := by
  have hlen := invert_length l (.many ps)
  show (Spec.applyPrefix (fun acc j => acc.modify j (!·))
    (Spec.applyPrefix (fun acc j => acc.modify j (!·)) l ps).bits ps).bits = l
  rw [applyPrefix_eq]
  have hlen' : (Spec.applyPrefix (fun acc j => acc.modify j (!·)) l ps).bits.length = l.length := hlen
  rw [hlen', prefixOutcome_valid l.length _ _ ps hall, applyPrefix_eq, prefixOutcome_valid l.length _ l ps hall]
  simp only
  apply List.ext_getElem?
  intro i
  rw [foldl_modify_not_getElem?, foldl_modify_not_getElem?]
  split
  · cases l[i]? <;> simp
  · rfl

theorem invert_all_involutive (l : Bits) : (Spec.invert (Spec.invert l .all).bits .all).bits = l := by
  show (l.map (!·)).map (!·) = l
  simp [Function.comp_def]

/-! ### non-vacuity -/
example : Alg.rol [true, true, false, true, false, false] 2 (some 1) (some 1) = .ok [true, true, false, true, false, false] ∧
    Alg.rol [true, false, false] 4 (some 1) none = .ok [true, false, false] ∧
    Alg.rol [true, false, true, true] 5 (some (-3)) none = .ok [true, true, false, true] := by decide
example : Alg.reverse [true, false, false, true, true] (some 1) (some (-1)) = .ok [true, true, false, false, true] := by decide
example : Alg.set [true, false, false, true] false (.range 1 4 2) = ⟨.ok .none, [true, false, false, false]⟩ := by decide
example : Spec.set [false, false, false, false] true (.many [0, -1, 7, 2]) = ⟨.error .index, [true, false, false, true]⟩ := by decide
example : Spec.invert [false, true, false] (.many [1, 1, -3]) = ⟨.ok .none, [true, true, false]⟩ := by decide

end BM.C03
