/-
  Props/C03_Range.lean — in-place mutations, part 2: operations on a `[start, end)` range or on positions that keep
  the length: `reverse`, `rol`, `ror`, `set`, `invert`.

  For each: the code path equals the list expression (`…_eq_spec`), the length is unchanged, bits outside the range /
  away from the positions are unchanged (frame), inverses / involutions, and the partial-prefix behaviour of
  `set` / `invert` over an iterable with a bad position.
-/
import BitstringModel.Model.C03
import BitstringModel.Proofs.C03
import BitstringModel.Proofs.C03Range

namespace BM.C03
open BM

/-! ### reverse -/

/-- Both branches of `reverse` (whole-store `bitarray.reverse()`; slice, reverse, assign back) compute
    `l[:a] + reversed(l[a:z]) + l[z:]`, and the range is validated first. -/
theorem reverse_eq_spec (l : Bits) (s e : Option Int) : Alg.reverse l s e = Spec.reverse l s e := by
  sorry

theorem reverse_length (l r : Bits) (s e : Option Int) (h : Spec.reverse l s e = .ok r) : r.length = l.length := by
  sorry

/-- Frame: bits outside `[a, z)` are unchanged. -/
theorem reverse_frame (l r : Bits) (s e : Option Int) (a z : Nat) (h : Spec.reverse l s e = .ok r)
    (hv : validateSlice l.length s e = .ok (a, z)) (i : Nat) (hi : i < a ∨ z ≤ i) : r[i]? = l[i]? := by
  sorry

/-- Inside the range, bit `i` comes from the mirrored position. -/
theorem reverse_getElem (l r : Bits) (s e : Option Int) (a z : Nat) (h : Spec.reverse l s e = .ok r)
    (hv : validateSlice l.length s e = .ok (a, z)) (i : Nat) (h1 : a ≤ i) (h2 : i < z) :
    r[i]? = l[a + z - 1 - i]? := by
  sorry

theorem reverse_whole (l : Bits) : Spec.reverse l none none = .ok l.reverse := by
  sorry

theorem reverse_involutive (l r : Bits) (s e : Option Int) (h : Spec.reverse l s e = .ok r) :
    Spec.reverse r s e = .ok l := by
  sorry

theorem reverse_err_iff (l : Bits) (s e : Option Int) :
    (∃ err, Spec.reverse l s e = .error err) ↔ validateSlice l.length s e = .error .value := by
  sorry

/-! ### rol / ror -/

/-- `_rol_msb0`: slice the first `r` bits of the range, `_delete` them, `_insert` them at `end - r` — this is the
    left rotation of `l[a:z]` by `bits mod (z - a)`.  Known deviation: an empty range (`bits %= 0`). -/
theorem rol_eq_spec_partial (l : Bits) (k : Int) (s e : Option Int) (h : rotEmptyRange l k s e = false) :
    Alg.rol l k s e = Spec.rol l k s e := by
  sorry

/-- `_ror_msb0`: slice the last `r` bits of the range, `_delete` them, `_insert` them at `start`. -/
theorem ror_eq_spec_partial (l : Bits) (k : Int) (s e : Option Int) (h : rotEmptyRange l k s e = false) :
    Alg.ror l k s e = Spec.ror l k s e := by
  sorry

theorem rot_empty_range_witness :
    (∃ err, Alg.rol [true, true, false, true, false, false] 2 (some 1) (some 1) = .error err) ∧
    (∃ err, Alg.ror [true, true, false, true, false, false] 2 (some 1) (some 1) = .error err) ∧
    Spec.rol [true, true, false, true, false, false] 2 (some 1) (some 1) = .ok [true, true, false, true, false, false] ∧
    Spec.ror [true, true, false, true, false, false] 2 (some 1) (some 1) = .ok [true, true, false, true, false, false] := by
  exact ⟨⟨_, rfl⟩, ⟨_, rfl⟩, by decide, by decide⟩

theorem rol_length (l r : Bits) (k : Int) (s e : Option Int) (h : Spec.rol l k s e = .ok r) : r.length = l.length := by
  sorry

theorem ror_length (l r : Bits) (k : Int) (s e : Option Int) (h : Spec.ror l k s e = .ok r) : r.length = l.length := by
  sorry

/-- Frame: bits outside `[a, z)` are unchanged by a rotation of the range. -/
theorem rol_frame (l r : Bits) (k : Int) (s e : Option Int) (a z : Nat) (h : Spec.rol l k s e = .ok r)
    (hv : validateSlice l.length s e = .ok (a, z)) (i : Nat) (hi : i < a ∨ z ≤ i) : r[i]? = l[i]? := by
  sorry

theorem ror_frame (l r : Bits) (k : Int) (s e : Option Int) (a z : Nat) (h : Spec.ror l k s e = .ok r)
    (hv : validateSlice l.length s e = .ok (a, z)) (i : Nat) (hi : i < a ∨ z ≤ i) : r[i]? = l[i]? := by
  sorry

/-- Inside the range, after `rol k` position `i` holds the bit that was `k` places to its right (cyclically). -/
theorem rol_getElem (l r : Bits) (k : Int) (s e : Option Int) (a z : Nat) (h : Spec.rol l k s e = .ok r)
    (hv : validateSlice l.length s e = .ok (a, z)) (i : Nat) (h1 : a ≤ i) (h2 : i < z) :
    r[i]? = l[a + (i - a + k.toNat) % (z - a)]? := by
  sorry

/-- After `ror k` the bit of position `i` is found `k` places to the right (cyclically). -/
theorem ror_getElem (l r : Bits) (k : Int) (s e : Option Int) (a z : Nat) (h : Spec.ror l k s e = .ok r)
    (hv : validateSlice l.length s e = .ok (a, z)) (i : Nat) (h1 : a ≤ i) (h2 : i < z) :
    r[a + (i - a + k.toNat) % (z - a)]? = l[i]? := by
  sorry

theorem rol_ror_inverse (l r : Bits) (k : Int) (s e : Option Int) (h : Spec.rol l k s e = .ok r) :
    Spec.ror r k s e = .ok l := by
  sorry

theorem ror_rol_inverse (l r : Bits) (k : Int) (s e : Option Int) (h : Spec.ror l k s e = .ok r) :
    Spec.rol r k s e = .ok l := by
  sorry

/-- Rotating by the range length (or any multiple) is the identity. -/
theorem rol_full_turn (l : Bits) (m : Nat) (s e : Option Int) (a z : Nat) (hl : l ≠ [])
    (hv : validateSlice l.length s e = .ok (a, z)) : Spec.rol l ((m * (z - a) : Nat) : Int) s e = .ok l := by
  sorry

theorem rot_errors (l : Bits) (k : Int) (s e : Option Int) :
    (l = [] → Spec.rol l k s e = .error .bitstring ∧ Spec.ror l k s e = .error .bitstring) ∧
    (l ≠ [] → k < 0 → Spec.rol l k s e = .error .value ∧ Spec.ror l k s e = .error .value) ∧
    (l ≠ [] → 0 ≤ k → validateSlice l.length s e = .error .value →
      Spec.rol l k s e = .error .value ∧ Spec.ror l k s e = .error .value) := by
  sorry

/-! ### set -/

/-- `set(v)` = `_setint(-1 | 0)` writes the all-ones / all-zeros word of the current length.
    Known deviation: on an empty bitstring `_setint` raises (`setAllEmpty`). -/
theorem set_all_eq_spec_partial (l : Bits) (v : Bool) (h : l ≠ []) : Alg.set l v .all = Spec.set l v .all := by
  sorry

theorem set_all_empty_witness :
    Alg.set [] true .all = ⟨.error .value, []⟩ ∧ Spec.set [] true .all = ⟨.ok .none, []⟩ := by
  decide

/-- The per-position loop of `set` (`self._bitstore[p] = v` for each p) = "apply the longest valid prefix of the
    positions, then raise IndexError iff a position was invalid". -/
theorem set_many_eq_spec (l : Bits) (v : Bool) (ps : List Int) : Alg.set l v (.many ps) = Spec.set l v (.many ps) := by
  sorry

theorem set_one_eq_spec (l : Bits) (v : Bool) (i : Int) : Alg.set l v (.one i) = Spec.set l v (.one i) := by
  sorry

/-- The `range` fast path (`bitarray[a:b:c] = v`) equals the per-position meaning wherever the slice `[a:b:c]`
    selects exactly the (valid) positions of `range(a, b, c)`; elsewhere it silently differs (`setRangeAsSlice`). -/
theorem set_range_eq_spec_partial (l : Bits) (v : Bool) (a b c : Int) (h : setRangeAsSlice l a b c = false) :
    Alg.set l v (.range a b c) = Spec.set l v (.range a b c) := by
  sorry

/-- A sufficient syntactic condition to be outside the region: a non-negative ascending range inside the bitstring. -/
theorem setRangeAsSlice_false_of_nonneg (l : Bits) (a b c : Int) (ha : 0 ≤ a) (hb0 : 0 ≤ b) (hc : 0 < c) (hb : b ≤ (l.length : Int)) :
    setRangeAsSlice l a b c = false := by
  sorry

theorem set_range_witness :
    Alg.set (List.replicate 6 false) true (.range 5 (-1) (-1)) = ⟨.ok .none, List.replicate 6 false⟩ ∧
    Spec.set (List.replicate 6 false) true (.range 5 (-1) (-1)) = ⟨.ok .none, List.replicate 6 true⟩ ∧
    Alg.set (List.replicate 6 false) true (.range 0 9 2) = ⟨.ok .none, [true, false, true, false, true, false]⟩ ∧
    Spec.set (List.replicate 6 false) true (.range 0 9 2) = ⟨.error .index, [true, false, true, false, true, false]⟩ := by
  decide

/-- Partial prefix: if position number `j` is the first invalid one, exactly the first `j` positions were applied and
    IndexError is raised. -/
theorem set_partial_prefix (l : Bits) (v : Bool) (ps : List Int) (j : Nat) (hj : j < ps.length)
    (hvalid : ∀ k (hk : k < j), PyL.normIdx l.length (ps[k]'(by omega)) ≠ none)
    (hbad : PyL.normIdx l.length ps[j] = none) :
    Spec.set l v (.many ps) = ⟨.error .index, (Spec.set l v (.many (ps.take j))).bits⟩ ∧
    (Spec.set l v (.many (ps.take j))).ret = .ok .none := by
  sorry

theorem set_many_ok_iff (l : Bits) (v : Bool) (ps : List Int) :
    (Spec.set l v (.many ps)).ret = .ok .none ↔ ∀ p ∈ ps, PyL.normIdx l.length p ≠ none := by
  sorry

theorem set_length (l : Bits) (v : Bool) (p : PosArg) : (Spec.set l v p).bits.length = l.length := by
  sorry

/-- With all positions valid: a listed position holds `v`, every other bit is unchanged (frame). -/
theorem set_many_getElem (l : Bits) (v : Bool) (ps : List Int) (hall : ∀ p ∈ ps, PyL.normIdx l.length p ≠ none)
    (i : Nat) (hi : i < l.length) :
    (Spec.set l v (.many ps)).bits[i]? = if i ∈ ps.filterMap (PyL.normIdx l.length) then some v else l[i]? := by
  sorry

/-- Frame in general (also after an error): a position that is not listed keeps its bit. -/
theorem set_many_frame (l : Bits) (v : Bool) (ps : List Int) (i : Nat)
    (hi : i ∉ ps.filterMap (PyL.normIdx l.length)) : (Spec.set l v (.many ps)).bits[i]? = l[i]? := by
  sorry

theorem set_all_value (l : Bits) (v : Bool) : (Spec.set l v .all).bits = List.replicate l.length v := by
  sorry

/-! ### invert -/

/-- The loop of `invert` (own bounds check, `_invert(p)`) = apply-the-valid-prefix semantics; a `range` is just an iterable here. -/
theorem invert_many_eq_spec (l : Bits) (ps : List Int) : Alg.invert l (.many ps) = Spec.invert l (.many ps) := by
  sorry

theorem invert_eq_spec (l : Bits) (p : PosArg) : Alg.invert l p = Spec.invert l p := by
  sorry

theorem invert_partial_prefix (l : Bits) (ps : List Int) (j : Nat) (hj : j < ps.length)
    (hvalid : ∀ k (hk : k < j), PyL.normIdx l.length (ps[k]'(by omega)) ≠ none)
    (hbad : PyL.normIdx l.length ps[j] = none) :
    Spec.invert l (.many ps) = ⟨.error .index, (Spec.invert l (.many (ps.take j))).bits⟩ ∧
    (Spec.invert l (.many (ps.take j))).ret = .ok .none := by
  sorry

theorem invert_length (l : Bits) (p : PosArg) : (Spec.invert l p).bits.length = l.length := by
  sorry

theorem invert_many_frame (l : Bits) (ps : List Int) (i : Nat)
    (hi : i ∉ ps.filterMap (PyL.normIdx l.length)) : (Spec.invert l (.many ps)).bits[i]? = l[i]? := by
  sorry

/-- A bit is flipped once per time its position is listed. -/
theorem invert_many_getElem (l : Bits) (ps : List Int) (hall : ∀ p ∈ ps, PyL.normIdx l.length p ≠ none)
    (i : Nat) (hi : i < l.length) :
    (Spec.invert l (.many ps)).bits[i]? =
      some (if (ps.filterMap (PyL.normIdx l.length)).count i % 2 = 1 then !l[i] else l[i]) := by
  sorry

theorem invert_many_involutive (l : Bits) (ps : List Int) (hall : ∀ p ∈ ps, PyL.normIdx l.length p ≠ none) :
    (Spec.invert (Spec.invert l (.many ps)).bits (.many ps)).bits = l := by
  sorry

theorem invert_all_involutive (l : Bits) : (Spec.invert (Spec.invert l .all).bits .all).bits = l := by
  sorry

/-! ### non-vacuity -/
example : rotEmptyRange [true, false, false] 4 (some 1) none = false ∧
    Alg.rol [true, false, false] 4 (some 1) none = .ok [true, false, false] ∧
    Alg.rol [true, false, true, true] 5 (some (-3)) none = .ok [true, true, false, true] := by decide
example : Alg.reverse [true, false, false, true, true] (some 1) (some (-1)) = .ok [true, true, false, false, true] := by decide
example : setRangeAsSlice [true, false, false, true] 1 4 2 = false ∧ setRangeAsSlice [true, false, false, true] (-3) (-1) 1 = false := by decide
example : Spec.set [false, false, false, false] true (.many [0, -1, 7, 2]) = ⟨.error .index, [true, false, false, true]⟩ := by decide
example : Spec.invert [false, true, false] (.many [1, 1, -3]) = ⟨.ok .none, [true, true, false]⟩ := by decide

end BM.C03
