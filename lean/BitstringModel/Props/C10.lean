/-
  Props/C10.lean — exponential-Golomb codes `ue` / `se`: exact codewords, round trip,
  self-delimitation, exact position advance, truncation → ReadError, whole-value exactness.
  All statements are ∀ n : Nat / i : Int and ∀ surrounding bits `pre`, `post`; no bound.
-/
import BitstringModel.Model.C10
import BitstringModel.Proofs.C10

namespace BM.C10
open BM

/-- The code's shift loop computes ⌊log₂(n+1)⌋ leading zeros: the encoder emits exactly the H.264 table entry. -/
theorem ue_codeword (n : Nat) : ueEncodeNat n = ueSpec n := by
  sorry

theorem ue_length (n : Nat) : (ueEncodeNat n).length = 2 * Nat.log2 (n + 1) + 1 := by
  sorry

/-- Round trip + self-delimitation + exact position advance, anywhere in a stream. -/
theorem readUE_encode (pre post : Bits) (n : Nat) :
    readUE (pre ++ ueEncodeNat n ++ post) pre.length
      = .ok (n, pre.length + (ueEncodeNat n).length) := by
  sorry

/-- The signed mapping is a bijection onto ℕ (so `se` inherits everything from `ue`). -/
theorem seMap_injective (i j : Int) (h : seMap i = seMap j) : i = j := by
  sorry

theorem seMap_surjective (u : Nat) : ∃ i : Int, seMap i = u := by
  sorry

theorem readSE_encode (pre post : Bits) (i : Int) :
    readSE (pre ++ seEncode i ++ post) pre.length
      = .ok (i, pre.length + (seEncode i).length) := by
  sorry

/-- A successful read consumes at least one bit and never passes the end. -/
theorem readUE_ok_bounds (b : Bits) (p v p' : Nat) (h : readUE b p = .ok (v, p')) :
    p < p' ∧ p' ≤ b.length := by
  sorry

theorem readSE_ok_bounds (b : Bits) (p : Nat) (v : Int) (p' : Nat) (h : readSE b p = .ok (v, p')) :
    p < p' ∧ p' ≤ b.length := by
  sorry

/-- The only way a read fails is ReadError. -/
theorem readUE_err (b : Bits) (p : Nat) (e : Err) (h : readUE b p = .error e) : e = .read := by
  sorry

theorem readSE_err (b : Bits) (p : Nat) (e : Err) (h : readSE b p = .error e) : e = .read := by
  sorry

/-- Every proper prefix of a codeword is a truncated code: ReadError (position is not returned, hence unchanged). -/
theorem truncated_ue (pre : Bits) (n q : Nat) (hq : q < (ueEncodeNat n).length) :
    readUE (pre ++ (ueEncodeNat n).take q) pre.length = .error .read := by
  sorry

theorem truncated_se (pre : Bits) (i : Int) (q : Nat) (hq : q < (seEncode i).length) :
    readSE (pre ++ (seEncode i).take q) pre.length = .error .read := by
  sorry

/-- Whole-value interpretation accepts exactly the codewords: no extra bits, no truncation. -/
theorem getUE_exact (b : Bits) (n : Nat) : getUE b = .ok n ↔ b = ueEncodeNat n := by
  sorry

theorem getSE_exact (b : Bits) (i : Int) : getSE b = .ok i ↔ b = seEncode i := by
  sorry

theorem getUE_extra_bits (n : Nat) (x : Bool) (post : Bits) :
    getUE (ueEncodeNat n ++ x :: post) = .error .value := by
  sorry

theorem getUE_truncated (n q : Nat) (hq : q < (ueEncodeNat n).length) :
    getUE ((ueEncodeNat n).take q) = .error .value := by
  sorry

/-- Negative values are rejected by the unsigned code. -/
theorem ue_negative (i : Int) (h : i < 0) : ueEncode i = .error .value := by
  sorry

theorem ue_nonneg (i : Int) (h : 0 ≤ i) : ueEncode i = .ok (ueEncodeNat i.toNat) := by
  sorry

/-- The stream-level reader (`get_fn(bs[start:])`, offset added back) is the positional reader. -/
theorem streamRead_readUE (b : Bits) (pos : Nat) (h : pos ≤ b.length) :
    streamRead readUE b pos = readUE b pos := by
  sorry

theorem streamRead_readSE (b : Bits) (pos : Nat) (h : pos ≤ b.length) :
    streamRead readSE b pos = readSE b pos := by
  sorry

/-- Any concatenation of codewords reads back as the same sequence, ending exactly after the last one. -/
theorem stream_roundtrip_ue (pre post : Bits) (ns : List Nat) :
    decodeAll readUE ns.length (pre ++ ns.flatMap ueEncodeNat ++ post) pre.length
      = .ok (ns, pre.length + (ns.flatMap ueEncodeNat).length) := by
  sorry

theorem stream_roundtrip_se (pre post : Bits) (is : List Int) :
    decodeAll readSE is.length (pre ++ is.flatMap seEncode ++ post) pre.length
      = .ok (is, pre.length + (is.flatMap seEncode).length) := by
  sorry

/-! ### non-vacuity -/
example : ueEncodeNat 4 = [false, false, true, false, true] := by decide
example : readUE ([true] ++ ueEncodeNat 4 ++ [true, true]) 1 = .ok (4, 6) := by decide
example : seEncode (-2) = [false, false, true, false, true] := by decide
example : getUE [false, true, false, true] = .error .value := by decide

end BM.C10
