/-
  Props/C10.lean — exponential-Golomb codes `ue` / `se`: exact codewords, round trip,
  self-delimitation, exact position advance, truncation → ReadError, whole-value exactness.
  All statements are ∀ n : Nat / i : Int and ∀ surrounding bits `pre`, `post`; no bound.
-/
import BitstringModel.Model.C10
import BitstringModel.Proofs.C10

namespace BM.C10
open BM

/-- The code's shift loop computes ⌊log₂(n+1)⌋ leading zeros: the encoder emits exactly the H.264 table entry. -/
theorem ue_codeword (n : Nat) : ueEncodeNat n = ueSpec n := by
  obtain ⟨h1, h2⟩ := log2_bounds n
  rw [ueEncodeNat_eq]; unfold ueSpec
  simp only
  rw [natToBits_succ_of_range _ _ h1 (by rw [Nat.pow_succ]; exact h2)]

theorem ue_length (n : Nat) : (ueEncodeNat n).length = 2 * Nat.log2 (n + 1) + 1 := by
  exact ueEncodeNat_length n

/-- Round trip + self-delimitation + exact position advance, anywhere in a stream. -/
theorem readUE_encode (pre post : Bits) (n : Nat) :
    readUE (pre ++ ueEncodeNat n ++ post) pre.length
      = .ok (n, pre.length + (ueEncodeNat n).length) := by
  exact readUE_encode' pre post n

/-- The signed mapping is a bijection onto ℕ (so `se` inherits everything from `ue`). -/
theorem seMap_injective (i j : Int) (h : seMap i = seMap j) : i = j := by
  unfold seMap at h; split at h <;> split at h <;> omega

theorem seMap_surjective (u : Nat) : ∃ i : Int, seMap i = u := by
  exact ⟨seDecode u, seMap_seDecode u⟩

theorem readSE_encode (pre post : Bits) (i : Int) :
    readSE (pre ++ seEncode i ++ post) pre.length
      = .ok (i, pre.length + (seEncode i).length) := by
  rw [readSE_eq]; unfold seEncode
  rw [readUE_encode']
  simp only [seDecode_seMap]

/-- A successful read consumes at least one bit and never passes the end. -/
theorem readUE_ok_bounds (b : Bits) (p v p' : Nat) (h : readUE b p = .ok (v, p')) :
    p < p' ∧ p' ≤ b.length := by
  obtain ⟨k, tail, post, hd, hlen, -, hp⟩ := readUE_ok_struct b p v p' h
  have hl := congrArg List.length hd
  simp only [List.length_drop, List.length_append, List.length_replicate, List.length_cons] at hl
  omega

theorem readSE_ok_bounds (b : Bits) (p : Nat) (v : Int) (p' : Nat) (h : readSE b p = .ok (v, p')) :
    p < p' ∧ p' ≤ b.length := by
  rw [readSE_eq] at h
  split at h
  · cases h
  · rename_i c q hq
    cases h
    exact readUE_ok_bounds b p c p' hq

/-- The only way a read fails is ReadError. -/
theorem readUE_err (b : Bits) (p : Nat) (e : Err) (h : readUE b p = .error e) : e = .read := by
  unfold readUE at h
  split at h
  · cases h; rfl
  · simp only at h
    split at h
    · split at h
      · cases h; rfl
      · cases h
    · cases h

theorem readSE_err (b : Bits) (p : Nat) (e : Err) (h : readSE b p = .error e) : e = .read := by
  rw [readSE_eq] at h
  split at h
  · rename_i e' he
    cases h
    exact readUE_err b p e he
  · cases h

/-- Every proper prefix of a codeword is a truncated code: ReadError (position is not returned, hence unchanged). -/
theorem truncated_ue (pre : Bits) (n q : Nat) (hq : q < (ueEncodeNat n).length) :
    readUE (pre ++ (ueEncodeNat n).take q) pre.length = .error .read := by
  rw [ueEncodeNat_length] at hq
  rw [ueEncodeNat_eq]
  exact readUE_truncated_struct pre _ _ q (natToBits_length _ _) hq

theorem truncated_se (pre : Bits) (i : Int) (q : Nat) (hq : q < (seEncode i).length) :
    readSE (pre ++ (seEncode i).take q) pre.length = .error .read := by
  rw [readSE_eq]; unfold seEncode at *
  rw [truncated_ue pre _ q hq]

/-- Whole-value interpretation accepts exactly the codewords: no extra bits, no truncation. -/
theorem getUE_exact (b : Bits) (n : Nat) : getUE b = .ok n ↔ b = ueEncodeNat n := by
  constructor
  · intro h
    unfold getUE wholeOf at h
    split at h
    · cases h
    · rename_i v p hr
      split at h
      · cases h
      · rename_i hp
        have hp' : p = b.length := by simpa using hp
        cases h; subst hp'
        obtain ⟨k, tail, post, hd, hlen, hv, hp⟩ := readUE_ok_struct b 0 _ _ hr
        rw [List.drop_zero] at hd
        have hl := congrArg List.length hd
        simp only [List.length_append, List.length_replicate, List.length_cons] at hl
        have hpost : post = [] := List.eq_nil_of_length_eq_zero (by omega)
        subst hpost
        rw [hv, ueEncodeNat_of_struct k tail hlen, hd]; simp
  · intro h
    subst h
    have := readUE_encode' [] [] n
    simp only [List.nil_append, List.append_nil, List.length_nil, Nat.zero_add] at this
    unfold getUE wholeOf
    rw [this]; simp

theorem getSE_exact (b : Bits) (i : Int) : getSE b = .ok i ↔ b = seEncode i := by
  constructor
  · intro h
    unfold getSE wholeOf at h
    rw [readSE_eq] at h
    split at h
    · cases h
    · rename_i v p hr
      split at hr
      · cases hr
      · rename_i c q hq
        cases hr
        split at h
        · cases h
        · rename_i hp
          have hp' : p = b.length := by simpa using hp
          cases h; subst hp'
          have hb : getUE b = .ok c := by unfold getUE wholeOf; rw [hq]; simp
          rw [getUE_exact] at hb
          unfold seEncode; rw [seMap_seDecode]; exact hb
  · intro h
    subst h
    have := readSE_encode [] [] i
    simp only [List.nil_append, List.append_nil, List.length_nil, Nat.zero_add] at this
    unfold getSE wholeOf
    rw [this]; simp

theorem getUE_extra_bits (n : Nat) (x : Bool) (post : Bits) :
    getUE (ueEncodeNat n ++ x :: post) = .error .value := by
  have := readUE_encode' [] (x :: post) n
  simp only [List.nil_append, List.length_nil, Nat.zero_add] at this
  unfold getUE wholeOf
  rw [this]; simp

theorem getUE_truncated (n q : Nat) (hq : q < (ueEncodeNat n).length) :
    getUE ((ueEncodeNat n).take q) = .error .value := by
  have := truncated_ue [] n q hq
  simp only [List.nil_append, List.length_nil] at this
  unfold getUE wholeOf
  rw [this]

/-- Negative values are rejected by the unsigned code. -/
theorem ue_negative (i : Int) (h : i < 0) : ueEncode i = .error .value := by
  unfold ueEncode; rw [if_pos h]

theorem ue_nonneg (i : Int) (h : 0 ≤ i) : ueEncode i = .ok (ueEncodeNat i.toNat) := by
  unfold ueEncode; rw [if_neg (by omega)]

/-- The stream-level reader (`get_fn(bs[start:])`, offset added back) is the positional reader. -/
theorem streamRead_readUE (b : Bits) (pos : Nat) (h : pos ≤ b.length) :
    streamRead readUE b pos = readUE b pos := by
  unfold streamRead readUE
  simp only [List.drop_drop, List.length_drop, Nat.zero_add]
  cases countZeros (List.drop pos b) with
  | none => rfl
  | some lz =>
    simp only
    by_cases hlz : lz > 0
    · simp only [hlz, if_true]
      by_cases hlen : pos + lz + lz + 1 > b.length
      · rw [if_pos hlen, if_pos (by omega)]
      · rw [if_neg hlen, if_neg (by omega)]
        simp only [Except.ok.injEq, Prod.mk.injEq]
        refine ⟨?_, by omega⟩
        rw [show pos + (lz + 1) = pos + lz + 1 by omega]
    · simp only [hlz, if_false]
      simp [Nat.add_assoc]

theorem streamRead_readSE (b : Bits) (pos : Nat) (h : pos ≤ b.length) :
    streamRead readSE b pos = readSE b pos := by
  have hue := streamRead_readUE b pos h
  unfold streamRead at *
  rw [readSE_eq, readSE_eq, ← hue]
  cases readUE (List.drop pos b) 0 with
  | error e => rfl
  | ok x => rfl

/-- Any concatenation of codewords reads back as the same sequence, ending exactly after the last one. -/
theorem stream_roundtrip_ue (pre post : Bits) (ns : List Nat) :
    decodeAll readUE ns.length (pre ++ ns.flatMap ueEncodeNat ++ post) pre.length
      = .ok (ns, pre.length + (ns.flatMap ueEncodeNat).length) := by
  exact decodeAll_roundtrip readUE ueEncodeNat readUE_encode pre post ns

theorem stream_roundtrip_se (pre post : Bits) (is : List Int) :
    decodeAll readSE is.length (pre ++ is.flatMap seEncode ++ post) pre.length
      = .ok (is, pre.length + (is.flatMap seEncode).length) := by
  exact decodeAll_roundtrip readSE seEncode readSE_encode pre post is

/-! ### non-vacuity -/
example : ueEncodeNat 4 = [false, false, true, false, true] := by decide
example : readUE ([true] ++ ueEncodeNat 4 ++ [true, true]) 1 = .ok (4, 6) := by decide
example : seEncode (-2) = [false, false, true, false, true] := by decide
example : getUE [false, true, false, true] = .error .value := by decide

end BM.C10
