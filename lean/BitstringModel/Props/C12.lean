/-
  Props/C12.lean — LSB0 mode is a pure index mirror of MSB0 mode: slices and single positions.

  Every theorem compares an operation at `Mode.lsb0` with THE SAME operation at `Mode.msb0` applied to the
  reversed operands, reversed back — the property's own wording.  Where the unchanged code deviates
  (DESIGN §7, known_findings.d/C12.json) the theorem is `…_partial` on the complement of a named decidable region
  (`negStep`, `invertedAssign`, `setRange`, defined next to the model) and a decided witness shows the
  deviation inside the region.
-/
import BitstringModel.Model.C12
import BitstringModel.Proofs.C12

namespace BM.C12
open BM

/-! ### the index arithmetic of `offset_slice_indices_lsb0` -/

/-- For every non-negative step, every start/stop (None, negative, out of range) and every length, the slice
    computed by `offset_slice_indices_lsb0` visits exactly the mirror images `n - 1 - i` of the positions the
    original slice visits, in the opposite order.  (This is the whole content of the mirror law for slices.) -/
theorem offsetSliceLsb0_visits_mirror (k : Key) (n : Nat) (hpos : negStep k = false) (h0 : k.step ≠ some 0) :
    ∃ k', offsetSliceLsb0 k n = .ok k' ∧ k'.step = k.step ∧
      Py.rangeList (Py.sliceIndices k'.start k'.stop (k.step.getD 1) n).1
                   (Py.sliceIndices k'.start k'.stop (k.step.getD 1) n).2.1 (k.step.getD 1)
        = ((Py.rangeList (Py.sliceIndices k.start k.stop (k.step.getD 1) n).1
                         (Py.sliceIndices k.start k.stop (k.step.getD 1) n).2.1 (k.step.getD 1)).reverse.map
            fun i => (n : Int) - 1 - i) := by
  have hst := stepOf_pos k hpos h0
  refine ⟨_, offsetSliceLsb0_pos k n hpos h0, rfl, ?_⟩
  have hr := mirror_renorm k n hst
  have hm := mirror_rangeList k n hst
  unfold stepOf at hr hm
  simp only [hr]
  exact hm

/-! ### `s[a:b:c]`, `del s[a:b:c]`, `s[a:b:c] = v` -/

/- Full statement (fails on the unchanged tree for negative steps, finding `lsb0-negative-step`):
     ∀ l k, getSliceOp .lsb0 l k = (getSliceOp .msb0 l.reverse k).map List.reverse                        -/
/-- `s[a:b:c]` under lsb0 is the reversed msb0 slice of the reversed bits, for every start, stop, length and
    every positive step (step 0 raises in both modes: `slice_step_zero_raises`). -/
theorem getslice_lsb0_mirror_partial (l : Bits) (k : Key) (hpos : negStep k = false) (h0 : k.step ≠ some 0) :
    getSliceOp .lsb0 l k = (getSliceOp .msb0 l.reverse k).map List.reverse := by
  exact getslice_mirror l k hpos h0

/-- … and with a negative step the unchanged code does something else. -/
theorem getslice_lsb0_negStep_witness :
    negStep ⟨none, some 0, some (-1)⟩ = true ∧
    getSliceOp .lsb0 [true, false, false] ⟨none, some 0, some (-1)⟩ = .ok [false, false] ∧
    (getSliceOp .msb0 [true, false, false].reverse ⟨none, some 0, some (-1)⟩).map List.reverse = .ok [false, true] := by
  decide

/-- A zero step raises in both modes, for all three slice operations (the exception class is not part of the
    property: ValueError from bitarray under msb0, the failing `assert s.step < 0` of `indices` under lsb0). -/
theorem slice_step_zero_raises (m : Mode) (l v : Bits) (a b : Option Int) :
    (∃ e, getSliceOp m l ⟨a, b, some 0⟩ = .error e) ∧ (∃ e, delSliceOp m l ⟨a, b, some 0⟩ = .error e) ∧
    (∃ e, setSliceBits m l ⟨a, b, some 0⟩ v = .error e) := by
  exact step_zero_raises m l v a b

/-- The two-argument `BitStore.getslice(start, stop)` used by every internal `_slice`: mirror for all arguments. -/
theorem getslice2_lsb0_mirror (l : Bits) (a b : Option Int) :
    getslice .lsb0 l a b = (getslice .msb0 l.reverse a b).map List.reverse := by
  exact getslice2_mirror l a b

/- Full statement: ∀ l k, delSliceOp .lsb0 l k = (delSliceOp .msb0 l.reverse k).map List.reverse           -/
theorem delslice_lsb0_mirror_partial (l : Bits) (k : Key) (hpos : negStep k = false) (h0 : k.step ≠ some 0) :
    delSliceOp .lsb0 l k = (delSliceOp .msb0 l.reverse k).map List.reverse := by
  exact delslice_mirror l k hpos h0

theorem delslice_lsb0_negStep_witness :
    negStep ⟨none, some 0, some (-1)⟩ = true ∧
    delSliceOp .lsb0 [true, false, false] ⟨none, some 0, some (-1)⟩ = .ok [true] ∧
    (delSliceOp .msb0 [true, false, false].reverse ⟨none, some 0, some (-1)⟩).map List.reverse = .ok [false] := by
  decide

/- Full statement: ∀ l k v, setSliceBits .lsb0 l k v = (setSliceBits .msb0 l.reverse k v.reverse).map List.reverse -/
/-- Slice assignment (resizing for a step-less / step-1 slice, same-length for an extended one, ValueError
    otherwise) mirrors for every non-negative step, unless a resizing assignment has its stop before its start. -/
theorem setslice_lsb0_mirror_partial (l : Bits) (k : Key) (v : Bits)
    (hpos : negStep k = false) (h0 : k.step ≠ some 0) (hinv : invertedAssign k l.length = false) :
    setSliceBits .lsb0 l k v = (setSliceBits .msb0 l.reverse k v.reverse).map List.reverse := by
  exact setslice_mirror l k v hpos h0 hinv

/-- Assignment into an inverted (empty) range lands at the wrong end … -/
theorem setslice_lsb0_invertedAssign_witness :
    invertedAssign ⟨some 2, some 1, none⟩ 3 = true ∧
    setSliceBits .lsb0 [false, false, false] ⟨some 2, some 1, none⟩ [true] = .ok [false, false, true, false] ∧
    (setSliceBits .msb0 [false, false, false].reverse ⟨some 2, some 1, none⟩ [true].reverse).map List.reverse
      = .ok [false, true, false, false] := by
  decide

/-- … and a negative step assigns to the wrong positions. -/
theorem setslice_lsb0_negStep_witness :
    negStep ⟨none, some 0, some (-1)⟩ = true ∧
    setSliceBits .lsb0 [false, false, false] ⟨none, some 0, some (-1)⟩ [true, false] = .ok [false, false, true] ∧
    (setSliceBits .msb0 [false, false, false].reverse ⟨none, some 0, some (-1)⟩ [true, false].reverse).map List.reverse
      = .ok [false, true, false] := by
  decide

/-! ### single positions: `s[i]`, `s[i] = b`, `del s[i]`, `invert`, `set`, `all`, `any` -/

/-- `s[i]` under lsb0 is `reversed(s)[i]` for every integer `i` — including which `i` raise. -/
theorem getitem_lsb0_mirror (l : Bits) (i : Int) : getItem .lsb0 l i = getItem .msb0 l.reverse i := by
  exact getindex_mirror l i

/-- in-range form: bit `i` counted from the right. -/
theorem getitem_lsb0_nonneg (l : Bits) (i : Nat) (h : i < l.length) :
    getItem .lsb0 l (i : Int) = .ok (l[l.length - 1 - i]'(by omega)) := by
  have h1 : -(i : Int) - 1 < 0 := by omega
  have h2 : ¬ (-(i : Int) - 1 + (l.length : Int) < 0) := by omega
  have h3 : (-(i : Int) - 1 + (l.length : Int)).toNat = l.length - 1 - i := by omega
  have h4 : l.length - 1 - i < l.length := by omega
  simp only [getItem, getindex, pyGetIdx, Py.getIndex, h1, if_true, h2, if_false, h3, List.getElem?_eq_getElem h4]

theorem getitem_lsb0_err_iff (l : Bits) (i : Int) :
    getItem .lsb0 l i = .error .index ↔ (i < -(l.length : Int) ∨ (l.length : Int) ≤ i) := by
  rw [getitem_lsb0_mirror]
  have := C01.getIndex_err_iff l.reverse i
  simpa [getItem, getindex, pyGetIdx] using this

theorem setitem_lsb0_mirror (l : Bits) (i v : Int) :
    setItemInt .lsb0 l i v = (setItemInt .msb0 l.reverse i v).map List.reverse := by
  unfold setItemInt
  split
  · exact setitemIdx_mirror l i false
  · split
    · exact setitemIdx_mirror l i true
    · rfl

/-- `s[i] = <bitstring>` (replaces one bit by any number of bits). -/
theorem setitembits_lsb0_mirror (l : Bits) (i : Int) (v : Bits) :
    setItemBits .lsb0 l i v = (setItemBits .msb0 l.reverse i v.reverse).map List.reverse := by
  unfold setItemBits
  simp only [List.length_reverse]
  generalize (if i < 0 then i + (l.length : Int) else i) = q
  by_cases hq : q < 0 ∨ (l.length : Int) ≤ q
  · simp only [hq, if_true]; rfl
  · simp only [hq, if_false]
    exact setslice_mirror l _ v rfl (by simp) (invertedAssign_false_of_le q (q + 1) l.length (by omega) (by omega))

theorem delitem_lsb0_mirror (l : Bits) (i : Int) :
    delItem .lsb0 l i = (delItem .msb0 l.reverse i).map List.reverse := by
  exact delitemIdx_mirror l i

/-- `invert(pos)` for no position, one position, a list or a range of positions (partial application on an
    out-of-range position raises in both modes). -/
theorem invert_lsb0_mirror (l : Bits) (P : PosSpec) :
    invertOp .lsb0 l P = (invertOp .msb0 l.reverse P).map List.reverse := by
  cases P with
  | all => simp [invertOp, Except.map, List.map_reverse]
  | one i => exact invertMany_mirror [i] l
  | many ps => exact invertMany_mirror ps l
  | range a b c =>
    simp only [invertOp]
    split
    · rfl
    · exact invertMany_mirror _ l

/- Full statement: ∀ l b P, setOp .lsb0 l b P = (setOp .msb0 l.reverse b P).map List.reverse               -/
/-- `set(value, pos)` for all bits, one position, a list of positions, and every range that is not written as a
    single slice (empty, or with an element that is negative / out of range: those are set one by one). -/
theorem set_lsb0_mirror_partial (l : Bits) (b : Bool) (P : PosSpec) (h : setRange P l.length = false) :
    setOp .lsb0 l b P = (setOp .msb0 l.reverse b P).map List.reverse := by
  cases P with
  | all =>
    simp only [setOp, List.length_reverse]
    split
    · simp [Except.map]
    · simp [Except.map]
  | one i => exact setMany_mirror b [i] l
  | many ps => exact setMany_mirror b ps l
  | range a b' c => exact setOp_range_mirror l b a b' c h

/-- `set(1, range(0, 2))` works under msb0 and raises (AttributeError, on `int._bitarray`) under lsb0. -/
theorem set_lsb0_setRange_witness :
    setRange (.range 0 2 1) 3 = true ∧
    setOp .lsb0 [false, false, false] true (.range 0 2 1) = .error (.internal "AttributeError") ∧
    (setOp .msb0 [false, false, false].reverse true (.range 0 2 1)).map List.reverse = .ok [false, true, true] := by
  decide

theorem all_lsb0_mirror (l : Bits) (b : Bool) (P : PosSpec) : allOp .lsb0 l b P = allOp .msb0 l.reverse b P := by
  unfold allOp
  cases posList P with
  | error e => rfl
  | ok o =>
    cases o with
    | none => simp [List.all_reverse]
    | some ps => exact allAt_mirror b ps l

theorem any_lsb0_mirror (l : Bits) (b : Bool) (P : PosSpec) : anyOp .lsb0 l b P = anyOp .msb0 l.reverse b P := by
  unfold anyOp
  cases posList P with
  | error e => rfl
  | ok o =>
    cases o with
    | none => simp [List.any_reverse]
    | some ps => exact anyAt_mirror b ps l

/-! ### non-vacuity: the hypotheses are satisfiable by non-trivial values, and the claims are not about the empty list -/
example : negStep ⟨some (-5), some 7, some 2⟩ = false ∧ invertedAssign ⟨some 1, some 4, none⟩ 6 = false := by decide
example : getSliceOp .lsb0 [true, true, false, true, false, false] ⟨some (-5), some 7, some 2⟩ = .ok [true, false, false] := by decide
example : setSliceBits .lsb0 [true, true, false, true, false, false] ⟨some 1, some 4, none⟩ [true] = .ok [true, true, true, false] := by decide
example : delSliceOp .lsb0 [true, true, false, true, false, false] ⟨some 0, none, some 3⟩ = .ok [true, true, true, false] := by decide
example : getItem .lsb0 [true, false, false] 2 = .ok true ∧ getItem .lsb0 [true, false, false] (-3) = .ok false := by decide
example : setRange (.many [0, -1]) 3 = false ∧ setOp .lsb0 [false, false, false] true (.many [0, -1]) = .ok [true, false, true] := by decide
example : setRange (.range (-1) (-4) (-2)) 3 = false ∧ setOp .lsb0 [false, false, false] true (.range (-1) (-4) (-2)) = .ok [true, false, true] := by decide

end BM.C12
