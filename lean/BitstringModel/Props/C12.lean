/-
  Props/C12.lean — LSB0 mode is a pure index mirror of MSB0 mode: slices and single positions.

  Every theorem compares an operation at `Mode.lsb0` with THE SAME operation at `Mode.msb0` applied to the
  reversed operands, reversed back — the property's own wording.  All statements are at full strength: every
  start / stop / step (negative steps, empty and inverted ranges, step 0), every length, every value.
-/
import BitstringModel.Model.C12
import BitstringModel.Proofs.C12

namespace BM.C12
open BM

/-! ### the index arithmetic of `offset_slice_indices_lsb0` -/

/-- For every non-zero step (positive, negative, None), every start/stop (None, negative, out of range) and every
    length, the slice computed by `offset_slice_indices_lsb0` visits exactly the mirror images `n - 1 - i` of the
    positions the original slice visits, in the opposite order.  (This is the whole content of the mirror law for
    slices; a zero step raises ValueError, as it does in msb0 mode.) -/
theorem offsetSliceLsb0_visits_mirror (k : Key) (n : Nat) (h0 : k.step ≠ some 0) :
    ∃ k', offsetSliceLsb0 k n = .ok k' ∧ k'.step = k.step ∧
      Py.rangeList (Py.sliceIndices k'.start k'.stop (k.step.getD 1) n).1
                   (Py.sliceIndices k'.start k'.stop (k.step.getD 1) n).2.1 (k.step.getD 1)
        = ((Py.rangeList (Py.sliceIndices k.start k.stop (k.step.getD 1) n).1
                         (Py.sliceIndices k.start k.stop (k.step.getD 1) n).2.1 (k.step.getD 1)).reverse.map
            fun i => (n : Int) - 1 - i) := by
  have hst : stepOf k ≠ 0 := by
    unfold stepOf
    cases h : k.step with
    | none => simp
    | some c => rw [h] at h0; simpa using fun hc => h0 (by rw [hc])
  exact ⟨_, offsetSliceLsb0_eq k n hst, mirKeyOf_step _ _ _ _ _, mirror_rangeList k n hst⟩

/-- An empty slice is mapped to the empty slice AT the mirror image of its start, so that a resizing assignment
    inserts at the right place. -/
theorem offsetSliceLsb0_empty_insertion_point (start stop : Option Int) (n : Nat)
    (hempty : (Py.sliceIndices start stop 1 n).2.1 ≤ (Py.sliceIndices start stop 1 n).1) :
    offsetSliceLsb0 ⟨start, stop, none⟩ n
      = .ok ⟨some ((n : Int) - (Py.sliceIndices start stop 1 n).1), some ((n : Int) - (Py.sliceIndices start stop 1 n).1), none⟩ := by
  have hc : Py.rangeLen (Py.sliceIndices start stop 1 n).1 (Py.sliceIndices start stop 1 n).2.1 1 = 0 := by
    rw [C01.rangeLen_one]; omega
  simp [offsetSliceLsb0, hc]

/-! ### `s[a:b:c]`, `del s[a:b:c]`, `s[a:b:c] = v` -/

/-- `s[a:b:c]` under lsb0 is the reversed msb0 slice of the reversed bits: for every start, stop, step (negative
    steps and the raising step 0 included) and every length. -/
theorem getslice_lsb0_mirror (l : Bits) (k : Key) :
    getSliceOp .lsb0 l k = (getSliceOp .msb0 l.reverse k).map List.reverse := by
  exact getslice_mirror l k

/-- A zero step raises ValueError in both modes, for all three slice operations. -/
theorem slice_step_zero_raises (m : Mode) (l v : Bits) (a b : Option Int) :
    getSliceOp m l ⟨a, b, some 0⟩ = .error .value ∧ delSliceOp m l ⟨a, b, some 0⟩ = .error .value ∧
    setSliceBits m l ⟨a, b, some 0⟩ v = .error .value := by
  exact step_zero_raises m l v a b

/-- The two-argument `BitStore.getslice(start, stop)` used by every internal `_slice`: mirror for all arguments. -/
theorem getslice2_lsb0_mirror (l : Bits) (a b : Option Int) :
    getslice .lsb0 l a b = (getslice .msb0 l.reverse a b).map List.reverse := by
  exact getslice2_mirror l a b

/-- `del s[a:b:c]` for every start, stop, step and length. -/
theorem delslice_lsb0_mirror (l : Bits) (k : Key) :
    delSliceOp .lsb0 l k = (delSliceOp .msb0 l.reverse k).map List.reverse := by
  exact delslice_mirror l k

/-- Slice assignment for every start, stop, step, length and value: resizing for a step-less / step-1 slice
    (an empty range inserts at the mirror image of its start, also when stop < start), same-length for an
    extended one (ValueError otherwise, in both modes). -/
theorem setslice_lsb0_mirror (l : Bits) (k : Key) (v : Bits) :
    setSliceBits .lsb0 l k v = (setSliceBits .msb0 l.reverse k v.reverse).map List.reverse := by
  exact setslice_mirror l k v

/-- `s[a:b:c] = 0 | 1` at the BitStore level (every visited position receives the bit). -/
theorem setslicebit_lsb0_mirror (l : Bits) (k : Key) (b : Bool) :
    setitemSliceBit .lsb0 l k b = (setitemSliceBit .msb0 l.reverse k b).map List.reverse := by
  exact setbit_mirror l k b

/-! ### single positions: `s[i]`, `s[i] = b`, `del s[i]`, `invert`, `set`, `all`, `any` -/

/-- `s[i]` under lsb0 is `reversed(s)[i]` for every integer `i` — including which `i` raise. -/
theorem getitem_lsb0_mirror (l : Bits) (i : Int) : getItem .lsb0 l i = getItem .msb0 l.reverse i := by
  exact getindex_mirror l i

/-- in-range form: bit `i` counted from the right. -/
theorem getitem_lsb0_nonneg (l : Bits) (i : Nat) (h : i < l.length) :
    getItem .lsb0 l (i : Int) = .ok (l[l.length - 1 - i]'(by omega)) := by
  have h1 : -(i : Int) - 1 < 0 := by omega
  have h2 : ¬ (-(i : Int) - 1 + (l.length : Int) < 0) := by omega
  have h3 : (-(i : Int) - 1 + (l.length : Int)).toNat = l.length - 1 - i := by omega
  have h4 : l.length - 1 - i < l.length := by omega
  simp only [getItem, getindex, pyGetIdx, Py.getIndex, h1, if_true, h2, if_false, h3, List.getElem?_eq_getElem h4]

theorem getitem_lsb0_err_iff (l : Bits) (i : Int) :
    getItem .lsb0 l i = .error .index ↔ (i < -(l.length : Int) ∨ (l.length : Int) ≤ i) := by
  rw [getitem_lsb0_mirror]
  have := C01.getIndex_err_iff l.reverse i
  simpa [getItem, getindex, pyGetIdx] using this

theorem setitem_lsb0_mirror (l : Bits) (i v : Int) :
    setItemInt .lsb0 l i v = (setItemInt .msb0 l.reverse i v).map List.reverse := by
  unfold setItemInt
  split
  · exact setitemIdx_mirror l i false
  · split
    · exact setitemIdx_mirror l i true
    · rfl

/-- `s[i] = <bitstring>` (replaces one bit by any number of bits). -/
theorem setitembits_lsb0_mirror (l : Bits) (i : Int) (v : Bits) :
    setItemBits .lsb0 l i v = (setItemBits .msb0 l.reverse i v.reverse).map List.reverse := by
  unfold setItemBits
  simp only [List.length_reverse]
  generalize (if i < 0 then i + (l.length : Int) else i) = q
  by_cases hq : q < 0 ∨ (l.length : Int) ≤ q
  · simp only [hq, if_true]; rfl
  · simp only [hq, if_false]
    exact setslice_mirror l _ v

theorem delitem_lsb0_mirror (l : Bits) (i : Int) :
    delItem .lsb0 l i = (delItem .msb0 l.reverse i).map List.reverse := by
  exact delitemIdx_mirror l i

/-- `invert(pos)` for no position, one position, a list or a range of positions (partial application on an
    out-of-range position raises in both modes). -/
theorem invert_lsb0_mirror (l : Bits) (P : PosSpec) :
    invertOp .lsb0 l P = (invertOp .msb0 l.reverse P).map List.reverse := by
  cases P with
  | all => simp [invertOp, Except.map, List.map_reverse]
  | one i => exact invertMany_mirror [i] l
  | many ps => exact invertMany_mirror ps l
  | range a b c =>
    simp only [invertOp]
    split
    · rfl
    · exact invertMany_mirror _ l

/-- `set(value, pos)` for all bits, one position, a list of positions and a range (written as one slice when its
    first and last element are valid non-negative indices, element by element otherwise). -/
theorem set_lsb0_mirror (l : Bits) (b : Bool) (P : PosSpec) :
    setOp .lsb0 l b P = (setOp .msb0 l.reverse b P).map List.reverse := by
  cases P with
  | all =>
    simp only [setOp, List.length_reverse]
    split
    · simp [Except.map]
    · simp [Except.map]
  | one i => exact setMany_mirror b [i] l
  | many ps => exact setMany_mirror b ps l
  | range a b' c => exact setOp_range_mirror l b a b' c

/-! ### `x[a:b:c] = <int>` -/

/-- With a step of None, 1 or -1 the integer is first turned into a bit string as wide as the slice (the same one
    in both modes) and then assigned like any bitstring … -/
theorem setsliceint_eq_setslice (m : Mode) (l : Bits) (k : Key) (v : Int)
    (hstep : k.step = none ∨ k.step = some 1 ∨ k.step = some (-1)) :
    setSliceInt m l k v = match intOperand l.length k v with
      | .error e => .error e
      | .ok bits => setSliceBits m l k bits := by
  have h : ¬ (k.step ≠ none ∧ k.step ≠ some (-1) ∧ k.step ≠ some 1) := by
    rcases hstep with h | h | h <;> simp [h]
  unfold setSliceInt intOperand setSliceBits
  simp only [h, if_false]
  split
  · rfl
  · split
    · split <;> rfl
    · split <;> rfl

/-- … so the mirror law holds with that bit string as the operand: the value read back from the slice is the
    same integer in both modes. -/
theorem setsliceint_lsb0_mirror (l : Bits) (k : Key) (v : Int)
    (hstep : k.step = none ∨ k.step = some 1 ∨ k.step = some (-1)) :
    setSliceInt .lsb0 l k v = match intOperand l.length k v with
      | .error e => .error e
      | .ok bits => (setSliceBits .msb0 l.reverse k bits.reverse).map List.reverse := by
  rw [setsliceint_eq_setslice .lsb0 l k v hstep]
  cases intOperand l.length k v with
  | error e => rfl
  | ok bits => exact setslice_mirror l k bits

/-- With any other step only 0 and 1 are accepted and written to every selected position (`set(value, range)`):
    a plain mirror. -/
theorem setsliceint_extended_lsb0_mirror (l : Bits) (k : Key) (v : Int)
    (hstep : k.step ≠ none ∧ k.step ≠ some (-1) ∧ k.step ≠ some 1) :
    setSliceInt .lsb0 l k v = (setSliceInt .msb0 l.reverse k v).map List.reverse := by
  unfold setSliceInt
  simp only [hstep, ne_eq, not_false_eq_true, and_self, if_true, List.length_reverse]
  split
  · cases hk : k.step with
    | none => exact absurd hk hstep.1
    | some c =>
      by_cases hc : c = 0
      · subst hc; rfl
      · have : (some c : Option Int) ≠ some 0 := by simpa using hc
        simp only []
        exact set_lsb0_mirror l _ _
  · rfl

theorem all_lsb0_mirror (l : Bits) (b : Bool) (P : PosSpec) : allOp .lsb0 l b P = allOp .msb0 l.reverse b P := by
  unfold allOp
  cases posList P with
  | error e => rfl
  | ok o =>
    cases o with
    | none => simp [List.all_reverse]
    | some ps => exact allAt_mirror b ps l

theorem any_lsb0_mirror (l : Bits) (b : Bool) (P : PosSpec) : anyOp .lsb0 l b P = anyOp .msb0 l.reverse b P := by
  unfold anyOp
  cases posList P with
  | error e => rfl
  | ok o =>
    cases o with
    | none => simp [List.any_reverse]
    | some ps => exact anyAt_mirror b ps l

/-! ### non-vacuity: the claims are about non-trivial values (negative steps, inverted ranges, ranges written as a slice) -/
example : getSliceOp .lsb0 [true, true, false, true, false, false] ⟨some (-5), some 7, some 2⟩ = .ok [true, false, false] := by decide
example : getSliceOp .lsb0 [true, false, false] ⟨none, some 0, some (-1)⟩ = .ok [false, true] := by decide
example : setSliceBits .lsb0 [true, true, false, true, false, false] ⟨some 1, some 4, none⟩ [true] = .ok [true, true, true, false] := by decide
example : setSliceBits .lsb0 [false, false, false] ⟨some 2, some 1, none⟩ [true] = .ok [false, true, false, false] := by decide
example : delSliceOp .lsb0 [true, true, false, true, false, false] ⟨some 0, none, some 3⟩ = .ok [true, true, true, false] := by decide
example : delSliceOp .lsb0 [true, false, false] ⟨none, some 0, some (-1)⟩ = .ok [false] := by decide
example : getItem .lsb0 [true, false, false] 2 = .ok true ∧ getItem .lsb0 [true, false, false] (-3) = .ok false := by decide
example : setOp .lsb0 [false, false, false] true (.many [0, -1]) = .ok [true, false, true] := by decide
example : setOp .lsb0 [false, false, false] true (.range 0 2 1) = .ok [false, true, true] := by decide
example : setOp .lsb0 [false, false, false] true (.range (-1) (-4) (-2)) = .ok [true, false, true] := by decide
example : intOperand 6 ⟨some 0, some 4, none⟩ 5 = .ok [false, true, false, true] ∧
    setSliceInt .lsb0 [true, true, false, true, false, false] ⟨some 0, some 4, none⟩ 5 = .ok [true, true, false, true, false, true] := by decide

end BM.C12
