/-
  Props/C03.lean — in-place mutations, part 1: the Python list primitives behind item / slice assignment and
  deletion, range validation, `insert`, `overwrite`, `s[i] = …`, `s[a:b:c] = …`.

  Every theorem is ∀-quantified over contents, operands and arguments (no size bound).  `Alg.*` is the code path
  of bitstring/bitarray_.py + bits.py, `Spec.*` the one-line list expression the property talks about.
  Theorems named `…_partial` carry the negation of a known-deviation region of the pinned tree as hypothesis;
  the `…_witness` theorem next to each shows ALG ≠ SPEC inside the region (known_findings.d/C03.json).
  Other parts: Props/C03_Range.lean, C03_Replace.lean, C03_Byteswap.lean, C03_Run.lean.
-/
import BitstringModel.Model.C03
import BitstringModel.Proofs.C03
import BitstringModel.Proofs.C03Core

namespace BM.C03
open BM

/-! ### index / range validation: "an invalid position or range raises" -/

/-- An index is accepted iff `-n ≤ i < n`; negative indices count from the end. -/
theorem normIdx_some_iff (n : Nat) (i : Int) (j : Nat) :
    PyL.normIdx n i = some j ↔
      ((0 ≤ i ∧ i < (n : Int) ∧ (j : Int) = i) ∨ (i < 0 ∧ -(n : Int) ≤ i ∧ (j : Int) = i + (n : Int))) := by
  sorry

theorem normIdx_none_iff (n : Nat) (i : Int) :
    PyL.normIdx n i = none ↔ (i < -(n : Int) ∨ (n : Int) ≤ i) := by
  sorry

/-- `_validate_slice` accepts exactly `0 ≤ start ≤ end ≤ len` (after defaulting and counting negatives from the end)
    and returns those two numbers. -/
theorem validateSlice_ok_iff (n : Nat) (s e : Option Int) (a z : Nat) :
    validateSlice n s e = .ok (a, z) ↔
      (boundOr n 0 s = (a : Int) ∧ boundOr n (n : Int) e = (z : Int) ∧ a ≤ z ∧ z ≤ n) := by
  sorry

theorem validateSlice_err_iff (n : Nat) (s e : Option Int) :
    validateSlice n s e = .error .value ↔
      ¬ (0 ≤ boundOr n 0 s ∧ boundOr n 0 s ≤ boundOr n (n : Int) e ∧ boundOr n (n : Int) e ≤ (n : Int)) := by
  sorry

/-! ### slice assignment and deletion (what `bitarray` does) have the Python list meaning -/

theorem setSlice_step_zero {α} (l v : List α) (a b : Option Int) :
    PyL.setSlice l a b (some 0) v = .error .value := by
  sorry

theorem delSlice_step_zero {α} (l : List α) (a b : Option Int) :
    PyL.delSlice l a b (some 0) = .error .value := by
  sorry

/-- The positions a slice selects are inside the sequence … -/
theorem slicePositions_lt (a b : Option Int) (st : Int) (hst : st ≠ 0) (n : Nat) :
    ∀ i ∈ PyL.slicePositions a b st n, i < n := by
  sorry

/-- … and pairwise distinct. -/
theorem slicePositions_nodup (a b : Option Int) (st : Int) (hst : st ≠ 0) (n : Nat) :
    (PyL.slicePositions a b st n).Nodup := by
  sorry

/-- `l[a:b] = v` with in-range non-negative bounds is the splice `l[:a] + v + l[b:]`. -/
theorem setSlice_contiguous {α} (l v : List α) (a b : Nat) (hab : a ≤ b) (hb : b ≤ l.length) :
    PyL.setSlice l (some (a : Int)) (some (b : Int)) none v = .ok (l.take a ++ v ++ l.drop b) := by
  sorry

/-- A step-1 assignment replaces as many elements as the slice selects by the whole value (length may change). -/
theorem setSlice_step1_length {α} (l v r : List α) (a b : Option Int) (h : PyL.setSlice l a b none v = .ok r) :
    r.length + (PyL.slicePositions a b 1 l.length).length = l.length + v.length := by
  sorry

/-- An extended-slice assignment succeeds iff the value has exactly as many elements as the slice selects
    (otherwise ValueError, nothing assigned) … -/
theorem setSlice_ext_ok_iff {α} (l v : List α) (a b : Option Int) (st : Int) (h0 : st ≠ 0) (h1 : st ≠ 1) :
    (∃ r, PyL.setSlice l a b (some st) v = .ok r) ↔ v.length = (PyL.slicePositions a b st l.length).length := by
  sorry

theorem setSlice_ext_err {α} (l v : List α) (a b : Option Int) (st : Int) (h0 : st ≠ 0) (h1 : st ≠ 1)
    (h : v.length ≠ (PyL.slicePositions a b st l.length).length) :
    PyL.setSlice l a b (some st) v = .error .value := by
  sorry

/-- … keeps the length … -/
theorem setSlice_ext_length {α} (l v r : List α) (a b : Option Int) (st : Int) (h0 : st ≠ 0) (h1 : st ≠ 1)
    (h : PyL.setSlice l a b (some st) v = .ok r) : r.length = l.length := by
  sorry

/-- … puts `v[k]` at the k-th selected position … -/
theorem setSlice_ext_getElem {α} (l v r : List α) (a b : Option Int) (st : Int) (h0 : st ≠ 0) (h1 : st ≠ 1)
    (h : PyL.setSlice l a b (some st) v = .ok r) (k : Nat) (hk : k < (PyL.slicePositions a b st l.length).length) :
    r[(PyL.slicePositions a b st l.length)[k]]? = v[k]? := by
  sorry

/-- … and leaves every other position alone. -/
theorem setSlice_ext_frame {α} (l v r : List α) (a b : Option Int) (st : Int) (h0 : st ≠ 0) (h1 : st ≠ 1)
    (h : PyL.setSlice l a b (some st) v = .ok r) (i : Nat) (hi : i ∉ PyL.slicePositions a b st l.length) :
    r[i]? = l[i]? := by
  sorry

/-- `del l[a:b]` with in-range non-negative bounds is `l[:a] + l[b:]`. -/
theorem delSlice_contiguous {α} (l : List α) (a b : Nat) (hab : a ≤ b) (hb : b ≤ l.length) :
    PyL.delSlice l (some (a : Int)) (some (b : Int)) none = .ok (l.take a ++ l.drop b) := by
  sorry

/-- Deleting a slice removes exactly as many elements as the slice selects … -/
theorem delSlice_length {α} (l r : List α) (a b c : Option Int) (h : PyL.delSlice l a b c = .ok r) :
    r.length + (PyL.slicePositions a b (c.getD 1) l.length).length = l.length := by
  sorry

/-- … and what remains is the other elements in their order. -/
theorem delSlice_sublist {α} (l r : List α) (a b c : Option Int) (h : PyL.delSlice l a b c = .ok r) :
    r.Sublist l := by
  sorry

/-- `del s[:]` empties (this is `clear`). -/
theorem delSlice_all {α} (l : List α) : PyL.delSlice l none none none = .ok [] := by
  sorry

theorem setIndex_err_iff {α} (l : List α) (i : Int) (v : α) :
    PyL.setIndex l i v = .error .index ↔ (i < -(l.length : Int) ∨ (l.length : Int) ≤ i) := by
  sorry

theorem delIndex_err_iff {α} (l : List α) (i : Int) :
    PyL.delIndex l i = .error .index ↔ (i < -(l.length : Int) ∨ (l.length : Int) ≤ i) := by
  sorry

theorem delIndex_length {α} (l r : List α) (i : Int) (h : PyL.delIndex l i = .ok r) :
    r.length + 1 = l.length := by
  sorry

/-! ### insert -/

/-- `insert`: the code path (`_insert` = `self._bitstore[pos:pos] = bs`, self-operand copied first) computes
    `l[:p] + bs + l[p:]` and rejects exactly the invalid positions — except that an empty `bs` returns before the
    position is looked at (known deviation `emptyOperandBadPos`). -/
theorem insert_eq_spec_partial (l : Bits) (b : Operand) (pos : Int) (h : emptyOperandBadPos l b pos = false) :
    Alg.insert l b pos = Spec.insert l (b.val l) pos := by
  sorry

theorem insert_empty_bad_pos_witness :
    Alg.insert [true, false] (.lit []) 5 = .ok [true, false] ∧ Spec.insert [true, false] [] 5 = .error .value := by
  decide

theorem insert_ok_iff (l b : Bits) (pos : Int) :
    (∃ r, Spec.insert l b pos = .ok r) ↔ (-(l.length : Int) ≤ pos ∧ pos ≤ (l.length : Int)) := by
  sorry

theorem insert_err (l b : Bits) (pos : Int) (h : pos < -(l.length : Int) ∨ (l.length : Int) < pos) :
    Spec.insert l b pos = .error .value := by
  sorry

/-- Frame: the bits before the position stay, the value sits at the position, the bits from the position on follow. -/
theorem insert_shape (l b r : Bits) (pos : Int) (h : Spec.insert l b pos = .ok r) :
    ∃ p, Spec.insPos l.length pos = some p ∧ p ≤ l.length ∧
      r.take p = l.take p ∧ slc r p (p + b.length) = b ∧ r.drop (p + b.length) = l.drop p := by
  sorry

theorem insert_length (l b r : Bits) (pos : Int) (h : Spec.insert l b pos = .ok r) :
    r.length = l.length + b.length := by
  sorry

theorem insert_at_end (l b : Bits) : Spec.insert l b (l.length : Int) = .ok (Spec.append l b) := by
  sorry

theorem insert_at_start (l b : Bits) : Spec.insert l b 0 = .ok (Spec.prepend l b) := by
  sorry

/-! ### overwrite -/

/-- `overwrite`: `_overwrite` = `self._bitstore[pos:pos+len(bs)] = bs` computes `l[:p] + bs + l[p+|bs|:]` (extending
    when it runs off the end).  Known deviations: the empty operand at an invalid position, and `a.overwrite(a, p)`
    with `p ≠ 0` (AssertionError in `_overwrite`). -/
theorem overwrite_eq_spec_partial (l : Bits) (b : Operand) (pos : Int)
    (h1 : emptyOperandBadPos l b pos = false) (h2 : overwriteSelfNonzero l b pos = false) :
    Alg.overwrite l b pos = Spec.overwrite l (b.val l) pos := by
  sorry

theorem overwrite_self_witness :
    (∃ err, Alg.overwrite [true, true, false, true, false, false] .self 2 = .error err) ∧
    Spec.overwrite [true, true, false, true, false, false] [true, true, false, true, false, false] 2 =
      .ok [true, true, true, true, false, true, false, false] := by
  exact ⟨⟨_, rfl⟩, by decide⟩

theorem overwrite_shape (l b r : Bits) (pos : Int) (h : Spec.overwrite l b pos = .ok r) :
    ∃ p, Spec.insPos l.length pos = some p ∧ p ≤ l.length ∧
      r.take p = l.take p ∧ slc r p (p + b.length) = b ∧ r.drop (p + b.length) = l.drop (p + b.length) := by
  sorry

/-- Length: unchanged when the value fits, extended to `p + |bs|` otherwise. -/
theorem overwrite_length (l b r : Bits) (pos : Int) (h : Spec.overwrite l b pos = .ok r) :
    ∃ p, Spec.insPos l.length pos = some p ∧ r.length = max l.length (p + b.length) := by
  sorry

/-- Frame: a bit outside `[p, p+|bs|)` is not altered. -/
theorem overwrite_frame (l b r : Bits) (pos : Int) (p : Nat) (h : Spec.overwrite l b pos = .ok r)
    (hp : Spec.insPos l.length pos = some p) (i : Nat) (hi : i < p ∨ p + b.length ≤ i) : r[i]? = l[i]? := by
  sorry

/-! ### item assignment and deletion -/

theorem setItemInt_eq_spec (l : Bits) (i v : Int) : Alg.setItemInt l i v = Spec.setItemInt l i v := by
  sorry

/-- `s[i] = bitstring`: the explicit bounds check + `self._bitstore[pk:pk+1] = value` is "replace bit i by the value". -/
theorem setItemBits_eq_spec (l : Bits) (i : Int) (b : Operand) :
    Alg.setItemBits l i b = Spec.setItemBits l i (b.val l) := by
  sorry

theorem setItemInt_frame (l r : Bits) (i v : Int) (h : Spec.setItemInt l i v = .ok r) :
    r.length = l.length ∧ ∀ j : Nat, PyL.normIdx l.length i ≠ some j → r[j]? = l[j]? := by
  sorry

theorem setItemInt_value (l r : Bits) (i v : Int) (j : Nat) (h : Spec.setItemInt l i v = .ok r)
    (hj : PyL.normIdx l.length i = some j) : r[j]? = some (decide (v ≠ 0)) := by
  sorry

theorem setItemInt_err_iff (l : Bits) (i v : Int) :
    (∃ e, Spec.setItemInt l i v = .error e) ↔
      ((v ≠ 0 ∧ v ≠ 1 ∧ v ≠ -1) ∨ i < -(l.length : Int) ∨ (l.length : Int) ≤ i) := by
  sorry

theorem setItemBits_shape (l b r : Bits) (i : Int) (h : Spec.setItemBits l i b = .ok r) :
    ∃ j, PyL.normIdx l.length i = some j ∧ r.take j = l.take j ∧ slc r j (j + b.length) = b ∧
      r.drop (j + b.length) = l.drop (j + 1) ∧ r.length + 1 = l.length + b.length := by
  sorry

theorem delItem_shape (l r : Bits) (i : Int) (h : Spec.delItem l i = .ok r) :
    ∃ j, PyL.normIdx l.length i = some j ∧ r = l.take j ++ l.drop (j + 1) := by
  sorry

/-! ### integer values in slice assignment -/

/-- `cls(uint=v, length=k)` / `cls(int=v, length=k)` accept exactly the values the specification's `intBits` accepts. -/
theorem intValue_eq_intBits (k : Nat) (v : Int) : Alg.intValue k v = Spec.intBits k v := by
  sorry

theorem intBits_ok_iff (k : Nat) (v : Int) :
    (∃ b, Spec.intBits k v = .ok b) ↔
      (0 < k ∧ ((0 ≤ v ∧ v < (2 : Int) ^ k) ∨ (v < 0 ∧ -((2 : Int) ^ (k - 1)) ≤ v))) := by
  sorry

/-- A non-negative integer is written as the `k`-bit unsigned number … -/
theorem intBits_uint (k : Nat) (v : Int) (b : Bits) (hv : 0 ≤ v) (h : Spec.intBits k v = .ok b) :
    b.length = k ∧ (bitsToNat b : Int) = v := by
  sorry

/-- … a negative one as the `k`-bit two's-complement number. -/
theorem intBits_int (k : Nat) (v : Int) (b : Bits) (hv : v < 0) (h : Spec.intBits k v = .ok b) :
    b.length = k ∧ bitsToInt b = v := by
  sorry

/-- `s[a:b:c] = int`: `_setitem_slice` agrees with the specification except where the pinned tree takes the width of
    a step −1 slice from the step +1 slice (`setSliceIntNegStep`) and where a `|step| ≥ 2` assignment of 0/1 goes
    through `set(v, range(…))`'s slice fast path with a stop of −1 (`setSliceIntStepRegion`). -/
theorem setSliceInt_eq_spec_partial (l : Bits) (a b c : Option Int) (v : Int)
    (h1 : setSliceIntNegStep l a b c = false) (h2 : setSliceIntStepRegion l a b c = false) :
    Alg.setSliceInt l a b c v = Spec.setSliceInt l a b c v := by
  sorry

theorem setSliceInt_negstep_witness :
    Alg.setSliceInt (List.replicate 6 false) (some 4) (some 0) (some (-1)) 1 = .error .value ∧
    Spec.setSliceInt (List.replicate 6 false) (some 4) (some 0) (some (-1)) 1 =
      .ok [false, true, false, false, false, false] := by
  decide

theorem setSliceInt_step_witness :
    Alg.setSliceInt (List.replicate 6 false) none none (some (-2)) 1 = .ok (List.replicate 6 false) ∧
    Spec.setSliceInt (List.replicate 6 false) none none (some (-2)) 1 =
      .ok [false, true, false, true, false, true] := by
  decide

/-- Length of `s[a:b:c] = int`: never changes (the value is made exactly as wide as the slice). -/
theorem setSliceInt_length (l r : Bits) (a b c : Option Int) (v : Int) (h : Spec.setSliceInt l a b c v = .ok r) :
    r.length = l.length := by
  sorry

/-- Frame of `s[a:b:c] = int`: a position the slice does not select keeps its bit. -/
theorem setSliceInt_frame (l r : Bits) (a b c : Option Int) (v : Int) (h : Spec.setSliceInt l a b c v = .ok r)
    (i : Nat) (hi : i ∉ PyL.slicePositions a b (c.getD 1) l.length) : r[i]? = l[i]? := by
  sorry

/-! ### non-vacuity -/
example : emptyOperandBadPos [true, false] (.lit [true]) 7 = false := by decide
example : Alg.insert [true, false, true] .self (-1) = .ok [true, false, true, false, true, true] := by decide
example : overwriteSelfNonzero [true, false] (.lit [true, true, true]) 1 = false ∧
    Alg.overwrite [true, false] (.lit [true, true, true]) 1 = .ok [true, true, true, true] := by decide
example : PyL.setSlice [1, 2, 3, 4, 5, 6] none none (some (-2)) [7, 8, 9] = .ok [1, 9, 3, 8, 5, 7] := by decide
example : PyL.delSlice [1, 2, 3, 4, 5, 6] (some (-2)) none (some (-3)) = .ok [1, 3, 4, 6] := by decide
example : setSliceIntNegStep [true, false, true] none none (some (-1)) = false ∧
    Alg.setSliceInt [true, false, true] none none (some (-1)) 3 = .ok [true, true, false] := by decide
example : Spec.intBits 4 (-8) = .ok [true, false, false, false] := by decide

end BM.C03
