/-
  Props/C03.lean — in-place mutations, part 1: the Python list primitives behind item / slice assignment and
  deletion, range validation, `insert`, `overwrite`, `s[i] = …`, `s[a:b:c] = …`.

  Every theorem is ∀-quantified over contents, operands and arguments (no size bound).  `Alg.*` is the code path
  of bitstring/bitarray_.py + bits.py, `Spec.*` the one-line list expression the property talks about.
  (The deviations of the pinned tree that once made some of these partial were fixed in /repo; see
  known_findings.d/C03.json, status fixed.)
  Other parts: Props/C03_Range.lean, C03_Replace.lean, C03_Byteswap.lean, C03_Run.lean.
-/
import BitstringModel.Model.C03
import BitstringModel.Proofs.C03
import BitstringModel.Proofs.C03Core

namespace BM.C03
open BM
open Core

/-! ### index / range validation: "an invalid position or range raises" -/

/-- An index is accepted iff `-n ≤ i < n`; negative indices count from the end. -/
theorem normIdx_some_iff (n : Nat) (i : Int) (j : Nat) :
    PyL.normIdx n i = some j ↔
      ((0 ≤ i ∧ i < (n : Int) ∧ (j : Int) = i) ∨ (i < 0 ∧ -(n : Int) ≤ i ∧ (j : Int) = i + (n : Int))) :=
  normIdx_some_iff' n i j

theorem normIdx_none_iff (n : Nat) (i : Int) :
    PyL.normIdx n i = none ↔ (i < -(n : Int) ∨ (n : Int) ≤ i) :=
  normIdx_none_iff' n i

/-- `_validate_slice` accepts exactly `0 ≤ start ≤ end ≤ len` (after defaulting and counting negatives from the end)
    and returns those two numbers. -/
theorem validateSlice_ok_iff (n : Nat) (s e : Option Int) (a z : Nat) :
    validateSlice n s e = .ok (a, z) ↔
      (boundOr n 0 s = (a : Int) ∧ boundOr n (n : Int) e = (z : Int) ∧ a ≤ z ∧ z ≤ n) := by
  unfold validateSlice
  simp only
  split
  · simp only [Except.ok.injEq, Prod.mk.injEq]; omega
  · simp only [reduceCtorEq, false_iff]; omega

theorem validateSlice_err_iff (n : Nat) (s e : Option Int) :
    validateSlice n s e = .error .value ↔
      ¬ (0 ≤ boundOr n 0 s ∧ boundOr n 0 s ≤ boundOr n (n : Int) e ∧ boundOr n (n : Int) e ≤ (n : Int)) := by
  unfold validateSlice
  simp only
  split
  · rename_i h; simp [h]
  · rename_i h; simp [h]

/-! ### slice assignment and deletion (what `bitarray` does) have the Python list meaning -/

theorem setSlice_step_zero {α} (l v : List α) (a b : Option Int) :
    PyL.setSlice l a b (some 0) v = .error .value := by
  simp [PyL.setSlice]

theorem delSlice_step_zero {α} (l : List α) (a b : Option Int) :
    PyL.delSlice l a b (some 0) = .error .value := by
  simp [PyL.delSlice]

/-- The positions a slice selects are inside the sequence … -/
theorem slicePositions_lt (a b : Option Int) (st : Int) (hst : st ≠ 0) (n : Nat) :
    ∀ i ∈ PyL.slicePositions a b st n, i < n := 
  slicePositions_lt' a b st hst n

/-- … and pairwise distinct. -/
theorem slicePositions_nodup (a b : Option Int) (st : Int) (hst : st ≠ 0) (n : Nat) :
    (PyL.slicePositions a b st n).Nodup := 
  slicePositions_nodup' a b st hst n

/-- `l[a:b] = v` with in-range non-negative bounds is the splice `l[:a] + v + l[b:]`. -/
theorem setSlice_contiguous {α} (l v : List α) (a b : Nat) (hab : a ≤ b) (hb : b ≤ l.length) :
    PyL.setSlice l (some (a : Int)) (some (b : Int)) none v = .ok (l.take a ++ v ++ l.drop b) := by
  rw [setSlice_nonneg l v a b hab hb]; rfl

/-- A step-1 assignment replaces as many elements as the slice selects by the whole value (length may change). -/
theorem setSlice_step1_length {α} (l v r : List α) (a b : Option Int) (h : PyL.setSlice l a b none v = .ok r) :
    r.length + (PyL.slicePositions a b 1 l.length).length = l.length + v.length := by
  rw [slicePositions_length, C01.rangeLen_one]
  unfold PyL.setSlice at h
  simp only [Option.getD_none, if_true, show ¬ ((1 : Int) = 0) by omega, if_false] at h
  injection h with h
  subst h
  have h1 := C01.sliceIndices_pos a b 1 (by omega) l.length
  generalize (Py.sliceIndices a b 1 l.length).1 = s at *
  generalize (Py.sliceIndices a b 1 l.length).2.1 = e at *
  have h2 : s ≤ l.length ∨ True := Or.inr trivial
  simp only [splice, List.length_append, List.length_take, List.length_drop]
  omega

/-- An extended-slice assignment succeeds iff the value has exactly as many elements as the slice selects
    (otherwise ValueError, nothing assigned) … -/
theorem setSlice_ext_ok_iff {α} (l v : List α) (a b : Option Int) (st : Int) (h0 : st ≠ 0) (h1 : st ≠ 1) :
    (∃ r, PyL.setSlice l a b (some st) v = .ok r) ↔ v.length = (PyL.slicePositions a b st l.length).length := by
  rw [setSlice_ext_eq l v a b st h0 h1]
  split
  · rename_i h
    constructor
    · rintro ⟨r, hr⟩; cases hr
    · intro h'; exact absurd h'.symm h
  · rename_i h
    constructor
    · intro _; exact (not_not.mp h).symm
    · intro _; exact ⟨_, rfl⟩

theorem setSlice_ext_err {α} (l v : List α) (a b : Option Int) (st : Int) (h0 : st ≠ 0) (h1 : st ≠ 1)
    (h : v.length ≠ (PyL.slicePositions a b st l.length).length) :
    PyL.setSlice l a b (some st) v = .error .value := by
  rw [setSlice_ext_eq l v a b st h0 h1, if_pos (Ne.symm h)]

/-- … keeps the length … -/
theorem setSlice_ext_length {α} (l v r : List α) (a b : Option Int) (st : Int) (h0 : st ≠ 0) (h1 : st ≠ 1)
    (h : PyL.setSlice l a b (some st) v = .ok r) : r.length = l.length := by
  rw [(setSlice_ext_ok h0 h1 h).2, assignAt_length]

/-- … puts `v[k]` at the k-th selected position … -/
theorem setSlice_ext_getElem {α} (l v r : List α) (a b : Option Int) (st : Int) (h0 : st ≠ 0) (h1 : st ≠ 1)
    (h : PyL.setSlice l a b (some st) v = .ok r) (k : Nat) (hk : k < (PyL.slicePositions a b st l.length).length) :
    r[(PyL.slicePositions a b st l.length)[k]]? = v[k]? := by
  obtain ⟨hl, rfl⟩ := setSlice_ext_ok h0 h1 h
  exact assignAt_getElem l _ v (slicePositions_nodup' a b st h0 l.length) hl
    (slicePositions_lt' a b st h0 l.length) k hk

/-- … and leaves every other position alone. -/
theorem setSlice_ext_frame {α} (l v r : List α) (a b : Option Int) (st : Int) (h0 : st ≠ 0) (h1 : st ≠ 1)
    (h : PyL.setSlice l a b (some st) v = .ok r) (i : Nat) (hi : i ∉ PyL.slicePositions a b st l.length) :
    r[i]? = l[i]? := by
  obtain ⟨_, rfl⟩ := setSlice_ext_ok h0 h1 h
  exact assignAt_not_mem l _ v i hi

/-- `del l[a:b]` with in-range non-negative bounds is `l[:a] + l[b:]`. -/
theorem delSlice_contiguous {α} (l : List α) (a b : Nat) (hab : a ≤ b) (hb : b ≤ l.length) :
    PyL.delSlice l (some (a : Int)) (some (b : Int)) none = .ok (l.take a ++ l.drop b) :=
  delSlice_nonneg l a b hab hb

/-- Deleting a slice removes exactly as many elements as the slice selects … -/
theorem delSlice_length {α} (l r : List α) (a b c : Option Int) (h : PyL.delSlice l a b c = .ok r) :
    r.length + (PyL.slicePositions a b (c.getD 1) l.length).length = l.length := by
  obtain ⟨hc, rfl⟩ := delSlice_ok h
  exact removeAt_length l _ (slicePositions_nodup' a b _ hc l.length) (slicePositions_lt' a b _ hc l.length)

/-- … and what remains is the other elements in their order. -/
theorem delSlice_sublist {α} (l r : List α) (a b c : Option Int) (h : PyL.delSlice l a b c = .ok r) :
    r.Sublist l := by
  obtain ⟨_, rfl⟩ := delSlice_ok h
  exact removeAt_sublist l _

/-- `del s[:]` empties (this is `clear`). -/
theorem delSlice_all {α} (l : List α) : PyL.delSlice l none none none = .ok [] := by
  have h : (PyL.removeAt l (PyL.slicePositions none none 1 l.length)).length +
      (PyL.slicePositions none none 1 l.length).length = l.length := delSlice_length l _ none none none rfl
  have h2 : PyL.delSlice l none none none = .ok (PyL.removeAt l (PyL.slicePositions none none 1 l.length)) := rfl
  rw [h2]
  rw [slicePositions_length, C01.sliceIndices_none_none_pos 1 (by omega), C01.rangeLen_one] at h
  simp only at h
  congr 1
  apply List.eq_nil_of_length_eq_zero
  omega

theorem setIndex_err_iff {α} (l : List α) (i : Int) (v : α) :
    PyL.setIndex l i v = .error .index ↔ (i < -(l.length : Int) ∨ (l.length : Int) ≤ i) := by
  rw [← normIdx_none_iff]
  unfold PyL.setIndex
  split <;> simp_all

theorem delIndex_err_iff {α} (l : List α) (i : Int) :
    PyL.delIndex l i = .error .index ↔ (i < -(l.length : Int) ∨ (l.length : Int) ≤ i) := by
  rw [← normIdx_none_iff]
  unfold PyL.delIndex
  split <;> simp_all

theorem delIndex_length {α} (l r : List α) (i : Int) (h : PyL.delIndex l i = .ok r) :
    r.length + 1 = l.length := by
  unfold PyL.delIndex at h
  split at h
  · cases h
  · rename_i j hj
    injection h with h
    subst h
    have := (normIdx_some_iff l.length i j).mp hj
    rw [List.length_eraseIdx]
    split <;> omega

/-! ### insert -/

/-- `insert`: the code path (self-operand copied, position validated, empty-operand shortcut, `_insert` =
    `self._bitstore[pos:pos] = bs`) computes `l[:p] + bs + l[p:]` and rejects exactly the invalid positions —
    also for an empty `bs`. -/
theorem insert_eq_spec (l : Bits) (b : Operand) (pos : Int) :
    Alg.insert l b pos = Spec.insert l (b.val l) pos := by
  unfold Alg.insert Spec.insert
  simp only
  cases hp : Spec.insPos l.length pos with
  | none =>
    have := (insPos_none_iff _ _).mp hp
    simp only
    rw [if_pos (by split <;> omega)]
  | some p =>
    have := (insPos_some_iff _ _ _).mp hp
    simp only
    rw [if_neg (by split <;> omega)]
    by_cases hb : (b.val l).length = 0
    · rw [if_pos hb]
      have hnil : b.val l = [] := List.eq_nil_of_length_eq_zero hb
      simp [hnil]
    · rw [if_neg hb]
      have e : (if pos < 0 then pos + (l.length : Int) else pos).toNat = p := by split <;> omega
      rw [e]
      unfold Alg._insert
      exact setSlice_contiguous l _ p p (Nat.le_refl _) (by omega)

/-- An invalid position raises even when there is nothing to insert. -/
theorem insert_empty_bad_pos (l : Bits) (pos : Int) (h : pos < -(l.length : Int) ∨ (l.length : Int) < pos) :
    Alg.insert l (.lit []) pos = .error .value ∧ Alg.overwrite l (.lit []) pos = .error .value := by
  constructor
  · unfold Alg.insert
    simp only
    rw [if_pos (by split <;> omega)]
  · unfold Alg.overwrite
    simp only
    rw [if_pos (by split <;> omega)]

theorem insert_ok_iff (l b : Bits) (pos : Int) :
    (∃ r, Spec.insert l b pos = .ok r) ↔ (-(l.length : Int) ≤ pos ∧ pos ≤ (l.length : Int)) := by
  unfold Spec.insert
  cases hp : Spec.insPos l.length pos with
  | none =>
    have := (insPos_none_iff _ _).mp hp
    simp only [reduceCtorEq, exists_false, false_iff]
    omega
  | some p =>
    have := (insPos_some_iff _ _ _).mp hp
    simp only [Except.ok.injEq, exists_eq', true_iff]
    omega

theorem insert_err (l b : Bits) (pos : Int) (h : pos < -(l.length : Int) ∨ (l.length : Int) < pos) :
    Spec.insert l b pos = .error .value := by
  unfold Spec.insert
  rw [(insPos_none_iff _ _).mpr h]

/-- Frame: the bits before the position stay, the value sits at the position, the bits from the position on follow. -/
theorem insert_shape (l b r : Bits) (pos : Int) (h : Spec.insert l b pos = .ok r) :
    ∃ p, Spec.insPos l.length pos = some p ∧ p ≤ l.length ∧
      r.take p = l.take p ∧ slc r p (p + b.length) = b ∧ r.drop (p + b.length) = l.drop p := by
  obtain ⟨p, hp, hle, rfl⟩ := insert_ok h
  refine ⟨p, hp, hle, ?_, ?_, ?_⟩
  · rw [List.append_assoc, List.take_left' (by simp; omega)]
  · unfold slc
    rw [List.append_assoc, List.drop_left' (by simp; omega), Nat.add_sub_cancel_left, List.take_left' rfl]
  · rw [List.drop_left' (by simp; omega)]

theorem insert_length (l b r : Bits) (pos : Int) (h : Spec.insert l b pos = .ok r) :
    r.length = l.length + b.length := by
  obtain ⟨p, hp, hle, rfl⟩ := insert_ok h
  simp; omega

theorem insert_at_end (l b : Bits) : Spec.insert l b (l.length : Int) = .ok (Spec.append l b) := by
  unfold Spec.insert
  rw [(insPos_some_iff _ _ l.length).mpr (by omega)]
  simp [Spec.append]

theorem insert_at_start (l b : Bits) : Spec.insert l b 0 = .ok (Spec.prepend l b) := by
  unfold Spec.insert
  rw [(insPos_some_iff _ _ 0).mpr (by omega)]
  simp [Spec.prepend]

/-! ### overwrite -/

/-- `overwrite`: `_overwrite` = `self._bitstore[pos:pos+len(bs)] = bs` computes `l[:p] + bs + l[p+|bs|:]` (extending
    when it runs off the end); `a.overwrite(a, p)` works on a copy of `a`; invalid positions are rejected first. -/
theorem overwrite_eq_spec (l : Bits) (b : Operand) (pos : Int) :
    Alg.overwrite l b pos = Spec.overwrite l (b.val l) pos := by
  unfold Alg.overwrite Spec.overwrite
  simp only
  cases hp : Spec.insPos l.length pos with
  | none =>
    have := (insPos_none_iff _ _).mp hp
    simp only
    rw [if_pos (by split <;> omega)]
  | some p =>
    have hpp := (insPos_some_iff _ _ _).mp hp
    simp only
    rw [if_neg (by split <;> omega)]
    by_cases hb : (b.val l).length = 0
    · rw [if_pos hb]
      have hnil : b.val l = [] := List.eq_nil_of_length_eq_zero hb
      simp [hnil]
    · rw [if_neg hb]
      have e : (if pos < 0 then pos + (l.length : Int) else pos).toNat = p := by split <;> omega
      rw [e]
      unfold Alg._overwrite
      generalize b.val l = bs at hb ⊢
      simp only [Operand.isSelf, Operand.val, Bool.false_eq_true, if_false]
      have e2 : (p : Int) + (bs.length : Int) = ((p + bs.length : Nat) : Int) := by omega
      rw [e2, setSlice_clamped]
      congr 1
      have hle : p ≤ l.length := by omega
      unfold splice
      rw [Nat.min_eq_left hle]
      by_cases hc : p + bs.length ≤ l.length
      · rw [Nat.min_eq_left hc, Nat.max_eq_right (by omega)]
      · rw [Nat.min_eq_right (by omega), Nat.max_eq_right hle]
        rw [List.drop_eq_nil_of_le (Nat.le_refl _), List.drop_eq_nil_of_le (by omega)]

/-- Self as operand: `a.overwrite(a, p)` leaves `old[:p] + old`. -/
theorem overwrite_self (l : Bits) (pos : Int) (p : Nat) (hp : Spec.insPos l.length pos = some p) :
    Alg.overwrite l .self pos = .ok (l.take p ++ l) := by
  rw [overwrite_eq_spec l .self pos]
  unfold Spec.overwrite
  rw [hp]
  simp only [Operand.val]
  have hle := insPos_le hp
  rw [List.drop_eq_nil_of_le (by omega), List.append_nil]

theorem overwrite_shape (l b r : Bits) (pos : Int) (h : Spec.overwrite l b pos = .ok r) :
    ∃ p, Spec.insPos l.length pos = some p ∧ p ≤ l.length ∧
      r.take p = l.take p ∧ slc r p (p + b.length) = b ∧ r.drop (p + b.length) = l.drop (p + b.length) := by
  obtain ⟨p, hp, hle, rfl⟩ := overwrite_ok h
  refine ⟨p, hp, hle, ?_, ?_, ?_⟩
  · rw [List.append_assoc, List.take_left' (by simp; omega)]
  · unfold slc
    rw [List.append_assoc, List.drop_left' (by simp; omega), Nat.add_sub_cancel_left, List.take_left' rfl]
  · rw [List.drop_left' (by simp; omega)]

/-- Length: unchanged when the value fits, extended to `p + |bs|` otherwise. -/
theorem overwrite_length (l b r : Bits) (pos : Int) (h : Spec.overwrite l b pos = .ok r) :
    ∃ p, Spec.insPos l.length pos = some p ∧ r.length = max l.length (p + b.length) := by
  obtain ⟨p, hp, hle, rfl⟩ := overwrite_ok h
  refine ⟨p, hp, ?_⟩
  simp; omega

/-- Frame: a bit outside `[p, p+|bs|)` is not altered. -/
theorem overwrite_frame (l b r : Bits) (pos : Int) (p : Nat) (h : Spec.overwrite l b pos = .ok r)
    (hp : Spec.insPos l.length pos = some p) (i : Nat) (hi : i < p ∨ p + b.length ≤ i) : r[i]? = l[i]? := by
  obtain ⟨p', hp', hle, rfl⟩ := overwrite_ok h
  rw [hp] at hp'
  injection hp' with hp'
  subst hp'
  rcases hi with hi | hi
  · rw [List.append_assoc, List.getElem?_append_left (by simp; omega), List.getElem?_take, if_pos hi]
  · rw [List.getElem?_append_right (by simp; omega), List.getElem?_drop]
    congr 1
    simp; omega

/-! ### item assignment and deletion -/

theorem setItemInt_eq_spec (l : Bits) (i v : Int) : Alg.setItemInt l i v = Spec.setItemInt l i v := by
  unfold Alg.setItemInt Spec.setItemInt
  by_cases h0 : v = 0
  · subst h0; simp
  · rw [if_neg h0]
    by_cases h1 : v = 1 ∨ v = -1
    · rw [if_pos h1, if_pos (Or.inr h1)]; simp [h0]
    · rw [if_neg h1, if_neg (by omega)]

/-- `s[i] = bitstring`: the explicit bounds check + `self._bitstore[pk:pk+1] = value` is "replace bit i by the value". -/
theorem setItemBits_eq_spec (l : Bits) (i : Int) (b : Operand) :
    Alg.setItemBits l i b = Spec.setItemBits l i (b.val l) := by
  unfold Alg.setItemBits Spec.setItemBits
  simp only
  cases hp : PyL.normIdx l.length i with
  | none =>
    have := (normIdx_none_iff _ _).mp hp
    rw [if_pos (by split <;> omega)]
  | some j =>
    have := (normIdx_some_iff _ _ _).mp hp
    rw [if_neg (by split <;> omega)]
    have e : (if i < 0 then i + (l.length : Int) else i) = (j : Int) := by split <;> omega
    rw [e]
    have e2 : (j : Int) + 1 = ((j + 1 : Nat) : Int) := by omega
    rw [e2]
    exact setSlice_contiguous l _ j (j + 1) (by omega) (by omega)

theorem setItemInt_frame (l r : Bits) (i v : Int) (h : Spec.setItemInt l i v = .ok r) :
    r.length = l.length ∧ ∀ j : Nat, PyL.normIdx l.length i ≠ some j → r[j]? = l[j]? := by
  obtain ⟨j, hj, rfl⟩ := setItemInt_ok h
  refine ⟨by simp, ?_⟩
  intro k hk
  rw [List.getElem?_set_ne]
  intro e; subst e; exact hk hj

theorem setItemInt_value (l r : Bits) (i v : Int) (j : Nat) (h : Spec.setItemInt l i v = .ok r)
    (hj : PyL.normIdx l.length i = some j) : r[j]? = some (decide (v ≠ 0)) := by
  obtain ⟨j', hj', rfl⟩ := setItemInt_ok h
  rw [hj] at hj'
  injection hj' with hj'
  subst hj'
  have := (normIdx_some_iff _ _ _).mp hj
  rw [List.getElem?_set_self (by omega)]

theorem setItemInt_err_iff (l : Bits) (i v : Int) :
    (∃ e, Spec.setItemInt l i v = .error e) ↔
      ((v ≠ 0 ∧ v ≠ 1 ∧ v ≠ -1) ∨ i < -(l.length : Int) ∨ (l.length : Int) ≤ i) := by
  unfold Spec.setItemInt
  by_cases hv : v = 0 ∨ v = 1 ∨ v = -1
  · rw [if_pos hv]
    unfold PyL.setIndex
    cases hp : PyL.normIdx l.length i with
    | none =>
      have := (normIdx_none_iff _ _).mp hp
      simp only [Except.error.injEq, exists_eq', true_iff]
      omega
    | some j =>
      have := (normIdx_some_iff _ _ _).mp hp
      simp only [reduceCtorEq, exists_false, false_iff]
      omega
  · rw [if_neg hv]
    simp only [Except.error.injEq, exists_eq', true_iff]
    omega

theorem setItemBits_shape (l b r : Bits) (i : Int) (h : Spec.setItemBits l i b = .ok r) :
    ∃ j, PyL.normIdx l.length i = some j ∧ r.take j = l.take j ∧ slc r j (j + b.length) = b ∧
      r.drop (j + b.length) = l.drop (j + 1) ∧ r.length + 1 = l.length + b.length := by
  unfold Spec.setItemBits at h
  cases hp : PyL.normIdx l.length i with
  | none => rw [hp] at h; cases h
  | some j =>
    rw [hp] at h
    injection h with h
    subst h
    have := (normIdx_some_iff _ _ _).mp hp
    have hj : j < l.length := by omega
    refine ⟨j, rfl, ?_, ?_, ?_, ?_⟩
    · rw [List.append_assoc, List.take_left' (by simp; omega)]
    · unfold slc
      rw [List.append_assoc, List.drop_left' (by simp; omega), Nat.add_sub_cancel_left, List.take_left' rfl]
    · rw [List.drop_left' (by simp; omega)]
    · simp; omega

theorem delItem_shape (l r : Bits) (i : Int) (h : Spec.delItem l i = .ok r) :
    ∃ j, PyL.normIdx l.length i = some j ∧ r = l.take j ++ l.drop (j + 1) := by
  unfold Spec.delItem PyL.delIndex at h
  split at h
  · cases h
  · rename_i j hj
    injection h with h
    exact ⟨j, hj, by rw [← h, List.eraseIdx_eq_take_drop_succ]⟩

/-! ### integer values in slice assignment -/

/-- `cls(uint=v, length=k)` / `cls(int=v, length=k)` accept exactly the values the specification's `intBits` accepts. -/
theorem intValue_eq_intBits (k : Nat) (v : Int) : Alg.intValue k v = Spec.intBits k v :=
  intValue_eq_intBits' k v

theorem intBits_ok_iff (k : Nat) (v : Int) :
    (∃ b, Spec.intBits k v = .ok b) ↔
      (0 < k ∧ ((0 ≤ v ∧ v < (2 : Int) ^ k) ∨ (v < 0 ∧ -((2 : Int) ^ (k - 1)) ≤ v))) := by
  unfold Spec.intBits
  by_cases hk : k = 0
  · simp [hk]
  · rw [if_neg hk]
    have hk' : 0 < k := by omega
    have hpos : (0 : Int) < (2 : Int) ^ (k - 1) := by positivity
    by_cases hv : 0 ≤ v
    · rw [if_pos hv]
      by_cases h2 : v < (2 : Int) ^ k
      · rw [if_pos h2]; simp only [Except.ok.injEq, exists_eq', true_iff]; exact ⟨hk', Or.inl ⟨hv, h2⟩⟩
      · rw [if_neg h2]; simp only [reduceCtorEq, exists_false, false_iff]; omega
    · rw [if_neg hv]
      by_cases h2 : -((2 : Int) ^ (k - 1)) ≤ v
      · rw [if_pos h2]; simp only [Except.ok.injEq, exists_eq', true_iff]; exact ⟨hk', Or.inr ⟨by omega, h2⟩⟩
      · rw [if_neg h2]; simp only [reduceCtorEq, exists_false, false_iff]; omega

/-- A non-negative integer is written as the `k`-bit unsigned number … -/
theorem intBits_uint (k : Nat) (v : Int) (b : Bits) (hv : 0 ≤ v) (h : Spec.intBits k v = .ok b) :
    b.length = k ∧ (bitsToNat b : Int) = v := by
  unfold Spec.intBits at h
  split at h
  · cases h
  · split at h
    · rename_i h2
      injection h with h
      subst h
      refine ⟨natToBits_length _ _, ?_⟩
      rw [bitsToNat_natToBits]
      · omega
      · have : ((v.toNat : Nat) : Int) < ((2 ^ k : Nat) : Int) := by rw [← two_pow_cast]; omega
        exact_mod_cast this
    · cases h

/-- … a negative one as the `k`-bit two's-complement number. -/
theorem intBits_int (k : Nat) (v : Int) (b : Bits) (hv : v < 0) (h : Spec.intBits k v = .ok b) :
    b.length = k ∧ bitsToInt b = v := by
  unfold Spec.intBits at h
  split at h
  · cases h
  · rename_i hk
    rw [if_neg (by omega)] at h
    split at h
    · rename_i h2
      injection h with h
      subst h
      exact intToBits_neg k v hk hv h2
    · cases h

/-- Length of `s[a:b:c] = int`: never changes (the value is made exactly as wide as the slice). -/
theorem setSliceInt_length (l r : Bits) (a b c : Option Int) (v : Int) (h : Spec.setSliceInt l a b c v = .ok r) :
    r.length = l.length := by
  by_cases hc : c.getD 1 = 1 ∨ c.getD 1 = -1
  · rw [spec_setSliceInt_unit l a b c v hc] at h
    split at h
    · cases h
    · rename_i bits hbits
      have hbl := intBits_length hbits
      rcases hc with hc | hc
      · have e : PyL.setSlice l a b c bits = PyL.setSlice l a b none bits := by
          unfold PyL.setSlice; simp only [hc, Option.getD_none]
        rw [e] at h
        have := setSlice_step1_length l bits r a b h
        rw [hc] at hbl
        omega
      · cases c with
        | none => simp at hc
        | some st =>
          simp only [Option.getD_some] at hc
          subst hc
          exact setSlice_ext_length l bits r a b (-1) (by omega) (by omega) h
  · cases c with
    | none => simp at hc
    | some st =>
      simp only [Option.getD_some] at hc
      by_cases h0 : st = 0
      · subst h0; simp [Spec.setSliceInt] at h
      · rw [spec_setSliceInt_ext l a b st v h0 (by omega) (by omega)] at h
        split at h
        · injection h with h
          subst h
          exact foldl_set_length _ _ _
        · cases h

/-- Frame of `s[a:b:c] = int`: a position the slice does not select keeps its bit. -/
theorem setSliceInt_frame (l r : Bits) (a b c : Option Int) (v : Int) (h : Spec.setSliceInt l a b c v = .ok r)
    (i : Nat) (hi : i ∉ PyL.slicePositions a b (c.getD 1) l.length) : r[i]? = l[i]? := by
  by_cases hc : c.getD 1 = 1 ∨ c.getD 1 = -1
  · rw [spec_setSliceInt_unit l a b c v hc] at h
    split at h
    · cases h
    · rename_i bits hbits
      have hbl := intBits_length hbits
      rcases hc with hc | hc
      · have e : PyL.setSlice l a b c bits = PyL.setSlice l a b none bits := by
          unfold PyL.setSlice; simp only [hc, Option.getD_none]
        rw [e] at h
        rw [hc] at hbl hi
        exact setSlice_step1_frame l bits r a b h hbl i hi
      · cases c with
        | none => simp at hc
        | some st =>
          simp only [Option.getD_some] at hc hi
          subst hc
          exact setSlice_ext_frame l bits r a b (-1) (by omega) (by omega) h i hi
  · cases c with
    | none => simp at hc
    | some st =>
      simp only [Option.getD_some] at hc hi
      by_cases h0 : st = 0
      · subst h0; simp [Spec.setSliceInt] at h
      · rw [spec_setSliceInt_ext l a b st v h0 (by omega) (by omega)] at h
        split at h
        · injection h with h
          subst h
          exact foldl_set_not_mem _ _ _ i hi
        · cases h

/-! ### non-vacuity -/
example : Alg.insert [true, false] (.lit [true]) 7 = .error .value ∧ Alg.insert [true, false] (.lit []) 5 = .error .value := by decide
example : Alg.insert [true, false, true] .self (-1) = .ok [true, false, true, false, true, true] := by decide
example : Alg.overwrite [true, false] (.lit [true, true, true]) 1 = .ok [true, true, true, true] ∧
    Alg.overwrite [true, true, false, true, false, false] .self 2 =
      .ok [true, true, true, true, false, true, false, false] := by decide
example : PyL.setSlice [1, 2, 3, 4, 5, 6] none none (some (-2)) [7, 8, 9] = .ok [1, 9, 3, 8, 5, 7] := by decide
example : PyL.delSlice [1, 2, 3, 4, 5, 6] (some (-2)) none (some (-3)) = .ok [1, 3, 4, 6] := by decide
example : Alg.setSliceInt [true, false, true] none none (some (-1)) 3 = .ok [true, true, false] ∧
    Alg.setSliceInt (List.replicate 6 false) (some 4) (some 0) (some (-1)) 1 = .ok [false, true, false, false, false, false] ∧
    Alg.setSliceInt (List.replicate 6 false) none none (some (-2)) 1 = .ok [false, true, false, true, false, true] := by decide
example : Spec.intBits 4 (-8) = .ok [true, false, false, false] := by decide

end BM.C03
