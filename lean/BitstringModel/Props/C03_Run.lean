/-
  Props/C03_Run.lean — in-place mutations, part 5: whole-object operators (`<<=`, `>>=`, `*=`, `&=`, `|=`, `^=`,
  `append`, `prepend`, `clear`), one step of any operation, and histories of operations on one object.

  `step_eq_partial` collects the per-operation `ALG = SPEC` theorems of the other parts; `run_eq_partial` lifts it to
  every finite sequence of operations by induction over the operation list.  Error atomicity ("an invalid argument
  raises and the content is left as it was") and the partial-prefix exception are statements about `stepSpec`.
-/
import BitstringModel.Model.C03
import BitstringModel.Proofs.C03
import BitstringModel.Proofs.C03Run
import BitstringModel.Props.C03
import BitstringModel.Props.C03_Range
import BitstringModel.Props.C03_Replace
import BitstringModel.Props.C03_Byteswap

namespace BM.C03
open BM

/-! ### whole-object operators -/

/-- `<<=`: `_ilshift` (`_addright(zeros)` then `_truncateleft`) drops `n` bits on the left and fills zeros on the right;
    negative `n` and the empty bitstring are rejected. -/
theorem ishl_eq_spec (l : Bits) (n : Int) : Alg.ishl l n = Spec.ishl l n := by
  sorry

theorem ishr_eq_spec (l : Bits) (n : Int) : Alg.ishr l n = Spec.ishr l n := by
  sorry

/-- `*=`: `_imul` (clear for 0, else the doubling loop) is `n` copies. -/
theorem imul_eq_spec (l : Bits) (n : Int) : Alg.imul l n = Spec.imul l n := by
  sorry

theorem ishl_length (l r : Bits) (n : Int) (h : Spec.ishl l n = .ok r) : r.length = l.length := by
  sorry

theorem ishr_length (l r : Bits) (n : Int) (h : Spec.ishr l n = .ok r) : r.length = l.length := by
  sorry

theorem imul_length (l r : Bits) (n : Int) (h : Spec.imul l n = .ok r) : r.length = n.toNat * l.length := by
  sorry

/-- `s &= s`, `s |= s` leave `s` alone; `s ^= s` zeroes it (self as operand). -/
theorem bitwise_self (l : Bits) :
    Alg.iand l .self = .ok l ∧ Alg.ior l .self = .ok l ∧ Alg.ixor l .self = .ok (List.replicate l.length false) := by
  sorry

/-- `s.append(s)` doubles, `s.prepend(s)` doubles (self as operand). -/
theorem append_prepend_self (l : Bits) : Alg.append l .self = l ++ l ∧ Alg.prepend l .self = l ++ l := by
  sorry

theorem append_frame (l : Bits) (b : Operand) :
    (Alg.append l b).take l.length = l ∧ (Alg.append l b).drop l.length = b.val l ∧
    (Alg.prepend l b).take (b.val l).length = b.val l ∧ (Alg.prepend l b).drop (b.val l).length = l := by
  sorry

/-! ### one step -/

/-- Outside the known-deviation regions every operation's code path computes its specification
    (return value / exception and content). -/
theorem step_eq_partial (l : Bits) (op : Op) (h : op.deviant l = false) : stepAlg l op = stepSpec l op := by
  sorry

/-- The full statement `∀ l op, stepAlg l op = stepSpec l op` is false on the pinned tree: one witness per region. -/
theorem step_eq_witness :
    stepAlg [true, true, false, true, false, false] (.rol 2 (some 1) (some 1)) ≠
      stepSpec [true, true, false, true, false, false] (.rol 2 (some 1) (some 1)) ∧
    stepAlg [true, true, false, true, false, false] (.overwrite .self 2) ≠
      stepSpec [true, true, false, true, false, false] (.overwrite .self 2) ∧
    stepAlg (List.replicate 6 false) (.set true (.range 5 (-1) (-1))) ≠
      stepSpec (List.replicate 6 false) (.set true (.range 5 (-1) (-1))) ∧
    stepAlg [] (.set true .all) ≠ stepSpec [] (.set true .all) ∧
    stepAlg [true] (.insert (.lit []) 5) ≠ stepSpec [true] (.insert (.lit []) 5) ∧
    stepAlg [true] (.replace (.lit []) (.lit []) none none (some 0) false) ≠
      stepSpec [true] (.replace (.lit []) (.lit []) none none (some 0) false) ∧
    stepAlg (List.replicate 6 false) (.setSlice (some 4) (some 0) (some (-1)) (.int 1)) ≠
      stepSpec (List.replicate 6 false) (.setSlice (some 4) (some 0) (some (-1)) (.int 1)) ∧
    stepAlg (natToBits 24 0x010203) (.byteswap (.int 2) (some 0) (some 8) false) ≠
      stepSpec (natToBits 24 0x010203) (.byteswap (.int 2) (some 0) (some 8) false) := by
  sorry

/-- Error atomicity: when an operation raises, the content is what it was — for every operation except `set` / `invert`
    over an iterable of positions (lists and ranges), which keep the valid prefix (`set_partial_prefix`). -/
theorem error_atomic (l : Bits) (op : Op) (e : Err)
    (hop : ∀ v ps, op ≠ .set v (.many ps)) (hop' : ∀ ps, op ≠ .invert (.many ps))
    (hr : ∀ v a b c, op ≠ .set v (.range a b c)) (hr' : ∀ a b c, op ≠ .invert (.range a b c))
    (h : (stepSpec l op).ret = .error e) : (stepSpec l op).bits = l := by
  sorry

/-- The same for the code path (there `set` over a `range` is atomic too): no exception leaves a half-done mutation. -/
theorem error_atomic_alg (l : Bits) (op : Op) (e : Err)
    (hop : ∀ v ps, op ≠ .set v (.many ps)) (hop' : ∀ ps, op ≠ .invert (.many ps))
    (hr' : ∀ a b c, op ≠ .invert (.range a b c))
    (h : (stepAlg l op).ret = .error e) : (stepAlg l op).bits = l := by
  sorry

/-- Operations that are not length-changing by definition keep the length, whatever their arguments. -/
theorem keepsLength_length (l : Bits) (op : Op) (h : op.keepsLength = true) :
    (stepSpec l op).bits.length = l.length := by
  sorry

/-! ### histories -/

theorem run_length (step : Bits → Op → Outcome) (ops : List Op) (l : Bits) : (run step ops l).length = ops.length := by
  sorry

/-- Histories compose: running `ops₁ ++ ops₂` is running `ops₁`, then `ops₂` on the content it left. -/
theorem run_append (step : Bits → Op → Outcome) (ops₁ ops₂ : List Op) (l : Bits) :
    run step (ops₁ ++ ops₂) l =
      run step ops₁ l ++ run step ops₂ (((run step ops₁ l).getLast?.map (·.bits)).getD l) := by
  sorry

/-- For every finite sequence of operations on one object whose steps stay outside the known-deviation regions,
    the code paths produce exactly the specified observations (return values, exceptions, contents) at every step.
    Full statement (false on the pinned tree, see `step_eq_witness`): `∀ ops l, runAlg ops l = runSpec ops l`. -/
theorem run_eq_partial (ops : List Op) (l : Bits) (h : goodRun ops l = true) : runAlg ops l = runSpec ops l := by
  sorry

/-- Histories made of operations that have no deviation region at all need no side condition. -/
theorem run_eq_of_neverDeviant (ops : List Op) (l : Bits) (h : ∀ op ∈ ops, op.neverDeviant = true) :
    runAlg ops l = runSpec ops l := by
  sorry

/-! ### non-vacuity -/
example : goodRun [.insert (.lit [false, true]) 2, .rol 3 (some 1) none, .replace (.lit [true, true]) (.lit [false]) none none (some 2) false,
    .byteswap .none none none true, .set true (.range 0 3 2), .setSlice none none (some (-1)) (.int 5), .imul 3]
    [true, true, false, true, false, false] = true := by decide
example : runAlg [.insert (.lit [false, true]) 2, .rol 3 (some 1) none, .delSlice none none (some 2), .ixor .self]
    [true, true, false, true, false, false] =
  [⟨.ok .none, [true, true, false, true, false, true, false, false]⟩,
   ⟨.ok .none, [true, false, true, false, false, true, false, true]⟩,
   ⟨.ok .none, [false, false, true, true]⟩,
   ⟨.ok .none, [false, false, false, false]⟩] := by decide

end BM.C03
