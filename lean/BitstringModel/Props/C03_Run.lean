/-
  Props/C03_Run.lean — in-place mutations, part 5: whole-object operators (`<<=`, `>>=`, `*=`, `&=`, `|=`, `^=`,
  `append`, `prepend`, `clear`), one step of any operation, and histories of operations on one object.

  `step_eq` collects the per-operation `ALG = SPEC` theorems of the other parts; `run_eq` lifts it to
  every finite sequence of operations by induction over the operation list.  Error atomicity ("an invalid argument
  raises and the content is left as it was") and the partial-prefix exception are statements about `stepSpec`.
-/
import BitstringModel.Model.C03
import BitstringModel.Proofs.C03
import BitstringModel.Proofs.C03Run
import BitstringModel.Props.C03
import BitstringModel.Props.C03_Range
import BitstringModel.Props.C03_Replace
import BitstringModel.Props.C03_Byteswap
import BitstringModel.Props.C01
import BitstringModel.Props.C16

namespace BM.C03
open BM
open Run

/-! ### whole-object operators -/

/-- `<<=`: `_ilshift` (`_addright(zeros)` then `_truncateleft`) drops `n` bits on the left and fills zeros on the right;
    negative `n` and the empty bitstring are rejected. -/
theorem ishl_eq_spec (l : Bits) (n : Int) : Alg.ishl l n = Spec.ishl l n := by
  unfold Alg.ishl Spec.ishl
  rw [C16.ishl_eq_shl]
  by_cases h1 : n < 0
  · simp [C16.shl, h1]
  by_cases h2 : l.length = 0
  · simp [C16.shl, h1, h2]
  simp only [h1, h2, if_false]
  exact C16.shl_eq_spec l n (by omega) (by intro h; subst h; simp at h2)

theorem ishr_eq_spec (l : Bits) (n : Int) : Alg.ishr l n = Spec.ishr l n := by
  unfold Alg.ishr Spec.ishr
  rw [C16.ishr_eq_shr]
  by_cases h1 : n < 0
  · simp [C16.shr, h1]
  by_cases h2 : l.length = 0
  · simp [C16.shr, h1, h2]
  simp only [h1, h2, if_false]
  exact C16.shr_eq_spec l n (by omega) (by intro h; subst h; simp at h2)

/-- `*=`: `_imul` (clear for 0, else the doubling loop) is `n` copies. -/
theorem imul_eq_spec (l : Bits) (n : Int) : Alg.imul l n = Spec.imul l n := by
  unfold Alg.imul Spec.imul
  by_cases h1 : n < 0
  · simp [h1]
  simp only [h1, if_false]
  by_cases h0 : n = 0
  · subst h0; simp
  simp only [h0, if_false]
  rw [C01.imul_eq_replicate l n.toNat (by omega)]

theorem ishl_length (l r : Bits) (n : Int) (h : Spec.ishl l n = .ok r) : r.length = l.length := by
  unfold Spec.ishl at h
  split at h
  · cases h
  · split at h
    · cases h
    · injection h with h; subst h; exact C16.shlSpec_length l _

theorem ishr_length (l r : Bits) (n : Int) (h : Spec.ishr l n = .ok r) : r.length = l.length := by
  unfold Spec.ishr at h
  split at h
  · cases h
  · split at h
    · cases h
    · injection h with h; subst h; exact C16.shrSpec_length l _

theorem imul_length (l r : Bits) (n : Int) (h : Spec.imul l n = .ok r) : r.length = n.toNat * l.length := by
  unfold Spec.imul at h
  split at h
  · cases h
  · injection h with h; subst h
    exact C01.length_flatten_replicate l n.toNat

/-- `s &= s`, `s |= s` leave `s` alone; `s ^= s` zeroes it (self as operand). -/
theorem bitwise_self (l : Bits) :
    Alg.iand l .self = .ok l ∧ Alg.ior l .self = .ok l ∧ Alg.ixor l .self = .ok (List.replicate l.length false) := by
  refine ⟨?_, ?_, ?_⟩
  · exact C16.and_self l
  · exact C16.or_self l
  · exact C16.xor_self_zero l

/-- `s.append(s)` doubles, `s.prepend(s)` doubles (self as operand). -/
theorem append_prepend_self (l : Bits) : Alg.append l .self = l ++ l ∧ Alg.prepend l .self = l ++ l := by
  exact ⟨rfl, rfl⟩

theorem append_frame (l : Bits) (b : Operand) :
    (Alg.append l b).take l.length = l ∧ (Alg.append l b).drop l.length = b.val l ∧
    (Alg.prepend l b).take (b.val l).length = b.val l ∧ (Alg.prepend l b).drop (b.val l).length = l := by
  unfold Alg.append Alg.prepend
  refine ⟨?_, ?_, ?_, ?_⟩
  · exact List.take_left' rfl
  · exact List.drop_left' rfl
  · exact List.take_left' rfl
  · exact List.drop_left' rfl

/-! ### one step -/

/-- Every operation's code path computes its specification (return value / exception and content), for every content
    and every argument. -/
theorem step_eq (l : Bits) (op : Op) : stepAlg l op = stepSpec l op := by
  cases op with
  | append b => rfl
  | prepend b => rfl
  | insert b pos => simp only [stepAlg, stepSpec, insert_eq_spec]
  | overwrite b pos => simp only [stepAlg, stepSpec, overwrite_eq_spec]
  | delItem i => rfl
  | delSlice a b c => rfl
  | setItem i v =>
    cases v with
    | int v => simp only [stepAlg, stepSpec, setItemInt_eq_spec]
    | bits b => simp only [stepAlg, stepSpec, setItemBits_eq_spec]
  | setSlice a b c v =>
    cases v with
    | int v => simp only [stepAlg, stepSpec, setSliceInt_eq_spec]
    | bits v => rfl
  | replace old new s e count al => simp only [stepAlg, stepSpec, replace_eq_spec]
  | reverse s e => simp only [stepAlg, stepSpec, reverse_eq_spec]
  | rol k s e => simp only [stepAlg, stepSpec, rol_eq_spec]
  | ror k s e => simp only [stepAlg, stepSpec, ror_eq_spec]
  | set v p => simp only [stepAlg, stepSpec, set_eq_spec]
  | invert p => simp only [stepAlg, stepSpec, invert_eq_spec]
  | byteswap f s e rep => simp only [stepAlg, stepSpec, byteswap_eq_spec]
  | ishl n => simp only [stepAlg, stepSpec, ishl_eq_spec]
  | ishr n => simp only [stepAlg, stepSpec, ishr_eq_spec]
  | imul n => simp only [stepAlg, stepSpec, imul_eq_spec]
  | iand b => rfl
  | ior b => rfl
  | ixor b => rfl
  | clear => rfl

/-- Error atomicity: when an operation raises, the content is what it was — for every operation except `set` / `invert`
    over an iterable of positions (lists and ranges), which keep the valid prefix (`set_partial_prefix`). -/
theorem error_atomic (l : Bits) (op : Op) (e : Err)
    (hop : ∀ v ps, op ≠ .set v (.many ps)) (hop' : ∀ ps, op ≠ .invert (.many ps))
    (hr : ∀ v a b c, op ≠ .set v (.range a b c)) (hr' : ∀ a b c, op ≠ .invert (.range a b c))
    (h : (stepSpec l op).ret = .error e) : (stepSpec l op).bits = l := by
  cases op with
  | append b => simp [stepSpec] at h
  | prepend b => simp [stepSpec] at h
  | clear => simp [stepSpec] at h
  | set v p =>
    cases p with
    | all => simp [stepSpec, Spec.set, Spec.positions] at h
    | one i =>
      simp only [stepSpec, Spec.set, Spec.positions, Spec.applyPrefix] at h ⊢
      by_cases hv : (PyL.normIdx l.length i).isSome = true
      · simp [List.takeWhile, hv] at h
      · simp [List.takeWhile, hv]
    | many ps => exact absurd rfl (hop v ps)
    | range a b c => exact absurd rfl (hr v a b c)
  | invert p =>
    cases p with
    | all => simp [stepSpec, Spec.invert, Spec.positions] at h
    | one i =>
      simp only [stepSpec, Spec.invert, Spec.positions, Spec.applyPrefix] at h ⊢
      by_cases hv : (PyL.normIdx l.length i).isSome = true
      · simp [List.takeWhile, hv] at h
      · simp [List.takeWhile, hv]
    | many ps => exact absurd rfl (hop' ps)
    | range a b c => exact absurd rfl (hr' a b c)
  | setItem i v => cases v <;> exact atomic_err _ _ _ h
  | setSlice a b c v => cases v <;> exact atomic_err _ _ _ h
  | replace old new s e count al => exact atomicRet_err _ _ _ h
  | byteswap f s e rep => exact atomicRet_err _ _ _ h
  | _ => exact atomic_err _ _ _ h

/-- The same for the code path: no exception leaves a half-done mutation. -/
theorem error_atomic_alg (l : Bits) (op : Op) (e : Err)
    (hop : ∀ v ps, op ≠ .set v (.many ps)) (hop' : ∀ ps, op ≠ .invert (.many ps))
    (hr : ∀ v a b c, op ≠ .set v (.range a b c)) (hr' : ∀ a b c, op ≠ .invert (.range a b c))
    (h : (stepAlg l op).ret = .error e) : (stepAlg l op).bits = l := by
  rw [step_eq] at h ⊢
  exact error_atomic l op e hop hop' hr hr' h

/-- Operations that are not length-changing by definition keep the length, whatever their arguments. -/
theorem keepsLength_length (l : Bits) (op : Op) (h : op.keepsLength = true) :
    (stepSpec l op).bits.length = l.length := by
  cases op with
  | setItem i v =>
    cases v with
    | int v => exact atomic_length _ _ (fun r hr => (setItemInt_frame l r i v hr).1)
    | bits b => simp [Op.keepsLength] at h
  | setSlice a b c v =>
    cases v with
    | int v => exact atomic_length _ _ (fun r hr => setSliceInt_length l r a b c v hr)
    | bits b => simp [Op.keepsLength] at h
  | reverse s e => exact atomic_length _ _ (fun r hr => reverse_length l r s e hr)
  | rol k s e => exact atomic_length _ _ (fun r hr => rol_length l r k s e hr)
  | ror k s e => exact atomic_length _ _ (fun r hr => ror_length l r k s e hr)
  | set v p => exact set_length l v p
  | invert p => exact invert_length l p
  | byteswap f s e rep => exact atomicRet_length _ _ (fun k r hr => byteswap_length l r f s e rep k hr)
  | ishl n => exact atomic_length _ _ (fun r hr => ishl_length l r n hr)
  | ishr n => exact atomic_length _ _ (fun r hr => ishr_length l r n hr)
  | iand b => exact atomic_length _ _ (fun r hr => C16.zipOp_length _ l (b.val l) r hr)
  | ior b => exact atomic_length _ _ (fun r hr => C16.zipOp_length _ l (b.val l) r hr)
  | ixor b => exact atomic_length _ _ (fun r hr => C16.zipOp_length _ l (b.val l) r hr)
  | _ => simp [Op.keepsLength] at h

/-! ### histories -/

theorem run_length (step : Bits → Op → Outcome) (ops : List Op) (l : Bits) : (run step ops l).length = ops.length := by
  induction ops generalizing l with
  | nil => rfl
  | cons op ops ih => simp [run, ih]

/-- Histories compose: running `ops₁ ++ ops₂` is running `ops₁`, then `ops₂` on the content it left. -/
theorem run_append (step : Bits → Op → Outcome) (ops₁ ops₂ : List Op) (l : Bits) :
    run step (ops₁ ++ ops₂) l =
      run step ops₁ l ++ run step ops₂ (((run step ops₁ l).getLast?.map (·.bits)).getD l) := by
  induction ops₁ generalizing l with
  | nil => simp [run]
  | cons op ops ih =>
    simp only [List.cons_append, run]
    rw [ih]
    congr 2
    cases hr : run step ops (step l op).bits with
    | nil => simp
    | cons o os =>
      have hl : (o :: os).getLast? = some ((o :: os).getLast (by simp)) :=
        List.getLast?_eq_some_getLast (by simp)
      simp [hl]

/-- For every finite sequence of operations applied to one object, the code paths produce exactly the specified
    observations (return values, exceptions, contents) at every step. -/
theorem run_eq (ops : List Op) (l : Bits) : runAlg ops l = runSpec ops l := by
  induction ops generalizing l with
  | nil => rfl
  | cons op ops ih =>
    show stepAlg l op :: run stepAlg ops (stepAlg l op).bits = stepSpec l op :: run stepSpec ops (stepSpec l op).bits
    rw [step_eq]
    congr 1
    exact ih _

/-- Hence the content after any history is the specified one. -/
theorem run_final_bits (ops : List Op) (l : Bits) :
    ((runAlg ops l).getLast?.map (·.bits)).getD l = ((runSpec ops l).getLast?.map (·.bits)).getD l := by
  rw [run_eq]

/-! ### non-vacuity -/
example : runAlg [.insert (.lit [false, true]) 2, .rol 3 (some 1) none, .delSlice none none (some 2), .ixor .self]
    [true, true, false, true, false, false] =
  [⟨.ok .none, [true, true, false, true, false, true, false, false]⟩,
   ⟨.ok .none, [true, false, true, false, false, true, false, true]⟩,
   ⟨.ok .none, [false, false, true, true]⟩,
   ⟨.ok .none, [false, false, false, false]⟩] := by decide

end BM.C03
