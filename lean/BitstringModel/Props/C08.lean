/-
  Props/C08.lean — behaviour depends only on bit content, not on provenance.
  (1) every construction route yields a store whose logical content is exactly the requested window and
      which satisfies `StoreInv` (no length limit, or a limit equal to the buffer length);
  (2) under `StoreInv` every `BitStore` method — including the ones that read the raw buffer — is a function
      of the logical content alone.  Hence two objects with equal bits are indistinguishable, whatever the route.
-/
import BitstringModel.Model.C08
import BitstringModel.Proofs.C08

namespace BM.C08
open BM

theorem logical_eq_raw (s : Store) (h : StoreInv s) : logical s = s.raw := by
  unfold logical
  rcases h with h | h <;> simp [h]

theorem ofBits_inv (b : Bits) : StoreInv (ofBits b) ∧ logical (ofBits b) = b := by
  exact ⟨Or.inl rfl, by simp [logical, ofBits]⟩

/-! ### (1) routes: the selected window, for every source, offset and length -/

theorem fromBuffer_inv (data : Bits) (l : Option Int) (s : Store) (h : fromBuffer data l = .ok s) :
    StoreInv s := by
  unfold fromBuffer at h
  split at h
  · injection h with h; subst h; exact Or.inl rfl
  · split at h
    · cases h
    · split at h
      · cases h
      · split at h
        · injection h with h; subst h; exact Or.inl rfl
        · injection h with h; subst h; exact Or.inl rfl

theorem fromBuffer_window (data : Bits) (l : Nat) (hl : l ≤ data.length) :
    ∃ s, fromBuffer data (some (l : Int)) = .ok s ∧ logical s = data.take l ∧ StoreInv s := by
  have h1 : ¬ ((l : Int) < 0) := by omega
  have h2 : ¬ (l > data.length) := by omega
  by_cases h3 : l < data.length
  · refine ⟨⟨data.take l, none⟩, ?_, (ofBits_inv (data.take l)).2, Or.inl rfl⟩
    simp only [fromBuffer, h1, h2, if_false, Int.toNat_natCast, h3, if_true]
  · have hl' : l = data.length := by omega
    refine ⟨⟨data, none⟩, ?_, ?_, Or.inl rfl⟩
    · simp only [fromBuffer, h1, h2, if_false, Int.toNat_natCast, h3]
    · simp [logical, hl']

theorem fromBuffer_too_long (data : Bits) (l : Int) (hl : (data.length : Int) < l) :
    fromBuffer data (some l) = .error .value := by
  have h1 : ¬ (l < 0) := by omega
  have h2 : l.toNat > data.length := by omega
  simp only [fromBuffer, h1, if_false, h2, if_true]

/-- A file opened with any valid offset and length holds exactly that window (in particular a file-backed
    bitstring whose length stops short of the file). -/
theorem fromFile_window (data : Bits) (off len : Nat) (h : off + len ≤ data.length) :
    ∃ s, fromFile data (some (off : Int)) (some (len : Int)) = .ok s ∧
      logical s = window data off len ∧ StoreInv s := by
  by_cases h0 : off = 0
  · subst h0
    obtain ⟨s, hs, hl, hi⟩ := fromBuffer_window data len (by omega)
    refine ⟨s, ?_, ?_, hi⟩
    · simpa [fromFile] using hs
    · rw [hl]; simp [window]
  · have hne : ¬ ((off : Int) = 0) := by omega
    have hneg : ¬ ((off : Int) < 0) := by omega
    have hgt : ¬ ((off : Int) > (data.length : Int)) := by omega
    have hc : (off : Int) + (len : Int) = ((off + len : Nat) : Int) := by push_cast; rfl
    refine ⟨ofBits (window data off len), ?_, (ofBits_inv _).2, (ofBits_inv _).1⟩
    have hlen : ((List.take (off + len - off) (List.drop off data)).length : Int) = (len : Int) := by
      simp only [List.length_take, List.length_drop]; omega
    simp only [fromFile, Option.getD_some, hneg, hgt, hne, if_false, hc, getSlice_nat, hlen, ne_eq, not_true_eq_false]
    simp only [window, Nat.add_sub_cancel_left]

theorem fromFile_to_end (data : Bits) (off : Nat) (h : off ≤ data.length) :
    ∃ s, fromFile data (some (off : Int)) none = .ok s ∧ logical s = data.drop off ∧ StoreInv s := by
  by_cases h0 : off = 0
  · subst h0
    exact ⟨⟨data, none⟩, by simp [fromFile, fromBuffer], by simp [logical], Or.inl rfl⟩
  · have hne : ¬ ((off : Int) = 0) := by omega
    have hneg : ¬ ((off : Int) < 0) := by omega
    have hgt : ¬ ((off : Int) > (data.length : Int)) := by omega
    refine ⟨ofBits (data.drop off), ?_, (ofBits_inv _).2, (ofBits_inv _).1⟩
    simp only [fromFile, Option.getD_some, hne, hneg, hgt, if_false, getSlice_nat_none]
    rfl


theorem fromBytes_window (data : Bits) (off len : Nat) (h : off + len ≤ data.length) :
    ∃ s, fromBytes data (some (off : Int)) (some (len : Int)) = .ok s ∧
      logical s = window data off len ∧ StoreInv s := by
  have hc : (off : Int) + (len : Int) = ((off + len : Nat) : Int) := by push_cast; rfl
  have h1 : ¬ ((len : Int) + (off : Int) > (data.length : Int)) := by omega
  have hneg : ¬ ((off : Int) < 0) := by omega
  have hgt : ¬ ((off : Int) > (data.length : Int)) := by omega
  have hld : decide ((len : Int) < 0) = false := decide_eq_false (by omega)
  refine ⟨ofBits (window data off len), ?_, (ofBits_inv _).2, (ofBits_inv _).1⟩
  simp only [fromBytes, Option.getD_some, hneg, hgt, hld, Bool.false_eq_true, h1, if_false, hc, getSlice_nat]
  simp only [window, Nat.add_sub_cancel_left]
  rfl

theorem fromBytes_beyond (data : Bits) (off len : Nat) (h : data.length < off + len) :
    fromBytes data (some (off : Int)) (some (len : Int)) = .error .value := by
  have h1 : ((len : Int) + (off : Int) > (data.length : Int)) := by omega
  simp only [fromBytes, Option.getD_some, h1, if_true, ite_self]

/-- The BytesIO route (byte window first, then a bit slice inside it) selects the same window. -/
theorem fromBytesIO_window (data : Bits) (off len : Nat) (h8 : 8 ∣ data.length) (h : off + len ≤ data.length) :
    ∃ s, fromBytesIO data (some (off : Int)) (some (len : Int)) = .ok s ∧
      logical s = window data off len ∧ StoreInv s := by
  have h1 : ¬ ((len : Int) + (off : Int) / 8 * 8 + (off : Int) % 8 > (data.length : Int)) := by omega
  have ha : (off : Int) / 8 * 8 = ((off / 8 * 8 : Nat) : Int) := by push_cast; rfl
  have hb : ((off : Int) / 8 + (((len : Int) + (off : Int) / 8 * 8 + (off : Int) % 8 + 7) / 8 - (off : Int) / 8)) * 8
      = (((len + off / 8 * 8 + off % 8 + 7) / 8 * 8 : Nat) : Int) := by push_cast; omega
  have ho : (off : Int) % 8 = ((off % 8 : Nat) : Int) := by push_cast; rfl
  have hol : ((off % 8 : Nat) : Int) + (len : Int) = ((off % 8 + len : Nat) : Int) := by push_cast; rfl
  have hneg : ¬ ((off : Int) < 0) := by omega
  have hgt : ¬ ((off : Int) > (data.length : Int)) := by omega
  have hld : decide ((len : Int) < 0) = false := decide_eq_false (by omega)
  refine ⟨ofBits (window data off len), ?_, (ofBits_inv _).2, (ofBits_inv _).1⟩
  simp only [fromBytesIO, Option.getD_some, hneg, hgt, hld, Bool.false_eq_true, h1, if_false, hb]
  simp only [ha, ho, hol, getSlice_nat]
  rw [bytesIO_collapse data off len _ (by omega)]
  rfl

theorem fromBitarray_window (data : Bits) (off len : Nat) (h : off + len ≤ data.length) :
    ∃ s, fromBitarray data (some (off : Int)) (some (len : Int)) = .ok s ∧
      logical s = window data off len ∧ StoreInv s := by
  have hc : (off : Int) + (len : Int) = ((off + len : Nat) : Int) := by push_cast; rfl
  have h0 : ¬ ((off : Int) > (data.length : Int)) := by omega
  have h1 : ¬ (((off + len : Nat) : Int) > (data.length : Int)) := by omega
  have hneg : ¬ ((off : Int) < 0) := by omega
  have hld : decide ((len : Int) < 0) = false := decide_eq_false (by omega)
  refine ⟨ofBits (window data off len), ?_, (ofBits_inv _).2, (ofBits_inv _).1⟩
  simp only [fromBitarray, Option.getD_some, hneg, hld, Bool.false_eq_true, h0, if_false, hc, h1, getSlice_nat]
  simp only [window, Nat.add_sub_cancel_left]
  rfl

theorem fromBitarray_beyond (data : Bits) (off len : Nat) (h : data.length < off + len) :
    fromBitarray data (some (off : Int)) (some (len : Int)) = .error .value := by
  have hc : (off : Int) + (len : Int) = ((off + len : Nat) : Int) := by push_cast; rfl
  have h1 : (((off + len : Nat) : Int) > (data.length : Int)) := by omega
  simp only [fromBitarray, Option.getD_some, hc, h1, if_true, ite_self]

/-! ### (2) every store-level operation is a function of the logical content -/

theorem len_logical (s : Store) (h : StoreInv s) : len s = (logical s).length := by
  rw [logical_eq_raw s h]
  rcases h with h | h <;> simp [len, h]

theorem tobytes_logical (s : Store) (h : StoreInv s) : toBitsForBytes s = logical s := by
  rw [logical_eq_raw s h]
  rcases h with h | h <;> simp [toBitsForBytes, h]

theorem eq_iff_logical (a b : Store) (ha : StoreInv a) (hb : StoreInv b) :
    eqStore a b = true ↔ logical a = logical b := by
  rw [logical_eq_raw a ha, logical_eq_raw b hb]
  simp [eqStore]

theorem count_logical (s : Store) (h : StoreInv s) : count1 s = ((logical s).filter id).length := by
  rw [logical_eq_raw s h]; rfl

theorem getIndex_logical (s : Store) (h : StoreInv s) (i : Int) : getIndex s i = Py.getIndex (logical s) i := by
  rw [logical_eq_raw s h]; rfl

theorem anyAll_logical (s : Store) (h : StoreInv s) :
    anySet s = (logical s).any id ∧ allSet s = (logical s).all id := by
  rw [logical_eq_raw s h]; exact ⟨rfl, rfl⟩

theorem copy_logical (s : Store) (h : StoreInv s) :
    logical (copyStore s) = logical s ∧ StoreInv (copyStore s) := by
  rw [logical_eq_raw s h]
  exact ⟨(ofBits_inv s.raw).2, Or.inl rfl⟩

theorem invert_logical (s : Store) (h : StoreInv s) :
    logical (invertAll s) = (logical s).map (!·) ∧ StoreInv (invertAll s) := by
  rw [logical_eq_raw s h]
  exact ⟨(ofBits_inv _).2, Or.inl rfl⟩

theorem add_logical (a b : Store) (ha : StoreInv a) (hb : StoreInv b) :
    logical (addStore a b) = logical a ++ logical b ∧ StoreInv (addStore a b) := by
  rw [logical_eq_raw a ha, logical_eq_raw b hb]
  exact ⟨(ofBits_inv _).2, Or.inl rfl⟩

theorem and_logical (a b : Store) (ha : StoreInv a) (hb : StoreInv b) :
    (andStore a b).map logical =
      (if (logical a).length ≠ (logical b).length then .error .value
       else .ok (List.zipWith (· && ·) (logical a) (logical b))) := by
  rw [logical_eq_raw a ha, logical_eq_raw b hb]
  unfold andStore
  split
  · rfl
  · exact congrArg Except.ok (ofBits_inv _).2

theorem getSlice_logical (s : Store) (h : StoreInv s) (a e : Option Int) :
    (getSlice s a e).map logical = Py.getSlice (logical s) a e none := by
  rw [logical_eq_raw s h]
  have hmap : ∀ r : Except Err Bits, (r.map ofBits).map logical = r := by
    intro r
    cases r with
    | error e => rfl
    | ok b => exact congrArg Except.ok (ofBits_inv b).2
  rcases h with h | h
  · simp only [getSlice, h]
    exact hmap _
  · simp only [getSlice, h]
    rw [hmap, getSlice_normalised]

/-- The congruence the property states: equal content ⇒ equal observations, whatever the two stores are. -/
theorem ops_depend_on_content (s₁ s₂ : Store) (h₁ : StoreInv s₁) (h₂ : StoreInv s₂)
    (hc : logical s₁ = logical s₂) :
    len s₁ = len s₂ ∧ toBitsForBytes s₁ = toBitsForBytes s₂ ∧ count1 s₁ = count1 s₂ ∧
    (∀ i, getIndex s₁ i = getIndex s₂ i) ∧ anySet s₁ = anySet s₂ ∧ allSet s₁ = allSet s₂ ∧
    eqStore s₁ s₂ = true ∧
    (∀ a e, (getSlice s₁ a e).map logical = (getSlice s₂ a e).map logical) ∧
    logical (invertAll s₁) = logical (invertAll s₂) ∧
    (∀ t, StoreInv t → logical (addStore s₁ t) = logical (addStore s₂ t)) := by
  have hr : s₁.raw = s₂.raw := by rw [← logical_eq_raw s₁ h₁, ← logical_eq_raw s₂ h₂, hc]
  refine ⟨?_, ?_, ?_, ?_, ?_, ?_, ?_, ?_, ?_, ?_⟩
  · rw [len_logical s₁ h₁, len_logical s₂ h₂, hc]
  · rw [tobytes_logical s₁ h₁, tobytes_logical s₂ h₂, hc]
  · rw [count_logical s₁ h₁, count_logical s₂ h₂, hc]
  · intro i; rw [getIndex_logical s₁ h₁, getIndex_logical s₂ h₂, hc]
  · rw [(anyAll_logical s₁ h₁).1, (anyAll_logical s₂ h₂).1, hc]
  · rw [(anyAll_logical s₁ h₁).2, (anyAll_logical s₂ h₂).2, hc]
  · exact (eq_iff_logical s₁ s₂ h₁ h₂).2 hc
  · intro a e; rw [getSlice_logical s₁ h₁, getSlice_logical s₂ h₂, hc]
  · rw [(invert_logical s₁ h₁).1, (invert_logical s₂ h₂).1, hc]
  · intro t ht; rw [(add_logical s₁ t h₁ ht).1, (add_logical s₂ t h₂ ht).1, hc]

/-- Why `StoreInv` matters: a store with a length limit shorter than its buffer (what the pinned tree built for
    `Bits(filename=f, length=12)`) is told apart from its own bits by the raw-buffer methods. -/
theorem limited_store_distinguishable :
    ∃ s : Store, ¬ StoreInv s ∧ count1 s ≠ count1 (ofBits (logical s)) ∧ eqStore s (ofBits (logical s)) = false := by
  exact ⟨⟨[true, true], some 1⟩, by unfold StoreInv; decide, by decide, by decide⟩

/-! ### invalid windows are rejected, for every source (they never silently select something else) -/

theorem fromFile_beyond (data : Bits) (off len : Nat) (hoff : 0 < off) (h : data.length < off + len) :
    fromFile data (some (off : Int)) (some (len : Int)) = .error .value := by
  have hne : ¬ ((off : Int) = 0) := by omega
  have hneg : ¬ ((off : Int) < 0) := by omega
  have hc : (off : Int) + (len : Int) = ((off + len : Nat) : Int) := by push_cast; rfl
  by_cases hgt : (off : Int) > (data.length : Int)
  · simp only [fromFile, Option.getD_some, hneg, hne, hgt, if_false, if_true]
  · have hlen : ((List.take (off + len - off) (List.drop off data)).length : Int) ≠ (len : Int) := by
      simp only [List.length_take, List.length_drop]; omega
    simp only [fromFile, Option.getD_some, hneg, hne, hgt, if_false, hc, getSlice_nat, ne_eq, hlen,
      not_false_eq_true, if_true]

theorem fromFile_negative_offset (data : Bits) (off : Int) (l : Option Int) (h : off < 0) :
    fromFile data (some off) l = .error .value := by
  simp only [fromFile, Option.getD_some, h, if_true]

theorem fromBytes_negative (data : Bits) (off : Int) (l : Option Int)
    (h : off < 0 ∨ (∃ n, l = some n ∧ n < 0)) : fromBytes data (some off) l = .error .value := by
  rcases h with h | ⟨n, rfl, hn⟩
  · cases l <;> simp only [fromBytes, Option.getD_some, h, if_true]
  · simp only [fromBytes, Option.getD_some, hn, decide_true, if_true, ite_self]

theorem fromBytes_offset_beyond (data : Bits) (off : Int) (l : Option Int) (h : (data.length : Int) < off) :
    fromBytes data (some off) l = .error .value := by
  have hg : off > (data.length : Int) := h
  cases l <;> simp only [fromBytes, Option.getD_some, hg, if_true, ite_self]

theorem fromBytesIO_negative (data : Bits) (off : Int) (l : Option Int)
    (h : off < 0 ∨ (∃ n, l = some n ∧ n < 0)) : fromBytesIO data (some off) l = .error .value := by
  rcases h with h | ⟨n, rfl, hn⟩
  · cases l <;> simp only [fromBytesIO, Option.getD_some, h, if_true]
  · simp only [fromBytesIO, Option.getD_some, hn, decide_true, if_true, ite_self]

theorem fromBytesIO_offset_beyond (data : Bits) (off : Int) (l : Option Int) (h : (data.length : Int) < off) :
    fromBytesIO data (some off) l = .error .value := by
  have hg : off > (data.length : Int) := h
  cases l <;> simp only [fromBytesIO, Option.getD_some, hg, if_true, ite_self]

theorem fromBitarray_negative (data : Bits) (off : Int) (l : Option Int)
    (h : off < 0 ∨ (∃ n, l = some n ∧ n < 0)) : fromBitarray data (some off) l = .error .value := by
  rcases h with h | ⟨n, rfl, hn⟩
  · simp only [fromBitarray, Option.getD_some, h, if_true]
  · simp only [fromBitarray, Option.getD_some, hn, decide_true, if_true, ite_self]

/-! ### non-vacuity -/
example : (fromFile [true,true,true,true,false,false,false,false,true,false,true,false] (some 0) (some 6)).map logical
    = .ok [true,true,true,true,false,false] := by decide
example : (fromBytesIO [true,true,true,true,false,false,false,false,true,false,true,false,true,true,false,false] (some 3) (some 9)).map logical
    = .ok [true,false,false,false,false,true,false,true,false] := by decide

end BM.C08
