/-
  Props/C08.lean — behaviour depends only on bit content, not on provenance.
  (1) every construction route yields a store whose logical content is exactly the requested window and
      which satisfies `StoreInv` (no length limit, or a limit equal to the buffer length);
  (2) under `StoreInv` every `BitStore` method — including the ones that read the raw buffer — is a function
      of the logical content alone.  Hence two objects with equal bits are indistinguishable, whatever the route.
-/
import BitstringModel.Model.C08
import BitstringModel.Proofs.C08

namespace BM.C08
open BM

theorem logical_eq_raw (s : Store) (h : StoreInv s) : logical s = s.raw := by
  sorry

theorem ofBits_inv (b : Bits) : StoreInv (ofBits b) ∧ logical (ofBits b) = b := by
  sorry

/-! ### (1) routes: the selected window, for every source, offset and length -/

theorem fromBuffer_inv (data : Bits) (l : Option Int) (s : Store) (h : fromBuffer data l = .ok s) :
    StoreInv s := by
  sorry

theorem fromBuffer_window (data : Bits) (l : Nat) (hl : l ≤ data.length) :
    ∃ s, fromBuffer data (some (l : Int)) = .ok s ∧ logical s = data.take l ∧ StoreInv s := by
  sorry

theorem fromBuffer_too_long (data : Bits) (l : Int) (hl : (data.length : Int) < l) :
    fromBuffer data (some l) = .error .value := by
  sorry

/-- A file opened with any valid offset and length holds exactly that window (in particular a file-backed
    bitstring whose length stops short of the file). -/
theorem fromFile_window (data : Bits) (off len : Nat) (h : off + len ≤ data.length) :
    ∃ s, fromFile data (some (off : Int)) (some (len : Int)) = .ok s ∧
      logical s = window data off len ∧ StoreInv s := by
  sorry

theorem fromFile_to_end (data : Bits) (off : Nat) (h : off ≤ data.length) :
    ∃ s, fromFile data (some (off : Int)) none = .ok s ∧ logical s = data.drop off ∧ StoreInv s := by
  sorry

theorem fromFile_beyond (data : Bits) (off len : Nat) (hoff : 0 < off) (h : data.length < off + len) :
    fromFile data (some (off : Int)) (some (len : Int)) = .error .value := by
  sorry

theorem fromBytes_window (data : Bits) (off len : Nat) (h : off + len ≤ data.length) :
    ∃ s, fromBytes data (some (off : Int)) (some (len : Int)) = .ok s ∧
      logical s = window data off len ∧ StoreInv s := by
  sorry

theorem fromBytes_beyond (data : Bits) (off len : Nat) (h : data.length < off + len) :
    fromBytes data (some (off : Int)) (some (len : Int)) = .error .value := by
  sorry

/-- The BytesIO route (byte window first, then a bit slice inside it) selects the same window. -/
theorem fromBytesIO_window (data : Bits) (off len : Nat) (h8 : 8 ∣ data.length) (h : off + len ≤ data.length) :
    ∃ s, fromBytesIO data (some (off : Int)) (some (len : Int)) = .ok s ∧
      logical s = window data off len ∧ StoreInv s := by
  sorry

theorem fromBitarray_window (data : Bits) (off len : Nat) (h : off + len ≤ data.length) :
    ∃ s, fromBitarray data (some (off : Int)) (some (len : Int)) = .ok s ∧
      logical s = window data off len ∧ StoreInv s := by
  sorry

theorem fromBitarray_beyond (data : Bits) (off len : Nat) (h : data.length < off + len) :
    fromBitarray data (some (off : Int)) (some (len : Int)) = .error .value := by
  sorry

/-! ### (2) every store-level operation is a function of the logical content -/

theorem len_logical (s : Store) (h : StoreInv s) : len s = (logical s).length := by
  sorry

theorem tobytes_logical (s : Store) (h : StoreInv s) : toBitsForBytes s = logical s := by
  sorry

theorem eq_iff_logical (a b : Store) (ha : StoreInv a) (hb : StoreInv b) :
    eqStore a b = true ↔ logical a = logical b := by
  sorry

theorem count_logical (s : Store) (h : StoreInv s) : count1 s = ((logical s).filter id).length := by
  sorry

theorem getIndex_logical (s : Store) (h : StoreInv s) (i : Int) : getIndex s i = Py.getIndex (logical s) i := by
  sorry

theorem anyAll_logical (s : Store) (h : StoreInv s) :
    anySet s = (logical s).any id ∧ allSet s = (logical s).all id := by
  sorry

theorem copy_logical (s : Store) (h : StoreInv s) :
    logical (copyStore s) = logical s ∧ StoreInv (copyStore s) := by
  sorry

theorem invert_logical (s : Store) (h : StoreInv s) :
    logical (invertAll s) = (logical s).map (!·) ∧ StoreInv (invertAll s) := by
  sorry

theorem add_logical (a b : Store) (ha : StoreInv a) (hb : StoreInv b) :
    logical (addStore a b) = logical a ++ logical b ∧ StoreInv (addStore a b) := by
  sorry

theorem and_logical (a b : Store) (ha : StoreInv a) (hb : StoreInv b) :
    (andStore a b).map logical =
      (if (logical a).length ≠ (logical b).length then .error .value
       else .ok (List.zipWith (· && ·) (logical a) (logical b))) := by
  sorry

theorem getSlice_logical (s : Store) (h : StoreInv s) (a e : Option Int) :
    (getSlice s a e).map logical = Py.getSlice (logical s) a e none := by
  sorry

/-- The congruence the property states: equal content ⇒ equal observations, whatever the two stores are. -/
theorem ops_depend_on_content (s₁ s₂ : Store) (h₁ : StoreInv s₁) (h₂ : StoreInv s₂)
    (hc : logical s₁ = logical s₂) :
    len s₁ = len s₂ ∧ toBitsForBytes s₁ = toBitsForBytes s₂ ∧ count1 s₁ = count1 s₂ ∧
    (∀ i, getIndex s₁ i = getIndex s₂ i) ∧ anySet s₁ = anySet s₂ ∧ allSet s₁ = allSet s₂ ∧
    eqStore s₁ s₂ = true ∧
    (∀ a e, (getSlice s₁ a e).map logical = (getSlice s₂ a e).map logical) ∧
    logical (invertAll s₁) = logical (invertAll s₂) ∧
    (∀ t, StoreInv t → logical (addStore s₁ t) = logical (addStore s₂ t)) := by
  sorry

/-- Why `StoreInv` matters: a store with a length limit shorter than its buffer (what the pinned tree built for
    `Bits(filename=f, length=12)`) is told apart from its own bits by the raw-buffer methods. -/
theorem limited_store_distinguishable :
    ∃ s : Store, ¬ StoreInv s ∧ count1 s ≠ count1 (ofBits (logical s)) ∧ eqStore s (ofBits (logical s)) = false := by
  sorry

/-! ### non-vacuity -/
example : (fromFile [true,true,true,true,false,false,false,false,true,false,true,false] (some 0) (some 6)).map logical
    = .ok [true,true,true,true,false,false] := by decide
example : (fromBytesIO [true,true,true,true,false,false,false,false,true,false,true,false,true,true,false,false] (some 3) (some 9)).map logical
    = .ok [true,false,false,false,false,true,false,true,false] := by decide

end BM.C08
