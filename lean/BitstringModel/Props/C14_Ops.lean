/-
  Props/C14_Ops.lean — element-wise operators and type promotion.
  `f` is the Python operator partially applied (`fun v => v + k`, returning `.error` where Python raises); the result
  dtype `cr` is the Array's own dtype, `bool` for comparisons, or the promoted dtype.  Hypotheses as in Props/C14.lean.
-/
import BitstringModel.Model.C14
import BitstringModel.Proofs.C14
import BitstringModel.Proofs.C14Ops

namespace BM.C14
open BM

variable {V : Type}

/-! ### Array ⊕ scalar -/

/-- "Element-wise … operators equal mapping the Python operator over the items": when the operator succeeds on every
    item and every result fits the result dtype, the new Array's data is the results' encodings back to back. -/
theorem op_map (c cr : Codec V) (hL : 0 < c.w) (hwfr : cr.WF)
    (f : V → Except Err V) (d : Bits) (rs : List V) (bs : List Bits)
    (hf : (items c d).mapM f = .ok rs) (henc : rs.mapM cr.enc = .ok bs) :
    applyOp c cr f d = .ok bs.flatten := by
  obtain ⟨bl, t, hbl, ht, rfl, hch, htr, hlen, hit⟩ := blocks_view c hL d
  rw [hit] at hf
  have hfa := build_forall₂ cr hwfr f c.dec bl rs bs hf henc
  unfold applyOp
  rw [hlen, List.range_eq_range']
  have h := opLoop_ok c cr f bl t hbl bl.length 0 (by omega) bs (by simpa using hfa) [] 0
  rw [h]
  simp

/-- … so its items are the mapped items and it has no trailing bits. -/
theorem op_map_items (c cr : Codec V) (hL : 0 < c.w) (hLr : 0 < cr.w) (hwfr : cr.WF)
    (f : V → Except Err V) (g : V → V) (d : Bits)
    (hf : ∀ v ∈ items c d, f v = .ok (g v)) (hfit : ∀ v ∈ items c d, fits cr (g v) = true) :
    ∃ r, applyOp c cr f d = .ok r ∧ items cr r = (items c d).map g ∧ trailing cr.w r = [] := by
  have hmap : (items c d).mapM f = .ok ((items c d).map g) := mapM_except_ok f g _ hf
  have hall : ((items c d).map g).all (fits cr) = true := by
    rw [List.all_eq_true]
    intro x hx
    obtain ⟨v, hv, rfl⟩ := List.mem_map.mp hx
    exact hfit v hv
  obtain ⟨bl, _, hbl, hdec, hm, _⟩ := encs_of_fits cr hwfr _ hall
  refine ⟨bl.flatten, op_map c cr hL hwfr f d _ bl hmap hm, ?_, ?_⟩
  · have hv := view_of_blocks cr hLr bl [] hbl hLr
    rw [List.append_nil] at hv
    rw [hv.1, hdec]
  · have hv := view_of_blocks cr hLr bl [] hbl hLr
    rw [List.append_nil] at hv
    exact hv.2.1

/-- "a result that does not fit raises" (also: the operator itself raising on an item, e.g. division by zero). -/
theorem op_raises (c cr : Codec V) (hL : 0 < c.w) (f : V → Except Err V) (d : Bits)
    (v : V) (hv : v ∈ items c d) (e : Err) (hfail : buildResult cr (f v) = .error e) :
    ∃ e', applyOp c cr f d = .error e' := by
  obtain ⟨bl, t, hbl, ht, rfl, hch, htr, hlen, hit⟩ := blocks_view c hL d
  rw [hit] at hv
  obtain ⟨b, hb, rfl⟩ := List.mem_map.mp hv
  unfold applyOp
  rw [hlen, List.range_eq_range']
  have h := opLoop_fails c cr f bl t hbl bl.length 0 (by omega) [] 0
  revert h
  cases opLoop c cr f (bl.flatten ++ t) (List.range' 0 bl.length) [] 0 with
  | error e' => intro _; exact ⟨e', rfl⟩
  | ok r =>
    obtain ⟨nd', fails'⟩ := r
    simp only
    rintro ⟨_, h2⟩
    have : 0 < fails' := h2 ⟨b, by simpa using hb, e, hfail⟩
    have hne : fails' ≠ 0 := by omega
    rw [if_pos hne]
    exact ⟨_, rfl⟩

/-- "a failing in-place operator leaves the Array unchanged". -/
theorem op_fail_atomic (c : Codec V) (f : V → Except Err V) (d : Bits) (e : Err)
    (h : (applyOpInplace c f d).res = .error e) : (applyOpInplace c f d).data = d := by
  revert h
  unfold applyOpInplace
  split
  · intro _; rfl
  · intro h; cases h

/-- A succeeding in-place operator stores exactly what the non-in-place one returns. -/
theorem op_inplace_eq (c : Codec V) (f : V → Except Err V) (d nd : Bits) (h : applyOp c c f d = .ok nd) :
    applyOpInplace c f d = ⟨nd, .ok ()⟩ := by
  unfold applyOpInplace
  rw [h]

theorem op_inplace_fails_iff (c : Codec V) (f : V → Except Err V) (d : Bits) :
    (∃ e, (applyOpInplace c f d).res = .error e) ↔ ∃ e, applyOp c c f d = .error e := by
  unfold applyOpInplace
  cases h : applyOp c c f d with
  | error e => simp
  | ok nd => simp

/-! ### scalar - Array -/

/-- `k - A` = mapping `x ↦ k - x` (`g`) over the items when every result fits (one pass, no intermediate negation). -/
theorem rsub_map (c : Codec V) (hL : 0 < c.w) (hwf : c.WF) (frsub : V → Except Err V) (g : V → V) (d : Bits)
    (hf : ∀ v ∈ items c d, frsub v = .ok (g v)) (hfit : ∀ v ∈ items c d, fits c (g v) = true) :
    ∃ r, rsub c frsub d = .ok r ∧ items c r = (items c d).map g ∧ trailing c.w r = [] := by
  unfold rsub
  exact op_map_items c c hL hL hwf frsub g d hf hfit

/-! ### bit-wise operators with a Bits value -/

/-- In place: every item's bits are combined with the value, the trailing bits stay. -/
theorem bitwise_inplace_map (c : Codec V) (hL : 0 < c.w) (op : Bool → Bool → Bool) (d v : Bits)
    (hv : v.length = c.w) :
    (bitwiseInplace c op d v).res = .ok () ∧
    chunks c.w (bitwiseInplace c op d v).data = (chunks c.w d).map (fun b => List.zipWith op b v) ∧
    trailing c.w (bitwiseInplace c op d v).data = trailing c.w d := by
  obtain ⟨bs, t, hbs, ht, rfl, hch, htr, hlen, hit⟩ := blocks_view c hL d
  rw [bitwiseInplace_blocks c hL op v hv bs t hbs ht, hch, htr]
  have hv' := view_of_blocks c hL _ t (map_blocks_length c.w op v hv bs hbs) ht
  exact ⟨rfl, hv'.2.2.1, hv'.2.1⟩

theorem bitwise_wrong_length (c : Codec V) (op : Bool → Bool → Bool) (d v : Bits) (hv : v.length ≠ c.w) :
    (bitwiseInplace c op d v).res = .error .value ∧ (bitwiseInplace c op d v).data = d ∧
    ∃ e, bitwise c op d v = .error e := by
  have h1 : bitwiseInplace c op d v = ⟨d, .error .value⟩ := by
    unfold bitwiseInplace; rw [if_pos hv]
  refine ⟨by rw [h1], by rw [h1], ?_⟩
  unfold bitwise
  cases hg : getSlice c d none none none with
  | error e => exact ⟨e, rfl⟩
  | ok cp =>
    simp only
    have h2 : bitwiseInplace c op cp v = ⟨cp, .error .value⟩ := by
      unfold bitwiseInplace; rw [if_pos hv]
    rw [h2]
    exact ⟨_, rfl⟩

/-- Not in place: a new Array (copy of the items, no trailing bits) with every item combined. -/
theorem bitwise_map (c : Codec V) (hL : 0 < c.w) (op : Bool → Bool → Bool) (d v : Bits)
    (hv : v.length = c.w) :
    bitwise c op d v = .ok ((chunks c.w d).map fun b => List.zipWith op b v).flatten := by
  obtain ⟨bs, t, hbs, ht, rfl, hch, htr, hlen, hit⟩ := blocks_view c hL d
  unfold bitwise
  rw [getSlice_all_blocks c hL bs t hbs ht, hch]
  simp only
  have h := bitwiseInplace_blocks c hL op v hv bs [] hbs hL
  rw [List.append_nil, List.append_nil] at h
  rw [h]

/-! ### Array ⊕ Array -/

theorem between_map (c1 c2 cr : Codec V) (hL1 : 0 < c1.w) (hL2 : 0 < c2.w)
    (hwfr : cr.WF) (f : V → V → Except Err V) (d1 d2 : Bits) (rs : List V) (bs : List Bits)
    (hlen : (items c1 d1).length = (items c2 d2).length)
    (hf : ((items c1 d1).zip (items c2 d2)).mapM (fun p => f p.1 p.2) = .ok rs) (henc : rs.mapM cr.enc = .ok bs) :
    betweenArrays c1 c2 cr f d1 d2 = .ok bs.flatten := by
  obtain ⟨bs1, t1, hbs1, ht1, rfl, _, _, hlen1, hit1⟩ := blocks_view c1 hL1 d1
  obtain ⟨bs2, t2, hbs2, ht2, rfl, _, _, hlen2, hit2⟩ := blocks_view c2 hL2 d2
  rw [hit1, hit2] at hf hlen
  simp only [List.length_map] at hlen
  have hz : (bs1.map c1.dec).zip (bs2.map c2.dec) = (bs1.zip bs2).map (fun p => (c1.dec p.1, c2.dec p.2)) := by
    rw [List.zip_map]; rfl
  rw [hz] at hf
  have hfa := build_forall₂ cr hwfr (fun (q : V × V) => f q.1 q.2) (fun (p : Bits × Bits) => (c1.dec p.1, c2.dec p.2))
    (bs1.zip bs2) rs bs hf henc
  unfold betweenArrays
  rw [hlen1, hlen2, if_neg (not_not.mpr hlen), List.range_eq_range']
  have h := opLoop2_ok c1 c2 cr f bs1 t1 hbs1 bs2 t2 hbs2 bs1.length 0 (by omega) (by omega) bs
    (by rw [List.drop_zero, List.drop_zero, List.take_length, hlen, List.take_length]; exact hfa) [] 0
  rw [h]
  simp

theorem between_length_mismatch (c1 c2 cr : Codec V)
    (f : V → V → Except Err V) (d1 d2 : Bits) (hlen : (items c1 d1).length ≠ (items c2 d2).length) :
    betweenArrays c1 c2 cr f d1 d2 = .error .value := by
  unfold betweenArrays
  have : len c1 d1 ≠ len c2 d2 := by
    rw [len_eq' c1, len_eq' c2]; exact hlen
  rw [if_pos this]

/-- `==` / `!=` between Arrays is the element-wise comparison into `bool`, whatever the two dtypes. -/
theorem eqNe_arrays (c cb c2 : Codec V) (f : V → V → Except Err V) (d d2 : Bits) :
    eqNeArrays c cb f d c2 d2 = betweenArrays c c2 cb f d d2 := by
  rfl

/-! ### type promotion: the code of `_promotetype` against the documented rules -/

/-- A dtype name determines its kind and signedness (the register is a function of the name). -/
def SameNameSameKind (t1 t2 : DT) : Prop := t1.name = t2.name → t1.rt = t2.rt ∧ t1.signed = t2.signed

/-- The branch structure of `_promotetype` computes the documented rules applied in order. -/
theorem promote_eq_spec (t1 t2 : DT) (h : SameNameSameKind t1 t2) : promote t1 t2 = promoteSpec t1 t2 := by
  obtain ⟨n1, l1, r1, s1⟩ := t1
  obtain ⟨n2, l2, r2, s2⟩ := t2
  unfold SameNameSameKind at h
  simp only at h
  unfold promote promoteSpec DT.isFloat DT.isInt
  by_cases hn : n1 = n2
  · obtain ⟨hr, hs⟩ := h hn
    subst hn hr hs
    rcases Nat.lt_trichotomy l1 l2 with hl | hl | hl
    · have h1 : ¬ l1 > l2 := by omega
      cases r1 <;> cases s1 <;> simp (config := {decide := true}) [h1, hl]
    · subst hl
      cases r1 <;> cases s1 <;> simp (config := {decide := true})
    · have h1 : ¬ l2 > l1 := by omega
      cases r1 <;> cases s1 <;> simp (config := {decide := true}) [h1, hl]
  · cases r1 <;> cases r2 <;> cases s1 <;> cases s2 <;> simp (config := {decide := true}) [hn] <;> (try (split <;> rfl))

/-- Rule "one of the two types gets returned. We never create a new one." -/
theorem promote_returns_operand (t1 t2 t : DT) (h : promote t1 t2 = .ok t) : t = t1 ∨ t = t2 := by
  unfold promote at h
  repeat' split at h
  all_goals (cases h <;> first | exact Or.inl rfl | exact Or.inr rfl)

/-- Rule "we only deal with types representing floats or integers". -/
theorem promote_error_iff (t1 t2 : DT) :
    (∃ e, promote t1 t2 = .error e) ↔ ¬ ((t1.isFloat ∨ t1.isInt) ∧ (t2.isFloat ∨ t2.isInt)) := by
  obtain ⟨n1, l1, r1, s1⟩ := t1
  obtain ⟨n2, l2, r2, s2⟩ := t2
  unfold promote DT.isFloat DT.isInt
  by_cases hn : n1 = n2 <;>
  cases r1 <;> cases r2 <;> cases s1 <;> cases s2 <;> simp (config := {decide := true}) [hn]

/-- Rule 1: floats beat integers, whatever the widths and the order. -/
theorem promote_float_beats_int (t1 t2 : DT) (h : SameNameSameKind t1 t2) (h1 : t1.isFloat = true) (h2 : t2.isInt = true) :
    promote t1 t2 = .ok t1 ∧ promote t2 t1 = .ok t1 := by
  obtain ⟨n1, l1, r1, s1⟩ := t1
  obtain ⟨n2, l2, r2, s2⟩ := t2
  unfold SameNameSameKind at h
  unfold DT.isFloat at h1
  unfold DT.isInt at h2
  simp only at h h1 h2
  have hn : n1 ≠ n2 := by
    intro hn
    obtain ⟨hr, _⟩ := h hn
    subst hr
    cases r1 <;> simp (config := {decide := true}) at h1 h2
  have hn' : n2 ≠ n1 := fun e => hn e.symm
  unfold promote DT.isFloat DT.isInt
  cases r1 <;> cases r2 <;> simp (config := {decide := true}) at h1 h2 <;>
    cases s1 <;> cases s2 <;> simp (config := {decide := true}) [hn, hn']

/-- Rule 2: signed integers beat unsigned integers, whatever the widths and the order. -/
theorem promote_signed_beats_unsigned (t1 t2 : DT) (h1 : t1.isInt = true) (h2 : t2.isInt = true)
    (hs1 : t1.signed = true) (hs2 : t2.signed = false) (h : SameNameSameKind t1 t2) :
    promote t1 t2 = .ok t1 ∧ promote t2 t1 = .ok t1 := by
  obtain ⟨n1, l1, r1, s1⟩ := t1
  obtain ⟨n2, l2, r2, s2⟩ := t2
  unfold SameNameSameKind at h
  unfold DT.isInt at h1 h2
  simp only at h h1 h2 hs1 hs2
  subst hs1 hs2
  have hn : n1 ≠ n2 := by
    intro hn
    obtain ⟨_, hs⟩ := h hn
    cases hs
  have hn' : n2 ≠ n1 := fun e => hn e.symm
  unfold promote DT.isFloat DT.isInt
  cases r1 <;> cases r2 <;> simp (config := {decide := true}) at h1 h2 <;>
    simp (config := {decide := true}) [hn, hn']

/-- Rule 3: otherwise (both floats, or integers of the same signedness) the longer wins, in either order. -/
theorem promote_longer_wins (t1 t2 : DT) (h : SameNameSameKind t1 t2)
    (hk : (t1.isFloat = true ∧ t2.isFloat = true) ∨ (t1.isInt = true ∧ t2.isInt = true ∧ t1.signed = t2.signed))
    (hl : t1.L < t2.L) :
    promote t1 t2 = .ok t2 ∧ promote t2 t1 = .ok t2 := by
  obtain ⟨n1, l1, r1, s1⟩ := t1
  obtain ⟨n2, l2, r2, s2⟩ := t2
  unfold DT.isFloat DT.isInt at hk
  simp only at hk hl
  have h1 : ¬ l1 > l2 := by omega
  have h2 : l2 > l1 := by omega
  have h3 : ¬ l2 < l1 := by omega
  unfold promote DT.isFloat DT.isInt
  by_cases hn : n1 = n2
  · subst hn
    rcases hk with ⟨ha, hb⟩ | ⟨ha, hb, hc⟩ <;>
    cases r1 <;> cases r2 <;> (try simp (config := {decide := true}) at ha hb) <;>
      simp (config := {decide := true}) [h1, h2, h3, hl]
  · have hn' : ¬ n2 = n1 := fun e => hn e.symm
    rcases hk with ⟨ha, hb⟩ | ⟨ha, hb, hc⟩
    · cases r1 <;> cases r2 <;> (try simp (config := {decide := true}) at ha hb) <;>
        simp (config := {decide := true}) [hn, hn', h1, h2, h3, hl]
    · subst hc
      cases r1 <;> cases r2 <;> (try simp (config := {decide := true}) at ha hb) <;>
        cases s1 <;> simp (config := {decide := true}) [hn, hn', h1, h2, h3, hl]

/-- Rule 4: in a tie the first type wins. -/
theorem promote_tie_first (t1 t2 : DT) (h : SameNameSameKind t1 t2)
    (hk : (t1.isFloat = true ∧ t2.isFloat = true) ∨ (t1.isInt = true ∧ t2.isInt = true ∧ t1.signed = t2.signed))
    (hl : t1.L = t2.L) :
    promote t1 t2 = .ok t1 := by
  obtain ⟨n1, l1, r1, s1⟩ := t1
  obtain ⟨n2, l2, r2, s2⟩ := t2
  unfold SameNameSameKind at h
  unfold DT.isFloat DT.isInt at hk
  simp only at h hk hl
  subst hl
  unfold promote DT.isFloat DT.isInt
  by_cases hn : n1 = n2
  · obtain ⟨hr, hs⟩ := h hn
    subst hn hr hs
    rcases hk with ⟨ha, hb⟩ | ⟨ha, hb, hc⟩ <;>
    cases r1 <;> (try simp (config := {decide := true}) at ha hb) <;> simp (config := {decide := true})
  · rcases hk with ⟨ha, hb⟩ | ⟨ha, hb, hc⟩
    · cases r1 <;> cases r2 <;> (try simp (config := {decide := true}) at ha hb) <;>
        simp (config := {decide := true}) [hn]
    · subst hc
      cases r1 <;> cases r2 <;> (try simp (config := {decide := true}) at ha hb) <;>
        cases s1 <;> simp (config := {decide := true}) [hn]

/-! ### non-vacuity -/
example : applyOp (mkCodec .u "uint" 3 1 .int false) (mkCodec .u "uint" 3 1 .int false) (scalarFn "add" (.int 2) false)
    [false, false, true, true, false, false] = .ok [false, true, true, true, true, false] := by decide
example : (applyOpInplace (mkCodec .u "uint" 3 1 .int false) (scalarFn "add" (.int 4) false)
    [false, false, true, true, false, false, true]).data = [false, false, true, true, false, false, true] := by decide
example : promote ⟨"uint", 20, .int, false⟩ ⟨"int", 10, .int, true⟩ = .ok ⟨"int", 10, .int, true⟩ := by decide
example : promote ⟨"float", 16, .float, true⟩ ⟨"bfloat", 16, .float, true⟩ = .ok ⟨"float", 16, .float, true⟩ := by decide
example : promote ⟨"uint", 8, .int, false⟩ ⟨"hex", 4, .other, false⟩ = .error .value := by decide
example : promote ⟨"uintle", 16, .int, false⟩ ⟨"uintbe", 16, .int, false⟩ = .ok ⟨"uintle", 16, .int, false⟩ := by decide
example : rsub (mkCodec .u "uint" 3 1 .int false) (scalarFn "sub" (.int 5) true) [false, false, true] = .ok [true, false, false] := by decide
example : eqNeArrays (mkCodec .i "int" 3 1 .int true) boolCodec (pyBinV "eq") [false, false, true]
    (mkCodec .u "uint" 3 1 .int false) [false, false, true] = .ok [true] := by decide

end BM.C14
