/-
  Props/C14_Ops.lean — element-wise operators and type promotion.
  `f` is the Python operator partially applied (`fun v => v + k`, returning `.error` where Python raises); the result
  dtype `cr` is the Array's own dtype, `bool` for comparisons, or the promoted dtype.  Hypotheses as in Props/C14.lean.
-/
import BitstringModel.Model.C14
import BitstringModel.Proofs.C14
import BitstringModel.Proofs.C14Ops

namespace BM.C14
open BM

variable {V : Type}

/-! ### Array ⊕ scalar -/

/-- "Element-wise … operators equal mapping the Python operator over the items": when the operator succeeds on every
    item and every result fits the result dtype, the new Array's data is the results' encodings back to back. -/
theorem op_map (c cr : Codec V) (hu : c.mult = 1) (hL : 0 < c.L) (hur : cr.mult = 1) (hwfr : cr.WF)
    (f : V → Except Err V) (d : Bits) (rs : List V) (bs : List Bits)
    (hf : (items c d).mapM f = .ok rs) (henc : rs.mapM cr.enc = .ok bs) :
    applyOp c cr f d = .ok bs.flatten := by
  sorry

/-- … so its items are the mapped items and it has no trailing bits. -/
theorem op_map_items (c cr : Codec V) (hu : c.mult = 1) (hL : 0 < c.L) (hur : cr.mult = 1) (hLr : 0 < cr.L) (hwfr : cr.WF)
    (f : V → Except Err V) (g : V → V) (d : Bits)
    (hf : ∀ v ∈ items c d, f v = .ok (g v)) (hfit : ∀ v ∈ items c d, fits cr (g v) = true) :
    ∃ r, applyOp c cr f d = .ok r ∧ items cr r = (items c d).map g ∧ trailing cr.w r = [] := by
  sorry

/-- "a result that does not fit raises" (also: the operator itself raising on an item, e.g. division by zero). -/
theorem op_raises (c cr : Codec V) (hu : c.mult = 1) (hL : 0 < c.L) (f : V → Except Err V) (d : Bits)
    (v : V) (hv : v ∈ items c d) (e : Err) (hfail : buildResult cr (f v) = .error e) :
    ∃ e', applyOp c cr f d = .error e' := by
  sorry

/-- "a failing in-place operator leaves the Array unchanged". -/
theorem op_fail_atomic (c : Codec V) (f : V → Except Err V) (d : Bits) (e : Err)
    (h : (applyOpInplace c f d).res = .error e) : (applyOpInplace c f d).data = d := by
  sorry

/-- A succeeding in-place operator stores exactly what the non-in-place one returns. -/
theorem op_inplace_eq (c : Codec V) (f : V → Except Err V) (d nd : Bits) (h : applyOp c c f d = .ok nd) :
    applyOpInplace c f d = ⟨nd, .ok ()⟩ := by
  sorry

theorem op_inplace_fails_iff (c : Codec V) (f : V → Except Err V) (d : Bits) :
    (∃ e, (applyOpInplace c f d).res = .error e) ↔ ∃ e, applyOp c c f d = .error e := by
  sorry

/-! ### scalar - Array -/

/-- `k - A` = mapping `x ↦ k - x` (`g`) over the items when every result fits — outside the region `rsub_negation`
    (some item whose negation does not fit the dtype).  `hcomp`: `(-x) + k = k - x` in Python.
    Full statement (no `hreg`) fails on the pinned tree: see `rsub_negation_witness`. -/
theorem rsub_map_partial (c : Codec V) (hu : c.mult = 1) (hL : 0 < c.L) (hwf : c.WF)
    (fneg fadd : V → Except Err V) (g : V → V) (d : Bits)
    (hreg : rsub_negation c fneg d = false)
    (hcomp : ∀ v ∈ items c d, ∀ n, fneg v = .ok n → fadd n = .ok (g v))
    (hfit : ∀ v ∈ items c d, fits c (g v) = true) :
    ∃ r, rsub c fneg fadd d = .ok r ∧ items c r = (items c d).map g ∧ trailing c.w r = [] := by
  sorry

/-- Known finding `rsub-negation`: `5 - Array('uint3', [1])` raises although `5 - 1 = 4` fits. -/
theorem rsub_negation_witness :
    let c := mkCodec .u "uint" 3 1 .int false
    rsub_negation c (pyUn "neg") [false, false, true] = true ∧
    rsub c (pyUn "neg") (scalarFn "add" (.int 5) false) [false, false, true] = .error .value ∧
    applyOp c c (scalarFn "sub" (.int 5) true) [false, false, true] = .ok [true, false, false] := by
  decide

/-! ### bit-wise operators with a Bits value -/

/-- In place: every item's bits are combined with the value, the trailing bits stay. -/
theorem bitwise_inplace_map (c : Codec V) (hu : c.mult = 1) (hL : 0 < c.L) (op : Bool → Bool → Bool) (d v : Bits)
    (hv : v.length = c.L) :
    (bitwiseInplace c op d v).res = .ok () ∧
    chunks c.w (bitwiseInplace c op d v).data = (chunks c.w d).map (fun b => List.zipWith op b v) ∧
    trailing c.w (bitwiseInplace c op d v).data = trailing c.w d := by
  sorry

theorem bitwise_wrong_length (c : Codec V) (op : Bool → Bool → Bool) (d v : Bits) (hv : v.length ≠ c.L) :
    (bitwiseInplace c op d v).res = .error .value ∧ (bitwiseInplace c op d v).data = d ∧
    ∃ e, bitwise c op d v = .error e := by
  sorry

/-- Not in place: a new Array (copy of the items, no trailing bits) with every item combined. -/
theorem bitwise_map (c : Codec V) (hu : c.mult = 1) (hL : 0 < c.L) (op : Bool → Bool → Bool) (d v : Bits)
    (hv : v.length = c.L) :
    bitwise c op d v = .ok ((chunks c.w d).map fun b => List.zipWith op b v).flatten := by
  sorry

/-! ### Array ⊕ Array -/

theorem between_map (c1 c2 cr : Codec V) (hu1 : c1.mult = 1) (hL1 : 0 < c1.L) (hu2 : c2.mult = 1) (hL2 : 0 < c2.L)
    (hur : cr.mult = 1) (hwfr : cr.WF) (f : V → V → Except Err V) (d1 d2 : Bits) (rs : List V) (bs : List Bits)
    (hlen : (items c1 d1).length = (items c2 d2).length)
    (hf : ((items c1 d1).zip (items c2 d2)).mapM (fun p => f p.1 p.2) = .ok rs) (henc : rs.mapM cr.enc = .ok bs) :
    betweenArrays c1 c2 cr f d1 d2 = .ok bs.flatten := by
  sorry

theorem between_length_mismatch (c1 c2 cr : Codec V) (hu1 : c1.mult = 1) (hu2 : c2.mult = 1)
    (f : V → V → Except Err V) (d1 d2 : Bits) (hlen : (items c1 d1).length ≠ (items c2 d2).length) :
    betweenArrays c1 c2 cr f d1 d2 = .error .value := by
  sorry

/-- `==` / `!=` between Arrays is the element-wise comparison into `bool` — for operands of the same dtype
    (outside the region `eq_ne_arrays_mixed_dtype`). -/
theorem eqNe_arrays_partial (c cb c2 : Codec V) (f : V → V → Except Err V) (d d2 : Bits)
    (hreg : eq_ne_arrays_mixed_dtype c c2 = false) :
    eqNeArrays c cb f d c2 d2 = betweenArrays c c cb f d d2 := by
  sorry

/-- Known finding `eq-ne-mixed-dtype`: `Array('int3', [1]) == Array('uint3', [1])` raises TypeError (doc/array.rst shows
    `a == b` for `'u8'` and `'i8'` Arrays giving an Array of bools), while `<` between the same operands works. -/
theorem eq_ne_arrays_mixed_dtype_witness :
    let c := mkCodec .i "int" 3 1 .int true
    let c2 := mkCodec .u "uint" 3 1 .int false
    eq_ne_arrays_mixed_dtype c c2 = true ∧
    eqNeArrays c boolCodec (pyBinV "eq") [false, false, true] c2 [false, false, true] = .error .type ∧
    betweenArrays c c2 boolCodec (pyBinV "eq") [false, false, true] [false, false, true] = .ok [true] ∧
    betweenArrays c c2 boolCodec (pyBinV "lt") [false, false, true] [false, false, true] = .ok [false] := by
  decide

/-! ### type promotion: the code of `_promotetype` against the documented rules -/

/-- A dtype name determines its kind and signedness (the register is a function of the name). -/
def SameNameSameKind (t1 t2 : DT) : Prop := t1.name = t2.name → t1.rt = t2.rt ∧ t1.signed = t2.signed

/-- The branch structure of `_promotetype` computes the documented rules applied in order. -/
theorem promote_eq_spec (t1 t2 : DT) (h : SameNameSameKind t1 t2) : promote t1 t2 = promoteSpec t1 t2 := by
  sorry

/-- Rule "one of the two types gets returned. We never create a new one." -/
theorem promote_returns_operand (t1 t2 t : DT) (h : promote t1 t2 = .ok t) : t = t1 ∨ t = t2 := by
  sorry

/-- Rule "we only deal with types representing floats or integers". -/
theorem promote_error_iff (t1 t2 : DT) :
    (∃ e, promote t1 t2 = .error e) ↔ ¬ ((t1.isFloat ∨ t1.isInt) ∧ (t2.isFloat ∨ t2.isInt)) := by
  sorry

/-- Rule 1: floats beat integers, whatever the widths and the order. -/
theorem promote_float_beats_int (t1 t2 : DT) (h1 : t1.isFloat = true) (h2 : t2.isInt = true) :
    promote t1 t2 = .ok t1 ∧ promote t2 t1 = .ok t1 := by
  sorry

/-- Rule 2: signed integers beat unsigned integers, whatever the widths and the order. -/
theorem promote_signed_beats_unsigned (t1 t2 : DT) (h1 : t1.isInt = true) (h2 : t2.isInt = true)
    (hs1 : t1.signed = true) (hs2 : t2.signed = false) :
    promote t1 t2 = .ok t1 ∧ promote t2 t1 = .ok t1 := by
  sorry

/-- Rule 3: otherwise (both floats, or integers of the same signedness) the longer wins, in either order. -/
theorem promote_longer_wins (t1 t2 : DT) (h : SameNameSameKind t1 t2)
    (hk : (t1.isFloat = true ∧ t2.isFloat = true) ∨ (t1.isInt = true ∧ t2.isInt = true ∧ t1.signed = t2.signed))
    (hl : t1.L < t2.L) :
    promote t1 t2 = .ok t2 ∧ promote t2 t1 = .ok t2 := by
  sorry

/-- Rule 4: in a tie the first type wins. -/
theorem promote_tie_first (t1 t2 : DT) (h : SameNameSameKind t1 t2)
    (hk : (t1.isFloat = true ∧ t2.isFloat = true) ∨ (t1.isInt = true ∧ t2.isInt = true ∧ t1.signed = t2.signed))
    (hl : t1.L = t2.L) :
    promote t1 t2 = .ok t1 := by
  sorry

/-! ### non-vacuity -/
example : applyOp (mkCodec .u "uint" 3 1 .int false) (mkCodec .u "uint" 3 1 .int false) (scalarFn "add" (.int 2) false)
    [false, false, true, true, false, false] = .ok [false, true, true, true, true, false] := by decide
example : (applyOpInplace (mkCodec .u "uint" 3 1 .int false) (scalarFn "add" (.int 4) false)
    [false, false, true, true, false, false, true]).data = [false, false, true, true, false, false, true] := by decide
example : promote ⟨"uint", 20, .int, false⟩ ⟨"int", 10, .int, true⟩ = .ok ⟨"int", 10, .int, true⟩ := by decide
example : promote ⟨"float", 16, .float, true⟩ ⟨"bfloat", 16, .float, true⟩ = .ok ⟨"float", 16, .float, true⟩ := by decide
example : promote ⟨"uint", 8, .int, false⟩ ⟨"hex", 4, .other, false⟩ = .error .value := by decide

end BM.C14
