/-
  Model/C03.lean — in-place mutations of BitArray / BitStream (msb0 mode; content only, `pos` is C06).

  SPEC  (`BM.C03.Spec`): every mutator as one list expression on `List Bool`.
  ALG   (`BM.C03.Alg`) : the code paths of bitstring/bitarray_.py, bits.py, bitstream.py, transcribed function by
                         function.  `bitarray` (C) item/slice assignment and deletion are modelled by Python list
                         semantics (`BM.C03.PyL`), exactly as `BitStore.setitem_msb0/delitem_msb0` hand them through.
  References are `file: def name` (line numbers as of the tree the model was written against, they move with
  the owner's `fix:` commits).

  The deviations of the pinned tree found while building this property (byteswap without repeat past `end`, rol/ror
  on an empty range, overwrite with self, `set` over a `range`, integer assignment to a step −1 slice, `set()` on an
  empty bitstring, empty operand at an invalid position, `replace(count=0)` unvalidated) were all repaired in /repo by
  `fix:` commits; ALG transcribes the repaired code and ALG = SPEC holds without side conditions.
-/
import BitstringModel.Model.Basic
import BitstringModel.Model.C01
import BitstringModel.Model.C16
namespace BM.C03

/-! ## Small list vocabulary -/

/-- `l[a:b]` for non-negative `a`, `b` (Python clamps at the end; empty when `b ≤ a`). -/
def slc {α} (l : List α) (a b : Nat) : List α := (l.drop a).take (b - a)

/-- `l[a:b] = v` for non-negative `a ≤ b` (list splice). -/
def splice {α} (l : List α) (a b : Nat) (v : List α) : List α := l.take a ++ v ++ l.drop b

/-! ## Python list primitives: what `bitarray.__setitem__/__delitem__` do (bitstore.py: setitem_msb0, delitem_msb0) -/
namespace PyL

/-- An index as CPython normalises it: negative counts from the end; `none` = IndexError. -/
def normIdx (n : Nat) (i : Int) : Option Nat :=
  let j := if i < 0 then i + (n : Int) else i
  if 0 ≤ j ∧ j < (n : Int) then some j.toNat else none

/-- The positions selected by `slice(start, stop, step)` on a sequence of length `n`, in slice order. -/
def slicePositions (start stop : Option Int) (step : Int) (n : Nat) : List Nat :=
  let r := Py.sliceIndices start stop step n
  (Py.rangeList r.1 r.2.1 step).map Int.toNat

/-- `l[idx[k]] = v[k]` for every k. -/
def assignAt {α} : List α → List Nat → List α → List α
  | l, i :: is, x :: xs => assignAt (l.set i x) is xs
  | l, _, _ => l

/-- `l` without the elements at the positions `idx`. -/
def removeAt {α} (l : List α) (idx : List Nat) : List α :=
  (List.range l.length).filterMap fun i => if i ∈ idx then none else l[i]?

/-- `l[start:stop:step] = v` (CPython `list_ass_subscript`; bitarray follows it): step 1 splices,
    an extended slice needs `len(v)` equal to the number of selected positions (else ValueError). -/
def setSlice {α} (l : List α) (start stop step : Option Int) (v : List α) : Except Err (List α) :=
  let st := step.getD 1
  if st = 0 then .error .value else
  if st = 1 then
    let r := Py.sliceIndices start stop 1 l.length
    .ok (splice l r.1.toNat (max r.1 r.2.1).toNat v)
  else
    let idx := slicePositions start stop st l.length
    if idx.length ≠ v.length then .error .value else .ok (assignAt l idx v)

/-- `bitarray[start:stop:step] = 0 | 1`: every selected position is set. -/
def setSliceScalar (l : Bits) (start stop step : Option Int) (v : Bool) : Except Err Bits :=
  let st := step.getD 1
  if st = 0 then .error .value else
  .ok ((slicePositions start stop st l.length).foldl (fun acc i => acc.set i v) l)

/-- `del l[start:stop:step]`. -/
def delSlice {α} (l : List α) (start stop step : Option Int) : Except Err (List α) :=
  let st := step.getD 1
  if st = 0 then .error .value else
  .ok (removeAt l (slicePositions start stop st l.length))

/-- `l[i] = v` (IndexError outside `[-n, n)`). -/
def setIndex {α} (l : List α) (i : Int) (v : α) : Except Err (List α) :=
  match normIdx l.length i with
  | none => .error .index
  | some j => .ok (l.set j v)

/-- `del l[i]`. -/
def delIndex {α} (l : List α) (i : Int) : Except Err (List α) :=
  match normIdx l.length i with
  | none => .error .index
  | some j => .ok (l.eraseIdx j)

end PyL

/-! ## Shared vocabulary of both layers -/

/-- A bitstring operand: a value, or the very object being mutated (`a.insert(a, 2)`). -/
inductive Operand where
  | lit (b : Bits)
  | self
  deriving Repr, DecidableEq

def Operand.val (l : Bits) : Operand → Bits
  | .lit b => b
  | .self => l

def Operand.isSelf : Operand → Bool
  | .self => true
  | _ => false

/-- Right-hand side of an item / slice assignment. -/
inductive Value where
  | int (v : Int)
  | bits (o : Operand)
  deriving Repr, DecidableEq

/-- The `pos` argument of `set` / `invert`. -/
inductive PosArg where
  | all
  | one (i : Int)
  | many (ps : List Int)
  | range (a b c : Int)
  deriving Repr, DecidableEq

/-- The `fmt` argument of `byteswap`. -/
inductive Fmt where
  | none
  | int (k : Int)
  | sizes (ks : List Int)
  | str (s : String)
  deriving Repr, DecidableEq

/-- What a mutator returns: `None`, or an int (`replace`, `byteswap`). -/
inductive Ret where
  | none
  | int (n : Int)
  deriving Repr, DecidableEq

deriving instance DecidableEq for Except

/-- Result of one step on one object: the return value or the exception, and the content afterwards
    (also after an exception — unchanged except for the partial prefix of `set`/`invert` over an iterable). -/
structure Outcome where
  ret : Except Err Ret
  bits : Bits
  deriving Repr, DecidableEq

/-- An operation that either succeeds with a new content or raises leaving the content alone. -/
def atomic (l : Bits) (r : Except Err Bits) : Outcome :=
  match r with
  | .ok b => ⟨.ok .none, b⟩
  | .error e => ⟨.error e, l⟩

def atomicRet (l : Bits) (r : Except Err (Nat × Bits)) : Outcome :=
  match r with
  | .ok (k, b) => ⟨.ok (.int k), b⟩
  | .error e => ⟨.error e, l⟩

/-- A bound of `_validate_slice`: `None` → the default, a negative value counts from the end. -/
def boundOr (n : Nat) (dflt : Int) : Option Int → Int
  | none => dflt
  | some x => if x < 0 then x + (n : Int) else x

/-- `Bits._validate_slice` (bits.py: def _validate_slice): negative bounds count from the end,
    `None` = 0 / len; valid iff `0 ≤ start ≤ end ≤ len`.  This is also the property's notion of a valid range. -/
def validateSlice (n : Nat) (start end_ : Option Int) : Except Err (Nat × Nat) :=
  let s := boundOr n 0 start
  let e := boundOr n (n : Int) end_
  if 0 ≤ s ∧ s ≤ e ∧ e ≤ (n : Int) then .ok (s.toNat, e.toNat) else .error .value

/-- Byte sizes of the struct codes (utils.py: PACK_CODE_SIZE). -/
def packCodeSize : Char → Option Nat
  | 'b' | 'B' => some 1
  | 'h' | 'H' | 'e' => some 2
  | 'l' | 'L' | 'i' | 'I' | 'f' => some 4
  | 'q' | 'Q' | 'd' => some 8
  | _ => none

/-- Tokens `\d*[bBhHlLiIqQefd]` of a byteswap format, expanded (`4h → h h h h`); `none` = no match of
    BYTESWAP_STRUCT_PACK_RE (utils.py).  `cnt` accumulates the digits seen so far (`none` = no digit yet). -/
def parseFmtGo : List Char → Option Nat → Option (List Nat)
  | [], none => some []
  | [], some _ => none                                  -- trailing digits without a code
  | c :: cs, cnt =>
    if c.isDigit then parseFmtGo cs (some (cnt.getD 0 * 10 + (c.toNat - '0'.toNat)))
    else match packCodeSize c with
      | none => none
      | some sz =>
        match parseFmtGo cs none with
        | none => none
        | some rest => some (List.replicate (cnt.getD 1) sz ++ rest)

/-- A compact format string: optional endianness character, then at least one token. -/
def parseFmt (s : String) : Option (List Nat) :=
  let cs := s.toList
  let body := match cs with
    | c :: rest => if c = '<' ∨ c = '>' ∨ c = '@' ∨ c = '=' then rest else cs
    | [] => []
  if body.isEmpty then none else parseFmtGo body none

/-- Reverse the order of the 8-bit groups of `b` (`bytes[::-1]`); `fuel ≥ ⌈|b|/8⌉`. -/
def revBytesAux : Nat → Bits → Bits
  | 0, _ => []
  | f + 1, b => if b.isEmpty then [] else revBytesAux f (b.drop 8) ++ b.take 8

def revBytes (b : Bits) : Bits := revBytesAux b.length b

/-- The byte sizes a `fmt` stands for on the validated range `[a, e)`
    (bitarray_.py: def byteswap, the `if fmt is None … elif …` chain). -/
def fmtSizes (f : Fmt) (a e : Nat) : Except Err (List Nat) :=
  match f with
  | .none => .ok [(e - a) / 8]
  | .int k => if k = 0 then .ok [(e - a) / 8] else if k < 0 then .error .value else .ok [k.toNat]
  | .str s => match parseFmt s with
    | none => .error .value
    | some ks => .ok ks
  | .sizes ks => if ks.any (· < 0) then .error .value else .ok (ks.map Int.toNat)

/-- Does `old` occur in `l` at position `p`? -/
def matchAt (l old : Bits) (p : Nat) : Bool := slc l p (p + old.length) == old

/-- `findall(old, s, e, bytealigned)`: every position `p` with `s ≤ p`, `p + |old| ≤ e`, `l[p:p+|old|] = old`
    (on a byte boundary if asked), ascending, overlapping occurrences included
    (bits.py: def findall / _findall_msb0, bitstore.py: def findall_msb0 — searching itself is C07's). -/
def occ (l old : Bits) (s e : Nat) (aligned : Bool) : List Nat :=
  ((List.range (e + 1 - old.length - s)).map (· + s)).filter
    fun p => matchAt l old p && (!aligned || p % 8 == 0)

/-! ## SPEC -/
namespace Spec

/-- Position of `insert`/`overwrite`: negative counts from the end, valid iff `0 ≤ p ≤ len`. -/
def insPos (n : Nat) (pos : Int) : Option Nat :=
  let p := if pos < 0 then pos + (n : Int) else pos
  if 0 ≤ p ∧ p ≤ (n : Int) then some p.toNat else none

def append (l b : Bits) : Bits := l ++ b
def prepend (l b : Bits) : Bits := b ++ l

def insert (l b : Bits) (pos : Int) : Except Err Bits :=
  match insPos l.length pos with
  | none => .error .value
  | some p => .ok (l.take p ++ b ++ l.drop p)

/-- Overwriting past the end extends the bitstring. -/
def overwrite (l b : Bits) (pos : Int) : Except Err Bits :=
  match insPos l.length pos with
  | none => .error .value
  | some p => .ok (l.take p ++ b ++ l.drop (p + b.length))

def delItem (l : Bits) (i : Int) : Except Err Bits := PyL.delIndex l i
def delSlice (l : Bits) (a b c : Option Int) : Except Err Bits := PyL.delSlice l a b c

/-- `s[i] = 0 | 1 | -1 | True | False`. -/
def setItemInt (l : Bits) (i v : Int) : Except Err Bits :=
  if v = 0 ∨ v = 1 ∨ v = -1 then PyL.setIndex l i (decide (v ≠ 0)) else .error .value

/-- `s[i] = bitstring`: the one bit at `i` is replaced by the whole value (as `s[i:i+1] = value`). -/
def setItemBits (l : Bits) (i : Int) (b : Bits) : Except Err Bits :=
  match PyL.normIdx l.length i with
  | none => .error .index
  | some j => .ok (l.take j ++ b ++ l.drop (j + 1))

def setSliceBits (l : Bits) (a b c : Option Int) (v : Bits) : Except Err Bits := PyL.setSlice l a b c v

/-- An integer as the `k`-bit value it denotes in a slice assignment: `uint` when `≥ 0`, `int` when `< 0`. -/
def intBits (k : Nat) (v : Int) : Except Err Bits :=
  if k = 0 then .error .value
  else if 0 ≤ v then (if v < (2 : Int) ^ k then .ok (natToBits k v.toNat) else .error .value)
  else (if -((2 : Int) ^ (k - 1)) ≤ v then .ok (intToBits k v) else .error .value)

/-- `s[a:b:c] = int`: for |step| = 1 the integer on as many bits as the slice selects; for other steps only
    0 / 1, written to every selected position. -/
def setSliceInt (l : Bits) (a b c : Option Int) (v : Int) : Except Err Bits :=
  let st := c.getD 1
  if st = 0 then .error .value else
  let idx := PyL.slicePositions a b st l.length
  if st = 1 ∨ st = -1 then
    match intBits idx.length v with
    | .error e => .error e
    | .ok bits => PyL.setSlice l a b c bits
  else if v = 0 ∨ v = 1 then .ok (idx.foldl (fun acc i => acc.set i (decide (v = 1))) l)
  else .error .value

/-- Greedy choice of non-overlapping occurrences, left to right, at most `budget` of them. -/
def select (oldLen : Nat) : Option Nat → Nat → List Nat → List Nat
  | _, _, [] => []
  | some 0, _, _ :: _ => []
  | b, m, x :: xs =>
    if m ≤ x then x :: select oldLen (b.map (· - 1)) (x + oldLen) xs else select oldLen b m xs

/-- Replace `oldLen` bits by `new` at each chosen position (right to left, so positions stay valid). -/
def spliceAll (l : Bits) (oldLen : Nat) (new : Bits) (sel : List Nat) : Bits :=
  sel.foldr (fun p acc => acc.take p ++ new ++ acc.drop (p + oldLen)) l

/-- `count`: `None` or negative = no limit. -/
def budget (count : Option Int) : Option Nat :=
  match count with
  | none => none
  | some c => if c < 0 then none else some c.toNat

def replace (l old new : Bits) (s e : Option Int) (count : Option Int) (aligned : Bool) : Except Err (Nat × Bits) :=
  if old.length = 0 then .error .value else
  match validateSlice l.length s e with
  | .error err => .error err
  | .ok (a, z) =>
    let sel := select old.length (budget count) 0 (occ l old a z aligned)
    .ok (sel.length, spliceAll l old.length new sel)

def reverse (l : Bits) (s e : Option Int) : Except Err Bits :=
  match validateSlice l.length s e with
  | .error err => .error err
  | .ok (a, z) => .ok (l.take a ++ (slc l a z).reverse ++ l.drop z)

/-- Rotating an empty bitstring is rejected (`bitstring.Error`), a negative amount is a ValueError;
    an empty range of a non-empty bitstring is a valid range and nothing moves. -/
def rol (l : Bits) (k : Int) (s e : Option Int) : Except Err Bits :=
  if l.length = 0 then .error .bitstring else
  if k < 0 then .error .value else
  match validateSlice l.length s e with
  | .error err => .error err
  | .ok (a, z) =>
    let mid := slc l a z
    let r := k.toNat % (z - a)
    .ok (l.take a ++ (mid.drop r ++ mid.take r) ++ l.drop z)

def ror (l : Bits) (k : Int) (s e : Option Int) : Except Err Bits :=
  if l.length = 0 then .error .bitstring else
  if k < 0 then .error .value else
  match validateSlice l.length s e with
  | .error err => .error err
  | .ok (a, z) =>
    let mid := slc l a z
    let r := k.toNat % (z - a)
    .ok (l.take a ++ (mid.drop (z - a - r) ++ mid.take (z - a - r)) ++ l.drop z)

/-- The positions an iterable stands for; a `range` with step 0 cannot be built (ValueError). -/
def positions (p : PosArg) : Except Err (Option (List Int)) :=
  match p with
  | .all => .ok none
  | .one i => .ok (some [i])
  | .many ps => .ok (some ps)
  | .range a b c => if c = 0 then .error .value else .ok (some (Py.rangeList a b c))

/-- Apply `f` at the positions of the longest valid prefix of `ps`; IndexError iff a position is invalid. -/
def applyPrefix (f : Bits → Nat → Bits) (l : Bits) (ps : List Int) : Outcome :=
  let n := l.length
  let good := ps.takeWhile fun p => (PyL.normIdx n p).isSome
  let bits := good.foldl (fun acc p => match PyL.normIdx n p with
    | some j => f acc j
    | none => acc) l
  ⟨if good.length = ps.length then .ok .none else .error .index, bits⟩

def set (l : Bits) (v : Bool) (p : PosArg) : Outcome :=
  match positions p with
  | .error e => ⟨.error e, l⟩
  | .ok none => ⟨.ok .none, List.replicate l.length v⟩
  | .ok (some ps) => applyPrefix (fun acc j => acc.set j v) l ps

def invert (l : Bits) (p : PosArg) : Outcome :=
  match positions p with
  | .error e => ⟨.error e, l⟩
  | .ok none => ⟨.ok .none, l.map (!·)⟩
  | .ok (some ps) => applyPrefix (fun acc j => acc.modify j (!·)) l ps

/-- One pattern: consecutive groups of `k` bytes, each byte-reversed. -/
def swapGroups : List Nat → Bits → Bits
  | [], b => b
  | k :: ks, b => revBytes (b.take (8 * k)) ++ swapGroups ks (b.drop (8 * k))

/-- `k` consecutive patterns of `total` bits each. -/
def swapRepeat : Nat → Nat → List Nat → Bits → Bits
  | 0, _, _, b => b
  | k + 1, total, sizes, b => swapGroups sizes (b.take total) ++ swapRepeat k total sizes (b.drop total)

/-- `byteswap`: the pattern is applied as often as it fits into `[a, e)` (once at most without `repeat`);
    returns the number of repeats.  Nothing outside `[a, e)` is touched. -/
def byteswap (l : Bits) (f : Fmt) (s e : Option Int) (rep : Bool) : Except Err (Nat × Bits) :=
  match validateSlice l.length s e with
  | .error err => .error err
  | .ok (a, z) =>
    match fmtSizes f a z with
    | .error err => .error err
    | .ok sizes =>
      let total := 8 * sizes.sum
      if total = 0 then .ok (0, l) else
      let k := if rep then (z - a) / total else if a + total ≤ z then 1 else 0
      .ok (k, l.take a ++ swapRepeat k total sizes (slc l a (a + k * total)) ++ l.drop (a + k * total))

def ishl (l : Bits) (n : Int) : Except Err Bits :=
  if n < 0 then .error .value else if l.length = 0 then .error .value else .ok (C16.shlSpec l n.toNat)

def ishr (l : Bits) (n : Int) : Except Err Bits :=
  if n < 0 then .error .value else if l.length = 0 then .error .value else .ok (C16.shrSpec l n.toNat)

def imul (l : Bits) (n : Int) : Except Err Bits :=
  if n < 0 then .error .value else .ok (List.replicate n.toNat l).flatten

def clear (_ : Bits) : Bits := []

end Spec

/-! ## ALG -/
namespace Alg

/-- `Bits._insert(bs, pos)` (bits.py: def _insert): `self._bitstore[pos:pos] = bs._bitstore`. -/
def _insert (l b : Bits) (pos : Nat) : Except Err Bits :=
  PyL.setSlice l (some (pos : Int)) (some (pos : Int)) none b

/-- `Bits._delete(bits, pos)` (bits.py: def _delete): `del self._bitstore[pos:pos+bits]`. -/
def _delete (l : Bits) (bits pos : Nat) : Except Err Bits :=
  PyL.delSlice l (some (pos : Int)) (some ((pos : Int) + (bits : Int))) none

/-- `Bits._overwrite(bs, pos)` (bits.py: def _overwrite): `bs is self` → `assert pos == 0`, nothing to do;
    else `self._bitstore[pos:pos+len(bs)] = bs._bitstore`. -/
def _overwrite (l : Bits) (b : Operand) (pos : Nat) : Except Err Bits :=
  if b.isSelf then
    if pos = 0 then .ok l else .error (.internal "AssertionError")
  else
    PyL.setSlice l (some (pos : Int)) (some ((pos : Int) + ((b.val l).length : Int))) none (b.val l)

/-- `_append_msb0` → `_addright(bs)`: `self._bitstore += bs._bitstore`. -/
def append (l : Bits) (b : Operand) : Bits := l ++ b.val l

/-- `prepend` → `_append_lsb0` → `_addleft(bs)`: `bs._bitstore + self._bitstore`. -/
def prepend (l : Bits) (b : Operand) : Bits := b.val l ++ l

/-- `BitArray.insert` / `BitStream.insert` with an explicit `pos` (bitarray_.py: def insert; bitstream.py: def insert):
    self-operand copied, position validated, then the empty-operand shortcut, then `_insert`. -/
def insert (l : Bits) (b : Operand) (pos : Int) : Except Err Bits :=
  let bs := b.val l                               -- `if bs is self: bs = self._copy()` — same value
  let p := if pos < 0 then pos + (l.length : Int) else pos
  if ¬ (0 ≤ p ∧ p ≤ (l.length : Int)) then .error .value else
  if bs.length = 0 then .ok l else
  _insert l bs p.toNat

/-- `BitArray.overwrite` / `BitStream.overwrite` with an explicit `pos` (bitarray_.py: def overwrite;
    bitstream.py: def overwrite).  `if bs is self: bs = self._copy()` makes the operand a value, so the
    `bs is self` branch of `_overwrite` is not reached from here. -/
def overwrite (l : Bits) (b : Operand) (pos : Int) : Except Err Bits :=
  let bs := b.val l
  let p := if pos < 0 then pos + (l.length : Int) else pos
  if p < 0 ∨ p > (l.length : Int) then .error .value else
  if bs.length = 0 then .ok l else
  _overwrite l (.lit bs) p.toNat

/-- `__delitem__`: `self._bitstore.__delitem__(key)`. -/
def delItem (l : Bits) (i : Int) : Except Err Bits := PyL.delIndex l i
def delSlice (l : Bits) (a b c : Option Int) : Except Err Bits := PyL.delSlice l a b c

/-- `BitArray._setitem_int` (bitarray_.py: def _setitem_int). -/
def setItemInt (l : Bits) (key v : Int) : Except Err Bits :=
  if v = 0 then PyL.setIndex l key false else
  if v = 1 ∨ v = -1 then PyL.setIndex l key true else
  .error .value

def setItemBits (l : Bits) (key : Int) (b : Operand) : Except Err Bits :=
  let pk := if key < 0 then key + (l.length : Int) else key
  if pk < 0 ∨ pk ≥ (l.length : Int) then .error .index else
  PyL.setSlice l (some pk) (some (pk + 1)) none (b.val l)

/-- `cls(uint=value, length=length)` / `cls(int=value, length=length)`: `_setuint/_setint` reject length 0,
    `int2bitstore` rejects a value that does not fit (CreationError = ValueError). -/
def intValue (length : Nat) (v : Int) : Except Err Bits :=
  if 0 ≤ v then
    if length = 0 then .error .value else
    if v ≥ (2 : Int) ^ length then .error .value else .ok (natToBits length v.toNat)
  else
    if length = 0 then .error .value else
    if v ≥ (2 : Int) ^ (length - 1) ∨ v < -((2 : Int) ^ (length - 1)) then .error .value else .ok (intToBits length v)

/-- `BitArray.set` (bitarray_.py: def set). -/
def setLoop (v : Bool) : Bits → List Int → Outcome
  | l, [] => ⟨.ok .none, l⟩
  | l, p :: ps =>
    match PyL.setIndex l p v with                 -- self._bitstore[p] = v
    | .error e => ⟨.error e, l⟩
    | .ok l' => setLoop v l' ps

/-- The `range` fast path of `set`, taken when the range is non-empty and its first and last elements are valid
    non-negative indices: one slice from the first to the last element
    (`slice(first, last + 1, step)` ascending, `slice(first, last - 1 if last > 0 else None, step)` descending). -/
def setRangeFast (l : Bits) (v : Bool) (first last c : Int) : Except Err Bits :=
  if c > 0 then PyL.setSliceScalar l (some first) (some (last + 1)) (some c) v
  else PyL.setSliceScalar l (some first) (if last > 0 then some (last - 1) else none) (some c) v

def set (l : Bits) (v : Bool) (p : PosArg) : Outcome :=
  match p with
  | .all =>
    -- if len(self) != 0: self._setint(-1 if value else 0)
    if l.length = 0 then ⟨.ok .none, l⟩
    else ⟨.ok .none, intToBits l.length (if v then -1 else 0)⟩
  | .one i => setLoop v l [i]                     -- pos = (pos,)
  | .range a b c =>
    if c = 0 then ⟨.error .value, l⟩ else         -- range() itself raises
    let ps := Py.rangeList a b c
    match ps.head?, ps.getLast? with
    | some first, some last =>
      -- isinstance(pos, range) and len(pos) > 0 and 0 <= pos[0] < len(self) and 0 <= pos[-1] < len(self)
      if 0 ≤ first ∧ first < (l.length : Int) ∧ 0 ≤ last ∧ last < (l.length : Int) then
        atomic l (setRangeFast l v first last c)
      else setLoop v l ps
    | _, _ => setLoop v l ps
  | .many ps => setLoop v l ps

/-- `BitArray._setitem_slice` (bitarray_.py: def _setitem_slice). -/
def setSliceInt (l : Bits) (a b c : Option Int) (v : Int) : Except Err Bits :=
  if c ≠ none ∧ c ≠ some (-1) ∧ c ≠ some 1 then
    if v = 0 ∨ v = 1 then
      let st := c.getD 1
      if st = 0 then .error .value else           -- key.indices() raises
      let r := Py.sliceIndices a b st l.length
      -- self.set(value, range(*key.indices(len(self))))
      let o := set l (decide (v = 1)) (.range r.1 r.2.1 st)
      match o.ret with
      | .error e => .error e
      | .ok _ => .ok o.bits
    else .error .value
  else
    -- length = len(range(*key.indices(len(self))))
    let st := c.getD 1
    let r := Py.sliceIndices a b st l.length
    match intValue (Py.rangeLen r.1 r.2.1 st) v with
    | .error e => .error e
    | .ok bits => PyL.setSlice l a b c bits

def setSliceBits (l : Bits) (a b c : Option Int) (v : Operand) : Except Err Bits :=
  PyL.setSlice l a b c (v.val l)

/-- The loop of `_replace` that collects the starting points (bitarray_.py: def _replace). -/
def collect (oldLen : Nat) (count : Int) : List Nat → List Nat → List Nat
  | [], sp => sp
  | x :: xs, sp =>
    let sp' := match sp.getLast? with
      | none => sp ++ [x]
      | some last => if x ≥ last + oldLen then sp ++ [x] else sp
    if count ≠ 0 ∧ (sp'.length : Int) = count then sp' else collect oldLen count xs sp'

/-- `new, l[prev+|old| : p], new, …, new, l[last+|old| :]`. -/
def rebuildTail (l : Bits) (oldLen : Nat) (new : Bits) : Nat → List Nat → Bits
  | prev, [] => new ++ l.drop (prev + oldLen)
  | prev, p :: ps => new ++ slc l (prev + oldLen) p ++ rebuildTail l oldLen new p ps

/-- The first statement of `_replace` (bitarray_.py: def _replace):
    `if bytealigned is None: bytealigned = bitstring.options.bytealigned` — an explicit `False` wins over the option. -/
def resolveAligned (explicit : Option Bool) (optionBytealigned : Bool) : Bool :=
  match explicit with
  | some b => b
  | none => optionBytealigned

def _replace (l old new : Bits) (s e : Nat) (count : Int) (aligned : Bool) : Nat × Bits :=
  let sp := collect old.length count (occ l old s e aligned) []
  match sp with
  | [] => (0, l)
  | p0 :: rest => (sp.length, slc l 0 p0 ++ rebuildTail l old.length new p0 rest)

/-- `BitArray.replace` / `BitStream.replace` (bitarray_.py: def replace). -/
def replace (l : Bits) (old new : Operand) (s e : Option Int) (count : Option Int) (aligned : Bool) :
    Except Err (Nat × Bits) :=
  if (old.val l).length = 0 then .error .value else
  match validateSlice l.length s e with
  | .error err => .error err
  | .ok (a, z) =>
    if count = some 0 then .ok (0, l) else
    -- `if new is self: new = copy.copy(self)` — same value
    .ok (_replace l (old.val l) (new.val l) a z (count.getD 0) aligned)

/-- `BitArray.reverse` (bitarray_.py: def reverse). -/
def reverse (l : Bits) (s e : Option Int) : Except Err Bits :=
  match validateSlice l.length s e with
  | .error err => .error err
  | .ok (a, z) =>
    if a = 0 ∧ z = l.length then .ok l.reverse else
    -- s = self._slice(start, end); s._bitstore.reverse(); self[start:end] = s
    PyL.setSlice l (some (a : Int)) (some (z : Int)) none (slc l a z).reverse

/-- `BitArray._ror_msb0` (bitarray_.py: def _ror_msb0). -/
def _ror (l : Bits) (k : Int) (s e : Option Int) : Except Err Bits :=
  match validateSlice l.length s e with
  | .error err => .error err
  | .ok (a, z) =>
    if z - a = 0 then .ok l else                  -- if start == end: return
    let r := k.toNat % (z - a)                    -- bits %= (end - start)
    if r = 0 then .ok l else
    let rhs := slc l (z - r) z
    match _delete l r (z - r) with
    | .error err => .error err
    | .ok l' => _insert l' rhs a

/-- `BitArray._rol_msb0` (bitarray_.py: def _rol_msb0). -/
def _rol (l : Bits) (k : Int) (s e : Option Int) : Except Err Bits :=
  match validateSlice l.length s e with
  | .error err => .error err
  | .ok (a, z) =>
    if z - a = 0 then .ok l else
    let r := k.toNat % (z - a)
    if r = 0 then .ok l else
    let lhs := slc l a (a + r)
    match _delete l r a with
    | .error err => .error err
    | .ok l' => _insert l' lhs (z - r)

/-- `BitArray.rol` / `ror` (bitarray_.py: def rol, def ror). -/
def rol (l : Bits) (k : Int) (s e : Option Int) : Except Err Bits :=
  if l.length = 0 then .error .bitstring else
  if k < 0 then .error .value else _rol l k s e

def ror (l : Bits) (k : Int) (s e : Option Int) : Except Err Bits :=
  if l.length = 0 then .error .bitstring else
  if k < 0 then .error .value else _ror l k s e

/-- The loop of `BitArray.invert` (bitarray_.py: def invert): own bounds check, then `_invert(p)`. -/
def invertLoop (length : Nat) : Bits → List Int → Outcome
  | l, [] => ⟨.ok .none, l⟩
  | l, p :: ps =>
    let q := if p < 0 then p + (length : Int) else p
    if ¬ (0 ≤ q ∧ q < (length : Int)) then ⟨.error .index, l⟩
    else invertLoop length (l.modify q.toNat (!·)) ps

def invert (l : Bits) (p : PosArg) : Outcome :=
  match p with
  | .all => ⟨.ok .none, l.map (!·)⟩              -- _invert_all
  | .one i => invertLoop l.length l [i]
  | .range a b c => if c = 0 then ⟨.error .value, l⟩ else invertLoop l.length l (Py.rangeList a b c)
  | .many ps => invertLoop l.length l ps

/-- `Bits._reversebytes(start, end)` (bits.py: def _reversebytes):
    `self._bitstore[start:end] = BitStore.frombytes(self._bitstore.getslice(start, end).tobytes()[::-1])`.
    `getslice` clamps at the end of the data, `tobytes` zero-pads to a whole byte. -/
def _reversebytes (l : Bits) (s e : Nat) : Except Err Bits :=
  let seg := slc l s e
  let padded := seg ++ List.replicate ((8 - seg.length % 8) % 8) false
  PyL.setSlice l (some (s : Int)) (some (e : Int)) none (revBytes padded)

/-- The inner `for bytesize in bytesizes` loop. -/
def swapOnce : Bits → List Nat → Nat → Except Err Bits
  | l, [], _ => .ok l
  | l, k :: ks, bytestart =>
    match _reversebytes l bytestart (bytestart + k * 8) with
    | .error err => .error err
    | .ok l' => swapOnce l' ks (bytestart + k * 8)

/-- The outer `for patternend in range(start + total, finalbit + 1, total)` loop, `cnt` iterations left. -/
def swapLoop : Nat → Bits → List Nat → Nat → Nat → Except Err Bits
  | 0, l, _, _, _ => .ok l
  | cnt + 1, l, sizes, total, patternend =>
    match swapOnce l sizes (patternend - total) with
    | .error err => .error err
    | .ok l' => swapLoop cnt l' sizes total (patternend + total)

/-- `BitArray.byteswap` (bitarray_.py: def byteswap). -/
def byteswap (l : Bits) (f : Fmt) (s e : Option Int) (rep : Bool) : Except Err (Nat × Bits) :=
  match validateSlice l.length s e with
  | .error err => .error err
  | .ok (a, z) =>
    match fmtSizes f a z with
    | .error err => .error err
    | .ok sizes =>
      let total := 8 * sizes.sum
      if total = 0 then .ok (0, l) else
      let finalbit := if rep then z else min (a + total) z
      let cnt := Py.rangeLen ((a + total : Nat) : Int) ((finalbit + 1 : Nat) : Int) (total : Int)
      match swapLoop cnt l sizes total (a + total) with
      | .error err => .error err
      | .ok l' => .ok (cnt, l')

/-- `__ilshift__`, `__irshift__` (bitarray_.py) → `_ilshift`, `_irshift` (bits.py): modelled in C16. -/
def ishl (l : Bits) (n : Int) : Except Err Bits := C16.ishl l n
def ishr (l : Bits) (n : Int) : Except Err Bits := C16.ishr l n

/-- `__imul__` (bitarray_.py) → `_imul` (bits.py): `n == 0 → _clear()`, else the doubling loop of C01. -/
def imul (l : Bits) (n : Int) : Except Err Bits :=
  if n < 0 then .error .value else
  if n = 0 then .ok [] else .ok (C01.imul l n.toNat)

/-- `__iand__`, `__ior__`, `__ixor__`: `self._bitstore &= bs._bitstore` (bitarray raises ValueError on unequal lengths). -/
def iand (l : Bits) (b : Operand) : Except Err Bits := C16.band l (b.val l)
def ior (l : Bits) (b : Operand) : Except Err Bits := C16.bor l (b.val l)
def ixor (l : Bits) (b : Operand) : Except Err Bits := C16.bxor l (b.val l)

/-- `clear` → `_clear`: a fresh empty store. -/
def clear (_ : Bits) : Bits := []

end Alg

/-! ## Operations as data; one step; histories -/

inductive Op where
  | append (b : Operand) | prepend (b : Operand)
  | insert (b : Operand) (pos : Int) | overwrite (b : Operand) (pos : Int)
  | delItem (i : Int) | delSlice (a b c : Option Int)
  | setItem (i : Int) (v : Value) | setSlice (a b c : Option Int) (v : Value)
  | replace (old new : Operand) (s e : Option Int) (count : Option Int) (aligned : Bool)
  | reverse (s e : Option Int)
  | rol (k : Int) (s e : Option Int) | ror (k : Int) (s e : Option Int)
  | set (v : Bool) (p : PosArg) | invert (p : PosArg)
  | byteswap (f : Fmt) (s e : Option Int) (rep : Bool)
  | ishl (n : Int) | ishr (n : Int) | imul (n : Int)
  | iand (b : Operand) | ior (b : Operand) | ixor (b : Operand)
  | clear
  deriving Repr, DecidableEq

def stepAlg (l : Bits) : Op → Outcome
  | .append b => ⟨.ok .none, Alg.append l b⟩
  | .prepend b => ⟨.ok .none, Alg.prepend l b⟩
  | .insert b pos => atomic l (Alg.insert l b pos)
  | .overwrite b pos => atomic l (Alg.overwrite l b pos)
  | .delItem i => atomic l (Alg.delItem l i)
  | .delSlice a b c => atomic l (Alg.delSlice l a b c)
  | .setItem i (.int v) => atomic l (Alg.setItemInt l i v)
  | .setItem i (.bits b) => atomic l (Alg.setItemBits l i b)
  | .setSlice a b c (.int v) => atomic l (Alg.setSliceInt l a b c v)
  | .setSlice a b c (.bits v) => atomic l (Alg.setSliceBits l a b c v)
  | .replace old new s e count al => atomicRet l (Alg.replace l old new s e count al)
  | .reverse s e => atomic l (Alg.reverse l s e)
  | .rol k s e => atomic l (Alg.rol l k s e)
  | .ror k s e => atomic l (Alg.ror l k s e)
  | .set v p => Alg.set l v p
  | .invert p => Alg.invert l p
  | .byteswap f s e rep => atomicRet l (Alg.byteswap l f s e rep)
  | .ishl n => atomic l (Alg.ishl l n)
  | .ishr n => atomic l (Alg.ishr l n)
  | .imul n => atomic l (Alg.imul l n)
  | .iand b => atomic l (Alg.iand l b)
  | .ior b => atomic l (Alg.ior l b)
  | .ixor b => atomic l (Alg.ixor l b)
  | .clear => ⟨.ok .none, Alg.clear l⟩

def stepSpec (l : Bits) : Op → Outcome
  | .append b => ⟨.ok .none, Spec.append l (b.val l)⟩
  | .prepend b => ⟨.ok .none, Spec.prepend l (b.val l)⟩
  | .insert b pos => atomic l (Spec.insert l (b.val l) pos)
  | .overwrite b pos => atomic l (Spec.overwrite l (b.val l) pos)
  | .delItem i => atomic l (Spec.delItem l i)
  | .delSlice a b c => atomic l (Spec.delSlice l a b c)
  | .setItem i (.int v) => atomic l (Spec.setItemInt l i v)
  | .setItem i (.bits b) => atomic l (Spec.setItemBits l i (b.val l))
  | .setSlice a b c (.int v) => atomic l (Spec.setSliceInt l a b c v)
  | .setSlice a b c (.bits v) => atomic l (Spec.setSliceBits l a b c (v.val l))
  | .replace old new s e count al => atomicRet l (Spec.replace l (old.val l) (new.val l) s e count al)
  | .reverse s e => atomic l (Spec.reverse l s e)
  | .rol k s e => atomic l (Spec.rol l k s e)
  | .ror k s e => atomic l (Spec.ror l k s e)
  | .set v p => Spec.set l v p
  | .invert p => Spec.invert l p
  | .byteswap f s e rep => atomicRet l (Spec.byteswap l f s e rep)
  | .ishl n => atomic l (Spec.ishl l n)
  | .ishr n => atomic l (Spec.ishr l n)
  | .imul n => atomic l (Spec.imul l n)
  | .iand b => atomic l (C16.band l (b.val l))
  | .ior b => atomic l (C16.bor l (b.val l))
  | .ixor b => atomic l (C16.bxor l (b.val l))
  | .clear => ⟨.ok .none, Spec.clear l⟩

/-- Operations that are not length-changing by definition. -/
def Op.keepsLength : Op → Bool
  | .setItem _ (.int _) | .setSlice _ _ _ (.int _) | .reverse _ _ | .rol _ _ _ | .ror _ _ _
  | .set _ _ | .invert _ | .byteswap _ _ _ _ | .ishl _ | .ishr _ | .iand _ | .ior _ | .ixor _ => true
  | _ => false

/-- A history: the outcome of every step, each step acting on the content the previous one left. -/
def run (step : Bits → Op → Outcome) : List Op → Bits → List Outcome
  | [], _ => []
  | op :: ops, l => let o := step l op; o :: run step ops o.bits

def runAlg := run stepAlg
def runSpec := run stepSpec

/-! ## driver -/

def parseOperand (s : String) : Option Operand :=
  if s = "@" then some .self else (bitsOfStr? s).map .lit

def parseInts (s : String) : Option (List Int) :=
  if s = "" then some [] else (s.splitOn ",").mapM String.toInt?

def parseValue (s : String) : Option Value :=
  match s.splitOn ":" with
  | ["i", v] => v.toInt?.map .int
  | ["b", x] => (parseOperand x).map .bits
  | _ => none

def parsePos (s : String) : Option PosArg :=
  if s = "None" then some .all else
  match s.splitOn ":" with
  | ["i", v] => v.toInt?.map .one
  | ["l", vs] => (parseInts vs).map .many
  | ["r", vs] => match parseInts vs with
    | some [a, b, c] => some (.range a b c)
    | _ => none
  | _ => none

def parseFmtArg (s : String) : Option Fmt :=
  if s = "None" then some .none else
  match s.splitOn ":" with
  | ["i", v] => v.toInt?.map .int
  | ["l", vs] => (parseInts vs).map .sizes
  | ["s", f] => some (.str f)
  | _ => none

def parseBool (s : String) : Option Bool :=
  if s = "1" then some true else if s = "0" then some false else none

def parseOp (s : String) : Option Op :=
  match s.splitOn " " with
  | ["append", x] => (parseOperand x).map .append
  | ["prepend", x] => (parseOperand x).map .prepend
  | ["insert", x, p] => do some (.insert (← parseOperand x) (← p.toInt?))
  | ["overwrite", x, p] => do some (.overwrite (← parseOperand x) (← p.toInt?))
  | ["delitem", i] => i.toInt?.map .delItem
  | ["delslice", a, b, c] => do some (.delSlice (← optIntOfStr? a) (← optIntOfStr? b) (← optIntOfStr? c))
  | ["setitem", i, v] => do some (.setItem (← i.toInt?) (← parseValue v))
  | ["setslice", a, b, c, v] =>
    do some (.setSlice (← optIntOfStr? a) (← optIntOfStr? b) (← optIntOfStr? c) (← parseValue v))
  | ["replace", o, n, s, e, c, al] =>
    do some (.replace (← parseOperand o) (← parseOperand n) (← optIntOfStr? s) (← optIntOfStr? e)
              (← optIntOfStr? c) (← parseBool al))
  | ["replace", o, n, s, e, c, ba, opt] =>
    -- explicit `bytealigned` argument (N = None) and the module option `bitstring.options.bytealigned`
    let explicit : Option (Option Bool) := if ba = "N" then some none else (parseBool ba).map some
    do some (.replace (← parseOperand o) (← parseOperand n) (← optIntOfStr? s) (← optIntOfStr? e)
              (← optIntOfStr? c) (Alg.resolveAligned (← explicit) (← parseBool opt)))
  | ["reverse", s, e] => do some (.reverse (← optIntOfStr? s) (← optIntOfStr? e))
  | ["rol", k, s, e] => do some (.rol (← k.toInt?) (← optIntOfStr? s) (← optIntOfStr? e))
  | ["ror", k, s, e] => do some (.ror (← k.toInt?) (← optIntOfStr? s) (← optIntOfStr? e))
  | ["set", v, p] => do some (.set (← parseBool v) (← parsePos p))
  | ["invert", p] => (parsePos p).map .invert
  | ["byteswap", f, s, e, r] =>
    do some (.byteswap (← parseFmtArg f) (← optIntOfStr? s) (← optIntOfStr? e) (← parseBool r))
  | ["ishl", n] => n.toInt?.map .ishl
  | ["ishr", n] => n.toInt?.map .ishr
  | ["imul", n] => n.toInt?.map .imul
  | ["iand", x] => (parseOperand x).map .iand
  | ["ior", x] => (parseOperand x).map .ior
  | ["ixor", x] => (parseOperand x).map .ixor
  | ["clear"] => some .clear
  | _ => none

/-- The property names no exception class, so a raise is observed as `E`. -/
def outcomeToStr (o : Outcome) : String :=
  (match o.ret with
   | .ok .none => "N"
   | .ok (.int n) => toString n
   | .error _ => "E") ++ ":" ++ bitsToWire o.bits

/-- `<class> <initial bits> <op> <op> …` → one observation per step. -/
def handle (args : List String) : String :=
  match args with
  | _cls :: init :: ops =>
    match bitsOfStr? init, ops.mapM parseOp with
    | some l, some os => " ".intercalate ((runAlg os l).map outcomeToStr)
    | _, _ => "bad-op"
  | _ => "bad-op"

end BM.C03
