/-
  Model/C02.lean — value ↔ bits for every fixed-length dtype, every creation route, every reading route.

  SPEC layer (what the property says the canonical encodings are):
    `encode : Req → Nat → Bits`, `valueOf`, `decodeSpec`, `Valid`, `ValidLen`, `leValue`, `Ieee.decode / Ieee.encode`
    (IEEE 754 binary16/32/64 as exact dyadics: a finite value is a natural number of units 2^-1074).
  ALG layer (the code, function by function; line numbers of /repo HEAD when this was written):
    bitstore_helpers.py  tidy_input_string (18), bin2bitstore (37), hex2bitstore (50), oct2bitstore (60),
                         bfloat2bitstore (109), int2bitstore (212), intle2bitstore (235), float2bitstore (240),
                         bitstore_from_token (261)
    bits.py              _initialise keyword route (137-171), __getattr__ (173-181), _setbits (604), _setbytes (636),
                         _setbytes_with_truncation (640), _getbytes (661), _setuint … _getintle (677-769),
                         _setfloat … _setbfloatle (809-848), _setbool/_getbool/_getpad/_setpad (984-1001),
                         _setbin_safe/_getbin/_setoct/_getoct/_sethex/_gethex (1003-1033), _getbits (1177),
                         unpack/_readlist/_read_dtype_list (1188-1261)
    bitstore.py          frombytes (51), tobytes (83), slice_to_uint / _int / _hex / _bin / _oct (88-101)
    dtypes.py            Dtype.__new__ (58-67), Dtype._create (148-172), Dtype.build (174-183), Dtype.parse (185-190),
                         AllowedLengths (224-248), DtypeDefinition.__init__ get_fn/read_fn (276-321), get_dtype (323-345)
    bitarray_.py         BitArray.__setattr__ (131-145)
    methods.py           pack (12-95)
    bitstream.py         read (265-323)
    __init__.py          dtype_definitions (212-281), aliases (284-313)
  bitarray's C primitives are modelled by their documented list meaning:
    int2ba / ba2int = natToBits / bitsToNat / two's complement, hex2ba / ba2hex / base2ba / ba2base = one digit per
    4 / 3 bits, tobytes = 8-bit groups with the last one zero-padded on the right, frombytes = 8 bits per byte.
  CPython's `struct` float conversions are modelled by `Ieee.encode ∘ Ieee.decode` (round to nearest even;
  the `OverflowError` of 'e'/'f' is raised exactly when the rounded result is not finite).

  Domain of the line protocol (stated, not hidden): lengths are `None` or naturals (negative `length=` is C15's);
  string values are code points < 256; the value inside a token string contains none of `, ( ) * =`
  (the token grammar is C05's); integers cross as decimals, floats as 64-bit patterns.
-/
import BitstringModel.Model.Basic
namespace BM.C02

inductive ByteOrder where
  | little | big
  deriving DecidableEq, Repr, Inhabited

/-! ## Groups of bits, bytes -/

/-- `n` successive groups of `k` bits (the last ones short or empty if the list runs out). -/
def groupsOf (k : Nat) : Nat → Bits → List Bits
  | 0, _ => []
  | n + 1, b => b.take k :: groupsOf k n (b.drop k)

def padRight (k : Nat) (g : Bits) : Bits := g ++ List.replicate (k - g.length) false

/-- `bitarray.tobytes()`: ⌈len/8⌉ groups of 8 bits, the last one padded with zero bits on the right. -/
def toByteGroups (b : Bits) : List Bits :=
  (groupsOf 8 ((b.length + 7) / 8) b).map (padRight 8)

/-- `BitStore.frombytes(x.tobytes()[::-1])`: reverse the order of the 8-bit groups. -/
def bytesRev (b : Bits) : Bits := (toByteGroups b).reverse.flatten

/-- `BitStore.tobytes()` as byte values. -/
def toBytes (b : Bits) : List Nat := (toByteGroups b).map bitsToNat

/-- `BitStore.frombytes(data)`: each byte MSB first. -/
def fromBytes (d : List Nat) : Bits := d.flatMap (natToBits 8)

/-- SPEC: the number a little-endian byte string denotes (`int.from_bytes(x, 'little')`). -/
def leValue : List Nat → Nat
  | [] => 0
  | x :: t => x + 256 * leValue t

/-! ## Digits -/

def digitChar (n : Nat) : Char := if n < 10 then Char.ofNat (48 + n) else Char.ofNat (87 + n)

/-- Value of a hexadecimal digit (`hex2ba` accepts both cases). -/
def hexVal? (c : Char) : Option Nat :=
  let n := c.toNat
  if 48 ≤ n ∧ n ≤ 57 then some (n - 48)
  else if 97 ≤ n ∧ n ≤ 102 then some (n - 87)
  else if 65 ≤ n ∧ n ≤ 70 then some (n - 55)
  else none

def octVal? (c : Char) : Option Nat :=
  let n := c.toNat
  if 48 ≤ n ∧ n ≤ 55 then some (n - 48) else none

def binVal? (c : Char) : Option Nat :=
  if c = '0' then some 0 else if c = '1' then some 1 else none

/-- `hex2ba` / `base2ba(8, ·)` / `bitarray(str)`: `w` bits per digit, ValueError on any other character. -/
def digitsToBits (w : Nat) (val? : Char → Option Nat) (s : List Char) : Except Err Bits :=
  match s.mapM val? with
  | none => .error .value
  | some ds => .ok (ds.flatMap (natToBits w))

/-- `ba2hex` / `ba2base(8, ·)` / `to01`: one digit per `w` bits; ValueError unless `w ∣ len`. -/
def bitsToDigits (w : Nat) (b : Bits) : Except Err (List Char) :=
  if b.length % w ≠ 0 then .error .value
  else .ok ((groupsOf w (b.length / w) b).map fun g => digitChar (bitsToNat g))

/-- Python `str.isspace()` for code points < 256 (what `str.split()` splits on). -/
def isPySpace (c : Char) : Bool :=
  let n := c.toNat
  n = 32 || (9 ≤ n && n ≤ 13) || (28 ≤ n && n ≤ 31) || n = 0x85 || n = 0xa0

def asciiLower (c : Char) : Char :=
  if 65 ≤ c.toNat ∧ c.toNat ≤ 90 then Char.ofNat (c.toNat + 32) else c

/-- `tidy_input_string` (bitstore_helpers.py:18): `''.join(s.split()).lower().replace('_', '')`.
    (`lower()` is modelled on ASCII; no other code point < 256 lowers to a digit or to `x`, `o`, `b`.) -/
def tidy (s : List Char) : List Char :=
  ((s.filter fun c => !isPySpace c).map asciiLower).filter fun c => c ≠ '_'

/-- `str.replace(p, '')` for a two-character pattern `p = c₁c₂` with `c₁ ≠ c₂`: left to right, non-overlapping. -/
def removeAll2 (c1 c2 : Char) : List Char → List Char
  | [] => []
  | [a] => [a]
  | a :: b :: t => if a = c1 ∧ b = c2 then removeAll2 c1 c2 t else a :: removeAll2 c1 c2 (b :: t)

/-- `hex2bitstore` (bitstore_helpers.py:50). -/
def hex2bitstore (s : List Char) : Except Err Bits := digitsToBits 4 hexVal? (removeAll2 '0' 'x' (tidy s))
/-- `oct2bitstore` (bitstore_helpers.py:60). -/
def oct2bitstore (s : List Char) : Except Err Bits := digitsToBits 3 octVal? (removeAll2 '0' 'o' (tidy s))
/-- `bin2bitstore` (bitstore_helpers.py:37). -/
def bin2bitstore (s : List Char) : Except Err Bits := digitsToBits 1 binVal? (removeAll2 '0' 'b' (tidy s))

/-! ## IEEE 754 binary interchange formats as exact dyadics -/

namespace Ieee

/-- A binary interchange format: `E` exponent bits, `M` stored significand bits. -/
structure Fmt where
  E : Nat
  M : Nat
  deriving DecidableEq, Repr

def f16 : Fmt := ⟨5, 10⟩
def f32 : Fmt := ⟨8, 23⟩
def f64 : Fmt := ⟨11, 52⟩
/-- bfloat16 = the top 16 bits of a binary32. -/
def bf16 : Fmt := ⟨8, 7⟩

def Fmt.width (f : Fmt) : Nat := 1 + f.E + f.M
def Fmt.bias (f : Fmt) : Nat := 2 ^ (f.E - 1) - 1
/-- Every finite value of every format up to binary64 is a whole number of units `2^-1074`;
    `q0` is the exponent, in these units, of the format's smallest subnormal (2^(1 - bias - M)). -/
def Fmt.q0 (f : Fmt) : Nat := 1075 - f.bias - f.M
def Fmt.infMag (f : Fmt) : Nat := (2 ^ f.E - 1) * 2 ^ f.M
def Fmt.signBit (f : Fmt) : Nat := 2 ^ (f.E + f.M)
/-- The format is no wider than binary64 in range and precision (so that the 2^-1074 unit is fine enough:
    `bias + M ≤ 1075` follows). -/
def Fmt.ok (f : Fmt) : Prop := 1 ≤ f.E ∧ f.E ≤ 11 ∧ 1 ≤ f.M ∧ f.M ≤ 52

/-- The value a pattern denotes. `fin neg n` is `(-1)^neg · n · 2^-1074`. -/
inductive FVal where
  | nan
  | inf (neg : Bool)
  | fin (neg : Bool) (n : Nat)
  deriving DecidableEq, Repr

/-- SPEC: IEEE 754 §3.4 decoding of a `width`-bit pattern (given as a number). -/
def decode (f : Fmt) (p : Nat) : FVal :=
  let neg := decide (p / 2 ^ (f.E + f.M) % 2 = 1)
  let ex := p / 2 ^ f.M % 2 ^ f.E
  let man := p % 2 ^ f.M
  if ex = 2 ^ f.E - 1 then (if man = 0 then .inf neg else .nan)
  else if ex = 0 then .fin neg (man * 2 ^ f.q0)
  else .fin neg ((2 ^ f.M + man) * 2 ^ (f.q0 + ex - 1))

/-- `n / 2^q` rounded to the nearest integer, ties to even. -/
def rne (n q : Nat) : Nat :=
  let d := n / 2 ^ q
  let r := n % 2 ^ q
  if 2 * r > 2 ^ q ∨ (2 * r = 2 ^ q ∧ d % 2 = 1) then d + 1 else d

/-- Magnitude bits (exponent and significand fields) of `n` units rounded to nearest-even into `f`;
    a result that is not finite becomes infinity (what `float2bitstore` does on `OverflowError`). -/
def encodeMag (f : Fmt) (n : Nat) : Nat :=
  let q := max f.q0 (Nat.log2 n - f.M)
  min ((q - f.q0) * 2 ^ f.M + rne n q) f.infMag

def qnan (f : Fmt) : Nat := f.infMag + 2 ^ (f.M - 1)

def encode (f : Fmt) : FVal → Nat
  | .nan => qnan f
  | .inf neg => (if neg then f.signBit else 0) + f.infMag
  | .fin neg n => (if neg then f.signBit else 0) + encodeMag f n

def isNaN (f : Fmt) (p : Nat) : Bool := decode f p = .nan

end Ieee

open Ieee in
/-- `struct.pack('>e' | '>f' | '>d', x)` with the overflow rule of `float2bitstore`, `x` given by its binary64 pattern. -/
def packFloat (f : Ieee.Fmt) (p64 : Nat) : Bits := natToBits f.width (Ieee.encode f (Ieee.decode Ieee.f64 p64))

open Ieee in
/-- `struct.unpack('>e' | '>f' | '>d', bytes)[0]` as the binary64 pattern of the Python float (`none` = a NaN). -/
def unpackFloat (f : Ieee.Fmt) (b : Bits) : Option Nat :=
  match Ieee.decode f (bitsToNat b) with
  | .nan => none
  | v => some (Ieee.encode Ieee.f64 v)

/-! ## Requests, values, the dtype table -/

inductive IntKind where
  | uint | int | uintbe | intbe | uintle | intle
  deriving DecidableEq, Repr

inductive StrKind where
  | hex | oct | bin
  deriving DecidableEq, Repr

inductive FltKind where
  | floatbe | floatle | bfloatbe | bfloatle
  deriving DecidableEq, Repr

/-- What `_setbool` may be handed: a Python `bool`, an `int`, or a `str`. -/
inductive BoolArg where
  | py (b : Bool)
  | int (i : Int)
  | str (s : List Char)
  deriving DecidableEq, Repr

/-- A typed creation request: the dtype family and a value of the Python type that family takes. -/
inductive Req where
  | int (k : IntKind) (v : Int)
  | str (k : StrKind) (s : List Char)
  | flt (k : FltKind) (p64 : Nat)          -- the Python float, by its binary64 pattern
  | bool (a : BoolArg)
  | bytes (d : List Nat)                   -- a `bytes` object (every element < 256)
  | bits (b : Bits)                        -- a bitstring object
  | pad
  deriving DecidableEq, Repr

/-- The seventeen `DtypeDefinition`s the property is about (__init__.py:212-253). -/
inductive Kind where
  | uint | uintle | uintbe | int | intle | intbe | hex | bin | oct
  | float | floatle | bfloat | bfloatle | bits | bool | bytes | pad
  deriving DecidableEq, Repr

def IntKind.kind : IntKind → Kind
  | .uint => .uint | .int => .int | .uintbe => .uintbe | .intbe => .intbe | .uintle => .uintle | .intle => .intle
def StrKind.kind : StrKind → Kind
  | .hex => .hex | .oct => .oct | .bin => .bin
def FltKind.kind : FltKind → Kind
  | .floatbe => .float | .floatle => .floatle | .bfloatbe => .bfloat | .bfloatle => .bfloatle

def Req.kind : Req → Kind
  | .int k _ => k.kind | .str k _ => k.kind | .flt k _ => k.kind
  | .bool _ => .bool | .bytes _ => .bytes | .bits _ => .bits | .pad => .pad

/-- `AllowedLengths.values`: empty, `(a, b, ...)` or an explicit tuple. -/
inductive Allowed where
  | any
  | step (first second : Nat)
  | oneOf (l : List Nat)
  deriving DecidableEq, Repr

def Kind.allowed : Kind → Allowed
  | .uintle | .uintbe | .intle | .intbe => .step 8 16
  | .hex => .step 0 4
  | .oct => .step 0 3
  | .float | .floatle => .oneOf [16, 32, 64]
  | .bfloat | .bfloatle => .oneOf [16]
  | .bool => .oneOf [1]
  | .uint | .int | .bin | .bits | .bytes | .pad => .any

/-- `AllowedLengths.__contains__` (dtypes.py:240). -/
def Allowed.contains (a : Allowed) (n : Nat) : Bool :=
  match a with
  | .any => true
  | .step v0 v1 => ((n : Int) - v0) % ((v1 : Int) - v0) = 0
  | .oneOf l => l.contains n

/-- `AllowedLengths.only_one_value` (dtypes.py:247). -/
def Allowed.onlyOne : Allowed → Option Nat
  | .oneOf [x] => some x
  | _ => none

def Kind.multiplier : Kind → Nat
  | .bytes => 8
  | _ => 1

/-- `set_fn_needs_length`: `'length' in inspect.signature(set_fn).parameters`; only `_setbool` has none. -/
def Kind.setNeedsLength : Kind → Bool
  | .bool => false
  | _ => true

def Kind.name : Kind → String
  | .uint => "uint" | .uintle => "uintle" | .uintbe => "uintbe" | .int => "int" | .intle => "intle"
  | .intbe => "intbe" | .hex => "hex" | .bin => "bin" | .oct => "oct" | .float => "float"
  | .floatle => "floatle" | .bfloat => "bfloat" | .bfloatle => "bfloatle" | .bits => "bits"
  | .bool => "bool" | .bytes => "bytes" | .pad => "pad"

/-- `dtype_register.names` restricted to the fixed-length dtypes: definitions and aliases (__init__.py:284-313). -/
def kindOfName (bo : ByteOrder) (s : String) : Option Kind :=
  match s with
  | "uint" | "u" => some .uint
  | "int" | "i" => some .int
  | "uintbe" => some .uintbe | "intbe" => some .intbe
  | "uintle" => some .uintle | "intle" => some .intle
  | "uintne" => some (if bo = .little then .uintle else .uintbe)
  | "intne" => some (if bo = .little then .intle else .intbe)
  | "hex" | "h" => some .hex
  | "oct" | "o" => some .oct
  | "bin" | "b" => some .bin
  | "float" | "floatbe" | "f" => some .float
  | "floatle" => some .floatle
  | "floatne" => some (if bo = .little then .floatle else .float)
  | "bfloat" | "bfloatbe" => some .bfloat
  | "bfloatle" => some .bfloatle
  | "bfloatne" => some (if bo = .little then .bfloatle else .bfloat)
  | "bits" => some .bits | "bool" => some .bool | "bytes" => some .bytes | "pad" => some .pad
  | _ => none

/-- A concrete `Dtype`: definition and length (in items). -/
structure Dt where
  kind : Kind
  length : Option Nat
  deriving DecidableEq, Repr

def Dt.bitlength (d : Dt) : Option Nat := d.length.map (· * d.kind.multiplier)

/-- `DtypeDefinition.get_dtype` (dtypes.py:323-345) for a fixed-length definition: ValueError for a length that is
    not allowed; no length + a single allowed value → that value. -/
def getDtype (k : Kind) (len : Option Nat) : Except Err Dt :=
  match len with
  | none => .ok ⟨k, k.allowed.onlyOne⟩
  | some n => if k.allowed.contains n then .ok ⟨k, some n⟩ else .error .value

/-! ## Set functions (ALG) -/

/-- `if length is None and hasattr(self, 'len') and len(self) != 0: length = len(self)`;
    `cur` = the length of the object being assigned to, `none` when it has no bit store yet. -/
def lengthOrCur (length cur : Option Nat) : Option Nat :=
  match length with
  | some l => some l
  | none => match cur with
    | some c => if c ≠ 0 then some c else none
    | none => none

/-- `int2bitstore` (bitstore_helpers.py:212): `int2ba` raises OverflowError outside the range → CreationError. -/
def int2bitstore (i : Int) (len : Nat) (signed : Bool) : Except Err Bits :=
  if signed then
    if -((2 : Int) ^ (len - 1)) ≤ i ∧ i < (2 : Int) ^ (len - 1) then .ok (intToBits len i) else .error .value
  else
    if 0 ≤ i ∧ i < (2 : Int) ^ len then .ok (natToBits len i.toNat) else .error .value

/-- `intle2bitstore` (bitstore_helpers.py:235): `frombytes(int2bitstore(…).tobytes()[::-1])`. -/
def intle2bitstore (i : Int) (len : Nat) (signed : Bool) : Except Err Bits :=
  match int2bitstore i len signed with
  | .error e => .error e
  | .ok b => .ok (bytesRev b)

def IntKind.signed : IntKind → Bool
  | .int | .intbe | .intle => true
  | _ => false

def IntKind.little : IntKind → Bool
  | .uintle | .intle => true
  | _ => false

/-- The endian-specific integer dtypes (be / le, hence also ne). -/
def IntKind.wholeByte : IntKind → Bool
  | .uint | .int => false
  | _ => true

/-- `_setuint`, `_setint`, `_setuintbe`, `_setintbe`, `_setuintle`, `_setintle` (bits.py:671-765): length defaulting,
    zero length rejected, and (be / le, since bf99409) `if length % 8: raise CreationError`. -/
def setInt (k : IntKind) (v : Int) (length cur : Option Nat) : Except Err Bits :=
  match lengthOrCur length cur with
  | none => .error .value
  | some 0 => .error .value
  | some l =>
    if k.wholeByte ∧ l % 8 ≠ 0 then .error .value
    else if k.little then intle2bitstore v l k.signed else int2bitstore v l k.signed

/-- `float2bitstore` (bitstore_helpers.py:240). -/
def float2bitstore (p64 : Nat) (len : Nat) (big : Bool) : Bits :=
  let f := if len = 16 then Ieee.f16 else if len = 32 then Ieee.f32 else Ieee.f64
  let b := packFloat f p64
  if big then b else bytesRev b

/-- `bfloat2bitstore` (bitstore_helpers.py:109): `struct.pack('>f', f)[0:2]` resp. `struct.pack('<f', f)[2:4]`. -/
def bfloat2bitstore (p64 : Nat) (big : Bool) : Bits :=
  let top := (packFloat Ieee.f32 p64).take 16
  if big then top else bytesRev top

def FltKind.big : FltKind → Bool
  | .floatbe | .bfloatbe => true
  | _ => false

/-- `_setfloat` (bits.py:809) and `_setbfloatbe/le` (bits.py:834, 845). -/
def setFlt (k : FltKind) (p64 : Nat) (length cur : Option Nat) : Except Err Bits :=
  match k with
  | .floatbe | .floatle =>
    match lengthOrCur length cur with
    | none => .error .value
    | some l => if l = 16 ∨ l = 32 ∨ l = 64 then .ok (float2bitstore p64 l k.big) else .error .value
  | .bfloatbe | .bfloatle =>
    match length with
    | some l => if l ≠ 16 then .error .value else .ok (bfloat2bitstore p64 k.big)
    | none => .ok (bfloat2bitstore p64 k.big)

def StrKind.set : StrKind → List Char → Except Err Bits
  | .hex => hex2bitstore | .oct => oct2bitstore | .bin => bin2bitstore

/-- `_setbool` (bits.py:984): `value in (1, 'True', '1')` / `(0, 'False', '0')` (`True == 1`, `False == 0`). -/
def setBool (a : BoolArg) : Except Err Bits :=
  match a with
  | .py b => .ok [b]
  | .int i => if i = 1 then .ok [true] else if i = 0 then .ok [false] else .error .value
  | .str s =>
    if s = "True".toList ∨ s = "1".toList then .ok [true]
    else if s = "False".toList ∨ s = "0".toList then .ok [false] else .error .value

/-- `_setbytes_with_truncation` (bits.py:640) with `offset=None`; `length` in bits. -/
def setBytesWithTruncation (d : List Nat) (length : Option Nat) : Except Err Bits :=
  match length with
  | none => .ok (fromBytes d)
  | some l => if l > d.length * 8 then .error .value else .ok ((fromBytes d).take l)

/-- The definition's `set_fn(self, value[, length=…])`.  `passed` says whether a `length=` keyword is supplied at all
    (`functools.partial(set_fn, length=bitlength)` in `Dtype._create`) — `_setpad` has no default for it. -/
def rawSet (q : Req) (passed : Bool) (length cur : Option Nat) : Except Err Bits :=
  match q with
  | .int k v => setInt k v length cur
  | .flt k p => setFlt k p length cur
  | .str k s => k.set s                               -- `length: None = None` is ignored
  | .bool a => setBool a
  | .bytes d => .ok (fromBytes d)                     -- `_setbytes`: length ignored
  | .bits b => .ok b                                  -- `_setbits`: length ignored
  | .pad =>
    if !passed then .error .type                      -- missing required argument
    else match length with
      | none => .ok []                                -- `BitStore(None)` is empty
      | some n => .ok (List.replicate n false)

/-- `Dtype.set_fn` (dtypes.py:161-167). -/
def dtSet (d : Dt) (q : Req) (cur : Option Nat) : Except Err Bits :=
  if d.kind.setNeedsLength then rawSet q true d.bitlength cur else rawSet q false none cur

/-! ## Creation routes (ALG) -/

inductive Route where
  | kw | nameLen | prop | propLen | token | build | pack
  deriving DecidableEq, Repr

/-- The tail of `Bits._initialise` (bits.py:163-171): `d = Dtype(k, length); d.set_fn(self, v)` on the object under
    construction (no bit store yet), then `d.bitlength is not None and len(self) != d.bitlength` → CreationError. -/
def initWith (d : Dt) (q : Req) : Except Err Bits :=
  match dtSet d q none with
  | .error e => .error e
  | .ok x =>
    match d.bitlength with
    | some n => if x.length ≠ n then .error .value else .ok x
    | none => .ok x

/-- `Cls(**{name: v}, length=len)` — `_initialise` (bits.py:137): `bytes=` is special-cased (length counts bits and
    truncates by design; the harness passes `8·len`), everything else is `Dtype(k, length).set_fn(self, v)` followed
    by the comparison of the resulting length with the dtype's. -/
def viaKeyword (q : Req) (len : Option Nat) : Except Err Bits :=
  match q with
  | .bytes d => setBytesWithTruncation d (len.map (· * 8))
  | _ =>
    match getDtype q.kind len with
    | .error e => .error e
    | .ok d => initWith d q

/-- `Cls(**{name ++ str(len): v})`: `Dtype('uint8')` → the same `set_fn` and the same check;
    `bytes2=` is not the special `bytes` keyword. Without a length this is the plain keyword call. -/
def viaNameLen (q : Req) (len : Option Nat) : Except Err Bits :=
  match len with
  | none => viaKeyword q none
  | some _ =>
    match getDtype q.kind len with
    | .error e => .error e
    | .ok d => initWith d q

/-- `a.<name> = v` on a mutable object that currently holds `cur` bits: the class property calls the definition's
    raw `set_fn(a, v)`. -/
def viaProp (q : Req) (cur : Nat) : Except Err Bits := rawSet q false none (some cur)

/-- `a.<name><len> = v` — `BitArray.__setattr__` (bitarray_.py:131): `set_fn` on a fresh object, then
    `len(x) != dtype.bitlength` → CreationError. -/
def viaPropLen (q : Req) (len : Option Nat) (cur : Nat) : Except Err Bits :=
  match len with
  | none => viaProp q cur
  | some _ =>
    match getDtype q.kind len with
    | .error e => .error e
    | .ok d =>
      match dtSet d q none with
      | .error e => .error e
      | .ok x => if some x.length ≠ d.bitlength then .error .value else .ok x

/-- `Dtype.build` (dtypes.py:174): `set_fn` on an empty `Bits()`, then the length check. -/
def dtBuild (d : Dt) (q : Req) : Except Err Bits :=
  match dtSet d q (some 0) with
  | .error e => .error e
  | .ok b =>
    match d.bitlength with
    | some n => if b.length ≠ n then .error .value else .ok b
    | none => .ok b

def viaBuild (q : Req) (len : Option Nat) : Except Err Bits :=
  match getDtype q.kind len with
  | .error e => .error e
  | .ok d => dtBuild d q

/-- `bitstore_from_token(name, token_length, value)` (bitstore_helpers.py:261) for a non-literal token. -/
def bitstoreFromToken (q : Req) (len : Option Nat) : Except Err Bits :=
  match getDtype q.kind len with
  | .error e => .error e
  | .ok d =>
    match dtBuild d q with
    | .error e => .error e
    | .ok bs =>
      match len, d.bitlength with
      | some _, some n => if bs.length ≠ n then .error .value else .ok bs
      | some _, none => .error .value
      | none, _ => .ok bs

def stripSpace (s : List Char) : List Char := s.filter fun c => !isPySpace c

/-- What the value becomes when it is written into a token string `name:len=value` and parsed back
    (`preprocess_tokens` removes all whitespace; every value arrives as a `str`):
    integers and floats survive `int(str)` / `float(repr)`; a `bytes` value has no spelling (`bytes(str)` is a TypeError). -/
def tokenValue (q : Req) : Except Err Req :=
  match q with
  | .int k v => .ok (.int k v)
  | .flt k p => .ok (.flt k p)
  | .str k s => .ok (.str k (stripSpace s))
  | .bool (.py b) => .ok (.bool (.str (if b then "True".toList else "False".toList)))
  | .bool (.int i) => .ok (.bool (.str (toString i).toList))
  | .bool (.str s) => .ok (.bool (.str (stripSpace s)))
  | .bits b => .ok (.bits b)                           -- written as `0b…`
  | .bytes _ => .error .type
  | .pad => .ok .pad

/-- `Cls("name:len=value")`. -/
def viaToken (q : Req) (len : Option Nat) : Except Err Bits :=
  match tokenValue q with
  | .error e => .error e
  | .ok q' => bitstoreFromToken q' len

/-- `pack("name:len", v)` (methods.py:12): `bits` has its own branch (`Bits(value)`, length compared), everything
    else is `bitstore_from_token` with the value object itself. -/
def viaPack (q : Req) (len : Option Nat) : Except Err Bits :=
  match q with
  | .bits b =>
    match len with
    | some l => if l ≠ b.length then .error .value else .ok b
    | none => .ok b
  | _ => bitstoreFromToken q len

/-- The bit length the request asks for (`len` items). -/
def bitLen (q : Req) (len : Option Nat) : Option Nat := len.map (· * q.kind.multiplier)

/-- All seven creation routes. Property assignment is made on an object that already holds `bitLen` zero bits
    (an empty one when no length is given). -/
def route (r : Route) (q : Req) (len : Option Nat) : Except Err Bits :=
  match r with
  | .kw => viaKeyword q len
  | .nameLen => viaNameLen q len
  | .prop => viaProp q ((bitLen q len).getD 0)
  | .propLen => viaPropLen q len ((bitLen q len).getD 0)
  | .token => viaToken q len
  | .build => viaBuild q len
  | .pack => viaPack q len

/-! ## Creation (SPEC) -/

/-- The canonical text of a digit string: what remains after tidying and dropping the prefix. -/
def StrKind.canon : StrKind → List Char → List Char
  | .hex, s => removeAll2 '0' 'x' (tidy s)
  | .oct, s => removeAll2 '0' 'o' (tidy s)
  | .bin, s => removeAll2 '0' 'b' (tidy s)

def StrKind.width : StrKind → Nat
  | .hex => 4 | .oct => 3 | .bin => 1

def StrKind.val? : StrKind → Char → Option Nat
  | .hex => hexVal? | .oct => octVal? | .bin => binVal?

def fltFmt (len : Nat) : Ieee.Fmt := if len = 16 then Ieee.f16 else if len = 32 then Ieee.f32 else Ieee.f64

/-- SPEC: the canonical encoding of a valid request on `n` bits (`n` = requested bit length, or the value's own
    length where none is requested): MSB-first two's complement, byte-reversed for little-endian, IEEE 754 by
    round-to-nearest-even, one digit per 4/3/1 bits, the bytes / bits themselves, zeros for padding. -/
def encode (q : Req) (n : Nat) : Bits :=
  match q with
  | .int .uint v | .int .uintbe v => natToBits n v.toNat
  | .int .int v | .int .intbe v => intToBits n v
  | .int .uintle v => bytesRev (natToBits n v.toNat)
  | .int .intle v => bytesRev (intToBits n v)
  | .str k s => ((k.canon s).filterMap k.val?).flatMap (natToBits k.width)
  | .flt .floatbe p => packFloat (fltFmt n) p
  | .flt .floatle p => bytesRev (packFloat (fltFmt n) p)
  | .flt .bfloatbe p => (packFloat Ieee.f32 p).take 16
  | .flt .bfloatle p => bytesRev ((packFloat Ieee.f32 p).take 16)
  | .bool (.py b) => [b]
  | .bool (.int i) => [decide (i = 1)]
  | .bool (.str s) => [decide (s = "True".toList ∨ s = "1".toList)]
  | .bytes d => fromBytes d
  | .bits b => b
  | .pad => List.replicate n false

/-- The number of bits the value itself occupies, for the dtypes where it has one. -/
def naturalLen (q : Req) : Option Nat :=
  match q with
  | .str k s => some ((k.canon s).length * k.width)
  | .bool _ => some 1
  | .bytes d => some (d.length * 8)
  | .bits b => some b.length
  | .flt .bfloatbe _ | .flt .bfloatle _ => some 16
  | .pad => some 0
  | _ => none

/-- The value is one `_setbool` accepts. -/
def BoolArg.valid : BoolArg → Bool
  | .py _ => true
  | .int i => i = 0 ∨ i = 1
  | .str s => s = "True".toList ∨ s = "1".toList ∨ s = "False".toList ∨ s = "0".toList

/-- `Valid q len`: the length is one the dtype allows, and the value is in range for it. (Decidable.) -/
def Valid (q : Req) (len : Option Nat) : Bool :=
  match q, len with
  | .int k v, some n =>
    n ≠ 0 && k.kind.allowed.contains n &&
      (if k.signed then decide (-((2 : Int) ^ (n - 1)) ≤ v ∧ v < (2 : Int) ^ (n - 1)) else decide (0 ≤ v ∧ v < (2 : Int) ^ n))
  | .int _ _, none => false
  | .str k s, some n => (k.canon s).all (fun c => (k.val? c).isSome) && (k.canon s).length * k.width = n
  | .str k s, none => (k.canon s).all (fun c => (k.val? c).isSome)
  | .flt .floatbe _, some n | .flt .floatle _, some n => n = 16 || n = 32 || n = 64
  | .flt .floatbe _, none | .flt .floatle _, none => false
  | .flt .bfloatbe _, some n | .flt .bfloatle _, some n => n = 16
  | .flt .bfloatbe _, none | .flt .bfloatle _, none => true
  | .bool a, some n => a.valid && n = 1
  | .bool a, none => a.valid
  | .bytes d, some n => d.all (· < 256) && d.length = n
  | .bytes d, none => d.all (· < 256)
  | .bits b, some n => b.length = n
  | .bits _, none => true
  | .pad, _ => true

/-- The bit length of the result for a valid request. -/
def resultLen (q : Req) (len : Option Nat) : Nat :=
  match bitLen q len with
  | some n => n
  | none => (naturalLen q).getD 0

/-- Routes that exist for a request: a `bytes` value cannot be spelled in a token string; a plain property
    assignment of `pad` has no length to use (and `a.pad = None` is what "property with length" is without a length). -/
def applicable (r : Route) (q : Req) (len : Option Nat) : Bool :=
  match r, q, len with
  | .token, .bytes _, _ => false
  | .prop, .pad, _ => false
  | .propLen, .pad, none => false
  | _, _, _ => true

/-! ## Get functions (ALG) -/

inductive RVal where
  | int (i : Int)
  | str (s : List Char)
  | bytes (d : List Nat)
  | bool (b : Bool)
  | bits (b : Bits)
  | flt (p64 : Option Nat)     -- the Python float by its binary64 pattern; `none` = NaN (payload not observed)
  | none
  deriving DecidableEq, Repr

/-- The `Bits._get…` methods (bits.py:661-1033). -/
def getRaw (k : Kind) (b : Bits) : Except Err RVal :=
  match k with
  | .uint => if b.length = 0 then .error .value else .ok (.int (bitsToNat b))
  | .int => if b.length = 0 then .error .value else .ok (.int (bitsToInt b))
  | .uintbe => if b.length % 8 ≠ 0 then .error .value else if b.length = 0 then .error .value else .ok (.int (bitsToNat b))
  | .intbe => if b.length % 8 ≠ 0 then .error .value else if b.length = 0 then .error .value else .ok (.int (bitsToInt b))
  | .uintle =>                                -- `ba2int` of an empty bitarray raises ValueError
    if b.length % 8 ≠ 0 then .error .value else if b.length = 0 then .error .value else .ok (.int (bitsToNat (bytesRev b)))
  | .intle =>
    if b.length % 8 ≠ 0 then .error .value else if b.length = 0 then .error .value else .ok (.int (bitsToInt (bytesRev b)))
  | .hex => match bitsToDigits 4 b with | .error e => .error e | .ok s => .ok (.str s)
  | .oct => match bitsToDigits 3 b with | .error e => .error e | .ok s => .ok (.str s)
  | .bin => match bitsToDigits 1 b with | .error e => .error e | .ok s => .ok (.str s)
  | .float =>                                 -- `{16: '>e', 32: '>f', 64: '>d'}[len(self)]`
    if b.length = 16 ∨ b.length = 32 ∨ b.length = 64 then .ok (.flt (unpackFloat (fltFmt b.length) b)) else .error (.internal "KeyError")
  | .floatle =>
    if b.length = 16 ∨ b.length = 32 ∨ b.length = 64 then .ok (.flt (unpackFloat (fltFmt b.length) (bytesRev b))) else .error (.internal "KeyError")
  | .bfloat =>                                -- `(self + Bits(16))._getfloatbe()`
    let z := b ++ List.replicate 16 false
    if z.length = 16 ∨ z.length = 32 ∨ z.length = 64 then .ok (.flt (unpackFloat (fltFmt z.length) z)) else .error (.internal "KeyError")
  | .bfloatle =>                              -- `(Bits(16) + self)._getfloatle()`
    let z := List.replicate 16 false ++ b
    if z.length = 16 ∨ z.length = 32 ∨ z.length = 64 then .ok (.flt (unpackFloat (fltFmt z.length) (bytesRev z))) else .error (.internal "KeyError")
  | .bits => .ok (.bits b)
  | .bool => match b with | [] => .error .index | x :: _ => .ok (.bool x)
  | .bytes => if b.length % 8 ≠ 0 then .error .value else .ok (.bytes (toBytes b))
  | .pad => .ok .none

/-- `DtypeDefinition.get_fn`: the allowed-length check wrapped around the getter when the definition lists lengths
    (dtypes.py:278-288). -/
def getFn (k : Kind) (b : Bits) : Except Err RVal :=
  if k.allowed ≠ .any ∧ !k.allowed.contains b.length then .error .value else getRaw k b

/-- `DtypeDefinition.read_fn` as bound by `Dtype._create` (dtypes.py:292-304, 156-159): both variants raise
    ReadError when fewer than `length` bits remain (the single-length one since 5b65b55). -/
def readFn (d : Dt) (b : Bits) (start : Nat) : Except Err RVal :=
  match d.kind.allowed.onlyOne with
  | some n => if b.length < start + n then .error .read else getFn d.kind ((b.drop start).take n)
  | none =>
    match d.bitlength with
    | none => .error .type                           -- `start + None`
    | some l => if b.length < start + l then .error .read else getFn d.kind ((b.drop start).take l)

/-! ## Reading routes (ALG) -/

inductive Reader where
  | prop | propLen | parse | unpack | read
  deriving DecidableEq, Repr

/-- `s.<name><len>` — `Bits.__getattr__` (bits.py:173): unknown dtype/length → AttributeError; a length that differs
    from the bitstring's → ValueError. Without digits it is the class property. -/
def viaGetPropLen (k : Kind) (len : Option Nat) (b : Bits) : Except Err RVal :=
  match len with
  | none => getFn k b
  | some _ =>
    match getDtype k len with
    | .error e => .error e
    | .ok d =>
      match d.bitlength with
      | some n => if b.length ≠ n then .error .value else getFn k b
      | none => getFn k b

/-- `Dtype(name, len).parse(s)` (dtypes.py:185): no comparison of lengths at all. -/
def viaParse (k : Kind) (len : Option Nat) (b : Bits) : Except Err RVal :=
  match getDtype k len with
  | .error e => .error e
  | .ok _ => getFn k b

/-- A dtype without a length takes all the bits from `pos` on (`read`, bitstream.py:310-320; `_read_dtype_list`,
    bits.py:1243-1255). -/
def resolveStretchy (d : Dt) (avail : Nat) : Except Err Dt :=
  match d.bitlength with
  | some _ => .ok d
  | none =>
    if avail % d.kind.multiplier ≠ 0 then .error .value
    else getDtype d.kind (some (avail / d.kind.multiplier))

/-- `s.unpack("name:len")` (bits.py:1188-1261) with a single token: the one value, from position 0. -/
def viaUnpack (k : Kind) (len : Option Nat) (b : Bits) : Except Err RVal :=
  match getDtype k len with
  | .error e => .error e
  | .ok d =>
    match resolveStretchy d b.length with
    | .error e => .error e
    | .ok d' => readFn d' b 0

/-- `s.read("name:len")` at position `pos` (bitstream.py:265-323): the value and the new position. -/
def streamRead (k : Kind) (len : Option Nat) (b : Bits) (pos : Nat) : Except Err (RVal × Nat) :=
  match getDtype k len with
  | .error e => .error e
  | .ok d =>
    match resolveStretchy d (b.length - pos) with
    | .error e => .error e
    | .ok d' =>
      match readFn d' b pos with
      | .error e => .error e
      | .ok v =>
        let p := pos + (d'.bitlength.getD 0)
        if p > b.length then .error .read else .ok (v, p)

def reader (r : Reader) (k : Kind) (len : Option Nat) (b : Bits) : Except Err RVal :=
  match r with
  | .prop => getFn k b
  | .propLen => viaGetPropLen k len b
  | .parse => viaParse k len b
  | .unpack => viaUnpack k len b
  | .read => match streamRead k len b 0 with | .error e => .error e | .ok (v, _) => .ok v

/-! ## Reading (SPEC) -/

/-- The lengths at which a pattern can be interpreted as `k` at all. -/
def ValidLen (k : Kind) (n : Nat) : Bool :=
  match k with
  | .uint | .int => n ≠ 0
  | .uintbe | .intbe | .uintle | .intle => n ≠ 0 && n % 8 = 0
  | .hex => n % 4 = 0
  | .oct => n % 3 = 0
  | .float | .floatle => n = 16 || n = 32 || n = 64
  | .bfloat | .bfloatle => n = 16
  | .bool => n = 1
  | .bytes => n % 8 = 0
  | .bin | .bits | .pad => true

/-- SPEC: the value a pattern of a valid length denotes. -/
def decodeSpec (k : Kind) (b : Bits) : RVal :=
  match k with
  | .uint | .uintbe => .int (bitsToNat b)
  | .int | .intbe => .int (bitsToInt b)
  | .uintle => .int (leValue (toBytes b))
  | .intle => .int (bitsToInt (bytesRev b))
  | .hex => .str ((groupsOf 4 (b.length / 4) b).map fun g => digitChar (bitsToNat g))
  | .oct => .str ((groupsOf 3 (b.length / 3) b).map fun g => digitChar (bitsToNat g))
  | .bin => .str (b.map fun x => if x then '1' else '0')
  | .float => .flt (unpackFloat (fltFmt b.length) b)
  | .floatle => .flt (unpackFloat (fltFmt b.length) (bytesRev b))
  | .bfloat => .flt (unpackFloat Ieee.f32 (b ++ List.replicate 16 false))
  | .bfloatle => .flt (unpackFloat Ieee.f32 (bytesRev b ++ List.replicate 16 false))
  | .bits => .bits b
  | .bool => .bool (b.head?.getD false)
  | .bytes => .bytes (toBytes b)
  | .pad => .none

/-- The length (in items) that names a pattern of `n` bits for dtype `k`. -/
def itemsOf (k : Kind) (n : Nat) : Nat := n / k.multiplier

/-- The request that rebuilds a pattern from the value read from it (`none` for a NaN and for `pad`). -/
def reqOfValue (k : Kind) (v : RVal) : Option Req :=
  match k, v with
  | .uint, .int i => some (.int .uint i) | .int, .int i => some (.int .int i)
  | .uintbe, .int i => some (.int .uintbe i) | .intbe, .int i => some (.int .intbe i)
  | .uintle, .int i => some (.int .uintle i) | .intle, .int i => some (.int .intle i)
  | .hex, .str s => some (.str .hex s) | .oct, .str s => some (.str .oct s) | .bin, .str s => some (.str .bin s)
  | .float, .flt (some p) => some (.flt .floatbe p) | .floatle, .flt (some p) => some (.flt .floatle p)
  | .bfloat, .flt (some p) => some (.flt .bfloatbe p) | .bfloatle, .flt (some p) => some (.flt .bfloatle p)
  | .bits, .bits b => some (.bits b)
  | .bool, .bool x => some (.bool (.py x))
  | .bytes, .bytes d => some (.bytes d)
  | _, _ => none

/-- SPEC: what reading back the encoding of a request must give — the value in canonical form
    (digit strings tidied and prefix-free; a float rounded to the format). -/
def valueOf (q : Req) (n : Nat) : RVal :=
  match q with
  | .int _ v => .int v
  | .str k s => .str (k.canon s)
  | .flt .floatbe p | .flt .floatle p => .flt (unpackFloat (fltFmt n) (packFloat (fltFmt n) p))
  | .flt .bfloatbe p | .flt .bfloatle p => .flt (unpackFloat Ieee.f32 ((packFloat Ieee.f32 p).take 16 ++ List.replicate 16 false))
  | .bool (.py b) => .bool b
  | .bool (.int i) => .bool (decide (i = 1))
  | .bool (.str s) => .bool (decide (s = "True".toList ∨ s = "1".toList))
  | .bytes d => .bytes d
  | .bits b => .bits b
  | .pad => .none

/-! ## Driver -/

def hexDigitsOfNat (width n : Nat) : String :=
  String.ofList ((List.range width).reverse.map fun i => digitChar (n / 16 ^ i % 16))

def natOfHex? (s : String) : Option Nat :=
  s.toList.foldlM (fun acc c => (hexVal? c).map (acc * 16 + ·)) 0

/-- Wire strings: printable ASCII except `%`; everything else as `%XX`. -/
def escapeStr (s : List Char) : String :=
  String.ofList (s.flatMap fun c =>
    if 33 ≤ c.toNat ∧ c.toNat ≤ 126 ∧ c ≠ '%' then [c]
    else ['%', digitChar (c.toNat / 16 % 16), digitChar (c.toNat % 16)])

def unescapeAux : List Char → Option (List Char)
  | [] => some []
  | '%' :: a :: b :: t =>
    match hexVal? a, hexVal? b, unescapeAux t with
    | some x, some y, some r => some (Char.ofNat (x * 16 + y) :: r)
    | _, _, _ => none
  | '%' :: _ => none
  | c :: t => (unescapeAux t).map (c :: ·)

def bytesOfHex? : List Char → Option (List Nat)
  | [] => some []
  | a :: b :: t =>
    match hexVal? a, hexVal? b, bytesOfHex? t with
    | some x, some y, some r => some ((x * 16 + y) :: r)
    | _, _, _ => none
  | [_] => none

def optNatOfStr? (s : String) : Option (Option Nat) :=
  if s = "None" then some none else s.toNat?.map some

def byteOrderOfStr? : String → Option ByteOrder
  | "little" => some .little | "big" => some .big | _ => none

/-- Parse the value field of an `enc` line for the dtype family `k`. -/
def reqOfWire (k : Kind) (v : String) : Option Req :=
  let intReq (ik : IntKind) : Option Req := v.toInt?.map (Req.int ik)
  let strReq (sk : StrKind) : Option Req :=
    match v.toList with
    | 's' :: t => (unescapeAux t).map (Req.str sk)
    | _ => none
  let fltReq (fk : FltKind) : Option Req := if v.length = 16 then (natOfHex? v).map (Req.flt fk) else none
  match k with
  | .uint => intReq .uint | .int => intReq .int | .uintbe => intReq .uintbe | .intbe => intReq .intbe
  | .uintle => intReq .uintle | .intle => intReq .intle
  | .hex => strReq .hex | .oct => strReq .oct | .bin => strReq .bin
  | .float => fltReq .floatbe | .floatle => fltReq .floatle | .bfloat => fltReq .bfloatbe | .bfloatle => fltReq .bfloatle
  | .bool =>
    match v.toList with
    | ['T'] => some (.bool (.py true))
    | ['F'] => some (.bool (.py false))
    | 'i' :: t => (String.ofList t).toInt?.map fun i => .bool (.int i)
    | 's' :: t => (unescapeAux t).map fun s => .bool (.str s)
    | _ => none
  | .bytes =>
    match v.toList with
    | 'x' :: t => (bytesOfHex? t).map Req.bytes
    | _ => none
  | .bits => (bitsOfStr? v).map Req.bits
  | .pad => if v = "None" then some .pad else none

/-- For a float request: (big-endian?, bfloat?) — used to print NaN results as `nan`. -/
def fltInfo : Req → Option (Bool × Bool)
  | .flt .floatbe _ => some (true, false)
  | .flt .floatle _ => some (false, false)
  | .flt .bfloatbe _ => some (true, true)
  | .flt .bfloatle _ => some (false, true)
  | _ => none

/-- One route's result as a token: `E` error, `nan` a NaN pattern of a float width, else the bits. -/
def resToken (q : Req) (r : Except Err Bits) : String :=
  match r with
  | .error _ => "E"
  | .ok b =>
    match fltInfo q with
    | none => bitsToWire b
    | some (big, isBf) =>
      let be := if big then b else bytesRev b
      let widthOk : Bool := if isBf then b.length = 16 else (b.length = 16 || b.length = 32 || b.length = 64)
      let f := if isBf then Ieee.bf16 else fltFmt b.length
      if widthOk && Ieee.isNaN f (bitsToNat be) then "nan" else bitsToWire b

def rvalToken : RVal → String
  | .int i => toString i
  | .str s => "s" ++ escapeStr s
  | .bytes d => "x" ++ String.join (d.map fun x => hexDigitsOfNat 2 x)
  | .bool b => if b then "True" else "False"
  | .bits b => bitsToWire b
  | .flt (some p) => hexDigitsOfNat 16 p
  | .flt Option.none => "nan"
  | .none => "None"

def readToken (r : Except Err RVal) : String :=
  match r with
  | .error _ => "E"
  | .ok v => rvalToken v

/-- First token in full, later ones `=` when they repeat the first. -/
def compress (l : List String) : String :=
  match l with
  | [] => ""
  | a :: t => " ".intercalate (a :: t.map fun x => if x = a then "=" else x)

def allowedToStr : Allowed → String
  | .any => "()"
  | .step a b => s!"({a},{b},...)"
  | .oneOf l => "(" ++ ",".intercalate (l.map toString) ++ ")"

def allRoutes : List Route := [.kw, .nameLen, .prop, .propLen, .token, .build, .pack]
def allReaders : List Reader := [.prop, .propLen, .parse, .unpack, .read]

def handle (args : List String) : String :=
  match args with
  | "enc" :: bo :: name :: len :: v :: _ =>
    match byteOrderOfStr? bo, optNatOfStr? len with
    | some o, some l =>
      match kindOfName o name with
      | none => "bad-op"
      | some k =>
        match reqOfWire k v with
        | none => "bad-op"
        | some q =>
          compress (allRoutes.map fun r =>
            if (r = .nameLen ∨ r = .propLen) ∧ l = none then "~"
            else if r = .token ∧ k = .bytes then "~"
            else resToken q (route r q l))
    | _, _ => "bad-op"
  | "dec" :: bo :: name :: len :: bits :: _ =>
    match byteOrderOfStr? bo, optNatOfStr? len, bitsOfStr? bits with
    | some o, some l, some b =>
      match kindOfName o name with
      | none => "bad-op"
      | some k =>
        compress (allReaders.map fun r =>
          if r = .propLen ∧ l = none then "~" else readToken (reader r k l b))
    | _, _, _ => "bad-op"
  | "readat" :: bo :: name :: len :: bits :: pos :: _ =>
    match byteOrderOfStr? bo, optNatOfStr? len, bitsOfStr? bits, pos.toNat? with
    | some o, some l, some b, some p =>
      match kindOfName o name with
      | none => "bad-op"
      | some k =>
        if p > b.length then "bad-op" else
        match streamRead k l b p with
        | .error _ => "err"
        | .ok (v, np) => s!"ok {rvalToken v} {np}"
    | _, _, _, _ => "bad-op"
  | "table" :: bo :: name :: _ =>
    match byteOrderOfStr? bo with
    | none => "bad-op"
    | some o =>
      match kindOfName o name with
      | none => "unknown"
      | some k => s!"ok {k.name} {k.multiplier} {allowedToStr k.allowed} {k.setNeedsLength}"
  | _ => "bad-op"

end BM.C02
