/-
  Model/C11.lean — 8-bit (p3binary8, p4binary8), micro-scaling (e5m2/e4m3/e3m2/e2m3/e2m1 mxfp, e8m0mxfp, mxint8)
  and bfloat codecs, and the Dtype scale.  Three files:

    Model/C11_Spec.lean   SPEC of the seven table-driven formats (import-free): `FVal`, `ieeeVal`, `Fmt`, `decodeSpec`,
                          `IsNearestEven`, `EncodeSpec`, the checker `encChk` / `encChunkOkT`;
    Model/C11_Float.lean  the float runtime (IEEE-754 meaning of struct.pack/unpack and float64 arithmetic — trusted, not
                          verified) and the table-free codecs e8m0mxfp, mxint8, bfloat (ALG + SPEC);
    Model/C11.lean        this file: ALG on the *generated* tables, the Dtype scale, the line protocol.

  ALG layer here (the code that exists)
    * `floatToInt` = `Binary8Format.float_to_int8` (fp8.py:37-47) = `MXFPFormat.float_to_int` (mxfp.py:77-88):
      `struct.pack('>e', f)`, index the *generated* table `Gen.enc…`, the OverflowError clamp branch (clamp values
      are the generated `Gen.clamp…`, i.e. the live `pos_clamp_value/neg_clamp_value`);
    * `encode` = `p4binary2bitstore … mxint2bitstore, e8m0mxfp2bitstore, bfloat2bitstore` (bitstore_helpers.py:109-209);
    * `decode` = `Bits._getp4binary … _getmxint, _gete8m0mxfp, _getbfloatbe/le` (bits.py:730-807) on `Gen.dec…`;
    * `scaledDecode/scaledEncode` = `scaled_get_fn/scaled_set_fn` (dtypes.py:12-21), zero scale → ValueError (dtypes.py:123-128).
-/
import BitstringModel.Model.Basic
import BitstringModel.Model.C11_Spec
import BitstringModel.Model.C11_Float
import BitstringModel.Gen.Luts
namespace BM.C11


/-! ## hexadecimal on the wire (floats travel as IEEE bit patterns only) -/

def hexDigit? (c : Char) : Option Nat :=
  if '0' ≤ c ∧ c ≤ '9' then some (c.toNat - 48)
  else if 'a' ≤ c ∧ c ≤ 'f' then some (c.toNat - 87) else none

def hexToNat? (s : String) : Option Nat :=
  if s.isEmpty then none else s.toList.foldlM (fun acc c => (hexDigit? c).map (16 * acc + ·)) 0

def hexDigitChar (d : Nat) : Char := if d < 10 then Char.ofNat (48 + d) else Char.ofNat (87 + d)

/-- `digits` lower-case hex digits of `n` (fixed width). -/
def toHexList : Nat → Nat → List Char → List Char
  | 0, _, acc => acc
  | d + 1, n, acc => toHexList d (n / 16) (hexDigitChar (n % 16) :: acc)

def toHex (digits n : Nat) : String := String.ofList (toHexList digits n [])

/-! ## GEN: the live tables -/

/-- The nine format objects of fp8.py:91-92 and mxfp.py:190-196. -/
inductive Tbl where
  | p3 | p4 | e5m2s | e5m2o | e4m3s | e4m3o | e3m2 | e2m3 | e2m1
  deriving DecidableEq, Repr, Inhabited

def Tbl.fmt : Tbl → Fmt
  | .p3 => .p3 | .p4 => .p4 | .e5m2s => .e5m2 | .e5m2o => .e5m2 | .e4m3s => .e4m3 | .e4m3o => .e4m3
  | .e3m2 => .e3m2 | .e2m3 => .e2m3 | .e2m1 => .e2m1

def Tbl.mode : Tbl → Mode
  | .e5m2o => .overflow | .e4m3o => .overflow | _ => .saturate

def Tbl.enc : Tbl → Array Nat
  | .p3 => Gen.encP3 | .p4 => Gen.encP4 | .e5m2s => Gen.encE5M2S | .e5m2o => Gen.encE5M2O
  | .e4m3s => Gen.encE4M3S | .e4m3o => Gen.encE4M3O | .e3m2 => Gen.encE3M2 | .e2m3 => Gen.encE2M3 | .e2m1 => Gen.encE2M1

/-- `(number of entries, entries packed 64 bits each, entry `u` in bits `64u … 64u+63`)`. -/
def Tbl.dec : Tbl → Nat × Nat
  | .p3 => Gen.decP3 | .p4 => Gen.decP4 | .e5m2s => Gen.decE5M2S | .e5m2o => Gen.decE5M2O
  | .e4m3s => Gen.decE4M3S | .e4m3o => Gen.decE4M3O | .e3m2 => Gen.decE3M2 | .e2m3 => Gen.decE2M3 | .e2m1 => Gen.decE2M1

/-- `lut[u]` on a decode table (a tuple of floats); `none` = IndexError. -/
def decLookup (t : Nat × Nat) (u : Nat) : Option Nat :=
  if u < t.1 then some (t.2 / 2 ^ (64 * u) % 2 ^ 64) else none

/-- `(pos_clamp_value, neg_clamp_value)` of the live object. -/
def Tbl.clamp : Tbl → Nat × Nat
  | .p3 => Gen.clampP3 | .p4 => Gen.clampP4 | .e5m2s => Gen.clampE5M2S | .e5m2o => Gen.clampE5M2O
  | .e4m3s => Gen.clampE4M3S | .e4m3o => Gen.clampE4M3O | .e3m2 => Gen.clampE3M2 | .e2m3 => Gen.clampE2M3 | .e2m1 => Gen.clampE2M1

/-- Block / chunk checkers of `Model/C11_Spec.lean` on the live table of `t`. -/
def encBlockOk (t : Tbl) (b : Nat) : Bool := encBlockOkT t.enc t.fmt t.mode b
def encChunkOk (t : Tbl) (k : Nat) : Bool := encChunkOkT t.enc t.fmt t.mode k

/-! ## ALG: encoders -/

/-- `Binary8Format.float_to_int8` (fp8.py:37-47) / `MXFPFormat.float_to_int` (mxfp.py:77-88). -/
def floatToInt (t : Tbl) (f : Nat) : Except Err Nat :=
  match packIEEE 5 10 f with
  | none => .ok (if f64Gt f 0 then t.clamp.1 else t.clamp.2)      -- `except OverflowError: … if f > 0 else …`
  | some h =>
    match encLookup t.enc h with
    | some c => .ok c
    | none => .error .index

/-- `int2bitstore(u, n, False)` (bitstore_helpers.py:212-227): CreationError when `u` needs more than `n` bits. -/
def uintBits (n u : Nat) : Except Err Nat := if u < 2 ^ n then .ok u else .error .value

inductive Name where
  | p3binary | p4binary | e5m2mxfp | e4m3mxfp | e3m2mxfp | e2m3mxfp | e2m1mxfp | e8m0mxfp | mxint | bfloat | bfloatle
  deriving DecidableEq, Repr, Inhabited

def Name.ofStr? : String → Option Name
  | "p3binary" => some .p3binary | "p4binary" => some .p4binary | "e5m2mxfp" => some .e5m2mxfp
  | "e4m3mxfp" => some .e4m3mxfp | "e3m2mxfp" => some .e3m2mxfp | "e2m3mxfp" => some .e2m3mxfp
  | "e2m1mxfp" => some .e2m1mxfp | "e8m0mxfp" => some .e8m0mxfp | "mxint" => some .mxint
  | "bfloat" => some .bfloat | "bfloatle" => some .bfloatle | _ => none

def Name.bits : Name → Nat
  | .e3m2mxfp => 6 | .e2m3mxfp => 6 | .e2m1mxfp => 4 | .bfloat => 16 | .bfloatle => 16 | _ => 8

/-- `p4binary2bitstore … mxint2bitstore`, `e8m0mxfp2bitstore`, `bfloat2bitstore`: float64 → code. -/
def encode (n : Name) (mode : Mode) (f : Nat) : Except Err Nat :=
  match n with
  | .p3binary => floatToInt .p3 f >>= uintBits 8
  | .p4binary => floatToInt .p4 f >>= uintBits 8
  | .e4m3mxfp => floatToInt (if mode = .saturate then .e4m3s else .e4m3o) f >>= uintBits 8
  | .e5m2mxfp => floatToInt (if mode = .saturate then .e5m2s else .e5m2o) f >>= uintBits 8
  | .e3m2mxfp => if isNaN64 f then .error .value else floatToInt .e3m2 f >>= uintBits 6
  | .e2m3mxfp => if isNaN64 f then .error .value else floatToInt .e2m3 f >>= uintBits 6
  | .e2m1mxfp => if isNaN64 f then .error .value else floatToInt .e2m1 f >>= uintBits 4
  | .e8m0mxfp => e8m0Enc f
  | .mxint => mxintEnc f
  | .bfloat => .ok (bfloatEnc true f)
  | .bfloatle => .ok (bfloatEnc false f)

/-! ## ALG: decoders (bits.py:772-808, 833-849); every getter of a two-mode format reads the *saturate* object's table -/

def tblDec (t : Tbl) (u : Nat) : Except Err Nat :=
  match decLookup t.dec u with
  | some v => .ok v
  | none => .error .index

def decode (n : Name) (code : Nat) : Except Err Nat :=
  match n with
  | .p3binary => tblDec .p3 code
  | .p4binary => tblDec .p4 code
  | .e4m3mxfp => tblDec .e4m3s code
  | .e5m2mxfp => tblDec .e5m2s code
  | .e3m2mxfp => tblDec .e3m2 code
  | .e2m3mxfp => tblDec .e2m3 code
  | .e2m1mxfp => tblDec .e2m1 code
  | .e8m0mxfp => .ok (e8m0Dec code)
  | .mxint => .ok (mxintDec code)
  | .bfloat => .ok (bfloatDec true code)
  | .bfloatle => .ok (bfloatDec false code)

/-! ## ALG: Dtype scale (dtypes.py:12-31, 123-135) -/

inductive Scale where
  | int (i : Int)
  | flt (b : Nat)
  deriving Repr

/-- The float the scale becomes inside `value * scale` / `value / scale`. -/
def Scale.toF64 : Scale → Nat
  | .int i => f64OfInt i
  | .flt b => b

def Scale.isZero : Scale → Bool
  | .int i => i == 0
  | .flt b => f64Eq b 0

/-- `Dtype(name, scale=s).parse(code)`: `get_fn(bs) * scale`. -/
def scaledDecode (n : Name) (s : Scale) (code : Nat) : Except Err Nat :=
  if s.isZero then .error .value else
  (decode n code).map fun v => f64Mul v s.toF64

/-- `Dtype(name, scale=s).build(f)`: `set_fn(bs, value / scale)`. -/
def scaledEncode (n : Name) (mode : Mode) (s : Scale) (f : Nat) : Except Err Nat :=
  if s.isZero then .error .value else
  match f64Div f s.toF64 with
  | none => .error (.internal "ZeroDivisionError")
  | some q => encode n mode q

/-! ## line protocol -/

def Mode.ofStr? : String → Option Mode
  | "saturate" => some .saturate | "overflow" => some .overflow | _ => none

def Scale.ofStr? (s : String) : Option Scale :=
  match s.toList with
  | 'i' :: rest => (String.ofList rest).toInt?.map Scale.int
  | 'f' :: rest => (hexToNat? (String.ofList rest)).map Scale.flt
  | _ => none

/-- A float on the wire: 16 hex digits, every NaN as `nan`. -/
def fmtF64 (b : Nat) : String := if isNaN64 b then "nan" else toHex 16 b

def isNaNCode (n : Name) (c : Nat) : Bool :=
  match n with
  | .bfloat => c / 128 % 256 == 255 && c % 128 != 0
  | .bfloatle => let d := bswap16 c; d / 128 % 256 == 255 && d % 128 != 0
  | _ => false

/-- A code on the wire: hex digits (2 for ≤ 8 bits, 4 for bfloat); a bfloat NaN pattern as `nan`
    (which payload survives the float32 conversion is not part of the property). -/
def fmtCode (n : Name) (c : Nat) : String :=
  if isNaNCode n c then "nan" else toHex (if n.bits = 16 then 4 else 2) c

def itemEnc (n : Name) (r : Except Err Nat) : String :=
  match r with
  | .ok c => fmtCode n c
  | .error e => "!" ++ e.toStr

def itemDec (r : Except Err Nat) : String :=
  match r with
  | .ok v => fmtF64 v
  | .error e => "!" ++ e.toStr

def parseHexList (s : String) : Option (List Nat) := (s.splitOn ",").mapM hexToNat?

def handle (args : List String) : String :=
  match args with
  | ["enc", n, mode, f] =>
    match Name.ofStr? n, Mode.ofStr? mode, hexToNat? f with
    | some n, some mode, some f => resultToStr (fmtCode n) (encode n mode f)
    | _, _, _ => "bad-op"
  -- decoding does not look at `mxfp_overflow` (every getter reads the saturate object's table); the mode
  -- travels on the line because the implementation is run under it
  | ["dec", n, _mode, code] =>
    match Name.ofStr? n, hexToNat? code with
    | some n, some c => resultToStr fmtF64 (decode n c)
    | _, _ => "bad-op"
  | ["senc", n, mode, s, f] =>
    match Name.ofStr? n, Mode.ofStr? mode, Scale.ofStr? s, hexToNat? f with
    | some n, some mode, some s, some f => resultToStr (fmtCode n) (scaledEncode n mode s f)
    | _, _, _, _ => "bad-op"
  | ["sdec", n, _mode, s, code] =>
    match Name.ofStr? n, Scale.ofStr? s, hexToNat? code with
    | some n, some s, some c => resultToStr fmtF64 (scaledDecode n s c)
    | _, _, _ => "bad-op"
  -- half-precision inputs h (hex, comma separated): the float is the exact value of the binary16 pattern
  | ["ench", n, mode, hs] =>
    match Name.ofStr? n, Mode.ofStr? mode, parseHexList hs with
    | some n, some mode, some hs =>
      "ok " ++ ",".intercalate (hs.map fun h => itemEnc n (encode n mode (unpackIEEE 5 10 h)))
    | _, _, _ => "bad-op"
  -- a block of consecutive half-precision inputs
  | ["enchb", n, mode, start, count] =>
    match Name.ofStr? n, Mode.ofStr? mode, hexToNat? start, count.toNat? with
    | some n, some mode, some st, some cnt =>
      "ok " ++ ",".intercalate ((List.range cnt).map fun i => itemEnc n (encode n mode (unpackIEEE 5 10 (st + i))))
    | _, _, _, _ => "bad-op"
  -- a block of consecutive codes
  | ["decb", n, _mode, start, count] =>
    match Name.ofStr? n, hexToNat? start, count.toNat? with
    | some n, some st, some cnt =>
      "ok " ++ ",".intercalate ((List.range cnt).map fun i => itemDec (decode n (st + i)))
    | _, _, _ => "bad-op"
  -- decode every listed code, re-encode the value
  | ["reenc", n, mode, start, count] =>
    match Name.ofStr? n, Mode.ofStr? mode, hexToNat? start, count.toNat? with
    | some n, some mode, some st, some cnt =>
      "ok " ++ ",".intercalate ((List.range cnt).map fun i =>
        match decode n (st + i) with
        | .ok v => itemEnc n (encode n mode v)
        | .error e => "!" ++ e.toStr)
    | _, _, _, _ => "bad-op"
  -- a history: the same value encoded under a sequence of `mxfp_overflow` settings (`s` = saturate, `o` = overflow);
  -- every step must give the code for the setting current at that step, whatever was encoded before
  | ["modeseq", n, order, f] =>
    match Name.ofStr? n, order.toList.mapM (fun c => if c = 's' then some Mode.saturate else if c = 'o' then some Mode.overflow else none),
          hexToNat? f with
    | some n, some modes, some f => "ok " ++ ",".intercalate (modes.map fun mode => itemEnc n (encode n mode f))
    | _, _, _ => "bad-op"
  | _ => "bad-op"

end BM.C11
