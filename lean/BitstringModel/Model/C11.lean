/-
  Model/C11.lean — 8-bit (p3binary8, p4binary8), micro-scaling (e5m2/e4m3/e3m2/e2m3/e2m1 mxfp, e8m0mxfp, mxint8)
  and bfloat codecs, and the Dtype scale.

  SPEC layer (the table formats' part lives in Model/C11_Spec.lean, import-free, so that a table obligation depends only
  on the specification and on its own table)
    * `FVal` — exact values: NaN, ±inf, or (−1)^neg · m · 2^e in canonical form (m odd, or m = e = 0);
      `ieeeVal ebits mbits` — the IEEE-754 interchange-format meaning of a bit pattern (binary16/32/64);
    * `Fmt = (E, M, bias, lim, kind)`, `Fmt.mag` (|value|·2^24 of a magnitude code), `decodeSpec` (what every code of
      p3binary8 … e2m1mxfp means: sign, biased exponent, mantissa, subnormals, single/signed zero, inf, NaN);
    * `IsNearestEven`, `EncodeSpec` — declarative: the code of the representable value nearest to the half-precision
      input, ties to the even code, rounding "as if the first unavailable code (inf/NaN slot, or the code after the
      last one) were still a number; if that is selected, the format's overflow code"; NaN and ±inf as documented;
    * `encChk` — the Boolean checker of `EncodeSpec` that looks at the two value-neighbours only (soundness is
      proved in Proofs/C11.lean); `mxintCodeSpec`, `e8m0` and `bfloat` specifications.
  ALG layer (the code that exists)
    * `floatToInt` = `Binary8Format.float_to_int8` (fp8.py:37-47) = `MXFPFormat.float_to_int` (mxfp.py:77-88):
      `struct.pack('>e', f)`, index the *generated* table `Gen.enc…`, the OverflowError clamp branch (clamp values
      are the generated `Gen.clamp…`, i.e. the live `pos_clamp_value/neg_clamp_value`);
    * `encode` = `p4binary2bitstore … mxint2bitstore, e8m0mxfp2bitstore, bfloat2bitstore` (bitstore_helpers.py:111-209);
    * `decode` = `Bits._getp4binary … _getmxint, _gete8m0mxfp, _getbfloatbe/le` (bits.py:730-807) on `Gen.dec…`;
    * `scaledDecode/scaledEncode` = `scaled_get_fn/scaled_set_fn` (dtypes.py:12-21), zero scale → ValueError (dtypes.py:127-128);
    * the float runtime the code relies on — `struct.pack('>e'/'>f')`, `struct.unpack`, float64 `*`, `/`, `+`, `-`,
      comparisons, `int()`, `float(int)` — is modelled by its IEEE-754 meaning: exact result, then `roundBits`
      (round to nearest, ties to even).  That part is trusted (CPython/C runtime), not verified.
-/
import BitstringModel.Model.Basic
import BitstringModel.Model.C11_Spec
import BitstringModel.Gen.Luts
namespace BM.C11

deriving instance DecidableEq for Except

/-! ## hexadecimal on the wire (floats travel as IEEE bit patterns only) -/

def hexDigit? (c : Char) : Option Nat :=
  if '0' ≤ c ∧ c ≤ '9' then some (c.toNat - 48)
  else if 'a' ≤ c ∧ c ≤ 'f' then some (c.toNat - 87) else none

def hexToNat? (s : String) : Option Nat :=
  if s.isEmpty then none else s.toList.foldlM (fun acc c => (hexDigit? c).map (16 * acc + ·)) 0

def hexDigitChar (d : Nat) : Char := if d < 10 then Char.ofNat (48 + d) else Char.ofNat (87 + d)

/-- `digits` lower-case hex digits of `n` (fixed width). -/
def toHexList : Nat → Nat → List Char → List Char
  | 0, _, acc => acc
  | d + 1, n, acc => toHexList d (n / 16) (hexDigitChar (n % 16) :: acc)

def toHex (digits n : Nat) : String := String.ofList (toHexList digits n [])

/-! ## IEEE rounding of an exact value (round to nearest, ties to even) — the float runtime -/

/-- Binary search for the bit length: `log2b k n acc = acc + ⌊log₂ n⌋` for `0 < n < 2^(2^k)`. -/
def log2b : Nat → Nat → Nat → Nat
  | 0, _, acc => acc
  | k + 1, n, acc => if 2 ^ (2 ^ k) ≤ n then log2b k (n / 2 ^ (2 ^ k)) (acc + 2 ^ k) else log2b k n acc

/-- `⌊log₂ n⌋` (`= Nat.log2 n`; computed in 13 big-number steps below 2^8192, which covers every product,
    quotient and sum of two float64 values — `Nat.log2` itself is evaluated bit by bit by the Lean kernel). -/
def ilog2 (n : Nat) : Nat := if n < 2 ^ 8192 then log2b 13 n 0 else Nat.log2 n

/-- `⌊log₂ (num/den)⌋` for `num, den > 0`. -/
def ratLog2 (num den : Nat) : Int :=
  let e0 : Int := (ilog2 num : Int) - (ilog2 den : Int)
  let ge : Bool := if e0 ≥ 0 then decide (den * 2 ^ e0.toNat ≤ num) else decide (den ≤ num * 2 ^ (-e0).toNat)
  if ge then e0 else e0 - 1

/-- Round `num/den > 0` to nearest-even in the format; the result is the magnitude bit pattern (exponent and
    mantissa fields together); a result `≥ (2^ebits − 1)·2^mbits` means the rounded value is out of range. -/
def roundMag (ebits mbits num den : Nat) : Nat :=
  let bias : Int := 2 ^ (ebits - 1) - 1
  let emin : Int := 1 - bias
  let e := ratLog2 num den
  let ex := if e < emin then emin else e
  let sh : Int := (mbits : Int) - ex                 -- the quantum is 2^(ex − mbits)
  let n := if sh ≥ 0 then num * 2 ^ sh.toNat else num
  let d := if sh ≥ 0 then den else den * 2 ^ (-sh).toNat
  let q := n / d
  let r := n % d
  let q' := if 2 * r < d then q else if d < 2 * r then q + 1 else q + q % 2
  (ex - emin).toNat * 2 ^ mbits + q'

/-- Bit pattern of the correctly rounded `(−1)^neg · num/den`; the flag says the magnitude overflowed (→ ±inf). -/
def roundBits (ebits mbits : Nat) (neg : Bool) (num den : Nat) : Nat × Bool :=
  let sgn := if neg then 2 ^ (ebits + mbits) else 0
  if num = 0 then (sgn, false) else
  let mag := roundMag ebits mbits num den
  let infp := (2 ^ ebits - 1) * 2 ^ mbits
  if infp ≤ mag then (sgn + infp, true) else (sgn + mag, false)

/-- `(−1)^neg · m · 2^e` as a fraction. -/
def dyadicNum (m : Nat) (e : Int) : Nat := if e ≥ 0 then m * 2 ^ e.toNat else m
def dyadicDen (e : Int) : Nat := if e ≥ 0 then 1 else 2 ^ (-e).toNat

def f64NaN : Nat := 0x7ff8000000000000
def f64Inf (neg : Bool) : Nat := (if neg then 2 ^ 63 else 0) + 0x7ff0000000000000
def f64OfRat (neg : Bool) (num den : Nat) : Nat := (roundBits 11 52 neg num den).1
def f64OfDyadic (neg : Bool) (m : Nat) (e : Int) : Nat := f64OfRat neg (dyadicNum m e) (dyadicDen e)
/-- `float(i)` for a Python int (correctly rounded; no OverflowError below 2^1024). -/
def f64OfInt (i : Int) : Nat := f64OfRat (decide (i < 0)) i.natAbs 1

def isNaN64 (b : Nat) : Bool := f64Val b == .nan

/-- float64 `a * b`. -/
def f64Mul (a b : Nat) : Nat :=
  match f64Val a, f64Val b with
  | .nan, _ => f64NaN
  | _, .nan => f64NaN
  | .inf s, .inf t => f64Inf (s != t)
  | .inf s, .fin t n _ => if n = 0 then f64NaN else f64Inf (s != t)
  | .fin s m _, .inf t => if m = 0 then f64NaN else f64Inf (s != t)
  | .fin s m e, .fin t n k => f64OfDyadic (s != t) (m * n) (e + k)

/-- float64 `a / b`; `none` = ZeroDivisionError. -/
def f64Div (a b : Nat) : Option Nat :=
  match f64Val a, f64Val b with
  | .nan, .fin _ 0 _ => none
  | .nan, _ => some f64NaN
  | _, .nan => some f64NaN
  | .inf _, .inf _ => some f64NaN
  | .inf s, .fin t n _ => if n = 0 then none else some (f64Inf (s != t))
  | .fin s _ _, .inf t => some (if s != t then 2 ^ 63 else 0)
  | .fin s m e, .fin t n k =>
    if n = 0 then none else
    let d := e - k
    some (if d ≥ 0 then f64OfRat (s != t) (m * 2 ^ d.toNat) n else f64OfRat (s != t) m (n * 2 ^ (-d).toNat))

def sgnMant (neg : Bool) (m : Nat) : Int := if neg then -(m : Int) else (m : Int)

/-- float64 `a + b`. -/
def f64Add (a b : Nat) : Nat :=
  match f64Val a, f64Val b with
  | .nan, _ => f64NaN
  | _, .nan => f64NaN
  | .inf s, .inf t => if s = t then f64Inf s else f64NaN
  | .inf s, .fin _ _ _ => f64Inf s
  | .fin _ _ _, .inf t => f64Inf t
  | .fin s m e, .fin t n k =>
    let x := if e ≤ k then e else k
    let sum : Int := sgnMant s (m * 2 ^ (e - x).toNat) + sgnMant t (n * 2 ^ (k - x).toNat)
    if sum = 0 then (if s && t then 2 ^ 63 else 0)
    else f64OfDyadic (decide (sum < 0)) sum.natAbs x

/-- float64 `a - b`. -/
def f64Sub (a b : Nat) : Nat :=
  f64Add a (if b / 2 ^ 63 % 2 = 1 then b - 2 ^ 63 else b + 2 ^ 63)

/-- Order of two exact values (`none` when either is NaN): python `<`, `==`, `>` on floats. -/
def FVal.cmp : FVal → FVal → Option Ordering
  | .nan, _ => none
  | _, .nan => none
  | .inf s, .inf t => some (if s = t then .eq else if s then .lt else .gt)
  | .inf s, .fin _ _ _ => some (if s then .lt else .gt)
  | .fin _ _ _, .inf t => some (if t then .gt else .lt)
  | .fin s m e, .fin t n k =>
    let x := if e ≤ k then e else k
    let a := sgnMant s (m * 2 ^ (e - x).toNat)
    let b := sgnMant t (n * 2 ^ (k - x).toNat)
    some (if a < b then .lt else if a = b then .eq else .gt)

def f64Gt (a b : Nat) : Bool := (f64Val a).cmp (f64Val b) == some .gt
def f64Ge (a b : Nat) : Bool := let c := (f64Val a).cmp (f64Val b); c == some .gt || c == some .eq
def f64Le (a b : Nat) : Bool := let c := (f64Val a).cmp (f64Val b); c == some .lt || c == some .eq
def f64Eq (a b : Nat) : Bool := (f64Val a).cmp (f64Val b) == some .eq

/-- `int(f)` for a finite float: truncation toward zero. -/
def f64Trunc (a : Nat) : Int :=
  match f64Val a with
  | .fin s m e => sgnMant s (if e ≥ 0 then m * 2 ^ e.toNat else m / 2 ^ (-e).toNat)
  | _ => 0

/-- `struct.pack('>e' | '>f', f)` (CPython `PyFloat_Pack2/4`): the binary16/binary32 pattern of the float64 `f`,
    `none` = OverflowError (a finite value that rounds out of range).  NaN keeps its sign and becomes a quiet NaN
    (the payload is not part of any observation). -/
def packIEEE (ebits mbits f : Nat) : Option Nat :=
  match f64Val f with
  | .nan => some ((if f / 2 ^ 63 % 2 = 1 then 2 ^ (ebits + mbits) else 0) + (2 ^ ebits - 1) * 2 ^ mbits + 2 ^ (mbits - 1))
  | .inf s => some ((if s then 2 ^ (ebits + mbits) else 0) + (2 ^ ebits - 1) * 2 ^ mbits)
  | .fin s m e =>
    let r := roundBits ebits mbits s (dyadicNum m e) (dyadicDen e)
    if r.2 then none else some r.1

/-- SPEC: IEEE-754 conversion of a float64 to the narrower format (out of range → ±inf). -/
def ieeeNarrow (ebits mbits f : Nat) : Nat :=
  match f64Val f with
  | .nan => (if f / 2 ^ 63 % 2 = 1 then 2 ^ (ebits + mbits) else 0) + (2 ^ ebits - 1) * 2 ^ mbits + 2 ^ (mbits - 1)
  | .inf s => (if s then 2 ^ (ebits + mbits) else 0) + (2 ^ ebits - 1) * 2 ^ mbits
  | .fin s m e => (roundBits ebits mbits s (dyadicNum m e) (dyadicDen e)).1

/-- `struct.unpack('>e' | '>f', …)`: the float64 holding exactly the value of the narrower pattern. -/
def unpackIEEE (ebits mbits b : Nat) : Nat :=
  match ieeeVal ebits mbits b with
  | .nan => f64NaN
  | .inf s => f64Inf s
  | .fin s m e => f64OfDyadic s m e

/-! ## GEN: the live tables -/

/-- The nine format objects of fp8.py:115-116 and mxfp.py:189-195. -/
inductive Tbl where
  | p3 | p4 | e5m2s | e5m2o | e4m3s | e4m3o | e3m2 | e2m3 | e2m1
  deriving DecidableEq, Repr, Inhabited

def Tbl.fmt : Tbl → Fmt
  | .p3 => .p3 | .p4 => .p4 | .e5m2s => .e5m2 | .e5m2o => .e5m2 | .e4m3s => .e4m3 | .e4m3o => .e4m3
  | .e3m2 => .e3m2 | .e2m3 => .e2m3 | .e2m1 => .e2m1

def Tbl.mode : Tbl → Mode
  | .e5m2o => .overflow | .e4m3o => .overflow | _ => .saturate

def Tbl.enc : Tbl → Array Nat
  | .p3 => Gen.encP3 | .p4 => Gen.encP4 | .e5m2s => Gen.encE5M2S | .e5m2o => Gen.encE5M2O
  | .e4m3s => Gen.encE4M3S | .e4m3o => Gen.encE4M3O | .e3m2 => Gen.encE3M2 | .e2m3 => Gen.encE2M3 | .e2m1 => Gen.encE2M1

/-- `(number of entries, entries packed 64 bits each, entry `u` in bits `64u … 64u+63`)`. -/
def Tbl.dec : Tbl → Nat × Nat
  | .p3 => Gen.decP3 | .p4 => Gen.decP4 | .e5m2s => Gen.decE5M2S | .e5m2o => Gen.decE5M2O
  | .e4m3s => Gen.decE4M3S | .e4m3o => Gen.decE4M3O | .e3m2 => Gen.decE3M2 | .e2m3 => Gen.decE2M3 | .e2m1 => Gen.decE2M1

/-- `lut[u]` on a decode table (a tuple of floats); `none` = IndexError. -/
def decLookup (t : Nat × Nat) (u : Nat) : Option Nat :=
  if u < t.1 then some (t.2 / 2 ^ (64 * u) % 2 ^ 64) else none

/-- `(pos_clamp_value, neg_clamp_value)` of the live object. -/
def Tbl.clamp : Tbl → Nat × Nat
  | .p3 => Gen.clampP3 | .p4 => Gen.clampP4 | .e5m2s => Gen.clampE5M2S | .e5m2o => Gen.clampE5M2O
  | .e4m3s => Gen.clampE4M3S | .e4m3o => Gen.clampE4M3O | .e3m2 => Gen.clampE3M2 | .e2m3 => Gen.clampE2M3 | .e2m1 => Gen.clampE2M1

/-- Block / chunk checkers of `Model/C11_Spec.lean` on the live table of `t`. -/
def encBlockOk (t : Tbl) (b : Nat) : Bool := encBlockOkT t.enc t.fmt t.mode b
def encChunkOk (t : Tbl) (k : Nat) : Bool := encChunkOkT t.enc t.fmt t.mode k

/-! ## ALG: encoders -/

/-- `Binary8Format.float_to_int8` (fp8.py:37-47) / `MXFPFormat.float_to_int` (mxfp.py:77-88). -/
def floatToInt (t : Tbl) (f : Nat) : Except Err Nat :=
  match packIEEE 5 10 f with
  | none => .ok (if f64Gt f 0 then t.clamp.1 else t.clamp.2)      -- `except OverflowError: … if f > 0 else …`
  | some h =>
    match encLookup t.enc h with
    | some c => .ok c
    | none => .error .index

/-- `int2bitstore(u, n, False)` (bitstore_helpers.py:211-226): CreationError when `u` needs more than `n` bits. -/
def uintBits (n u : Nat) : Except Err Nat := if u < 2 ^ n then .ok u else .error .value

inductive Name where
  | p3binary | p4binary | e5m2mxfp | e4m3mxfp | e3m2mxfp | e2m3mxfp | e2m1mxfp | e8m0mxfp | mxint | bfloat | bfloatle
  deriving DecidableEq, Repr, Inhabited

def Name.ofStr? : String → Option Name
  | "p3binary" => some .p3binary | "p4binary" => some .p4binary | "e5m2mxfp" => some .e5m2mxfp
  | "e4m3mxfp" => some .e4m3mxfp | "e3m2mxfp" => some .e3m2mxfp | "e2m3mxfp" => some .e2m3mxfp
  | "e2m1mxfp" => some .e2m1mxfp | "e8m0mxfp" => some .e8m0mxfp | "mxint" => some .mxint
  | "bfloat" => some .bfloat | "bfloatle" => some .bfloatle | _ => none

def Name.bits : Name → Nat
  | .e3m2mxfp => 6 | .e2m3mxfp => 6 | .e2m1mxfp => 4 | .bfloat => 16 | .bfloatle => 16 | _ => 8

/-- `2.0 ** k` for `-1022 ≤ k ≤ 1023`. -/
def pow2F64 (k : Int) : Nat := (k + 1023).toNat * 2 ^ 52

/-- `e8m0mxfp2bitstore` (bitstore_helpers.py:178-188): NaN → 0xff, else the index of `f` in
    `[float(2 ** x) for x in range(-127, 128)]`, else ValueError.  `list.index` compares with `==`; every list
    element is a non-zero finite float and `f` is not NaN here, so `==` holds exactly when the patterns are equal. -/
def e8m0Enc (f : Nat) : Except Err Nat :=
  if isNaN64 f then .ok 255 else
  match (List.range 255).find? (fun (i : Nat) => pow2F64 ((i : Int) - 127) == f) with
  | some i => .ok i
  | none => .error .value

/-- `mxint2bitstore` (bitstore_helpers.py:191-209), statement by statement. -/
def mxintEnc (f : Nat) : Except Err Nat :=
  if isNaN64 f then .error .value else
  let f := f64Mul f (f64OfInt 64)                       -- f *= 2 ** 6
  if f64Gt f (f64OfInt 127) then .ok 0x7f else          -- if f > 127: '01111111'
  if f64Le f (f64OfInt (-128)) then .ok 0x80 else       -- if f <= -128: '10000000'
  let half := pow2F64 (-1)
  let i : Int :=
    if f64Ge f 0 then                                    -- if f >= 0.0:
      let g := f64Add f half                             --   f += 0.5
      let i := f64Trunc g                                --   i = int(f)
      if f64Eq (f64Sub g (f64OfInt i)) 0 && i % 2 != 0 then i - 1 else i    -- if f - i == 0.0 and i % 2: i -= 1
    else
      let g := f64Sub f half                             --   f -= 0.5
      let i := f64Trunc g
      if f64Eq (f64Sub g (f64OfInt i)) 0 && i % 2 != 0 then i + 1 else i
  -- int2bitstore(i, 8, True)
  if -128 ≤ i ∧ i ≤ 127 then .ok (i % 256).toNat else .error .value

def bswap16 (c : Nat) : Nat := c % 256 * 256 + c / 256 % 256

/-- `bfloat2bitstore` (bitstore_helpers.py:111-119): pack as float32 (OverflowError → ±inf), keep the two most
    significant bytes (`b[0:2]` of `'>f'`, `b[2:4]` of `'<f'`). -/
def bfloatEnc (bigEndian : Bool) (f : Nat) : Nat :=
  let b32 := match packIEEE 8 23 f with
    | some b => b
    | none => if f64Gt f 0 then 0x7f800000 else 0xff800000
  let top := b32 / 65536
  if bigEndian then top else bswap16 top

/-- `p4binary2bitstore … mxint2bitstore`, `e8m0mxfp2bitstore`, `bfloat2bitstore`: float64 → code. -/
def encode (n : Name) (mode : Mode) (f : Nat) : Except Err Nat :=
  match n with
  | .p3binary => floatToInt .p3 f >>= uintBits 8
  | .p4binary => floatToInt .p4 f >>= uintBits 8
  | .e4m3mxfp => floatToInt (if mode = .saturate then .e4m3s else .e4m3o) f >>= uintBits 8
  | .e5m2mxfp => floatToInt (if mode = .saturate then .e5m2s else .e5m2o) f >>= uintBits 8
  | .e3m2mxfp => if isNaN64 f then .error .value else floatToInt .e3m2 f >>= uintBits 6
  | .e2m3mxfp => if isNaN64 f then .error .value else floatToInt .e2m3 f >>= uintBits 6
  | .e2m1mxfp => if isNaN64 f then .error .value else floatToInt .e2m1 f >>= uintBits 4
  | .e8m0mxfp => e8m0Enc f
  | .mxint => mxintEnc f
  | .bfloat => .ok (bfloatEnc true f)
  | .bfloatle => .ok (bfloatEnc false f)

/-! ## ALG: decoders (bits.py:730-807); every getter of a two-mode format reads the *saturate* object's table -/

def tblDec (t : Tbl) (u : Nat) : Except Err Nat :=
  match decLookup t.dec u with
  | some v => .ok v
  | none => .error .index

/-- Two's complement value of an 8-bit code (`_getint`). -/
def int8 (c : Nat) : Int := if c < 128 then (c : Int) else (c : Int) - 256

def decode (n : Name) (code : Nat) : Except Err Nat :=
  match n with
  | .p3binary => tblDec .p3 code
  | .p4binary => tblDec .p4 code
  | .e4m3mxfp => tblDec .e4m3s code
  | .e5m2mxfp => tblDec .e5m2s code
  | .e3m2mxfp => tblDec .e3m2 code
  | .e2m3mxfp => tblDec .e2m3 code
  | .e2m1mxfp => tblDec .e2m1 code
  | .e8m0mxfp => .ok (if code = 255 then f64NaN else pow2F64 ((code : Int) - 127))   -- u == 128 → nan; 2.0 ** u
  | .mxint => .ok (f64Mul (f64OfInt (int8 code)) (pow2F64 (-6)))                      -- float(u) * 2 ** -6
  | .bfloat => .ok (unpackIEEE 8 23 (code * 65536))                                   -- (self + Bits(16)).floatbe
  | .bfloatle => .ok (unpackIEEE 8 23 (bswap16 code * 65536))                         -- (Bits(16) + self).floatle

/-! ## ALG: Dtype scale (dtypes.py:12-31, 123-135) -/

inductive Scale where
  | int (i : Int)
  | flt (b : Nat)
  deriving Repr

/-- The float the scale becomes inside `value * scale` / `value / scale`. -/
def Scale.toF64 : Scale → Nat
  | .int i => f64OfInt i
  | .flt b => b

def Scale.isZero : Scale → Bool
  | .int i => i == 0
  | .flt b => f64Eq b 0

/-- `Dtype(name, scale=s).parse(code)`: `get_fn(bs) * scale`. -/
def scaledDecode (n : Name) (s : Scale) (code : Nat) : Except Err Nat :=
  if s.isZero then .error .value else
  (decode n code).map fun v => f64Mul v s.toF64

/-- `Dtype(name, scale=s).build(f)`: `set_fn(bs, value / scale)`. -/
def scaledEncode (n : Name) (mode : Mode) (s : Scale) (f : Nat) : Except Err Nat :=
  if s.isZero then .error .value else
  match f64Div f s.toF64 with
  | none => .error (.internal "ZeroDivisionError")
  | some q => encode n mode q

/-! ## SPEC: e8m0, mxint, bfloat -/

def e8m0Spec (c : Nat) : FVal := if c = 255 then .nan else .fin false 1 ((c : Int) - 127)

def mxintDecSpec (c : Nat) : FVal := FVal.mk (decide (128 ≤ c)) (int8 c).natAbs (-6)

/-- `i` is the integer nearest to `num/den`, ties to even. -/
def IsNearestEvenInt (num : Int) (den : Nat) (i : Int) : Prop :=
  2 * (i * den - num).natAbs ≤ den ∧ (2 * (i * den - num).natAbs = den → i % 2 = 0)

/-- Round-half-even of `num/den` (`den > 0`), executable. -/
def rneDiv (num : Int) (den : Nat) : Int :=
  let q := num / (den : Int)
  let r := num % (den : Int)
  if 2 * r < den then q else if (den : Int) < 2 * r then q + 1 else q + q % 2

/-- The mxint code the property demands for the exact value `(−1)^neg · m · 2^e`: nearest-even of `64·x`,
    saturating at 127 and −128. -/
def mxintCodeSpec (neg : Bool) (m : Nat) (e : Int) : Nat :=
  let num : Int := sgnMant neg (dyadicNum m (e + 6))
  let den : Nat := dyadicDen (e + 6)
  let i := rneDiv num den
  if 127 < i then 0x7f else if i < -128 then 0x80 else (i % 256).toNat

/-- Inputs on which `mxint2bitstore` is known to differ from `mxintCodeSpec`: `64·|f| = 0.5 + 2⁻⁵³`
    (`f += 0.5` rounds to 1.0, which the tie rule then takes for an exact tie). -/
def mxintDeviates (f : Nat) : Bool := f % 2 ^ 63 == 0x3f80000000000001

/-! ## line protocol -/

def Mode.ofStr? : String → Option Mode
  | "saturate" => some .saturate | "overflow" => some .overflow | _ => none

def Scale.ofStr? (s : String) : Option Scale :=
  match s.toList with
  | 'i' :: rest => (String.ofList rest).toInt?.map Scale.int
  | 'f' :: rest => (hexToNat? (String.ofList rest)).map Scale.flt
  | _ => none

/-- A float on the wire: 16 hex digits, every NaN as `nan`. -/
def fmtF64 (b : Nat) : String := if isNaN64 b then "nan" else toHex 16 b

def isNaNCode (n : Name) (c : Nat) : Bool :=
  match n with
  | .bfloat => c / 128 % 256 == 255 && c % 128 != 0
  | .bfloatle => let d := bswap16 c; d / 128 % 256 == 255 && d % 128 != 0
  | _ => false

/-- A code on the wire: hex digits (2 for ≤ 8 bits, 4 for bfloat); a bfloat NaN pattern as `nan`
    (which payload survives the float32 conversion is not part of the property). -/
def fmtCode (n : Name) (c : Nat) : String :=
  if isNaNCode n c then "nan" else toHex (if n.bits = 16 then 4 else 2) c

def itemEnc (n : Name) (r : Except Err Nat) : String :=
  match r with
  | .ok c => fmtCode n c
  | .error e => "!" ++ e.toStr

def itemDec (r : Except Err Nat) : String :=
  match r with
  | .ok v => fmtF64 v
  | .error e => "!" ++ e.toStr

def parseHexList (s : String) : Option (List Nat) := (s.splitOn ",").mapM hexToNat?

def handle (args : List String) : String :=
  match args with
  | ["enc", n, mode, f] =>
    match Name.ofStr? n, Mode.ofStr? mode, hexToNat? f with
    | some n, some mode, some f => resultToStr (fmtCode n) (encode n mode f)
    | _, _, _ => "bad-op"
  -- decoding does not look at `mxfp_overflow` (every getter reads the saturate object's table); the mode
  -- travels on the line because the implementation is run under it
  | ["dec", n, _mode, code] =>
    match Name.ofStr? n, hexToNat? code with
    | some n, some c => resultToStr fmtF64 (decode n c)
    | _, _ => "bad-op"
  | ["senc", n, mode, s, f] =>
    match Name.ofStr? n, Mode.ofStr? mode, Scale.ofStr? s, hexToNat? f with
    | some n, some mode, some s, some f => resultToStr (fmtCode n) (scaledEncode n mode s f)
    | _, _, _, _ => "bad-op"
  | ["sdec", n, _mode, s, code] =>
    match Name.ofStr? n, Scale.ofStr? s, hexToNat? code with
    | some n, some s, some c => resultToStr fmtF64 (scaledDecode n s c)
    | _, _, _ => "bad-op"
  -- half-precision inputs h (hex, comma separated): the float is the exact value of the binary16 pattern
  | ["ench", n, mode, hs] =>
    match Name.ofStr? n, Mode.ofStr? mode, parseHexList hs with
    | some n, some mode, some hs =>
      "ok " ++ ",".intercalate (hs.map fun h => itemEnc n (encode n mode (unpackIEEE 5 10 h)))
    | _, _, _ => "bad-op"
  -- a block of consecutive half-precision inputs
  | ["enchb", n, mode, start, count] =>
    match Name.ofStr? n, Mode.ofStr? mode, hexToNat? start, count.toNat? with
    | some n, some mode, some st, some cnt =>
      "ok " ++ ",".intercalate ((List.range cnt).map fun i => itemEnc n (encode n mode (unpackIEEE 5 10 (st + i))))
    | _, _, _, _ => "bad-op"
  -- a block of consecutive codes
  | ["decb", n, _mode, start, count] =>
    match Name.ofStr? n, hexToNat? start, count.toNat? with
    | some n, some st, some cnt =>
      "ok " ++ ",".intercalate ((List.range cnt).map fun i => itemDec (decode n (st + i)))
    | _, _, _ => "bad-op"
  -- decode every listed code, re-encode the value
  | ["reenc", n, mode, start, count] =>
    match Name.ofStr? n, Mode.ofStr? mode, hexToNat? start, count.toNat? with
    | some n, some mode, some st, some cnt =>
      "ok " ++ ",".intercalate ((List.range cnt).map fun i =>
        match decode n (st + i) with
        | .ok v => itemEnc n (encode n mode v)
        | .error e => "!" ++ e.toStr)
    | _, _, _, _ => "bad-op"
  | _ => "bad-op"

end BM.C11
