/-
  Model/C01.lean — the four classes as Python sequences of bits.

  SPEC: Python list semantics (`Py.getSlice`, `Py.getIndex` in Model/Basic.lean, `++`, `replicate`).
  ALG : `Bits.__getitem__`, `__iter__`, `__bool__`, `__add__`, `__radd__`, `__mul__`, `_imul`
        (bits.py:200-242, 361-383, 1122-1134) and the class of each result.
-/
import BitstringModel.Model.Basic
namespace BM.C01

/-- A bitstring object as far as C01 can see it: its class and its bits. -/
structure Obj where
  cls : Cls
  bits : Bits
  deriving Repr, DecidableEq

/-! ### indexing, slicing, iteration, truth value -/

/-- `s[i]` (msb0): `bool(bitarray[i])`. -/
def getItem (s : Obj) (i : Int) : Except Err Bool := Py.getIndex s.bits i

/-- `s[start:stop:step]`: `bitarray[key]` wrapped in a new object of `self.__class__`. -/
def getSliceObj (s : Obj) (start stop step : Option Int) : Except Err Obj :=
  match Py.getSlice s.bits start stop step with
  | .error e => .error e
  | .ok b => .ok ⟨s.cls, b⟩

/-- `BitStore.__iter__`: `for i in range(len(self)): yield self.getindex(i)`. -/
def iter (s : Obj) : List (Except Err Bool) :=
  (List.range s.bits.length).map fun (i : Nat) => getItem s (i : Int)

def truth (s : Obj) : Bool := s.bits.length != 0

/-! ### concatenation -/

/-- `cls._create_from_bitstype(x)`: `x` itself when `isinstance(x, cls)`, otherwise a new `cls` object. -/
def createFrom (cls : Cls) (x : Obj) : Obj :=
  if x.cls.isInstance cls then x else ⟨cls, x.bits⟩

/-- `Bits.__add__` (bits.py:200): copy the longer operand, add the other on the proper side.
    The copy is made in the class of the left operand. -/
def add (a b : Obj) : Obj :=
  let bs := createFrom a.cls b
  if bs.bits.length ≤ a.bits.length then
    ⟨a.cls, a.bits ++ bs.bits⟩                  -- s = self._copy(); s._addright(bs)
  else
    ⟨a.cls, a.bits ++ bs.bits⟩                  -- s = copy of bs in self.__class__; s._addleft(self)

/-- `Bits.__radd__` (bits.py:214): the left operand is not a bitstring; it is promoted to
    `self.__class__` and `__add__` is called on it. `x` carries the promoted bits. -/
def radd (self : Obj) (xbits : Bits) : Obj :=
  add ⟨self.cls, xbits⟩ self

/-! ### repetition -/

/-- The doubling loop of `_imul`: `while m * 2 < n: self._addright(self); m *= 2`. -/
def imulLoop : Nat → Bits → Nat → Nat → Bits × Nat
  | 0, cur, m, _ => (cur, m)
  | fuel + 1, cur, m, n => if m * 2 < n then imulLoop fuel (cur ++ cur) (m * 2) n else (cur, m)

/-- `_imul(n)` for `n ≥ 1`: doubling, then `self._addright(self[0:(n - m) * old_len])`. -/
def imul (l : Bits) (n : Nat) : Bits :=
  let (cur, m) := imulLoop n l 1 n
  cur ++ cur.take ((n - m) * l.length)

/-- `Bits.__mul__` / `__rmul__`. -/
def mul (s : Obj) (n : Int) : Except Err Obj :=
  if n < 0 then .error .value else
  if n = 0 then .ok ⟨s.cls, []⟩ else
  .ok ⟨s.cls, imul s.bits n.toNat⟩

/-! ### driver -/

def objToStr (o : Obj) : String := o.cls.toStr ++ " " ++ bitsToWire o.bits

def handle (args : List String) : String :=
  match args with
  | "slice" :: cls :: bits :: a :: b :: c :: _ =>
    match Cls.ofStr? cls, bitsOfStr? bits, optIntOfStr? a, optIntOfStr? b, optIntOfStr? c with
    | some k, some l, some s, some e, some st => resultToStr objToStr (getSliceObj ⟨k, l⟩ s e st)
    | _, _, _, _, _ => "bad-op"
  | "index" :: cls :: bits :: i :: _ =>
    match Cls.ofStr? cls, bitsOfStr? bits, i.toInt? with
    | some k, some l, some j => resultToStr (fun (b : Bool) => if b then "True" else "False") (getItem ⟨k, l⟩ j)
    | _, _, _ => "bad-op"
  | "seq" :: cls :: bits :: _ =>
    -- len, bool, iteration
    match Cls.ofStr? cls, bitsOfStr? bits with
    | some k, some l =>
      let it := (iter ⟨k, l⟩).map fun r => match r with
        | .ok true => "1" | .ok false => "0" | .error _ => "E"
      s!"ok {l.length} {if truth ⟨k, l⟩ then "True" else "False"} {if it.isEmpty then "-" else String.join it}"
    | _, _ => "bad-op"
  | "add" :: ca :: a :: cb :: b :: _ =>
    match Cls.ofStr? ca, bitsOfStr? a, Cls.ofStr? cb, bitsOfStr? b with
    | some k1, some x, some k2, some y => "ok " ++ objToStr (add ⟨k1, x⟩ ⟨k2, y⟩)
    | _, _, _, _ => "bad-op"
  | "addp" :: ca :: a :: _ :: b :: _ =>
    -- right operand is a promotable non-bitstring with bits b
    match Cls.ofStr? ca, bitsOfStr? a, bitsOfStr? b with
    | some k1, some x, some y => "ok " ++ objToStr (add ⟨k1, x⟩ ⟨k1, y⟩)
    | _, _, _ => "bad-op"
  | "radd" :: ca :: a :: _ :: b :: _ =>
    -- left operand is a promotable non-bitstring with bits b, right operand the bitstring
    match Cls.ofStr? ca, bitsOfStr? a, bitsOfStr? b with
    | some k1, some x, some y => "ok " ++ objToStr (radd ⟨k1, x⟩ y)
    | _, _, _ => "bad-op"
  | "mul" :: cls :: bits :: n :: _ =>
    match Cls.ofStr? cls, bitsOfStr? bits, n.toInt? with
    | some k, some l, some j => resultToStr objToStr (mul ⟨k, l⟩ j)
    | _, _, _ => "bad-op"
  | _ => "bad-op"

end BM.C01
