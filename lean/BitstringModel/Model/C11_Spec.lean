/-
  Model/C11_Spec.lean — SPEC layer of C11, import-free (no tables, no protocol), so that the kernel obligations over one
  generated table (Proofs/C11_Enc_<T>_<kk>.lean) depend only on this file and on that table.

    * `FVal` — exact values: NaN, ±inf, or (−1)^neg · m · 2^e in canonical form (m odd, or m = e = 0);
      `ieeeVal ebits mbits` — the IEEE-754 interchange-format meaning of a bit pattern (binary16/32/64);
    * `Fmt = (E, M, bias, lim, kind)`, `Fmt.mag` (|value|·2^24 of a magnitude code), `decodeSpec` (what every code of
      p3binary8 … e2m1mxfp means: sign, biased exponent, mantissa, subnormals, single/signed zero, inf, NaN);
    * `IsNearestEven`, `EncodeSpec` — declarative: the code of the representable value nearest to the half-precision
      input, ties to the even code, rounding "as if the first unavailable code (inf/NaN slot, or the code after the
      last one) were still a number; if that is selected, the format's overflow code"; NaN and ±inf as documented;
    * `localNE`, `encChk` — the Boolean checker of `EncodeSpec` that looks at the two value-neighbours only (soundness:
      `nearest_of_local`, `encChk_sound` in Proofs/C11.lean); `encChunkOkT` — the checker over 4096 table entries.
-/
namespace BM.C11

/-! ## SPEC: exact values -/

/-- An exact value: NaN, ±∞, or `(−1)^neg · m · 2^e`.  Canonical: `m` odd, or `m = 0 ∧ e = 0`
    (so a signed zero is `fin neg 0 0`) — values are compared with `=`. -/
inductive FVal where
  | nan
  | inf (neg : Bool)
  | fin (neg : Bool) (m : Nat) (e : Int)
  deriving DecidableEq, Repr, Inhabited

/-- Strip trailing zero bits of `m ≠ 0`: `m·2^e = m'·2^e'` with `m'` odd (fuel ≥ number of trailing zeros of `m`). -/
def stripZeros : Nat → Nat → Int → Nat × Int
  | 0, m, e => (m, e)
  | fuel + 1, m, e => if m % 2 = 0 then stripZeros fuel (m / 2) (e + 1) else (m, e)

/-- Binary search for trailing zeros: strips `2^(2^(k-1))`, …, `2^2`, `2^1` whenever it divides `m`
    (complete when `m ≠ 0` has fewer than `2^k` trailing zeros). -/
def stripZerosFast : Nat → Nat → Int → Nat × Int
  | 0, m, e => (m, e)
  | k + 1, m, e =>
    if m % 2 ^ (2 ^ k) = 0 then stripZerosFast k (m / 2 ^ (2 ^ k)) (e + (2 ^ k : Nat)) else stripZerosFast k m e

/-- The canonical form of `(−1)^neg · m · 2^e`: all trailing zero bits of `m` moved into the exponent
    (binary search first — the Lean kernel evaluates the one-bit loop slowly — then the loop, which finds nothing
    left unless `m` had 8192 or more trailing zeros). -/
def FVal.mk (neg : Bool) (m : Nat) (e : Int) : FVal :=
  if m = 0 then .fin neg 0 0
  else
    let q := stripZerosFast 13 m e
    let r := stripZeros q.1 q.1 q.2
    .fin neg r.1 r.2

/-- IEEE 754-2019 §3.4: the value of a binary interchange-format bit pattern with `ebits` exponent bits and
    `mbits` trailing-significand bits (binary16 = 5/10, binary32 = 8/23, binary64 = 11/52). -/
def ieeeVal (ebits mbits b : Nat) : FVal :=
  let s := decide (b / 2 ^ (ebits + mbits) % 2 = 1)
  let e := b / 2 ^ mbits % 2 ^ ebits
  let m := b % 2 ^ mbits
  let bias : Int := 2 ^ (ebits - 1) - 1
  if e = 2 ^ ebits - 1 then (if m = 0 then .inf s else .nan)
  else if e = 0 then FVal.mk s m (1 - bias - mbits)
  else FVal.mk s (2 ^ mbits + m) (e - bias - mbits)

def f64Val (b : Nat) : FVal := ieeeVal 11 52 b
def f32Val (b : Nat) : FVal := ieeeVal 8 23 b
def halfVal (b : Nat) : FVal := ieeeVal 5 10 b

/-! ## SPEC: the seven table-driven formats -/

inductive Mode where | saturate | overflow
  deriving DecidableEq, Repr, Inhabited

inductive Kind where
  | binary8   -- IEEE P3109 draft: single zero, NaN at 0x80, ±inf at 0x7f/0xff
  | e5m2      -- OCP: ±0, ±inf at 0x7c/0xfc, NaN at 0x7d..0x7f / 0xfd..0xff
  | e4m3      -- OCP: ±0, no inf, NaN at 0x7f/0xff
  | small     -- OCP 6- and 4-bit: ±0, no inf, no NaN
  deriving DecidableEq, Repr, Inhabited

/-- A sign-magnitude format: `E` exponent bits, `M` mantissa bits, exponent bias, `lim` = the first magnitude code
    that is not a finite number (the inf/NaN slot; for the small formats the code after the last one), kind of specials. -/
structure Fmt where
  E : Nat
  M : Nat
  bias : Nat
  lim : Nat
  kind : Kind
  deriving DecidableEq, Repr

def Fmt.p3 : Fmt := ⟨5, 2, 16, 0x7f, .binary8⟩
def Fmt.p4 : Fmt := ⟨4, 3, 8, 0x7f, .binary8⟩
def Fmt.e5m2 : Fmt := ⟨5, 2, 15, 0x7c, .e5m2⟩
def Fmt.e4m3 : Fmt := ⟨4, 3, 7, 0x7f, .e4m3⟩
def Fmt.e3m2 : Fmt := ⟨3, 2, 3, 32, .small⟩
def Fmt.e2m3 : Fmt := ⟨2, 3, 1, 32, .small⟩
def Fmt.e2m1 : Fmt := ⟨2, 1, 1, 8, .small⟩

def Fmt.width (f : Fmt) : Nat := 1 + f.E + f.M
def Fmt.signBit (f : Fmt) : Nat := 2 ^ (f.E + f.M)

/-- `|value| · 2^24` of the magnitude code `c` (exponent field `c / 2^M`, mantissa field `c % 2^M`):
    subnormal `m/2^M · 2^(1−bias)`, normal `(1 + m/2^M) · 2^(e−bias)`.  Defined for every `c` (also for `lim`:
    "as if it were still a number").  All seven formats have `bias + M ≤ 25`, so the exponents below do not truncate. -/
def Fmt.mag (f : Fmt) (c : Nat) : Nat :=
  let e := c / 2 ^ f.M
  let m := c % 2 ^ f.M
  if e = 0 then m * 2 ^ (25 - f.bias - f.M) else (2 ^ f.M + m) * 2 ^ (24 + e - f.bias - f.M)

/-- What the code `code` (sign bit, then `E` exponent bits, then `M` mantissa bits) means. -/
def decodeSpec (f : Fmt) (code : Nat) : FVal :=
  let s := decide (code / f.signBit % 2 = 1)
  let c := code % f.signBit
  match f.kind with
  | .binary8 => if code = 0x80 then .nan else if c = 0x7f then .inf s else FVal.mk s (f.mag c) (-24)
  | .e5m2 => if c = 0x7c then .inf s else if 0x7c < c then .nan else FVal.mk s (f.mag c) (-24)
  | .e4m3 => if c = 0x7f then .nan else FVal.mk s (f.mag c) (-24)
  | .small => FVal.mk s (f.mag c) (-24)

/-- A half-precision pattern: NaN, ±inf, or sign and `|value| · 2^24`. -/
inductive HalfClass where
  | nan
  | inf (neg : Bool)
  | fin (neg : Bool) (x : Nat)
  deriving DecidableEq, Repr

def halfClass (h : Nat) : HalfClass :=
  let s := decide (h / 32768 % 2 = 1)
  let e := h / 1024 % 32
  let m := h % 1024
  if e = 31 then (if m = 0 then .inf s else .nan)
  else if e = 0 then .fin s m
  else .fin s ((1024 + m) * 2 ^ (e - 1))

def HalfClass.toFVal : HalfClass → FVal
  | .nan => .nan
  | .inf s => .inf s
  | .fin s x => FVal.mk s x (-24)

def dist (a b : Nat) : Nat := if a ≤ b then b - a else a - b

/-- `c` is the magnitude code whose value is nearest to `x` (scaled by 2^24) on the grid of codes `0 … lim`
    (the first unavailable code taken as if it were still a number); on a tie the even code wins. -/
def IsNearestEven (f : Fmt) (x c : Nat) : Prop :=
  c ≤ f.lim ∧ ∀ c', c' ≤ f.lim → c' ≠ c →
    dist x (f.mag c) < dist x (f.mag c') ∨ (dist x (f.mag c) = dist x (f.mag c') ∧ c % 2 = 0)

def nanCode (f : Fmt) : Nat := match f.kind with | .binary8 => 0x80 | _ => 0xff

/-- The code for an out-of-range value (doc/exotic_floats.rst "Conversion"): binary8 → ±inf; e5m2 → ±max finite
    (saturate) or ±inf (overflow); e4m3 → ±max finite (saturate) or NaN (overflow); 6/4-bit → ±max. -/
def ovfCode (f : Fmt) (mode : Mode) (neg : Bool) : Nat :=
  let sb := if neg then f.signBit else 0
  match f.kind, mode with
  | .binary8, _ => sb + 0x7f
  | .e5m2, .saturate => sb + 0x7b
  | .e5m2, .overflow => sb + 0x7c
  | .e4m3, .saturate => sb + 0x7e
  | .e4m3, .overflow => 0xff
  | .small, _ => sb + (f.lim - 1)

/-- The full code for sign `neg` and selected magnitude code `c`: overflow code when the unavailable code is
    selected; binary8 has a single zero (−0 and negative values that round to zero give 0x00); otherwise sign + c. -/
def outCode (f : Fmt) (mode : Mode) (neg : Bool) (c : Nat) : Nat :=
  if c = f.lim then ovfCode f mode neg
  else if c = 0 ∧ f.kind = .binary8 then 0
  else (if neg then f.signBit else 0) + c

/-- What the float16→code table must hold at index `h`.  (For the 6/4-bit formats a NaN never reaches the table:
    `e3m2mxfp2bitstore` etc. raise ValueError first, so those entries are not constrained.) -/
def EncodeSpec (f : Fmt) (mode : Mode) (h code : Nat) : Prop :=
  match halfClass h with
  | .nan => f.kind = .small ∨ code = nanCode f
  | .inf s => code = ovfCode f mode s
  | .fin s x => ∃ c, IsNearestEven f x c ∧ code = outCode f mode s c

/-- Neighbour test: `x` is not nearer to `c−1` or `c+1` than to `c` (ties only if `c` is even). -/
def localNE (f : Fmt) (x c : Nat) : Bool :=
  (c == 0 ||
    (let s := f.mag (c - 1) + f.mag c
     decide (s < 2 * x) || (s == 2 * x && c % 2 == 0)))
  && (c == f.lim ||
    (let s := f.mag c + f.mag (c + 1)
     decide (2 * x < s) || (s == 2 * x && c % 2 == 0)))

/-- Boolean checker for `EncodeSpec` (sound by `encChk_sound` in Proofs/C11.lean). -/
def encChk (f : Fmt) (mode : Mode) (h code : Nat) : Bool :=
  match halfClass h with
  | .nan => f.kind == .small || code == nanCode f
  | .inf s => code == ovfCode f mode s
  | .fin s x =>
    let c2 := code - (if s then f.signBit else 0)
    (localNE f x f.lim && code == outCode f mode s f.lim)
    || (decide (c2 ≤ f.lim) && localNE f x c2 && code == outCode f mode s c2)

/-! ## table look-up and the chunk checker -/

/-- `lut[h]` on a `bytes` table stored as 256-entry blocks; `none` = IndexError. -/
def encLookup (t : Array Nat) (h : Nat) : Option Nat :=
  (t[h / 256]?).map fun blk => blk / 2 ^ (8 * (h % 256)) % 256

/-- `p i` for every `i < n`. -/
def allBelow : Nat → (Nat → Bool) → Bool
  | 0, _ => true
  | n + 1, p => p n && allBelow n p

/-- Block `b` (entries `256b … 256b+255`) of a float16→code table satisfies the checker. -/
def encBlockOkT (enc : Array Nat) (f : Fmt) (mode : Mode) (b : Nat) : Bool :=
  match enc[b]? with
  | some blk => allBelow 256 fun j => encChk f mode (256 * b + j) (blk / 2 ^ (8 * j) % 256)
  | none => false

/-- Sixteen blocks = 4096 entries: the unit of the kernel obligations in Proofs/C11_Enc_*.lean. -/
def encChunkOkT (enc : Array Nat) (f : Fmt) (mode : Mode) (k : Nat) : Bool :=
  allBelow 16 fun b => encBlockOkT enc f mode (16 * k + b)

end BM.C11
