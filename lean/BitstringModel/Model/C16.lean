/-
  Model/C16.lean — bit-wise operators and shifts.

  SPEC layer: per-bit boolean functions / drop-and-fill on `List Bool`.
  ALG layer: what `Bits.__and__ … __rshift__` and `BitArray.__ilshift__ …` do, step by step
  (bits.py:329-456, bitarray_.py `__ilshift__`, `__irshift__`, `__iand__` …).
-/
import BitstringModel.Model.Basic
namespace BM.C16

/-! ### SPEC -/

def zipOp (f : Bool → Bool → Bool) (a b : Bits) : Except Err Bits :=
  if a.length ≠ b.length then .error .value else .ok (List.zipWith f a b)

def band := zipOp (· && ·)
def bor  := zipOp (· || ·)
def bxor := zipOp (fun x y => x != y)

/-- `~s`: `bitstring.Error` on the empty bitstring. -/
def bnot (a : Bits) : Except Err Bits :=
  if a.length = 0 then .error .bitstring else .ok (a.map (!·))

def shlSpec (l : Bits) (n : Nat) : Bits := l.drop n ++ List.replicate (min n l.length) false
def shrSpec (l : Bits) (n : Nat) : Bits := List.replicate (min n l.length) false ++ l.take (l.length - n)

/-! ### ALG -/

/-- `Bits.__lshift__` (bits.py:329): checks, `n = min(n, len)`, `_absolute_slice(n, len)` then
    `_addright(Bits(n))`. -/
def shl (a : Bits) (n : Int) : Except Err Bits :=
  if n < 0 then .error .value else
  if a.length = 0 then .error .value else
  let k := min n.toNat a.length
  -- _absolute_slice(k, len): empty when k = len, else bits[k:len]
  let s := if k = a.length then [] else (a.drop k).take (a.length - k)
  .ok (s ++ List.replicate k false)

/-- `Bits.__rshift__` (bits.py:344): `n = 0 → copy`; `s = cls(length=min(n,len))`;
    `s._addright(self._absolute_slice(0, len - n))`. -/
def shr (a : Bits) (n : Int) : Except Err Bits :=
  if n < 0 then .error .value else
  if a.length = 0 then .error .value else
  if n = 0 then .ok a else
  let k := min n.toNat a.length
  let s := if a.length - k = 0 then [] else a.take (a.length - k)
  .ok (List.replicate k false ++ s)

/-- `BitArray.__ilshift__` → `_ilshift`: `_addright(Bits(n))` then `_truncateleft(n)`. -/
def ishl (a : Bits) (n : Int) : Except Err Bits :=
  if n < 0 then .error .value else
  if a.length = 0 then .error .value else
  if n = 0 then .ok a else
  let k := min n.toNat a.length
  let grown := a ++ List.replicate k false
  -- _truncateleft(k): k = len(grown) cannot happen (len(grown) = len + k > k); keeps grown[k:]
  .ok (grown.drop k)

/-- `BitArray.__irshift__` → `_irshift`: `_addleft(Bits(n))` then `_truncateright(n)`. -/
def ishr (a : Bits) (n : Int) : Except Err Bits :=
  if n < 0 then .error .value else
  if a.length = 0 then .error .value else
  if n = 0 then .ok a else
  let k := min n.toNat a.length
  let grown := List.replicate k false ++ a
  .ok (grown.take (grown.length - k))

/-- `Bits.__and__` / `__or__`: the `bs is self → self.copy()` shortcut, else the store operator. -/
def andAlg (a b : Bits) (sameObject : Bool) : Except Err Bits :=
  if sameObject then .ok a else band a b
def orAlg (a b : Bits) (sameObject : Bool) : Except Err Bits :=
  if sameObject then .ok a else bor a b

/-! ### driver -/

def handle (args : List String) : String :=
  match args with
  | op :: a :: b :: _ =>
    match bitsOfStr? a with
    | none => "bad-op"
    | some x =>
      let bin (f : Bits → Bits → Except Err Bits) : String :=
        match bitsOfStr? b with
        | some y => resultToStr bitsToWire (f x y)
        | none => "bad-op"
      let sh (f : Bits → Int → Except Err Bits) : String :=
        match b.toInt? with
        | some n => resultToStr bitsToWire (f x n)
        | none => "bad-op"
      match op with
      | "and" => bin band
      | "or" => bin bor
      | "xor" => bin bxor
      | "andself" => resultToStr bitsToWire (andAlg x x true)
      | "orself" => resultToStr bitsToWire (orAlg x x true)
      | "xorself" => resultToStr bitsToWire (bxor x x)
      | "not" => resultToStr bitsToWire (bnot x)
      | "shl" => sh shl
      | "shr" => sh shr
      | "ishl" => sh ishl
      | "ishr" => sh ishr
      | _ => "bad-op"
  | _ => "bad-op"

end BM.C16
